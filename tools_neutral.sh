#!/bin/bash
# usage: tools_neutral.sh <worktree-with-NEUTRAL-dir> <group-tag>
# Imports a sub-agent's behaviour-preserving patches into selftest/neutral/ (all properties are run against each) and runs them.
set -u
wt=$1; tag=$2
for f in $wt/NEUTRAL/n*.diff; do
  n=$(basename $f .diff)
  kind=$(jq -r --arg f "$n.diff" '.[] | select(.file==$f) | .kind' $wt/NEUTRAL/index.json 2>/dev/null | tr -c 'a-zA-Z0-9\n' '-' | tr 'A-Z' 'a-z' | cut -c1-40 | sed 's/-*$//')
  out=selftest/neutral/agent-$tag-$n-$kind.patch
  { echo "# property: all"; echo "# origin: independent sub-agent asked for behaviour-preserving refactorings (group $tag)"; jq -r --arg f "$n.diff" '.[] | select(.file==$f) | "# summary: " + (.summary|gsub("\n";" "))' $wt/NEUTRAL/index.json 2>/dev/null; cat $f | python3 -c "import sys,re; t=sys.stdin.read(); parts=re.split(r'(?m)^(?=diff --git )',t); sys.stdout.write(''.join(x for x in parts if not re.match(r'diff --git a/(_examples/|go\.(mod|sum) )',x)))"; } > $out
done
SELFTEST_JOBS=${SELFTEST_JOBS:-3} selftest/run.py agent-$tag- 2>&1 | tail -8
