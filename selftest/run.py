#!/usr/bin/env python3
"""Selftest of the checker (DESIGN.md §2.5): every patch under selftest/mutants must make the named
property's check exit 1 with a violation whose key contains the expected substring; every patch under
selftest/neutral must leave all listed properties silent.  Each variant is analysed in its own process
on its own scratch copy of /repo (VERIF_REPO), never in /repo itself.

Patch header lines (comments before the diff):
  # property: C03            (comma separated list allowed)
  # expect: <substring of the violated obligation key>      (mutants only)
  # tier: quick|thorough     (optional)
"""
import os, re, subprocess, sys, tempfile, shutil, json, concurrent.futures, time

VERIF = os.path.dirname(os.path.dirname(os.path.abspath(__file__)))
REPO = os.environ.get('VERIF_REPO', '/repo')
SCRATCH = os.environ.get('VERIF_SCRATCH', '/dev/shm')

def header(path):
    h = {}
    for line in open(path):
        m = re.match(r'#\s*(\w+):\s*(.*)', line)
        if m: h.setdefault(m.group(1), []).append(m.group(2).strip())
        elif not line.startswith('#'): break
    return h

import threading
_controls, _control_lock = {}, threading.Lock()

def control(props, tier):
    """The same command on the unchanged tree: a mutant only counts as detected when its check is silent there
    (a check that fails for a reason of its own would otherwise 'detect' every mutant)."""
    with _control_lock:
        k = (props, tier)
        if k not in _controls:
            d = tempfile.mkdtemp(prefix='gqlctl-', dir=SCRATCH)
            try:
                out = os.path.join(d, 'out'); os.makedirs(out)
                env = dict(os.environ, VERIF_REPO=REPO, VERIF_OUT=out, VERIF_DIR=VERIF)
                r = subprocess.run([os.environ.get('VERIF_BIN') or os.path.join(VERIF, 'bin', 'gqlcheck'), 'check', props, tier], capture_output=True, text=True, errors='replace', env=env, cwd=VERIF)
                viol = [l for l in (r.stdout + r.stderr).splitlines() if l.startswith(('VIOLATED', 'UNDECIDED', 'ANALYSIS-FAILURE'))]
                _controls[k] = '' if r.returncode == 0 else ('control failed: `check %s %s` alarms on the unchanged tree: %s' % (props, tier, ' || '.join(l[:200] for l in viol[:3])))
                print('CONTROL %s %s: %s' % (props, tier, 'silent' if r.returncode == 0 else 'ALARM'), flush=True)
            finally:
                shutil.rmtree(d, ignore_errors=True)
        return _controls[k]

def run_variant(path, kind):
    h = header(path)
    props = ','.join(h.get('property', ['all']))
    if kind == 'neutral' and os.environ.get('SELFTEST_PROPS'):
        props = os.environ['SELFTEST_PROPS']  # a quick regression of a few properties over the whole neutral corpus
    tier = h.get('tier', ['quick'])[0]
    if kind == 'mutants':
        c = control(props, tier)
        if c:
            return (path, False, c)
    d = tempfile.mkdtemp(prefix='gqlmut-', dir=SCRATCH)
    try:
        repo = os.path.join(d, 'repo'); out = os.path.join(d, 'out'); os.makedirs(out)
        subprocess.check_call(['rsync', '-a', '--exclude', '.git', '--exclude', '/_examples', REPO + '/', repo + '/'])
        p = subprocess.run(['patch', '-p1', '-s', '-d', repo, '-i', os.path.abspath(path)], capture_output=True, text=True)
        if p.returncode != 0:
            return (path, False, 'patch does not apply: ' + p.stdout + p.stderr)
        if kind == 'mutants' and 'nobuild' not in h:
            b = subprocess.run('go build ./... && go vet ./graphql/... >/dev/null 2>&1 || true', shell=True, cwd=repo, capture_output=True, text=True,
                               env=dict(os.environ, GOFLAGS='-mod=mod -trimpath', GOPROXY='off', GOWORK='off'))
            if b.returncode != 0:
                return (path, False, 'mutant does not compile: ' + b.stderr[-500:])
        env = dict(os.environ, VERIF_REPO=repo, VERIF_OUT=out, VERIF_DIR=VERIF)
        t0 = time.time()
        r = subprocess.run([os.environ.get('VERIF_BIN') or os.path.join(VERIF, 'bin', 'gqlcheck'), 'check', props, tier], capture_output=True, text=True, errors='replace', env=env, cwd=VERIF)
        dt = time.time() - t0
        outp = r.stdout + r.stderr
        if kind == 'mutants':
            exp = h.get('expect', [''])
            viol = [l for l in outp.splitlines() if l.startswith(('VIOLATED', 'UNDECIDED', 'ANALYSIS-FAILURE'))]
            ok = r.returncode == 1 and all(any(e in l for l in viol) for e in exp)
            if 'knownmiss' in h:
                # a slip the checks are known not to detect (kept so that the detection rate stays honest)
                if r.returncode == 0:
                    return (path, True, 'KNOWN MISS (%s)' % h['knownmiss'][0])
                return (path, True, 'known miss, but now detected: %d violation lines — drop the knownmiss header' % len(viol))
            msg = '%d violation lines in %.0fs' % (len(viol), dt) if ok else 'exit=%d expected key %r; got: %s' % (r.returncode, exp, ' || '.join(l[:200] for l in viol[:5]) or outp[-400:])
            return (path, ok, msg)
        else:
            ok = r.returncode == 0
            viol = [l for l in outp.splitlines() if l.startswith(('VIOLATED', 'UNDECIDED', 'ANALYSIS-FAILURE'))]
            return (path, ok, 'silent in %.0fs' % dt if ok else 'false alarm: ' + ' || '.join(l[:240] for l in viol[:5]) or outp[-400:])
    finally:
        shutil.rmtree(d, ignore_errors=True)

def main():
    if not os.environ.get('VERIF_BIN'):
        subprocess.check_call([os.path.join(VERIF, 'run.sh'), 'build'])
    sel = sys.argv[1:]
    jobs = []
    for kind in (os.environ.get('SELFTEST_KIND') or 'mutants,neutral').split(','):
        dd = os.path.join(VERIF, 'selftest', kind)
        for f in sorted(os.listdir(dd)):
            if f.endswith('.patch') and (not sel or any(s in f for s in sel)):
                jobs.append((os.path.join(dd, f), kind))
    bad = 0
    lines = []
    with concurrent.futures.ThreadPoolExecutor(max_workers=int(os.environ.get('SELFTEST_JOBS', '4'))) as ex:
        for path, ok, msg in ex.map(lambda j: run_variant(*j), jobs):
            rel = os.path.relpath(path, VERIF)
            line = '%s %s: %s' % ('PASS' if ok else 'FAIL', rel, msg)
            print(line, flush=True); lines.append(line)
            bad += (not ok)
    if not sel and not os.environ.get('SELFTEST_KIND') and not os.environ.get('SELFTEST_PROPS'):
        with open(os.path.join(VERIF, 'selftest', 'RESULTS.md'), 'w') as f:
            f.write('# Selftest results (mutants must fire, neutral edits must stay silent)\n\n')
            for l in lines: f.write('- ' + l + '\n')
    elif os.environ.get('SELFTEST_MERGE'):
        # a targeted re-run after a correction: replace the lines of the re-run variants in the last full result
        res = os.path.join(VERIF, 'selftest', 'RESULTS.md')
        new = {l.split(' ', 2)[1].rstrip(':'): l for l in lines}
        out = []
        for old in open(res).read().split('\n'):
            parts = old.split(' ', 3)
            key = parts[2].rstrip(':') if old.startswith('- ') and len(parts) > 2 else None
            if key in new:
                out.append('- ' + new.pop(key))
            else:
                out.append(old)
        while out and out[-1] == '':
            out.pop()
        for l in new.values():
            out.append('- ' + l)
        open(res, 'w').write('\n'.join(out) + '\n')
    miss = sum(1 for l in lines if 'KNOWN MISS' in l)
    print('%d variants, %d failed, %d known misses' % (len(jobs), bad, miss))
    sys.exit(1 if bad else 0)

main()
