#!/bin/bash
# usage: selftest/mk.sh <mutants|neutral> <name> <property> <expect-substring> <<< "python-sed-script"
# Edits a scratch copy of /repo with the given python snippet (variable `R` = repo root) and stores the diff.
set -e
kind=$1; name=$2; prop=$3; expect=$4
d=$(mktemp -d /dev/shm/mk-XXXX); trap "rm -rf $d" EXIT
rsync -a --exclude .git --exclude /_examples /repo/ $d/a/; cp -a $d/a $d/b
PRELUDE='import os,re
R=os.environ["R"]
def sub(f, old, new, count=1):
    p=os.path.join(R,f); s=open(p).read(); assert old in s, (f, old); s=s.replace(old,new,count); open(p,"w").write(s)
'
(cd $d/b && R=$d/b python3 -c "$PRELUDE$(cat)")
out=/verif/selftest/$kind/$name.patch
{ echo "# property: $prop"; [ -n "$expect" ] && echo "# expect: $expect"; (cd $d && diff -ruN a b | sed -e "s#^--- a/#--- a/#" ) || true; } > $out
grep -c '^@@' $out
