#!/bin/bash
# Environment + toolchain wrapper used by every MANIFEST command.
#   ./run.sh build                      build bin/gqlcheck (offline)
#   ./run.sh check <Cxx|all> <tier>     run one property's static check against /repo's working tree
#   ./run.sh replay <path>              re-run the check recorded in a replay file
set -u
cd "$(dirname "$0")"
export VERIF_DIR="$PWD"
export GOFLAGS=-mod=mod GOPROXY=off GOWORK=off
unset GOSUMDB 2>/dev/null   # GOSUMDB=off breaks the offline toolchain switch to the repo's go 1.23.8
export GONOSUMDB=github.com,gopkg.in,golang.org/x,google.golang.org GONOSUMCHECK=1 GONOSUMDB GOFLAGS
: "${GOTOOLCHAIN:=auto}"; export GOTOOLCHAIN
# probe: can the repository's toolchain be selected?  otherwise fall back to the newer local Go.
if ! (cd "${VERIF_REPO:-/repo}" && go version >/dev/null 2>&1); then
  export PATH=/opt/veriftools/go1.26.8/bin:$PATH GOTOOLCHAIN=local
fi
build() {
  mkdir -p bin
  go build -o bin/gqlcheck ./cmd/gqlcheck || { echo "build failed" >&2; exit 2; }
}
case "${1:-}" in
  build) build ;;
  check)
    shift
    # rebuild if sources are newer than the binary (cheap; keeps checks honest after edits to /verif)
    if [ ! -x bin/gqlcheck ] || [ -n "$(find cmd internal go.mod -newer bin/gqlcheck -print -quit 2>/dev/null)" ]; then build; fi
    exec bin/gqlcheck check "$@"
    ;;
  replay)
    shift
    p="${1:?path}"
    prop=$(jq -r .property "$p"); tier=$(jq -r .tier "$p")
    if [ ! -x bin/gqlcheck ]; then build; fi
    exec bin/gqlcheck check "$prop" "$tier"
    ;;
  *) echo "usage: $0 build|check|replay" >&2; exit 2 ;;
esac
