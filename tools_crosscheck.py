#!/usr/bin/env python3
"""For every selftest/mutants/small-*.patch, run ALL checks and print which property/rule fires (own property first)."""
import os,re,subprocess,sys,tempfile,shutil,concurrent.futures
V='/verif'
def one(path):
    h=open(path).read().split('\n',3)
    prop=re.match(r'#\s*property:\s*(\S+)',h[0]).group(1)
    d=tempfile.mkdtemp(prefix='gqlx-',dir='/dev/shm')
    try:
        repo=d+'/repo'; out=d+'/out'; os.makedirs(out)
        subprocess.check_call(['rsync','-a','--exclude','.git','--exclude','/_examples','/repo/',repo+'/'])
        if subprocess.run(['patch','-p1','-s','-d',repo,'-i',os.path.abspath(path)],capture_output=True).returncode!=0:
            return (path,prop,None)
        env=dict(os.environ,VERIF_REPO=repo,VERIF_OUT=out,VERIF_DIR=V)
        r=subprocess.run([V+'/bin/gqlcheck','check','all','quick'],capture_output=True,text=True,env=env,cwd=V)
        rules=set()
        for l in (r.stdout+r.stderr).splitlines():
            m=re.match(r'(VIOLATED|UNDECIDED) (C\d\d/[\w\-+]+)',l)
            if m: rules.add(m.group(2))
            m=re.match(r'ANALYSIS-FAILURE property=(C\d\d)',l)
            if m: rules.add(m.group(1)+'/ANALYSIS-FAILURE')
        return (path,prop,sorted(rules))
    finally:
        shutil.rmtree(d,ignore_errors=True)
files=[os.path.join(V,'selftest/mutants',f) for f in sorted(os.listdir(V+'/selftest/mutants')) if f.startswith('small') and (len(sys.argv)<2 or any(a in f for a in sys.argv[1:]))]
with concurrent.futures.ThreadPoolExecutor(max_workers=10) as ex:
    for path,prop,rules in ex.map(one,files):
        name=os.path.basename(path)[:-6]
        if rules is None: print('%-60s PATCH-FAILS'%name); continue
        own=[r for r in rules if r.startswith(prop+'/')]
        other=[r for r in rules if not r.startswith(prop+'/')]
        print('%-62s own=%s other=%s'%(name[:62], ','.join(own) or '-', ','.join(other) or '-'),flush=True)
