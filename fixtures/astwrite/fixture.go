// Package astwrite is a positive example for C07/ast-immutable: it writes into an AST node it
// received from elsewhere (a cached, shared document).  MUST be flagged on every run.
package astwrite

import "github.com/vektah/gqlparser/v2/ast"

func Bad(f *ast.Field) {
	f.Alias = "x"
}

// Good allocates its own node and must stay silent.
func Good(name string) *ast.Field {
	f := &ast.Field{}
	f.Name = name
	return f
}
