// Package uncheckedassert is a positive example for C10/unchecked-assert: three unguarded
// operations on client-supplied variables; each MUST be flagged.  The guarded twins must not.
package uncheckedassert

import "github.com/99designs/gqlgen/graphql"

func Bad(p *graphql.RawParams, i int, k string) any {
	var ptr any = p.Variables
	m := ptr.(map[string]any) // unchecked assertion
	l, ok := m[k].([]any)
	if !ok {
		return nil
	}
	p.Variables[k] = 1 // store into possibly nil map
	return l[i]        // unchecked index
}

func Good(p *graphql.RawParams, i int, k string) any {
	var ptr any = p.Variables
	m, ok := ptr.(map[string]any)
	if !ok {
		return nil
	}
	l, ok := m[k].([]any)
	if !ok || i < 0 || i >= len(l) {
		return nil
	}
	if p.Variables != nil {
		p.Variables[k] = 1
	}
	return l[i]
}
