// Package sharedstate holds positive examples for C07/no-shared-error-values and C07/no-mapcache-in-runtime: a package-level
// *gqlerror.Error (mutated by ErrorOnPath on first use) and a graphql.MapCache built outside a test.  MUST be flagged on every run.
package sharedstate

import (
	"github.com/vektah/gqlparser/v2/ast"
	"github.com/vektah/gqlparser/v2/gqlerror"

	"github.com/99designs/gqlgen/graphql"
)

var ErrShared = gqlerror.Errorf("shared")

func Cache() graphql.Cache[*ast.QueryDocument] {
	return graphql.MapCache[*ast.QueryDocument]{}
}
