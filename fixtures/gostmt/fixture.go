// Package gostmt is a positive example for C18/sequential: a go statement the scan must see.
package gostmt

func Spawn(f func()) { go f() }
