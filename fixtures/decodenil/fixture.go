// Package decodenil is a positive example for C10/decode-nil: JSON null decoded into the
// address of a pointer leaves the pointer nil; the use below is unguarded and MUST be flagged.
package decodenil

import (
	"encoding/json"
	"io"

	"github.com/99designs/gqlgen/graphql"
)

func Bad(r io.Reader) string {
	var params *graphql.RawParams
	if err := json.NewDecoder(r).Decode(&params); err != nil {
		return ""
	}
	return params.Query
}

// Good is the guarded twin and must stay silent.
func Good(r io.Reader) string {
	var params *graphql.RawParams
	if err := json.NewDecoder(r).Decode(&params); err != nil {
		return ""
	}
	if params == nil {
		return ""
	}
	return params.Query
}
