// Package globalrule is a positive example for C03/no-global-rule-mutation and
// C07/no-global-writes: a "request root" that rewrites process-global state.
// It is copied into the snapshot on every run and MUST be flagged.
package globalrule

import (
	"github.com/vektah/gqlparser/v2/validator"
)

var counter int

// Root plays the role of a request entry point.
func Root() {
	helper()
	counter++
}

func helper() {
	validator.RemoveRule("FieldsOnCorrectType")
}
