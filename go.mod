module verif

go 1.23.8

require (
	github.com/vektah/gqlparser/v2 v2.5.25
	golang.org/x/tools v0.29.0
	gopkg.in/yaml.v3 v3.0.1
)

require (
	github.com/agnivade/levenshtein v1.2.1 // indirect
	golang.org/x/mod v0.22.0 // indirect
	golang.org/x/sync v0.10.0 // indirect
)
