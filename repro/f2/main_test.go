package f2

import (
	"context"
	"net/http/httptest"
	"runtime"
	"strings"
	"testing"
	"time"

	"github.com/99designs/gqlgen/codegen/testserver/singlefile"
	"github.com/99designs/gqlgen/graphql/handler"
	"github.com/99designs/gqlgen/graphql/handler/transport"
)

// A transport that delivers a single payload (POST) must not leave the goroutines of deferred
// groups parked after the request has ended.
func TestDeferredGroupsDoNotLeakOverPOST(t *testing.T) {
	resolvers := &singlefile.Stub{}
	resolvers.QueryResolver.DeferMultiple = func(ctx context.Context) ([]*singlefile.DeferModel, error) {
		return []*singlefile.DeferModel{{ID: "1", Name: "a"}, {ID: "2", Name: "b"}, {ID: "3", Name: "c"}}, nil
	}
	resolvers.DeferModelResolver.Values = func(ctx context.Context, obj *singlefile.DeferModel) ([]string, error) {
		return []string{"x"}, nil
	}
	srv := handler.New(singlefile.NewExecutableSchema(singlefile.Config{Resolvers: resolvers}))
	srv.AddTransport(transport.POST{})
	before := runtime.NumGoroutine()
	for i := 0; i < 5; i++ {
		ctx, cancel := context.WithCancel(context.Background())
		w := httptest.NewRecorder()
		r := httptest.NewRequest("POST", "/", strings.NewReader(`{"query":"{ deferMultiple { id ... @defer { values } } }"}`)).WithContext(ctx)
		r.Header.Set("Content-Type", "application/json")
		srv.ServeHTTP(w, r)
		cancel() // what net/http does when the handler returns
		if !strings.Contains(w.Body.String(), `"hasNext":true`) {
			t.Fatalf("unexpected body %s", w.Body.String())
		}
	}
	time.Sleep(300 * time.Millisecond)
	after := runtime.NumGoroutine()
	if after > before+1 {
		buf := make([]byte, 1<<16)
		n := runtime.Stack(buf, true)
		t.Fatalf("goroutines before=%d after=%d: deferred groups are still parked (stack mentions processDeferredGroup %d times)", before, after, strings.Count(string(buf[:n]), "processDeferredGroup"))
	}
}
