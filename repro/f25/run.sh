#!/bin/bash
# F25: omit_root_models: true and a field whose type is a root type (type Mutation { refetch: Query }, the Relay
# pattern) makes the generator panic: bindField's deferred fallback cannot find a Go type for Query, leaves
# f.TypeReference nil and reports the error, buildField only logs that error and then calls f.TypeReference.IsPtr().
# usage: run.sh [repo-dir]   (default /repo; works on a scratch copy)
set -e
repo=${1:-/repo}
d=$(mktemp -d /dev/shm/f25-XXXX); trap "rm -rf $d" EXIT
rsync -a --exclude .git --exclude /_examples $repo/ $d/repo/
cd $d/repo; export GOFLAGS="-mod=mod -trimpath" GOPROXY=off GOWORK=off
go build -o $d/gen ./testdata/gqlgen.go
mkdir -p f25/graph; cd f25
cat > gqlgen.yml <<Y
schema:
  - graph/*.graphqls
exec:
  filename: graph/generated.go
  package: graph
model:
  filename: graph/model/models_gen.go
  package: model
resolver:
  layout: follow-schema
  dir: graph
  package: graph
omit_root_models: true
Y
cat > graph/schema.graphqls <<'S'
type Query { hello: String! }
type Mutation { touch: String refetch: Query }
S
$d/gen -config gqlgen.yml > $d/out.txt 2>&1 || true
if grep -q "^panic:" $d/out.txt; then echo "GENERATOR PANICS:"; grep -m1 -A4 "^panic:" $d/out.txt; exit 1; fi
echo "no panic; generator says:"; tail -2 $d/out.txt
