package f21

import (
	"bytes"
	"encoding/json"
	"math"
	"testing"

	"github.com/99designs/gqlgen/graphql"
)

// Omittable's MarshalGQL falls back to encoding/json for values that are not graphql Marshalers and dropped the encoder's
// error: a value json cannot encode (a non-finite float) wrote nothing at all, so the enclosing object reads `{"f":}`.
// The other JSON-backed marshalers of the package (MarshalAny, MarshalMap) panic on an encoder error, which the generated
// field handlers turn into null plus an error.
func TestOmittableUnencodable(t *testing.T) {
	var buf bytes.Buffer
	panicked := false
	func() {
		defer func() {
			if r := recover(); r != nil {
				panicked = true
				t.Logf("MarshalGQL panicked (a field's recover handler turns that into null + error): %v", r)
			}
		}()
		buf.WriteString(`{"f":`)
		graphql.OmittableOf(math.NaN()).MarshalGQL(&buf)
		buf.WriteString(`}`)
	}()
	if panicked {
		return
	}
	t.Logf("output: %s", buf.String())
	var v any
	if err := json.Unmarshal(buf.Bytes(), &v); err != nil {
		t.Fatalf("no error was raised and the output is not JSON: %v", err)
	}
}
