module f21

go 1.23.8

require github.com/99designs/gqlgen v0.0.0

require (
	github.com/agnivade/levenshtein v1.2.1 // indirect
	github.com/go-viper/mapstructure/v2 v2.2.1 // indirect
	github.com/google/uuid v1.6.0 // indirect
	github.com/gorilla/websocket v1.5.0 // indirect
	github.com/hashicorp/golang-lru/v2 v2.0.7 // indirect
	github.com/sosodev/duration v1.3.1 // indirect
	github.com/vektah/gqlparser/v2 v2.5.25 // indirect
)

replace github.com/99designs/gqlgen => /repo
