package f18

import (
	"testing"

	"github.com/vektah/gqlparser/v2"
	"github.com/vektah/gqlparser/v2/ast"

	"github.com/99designs/gqlgen/graphql/introspection"
)

// An interface that implements another interface must list it under `interfaces` (GraphQL spec, October 2021, section
// 4.2.3 "Interface": "interfaces: the set of interfaces that this interface implements"): without it the relation
// `interface Resource implements Node` cannot be rebuilt from the introspection result.
func TestInterfaceImplementsInterface(t *testing.T) {
	s := gqlparser.MustLoadSchema(&ast.Source{Name: "s.graphql", Input: `
		interface Node { id: ID! }
		interface Resource implements Node { id: ID! url: String }
		type Image implements Resource & Node { id: ID! url: String }
		type Query { node: Node }
	`})
	typ := introspection.WrapTypeFromDef(s, s.Types["Resource"])
	var got []string
	for _, i := range typ.Interfaces() {
		got = append(got, *i.Name())
	}
	t.Logf("__type(name:\"Resource\").interfaces = %v", got)
	if len(got) != 1 || got[0] != "Node" {
		t.Fatalf("interfaces of interface Resource = %v, want [Node]", got)
	}
}
