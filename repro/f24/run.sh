#!/bin/bash
# F24: use_function_syntax_for_execution_context: true together with an enum bound value by value (models: X: enum_values:,
# or @goEnum) does not compile: type.gotpl declares the value tables as package-level variables named like the
# (un)marshal functions (unmarshalNLevel2…, marshalNLevel2…), which with function syntax are package-level functions too.
# usage: run.sh [repo-dir]   (default /repo; works on a scratch copy)
set -e
repo=${1:-/repo}
d=$(mktemp -d /dev/shm/f24-XXXX); trap "rm -rf $d" EXIT
rsync -a --exclude .git --exclude /_examples $repo/ $d/repo/
cd $d/repo; export GOFLAGS="-mod=mod -trimpath" GOPROXY=off GOWORK=off
go build -o $d/gen ./testdata/gqlgen.go
mkdir -p f24/graph/model; cd f24
cat > gqlgen.yml <<Y
schema:
  - graph/*.graphqls
exec:
  filename: graph/generated.go
  package: graph
model:
  filename: graph/model/models_gen.go
  package: model
resolver:
  layout: follow-schema
  dir: graph
  package: graph
use_function_syntax_for_execution_context: true
models:
  Level:
    model: github.com/99designs/gqlgen/f24/graph/model.Level
    enum_values:
      LOW:
        value: github.com/99designs/gqlgen/f24/graph/model.LevelLow
      HIGH:
        value: github.com/99designs/gqlgen/f24/graph/model.LevelHigh
Y
cat > graph/schema.graphqls <<'S'
enum Level { LOW HIGH }
type Query { level(min: Level): Level! }
S
cat > graph/model/level.go <<'G'
package model

type Level int

const (
	LevelLow Level = iota
	LevelHigh
)
G
if $d/gen -config gqlgen.yml > $d/out.txt 2>&1 && go build ./graph/... >> $d/out.txt 2>&1; then echo "function syntax + enum_values: generated code compiles"; else echo "DOES NOT COMPILE:"; grep -m3 "cannot index\|redeclared" $d/out.txt || tail -3 $d/out.txt; exit 1; fi
