#!/bin/bash
# F23: an object type backed by map[string]interface{} (models: X: model: map[string]interface{}, as in
# codegen/testserver's MapStringInterfaceType) with a field whose Go type has no element type - any non-null scalar,
# `size: Int!` - makes generation abort inside field.gotpl: "nil pointer evaluating *config.TypeReference.GO"
# (the map branch of "fieldDefinition" selects .TypeReference.Elem.GO unconditionally; Elem() is nil for non-pointers).
# usage: run.sh [repo-dir]   (default /repo; works on a scratch copy)
set -e
repo=${1:-/repo}
d=$(mktemp -d /dev/shm/f23-XXXX); trap "rm -rf $d" EXIT
rsync -a --exclude .git --exclude /_examples $repo/ $d/repo/
cd $d/repo; export GOFLAGS="-mod=mod -trimpath" GOPROXY=off GOWORK=off
go build -o $d/gen ./testdata/gqlgen.go
mkdir -p f23/graph; cd f23
cat > gqlgen.yml <<Y
schema:
  - graph/*.graphqls
exec:
  filename: graph/generated.go
  package: graph
model:
  filename: graph/model/models_gen.go
  package: model
resolver:
  layout: follow-schema
  dir: graph
  package: graph
models:
  Bag:
    model: map[string]interface{}
Y
cat > graph/schema.graphqls <<'S'
type Bag { size: Int! note: String names: [String!]! }
type Query { bag: Bag }
S
if $d/gen -config gqlgen.yml > $d/out.txt 2>&1 && go build ./graph/... >> $d/out.txt 2>&1; then echo "map-backed object with a non-null scalar field: generates and compiles"; else echo "GENERATION FAILS:"; tail -3 $d/out.txt; exit 1; fi
