#!/bin/bash
# F17: return_pointers_in_unmarshalinput: true + an input object bound to map[string]interface{} generated code that does not compile.
# usage: run.sh [before|after]
set -e
mode=${1:-after}
d=$(mktemp -d /dev/shm/f17-XXXX); trap "rm -rf $d" EXIT
if [ "$mode" = before ]; then
  fix=$(git -C /repo log --format=%h -1 --grep='map-backed input')
  git -C /repo archive $fix~1 | tar -x -C $d
else
  rsync -a --exclude .git --exclude /_examples /repo/ $d/
fi
cd $d; export GOFLAGS=-mod=mod GOPROXY=off
go build -o $d/gen ./testdata/gqlgen.go
src=codegen/testserver/singlefile; dst=codegen/testserver/singlefileptrinput
rsync -a --exclude '*_test.go' $src/ $dst/
grep -rl "testserver/singlefile" $dst --include=*.go --include=*.yml | xargs sed -i 's#testserver/singlefile#testserver/singlefileptrinput#g'
echo "return_pointers_in_unmarshalinput: true" >> $dst/gqlgen.yml
(cd $dst && rm -f resolver.go && $d/gen -config gqlgen.yml -stub stub.go >/dev/null)
go build ./$dst/ && echo "generated package compiles"
