package f4

import (
	"context"
	"fmt"
	"net/http/httptest"
	"strings"
	"testing"

	"github.com/99designs/gqlgen/graphql/handler/testserver"
	"github.com/99designs/gqlgen/graphql/handler/transport"
)

// A JSON body `null` must be answered with a client error without taking gqlgen's panic path.
func TestNullBody(t *testing.T) {
	for _, tc := range []struct{ ct, accept, body string }{
		{"application/json", "", "null"},
		{"application/json", "text/event-stream", "null"},
		{"application/json", "multipart/mixed", "null"},
		{"application/x-www-form-urlencoded", "", `null "query":`},
	} {
		h := testserver.New()
		h.AddTransport(transport.SSE{})
		h.AddTransport(transport.MultipartMixed{})
		h.AddTransport(transport.UrlEncodedForm{})
		h.AddTransport(transport.POST{})
		panics := 0
		h.SetRecoverFunc(func(ctx context.Context, err any) error { panics++; return fmt.Errorf("panic: %v", err) })
		w := httptest.NewRecorder()
		r := httptest.NewRequest("POST", "/", strings.NewReader(tc.body))
		r.Header.Set("Content-Type", tc.ct)
		if tc.accept != "" {
			r.Header.Set("Accept", tc.accept)
		}
		h.ServeHTTP(w, r)
		t.Logf("%v: status=%d panics=%d body=%s", tc, w.Code, panics, strings.TrimSpace(w.Body.String()))
		if panics != 0 {
			t.Errorf("%v: recover hook invoked %d times for malformed client input", tc, panics)
		}
	}
}
