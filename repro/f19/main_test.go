package f19

import (
	"io"
	"net/http"
	"net/http/httptest"
	"strings"
	"sync"
	"testing"
	"time"

	"github.com/99designs/gqlgen/graphql/handler/testserver"
	"github.com/99designs/gqlgen/graphql/handler/transport"
)

// The SSE keep-alive goroutine must not touch the ResponseWriter once SSE.Do has returned (net/http: "A ResponseWriter may
// not be used after Handler.ServeHTTP has returned").  It only stops when the request context is cancelled, which net/http
// does after the handler has returned, so a tick in between writes a ping into a response that is being finished.
// Run with -race: the write is reported as a data race with net/http's finishRequest (or crashes with a nil dereference).
func TestKeepAliveAfterReturn(t *testing.T) {
	h := testserver.New()
	h.AddTransport(transport.SSE{KeepAlivePingInterval: 20 * time.Microsecond})
	srv := httptest.NewServer(h)
	defer srv.Close()

	var wg sync.WaitGroup
	for w := 0; w < 8; w++ {
		wg.Add(1)
		go func() {
			defer wg.Done()
			for i := 0; i < 400; i++ {
				req, _ := http.NewRequest("POST", srv.URL, strings.NewReader(`{"query":"{ name }"}`))
				req.Header.Set("Accept", "text/event-stream")
				req.Header.Set("Content-Type", "application/json")
				resp, err := http.DefaultClient.Do(req)
				if err != nil {
					t.Error(err)
					return
				}
				io.Copy(io.Discard, resp.Body)
				resp.Body.Close()
			}
		}()
	}
	wg.Wait()
}
