#!/bin/bash
# F22: with use_function_syntax_for_execution_context: true and an executable directive on QUERY, MUTATION or SUBSCRIPTION,
# the generated Exec hands the executionContext VALUE to the root function inside the operation-middleware closure
# (`_Query(ctx, ec, …)` instead of `&ec`): the generated package does not compile.
# usage: run.sh [repo-dir]   (default /repo; works on a scratch copy)
set -e
repo=${1:-/repo}
d=$(mktemp -d /dev/shm/f22-XXXX); trap "rm -rf $d" EXIT
rsync -a --exclude .git --exclude /_examples $repo/ $d/repo/
cd $d/repo; export GOFLAGS="-mod=mod -trimpath" GOPROXY=off GOWORK=off
go build -o $d/gen ./testdata/gqlgen.go
for layout in single-file follow-schema; do
mkdir -p f22-$layout/graph; cd f22-$layout
cat > gqlgen.yml <<Y
schema:
  - graph/*.graphqls
exec:
  layout: $layout
$( [ $layout = single-file ] && echo "  filename: graph/generated.go" || echo "  dir: graph" )
  package: graph
model:
  filename: graph/model/models_gen.go
  package: model
resolver:
  layout: follow-schema
  dir: graph
  package: graph
use_function_syntax_for_execution_context: true
Y
cat > graph/schema.graphqls <<'S'
directive @traced on QUERY | MUTATION | SUBSCRIPTION
type Query { hello: String! }
type Mutation { touch: String }
type Subscription { ticks: Int! }
S
if $d/gen -config gqlgen.yml > $d/out-$layout.txt 2>&1 && go build ./graph/... >> $d/out-$layout.txt 2>&1; then echo "$layout: generated code compiles"; else echo "$layout: DOES NOT COMPILE:"; grep -m3 "cannot use ec" $d/out-$layout.txt || tail -3 $d/out-$layout.txt; fail=1; fi
cd ..
done
exit ${fail:-0}
