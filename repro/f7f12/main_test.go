package f7f12

import (
	"bytes"
	"encoding/json"
	"testing"
	"unicode/utf8"

	"github.com/99designs/gqlgen/graphql"
)

func TestUintIDRejectsNegative(t *testing.T) {
	for _, v := range []any{int(-1), int64(-1), int32(-1)} {
		if got, err := graphql.UnmarshalUintID(v); err == nil {
			t.Errorf("UnmarshalUintID(%T(-1)) = %d, nil; want an error", v, got)
		}
	}
}

func TestInvalidUTF8IsReplaced(t *testing.T) {
	for _, s := range []string{"a\xffb", "\xc3", "ok\xe2\x82", "� kept", "日本\x80語"} {
		var b bytes.Buffer
		graphql.MarshalString(s).MarshalGQL(&b)
		if !utf8.Valid(b.Bytes()) {
			t.Errorf("MarshalString(%q) wrote invalid UTF-8: %q", s, b.Bytes())
			continue
		}
		var back string
		if err := json.Unmarshal(b.Bytes(), &back); err != nil {
			t.Errorf("MarshalString(%q) is not JSON: %v", s, err)
			continue
		}
		want := string([]rune(s)) // every offending byte -> U+FFFD
		if back != want {
			t.Errorf("MarshalString(%q) decodes to %q, want %q", s, back, want)
		}
	}
}
