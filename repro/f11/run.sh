#!/bin/bash
# F11: a panic while marshalling one element of an object list must null that element only.
# usage: run.sh [before|after]  (before = tree of the commit preceding the fix)
set -e
mode=${1:-after}
d=$(mktemp -d /dev/shm/f11-XXXX); trap "rm -rf $d" EXIT
if [ "$mode" = before ]; then
  fix=$(git -C /repo log --format=%h -1 --grep='list element that panics')
  git -C /repo archive $fix~1 | tar -x -C $d
else
  rsync -a --exclude .git --exclude /_examples /repo/ $d/
fi
cat > $d/codegen/testserver/singlefile/f11_test.go <<'EOT'
package singlefile

import (
	"context"
	"encoding/json"
	"fmt"
	"runtime/debug"
	"strings"
	"testing"

	"github.com/99designs/gqlgen/client"
	"github.com/99designs/gqlgen/graphql/handler"
	"github.com/99designs/gqlgen/graphql/handler/transport"
)

type alienShape struct{}

func (alienShape) Area() float64        { return 0 }
func (alienShape) isShape()             {}
func (alienShape) Coordinates() Coordinates { return Coordinates{} }

func TestListElementPanicNullsOnlyThatElement(t *testing.T) {
	resolvers := &Stub{}
	resolvers.QueryResolver.Shapes = func(ctx context.Context) ([]Shape, error) {
		return []Shape{&Circle{Radius: 1}, alienShape{}, &Circle{Radius: 2}}, nil
	}
	srv := handler.New(NewExecutableSchema(Config{Resolvers: resolvers}))
	srv.AddTransport(transport.POST{})
	srv.SetRecoverFunc(func(ctx context.Context, err any) error {
		if testing.Verbose() {
			debug.PrintStack()
		}
		return fmt.Errorf("panic: %v", err)
	})
	c := client.New(srv)
	for i := 0; i < 50; i++ {
		resp, err := c.RawPost(`query { shapes { area } }`)
		if err != nil {
			t.Fatal(err)
		}
		var data struct{ Shapes []*struct{ Area float64 } }
		raw, _ := json.Marshal(resp.Data)
		json.Unmarshal(raw, &data)
		if len(data.Shapes) != 3 || data.Shapes[0] == nil || data.Shapes[1] != nil || data.Shapes[2] == nil {
			t.Fatalf("data = %s, want [{area},null,{area}]; errors = %s", raw, resp.Errors)
		}
		if n := strings.Count(string(resp.Errors), `"message"`); n != 1 {
			t.Fatalf("want exactly one error, got %d: %s", n, resp.Errors)
		}
	}
}
EOT
cd $d && GOFLAGS=-mod=mod GOPROXY=off go test -v -count=1 -run TestListElementPanicNullsOnlyThatElement ./codegen/testserver/singlefile/ 2>&1 | grep -v "^[[:space:]]*/" | tail -${TAIL:-8}
