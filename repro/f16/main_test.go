package f16

import (
	"encoding/json"
	"testing"

	"github.com/99designs/gqlgen/graphql"
)

// On a 32-bit platform (GOARCH=386/arm) int and uint are 32 bits wide; inputs that only fit
// 64 bits must be rejected, not truncated.
func TestNo64To32Truncation(t *testing.T) {
	if got, err := graphql.UnmarshalUint(json.Number("4294967296")); err == nil && uint64(got) != 4294967296 {
		t.Errorf("UnmarshalUint(4294967296) = %d, nil", got)
	}
	if got, err := graphql.UnmarshalUint("4294967297"); err == nil && uint64(got) != 4294967297 {
		t.Errorf("UnmarshalUint(\"4294967297\") = %d, nil", got)
	}
	if got, err := graphql.UnmarshalInt(int64(1) << 40); err == nil && int64(got) != 1<<40 {
		t.Errorf("UnmarshalInt(1<<40) = %d, nil", got)
	}
	if got, err := graphql.UnmarshalUintID(json.Number("4294967296")); err == nil && uint64(got) != 4294967296 {
		t.Errorf("UnmarshalUintID(4294967296) = %d, nil", got)
	}
	if got, err := graphql.UnmarshalIntID(int64(1) << 40); err == nil && int64(got) != 1<<40 {
		t.Errorf("UnmarshalIntID(1<<40) = %d, nil", got)
	}
}
