#!/bin/bash
# F20: single-file resolver layout is not idempotent: a second generation over the untouched output of the first moves
# `type Resolver struct{}` into the "code below was going to be deleted" WARNING block.
# usage: run.sh [repo-dir]   (default /repo; works on a scratch copy)
set -e
repo=${1:-/repo}
d=$(mktemp -d /dev/shm/f20-XXXX); trap "rm -rf $d" EXIT
rsync -a --exclude .git --exclude /_examples $repo/ $d/repo/
cd $d/repo; export GOFLAGS="-mod=mod -trimpath" GOPROXY=off GOWORK=off
go build -o $d/gen ./testdata/gqlgen.go
mkdir -p f20/graph; cd f20
cat > gqlgen.yml <<'Y'
schema:
  - graph/*.graphqls
exec:
  filename: graph/generated.go
  package: graph
model:
  filename: graph/model/models_gen.go
  package: model
resolver:
  layout: single-file
  filename: graph/resolver.go
  package: graph
  type: Resolver
Y
cat > graph/schema.graphqls <<'S'
type Query { hello: String! }
S
$d/gen -config gqlgen.yml >/dev/null 2>&1; h1=$(sha256sum graph/resolver.go | cut -c1-16)
$d/gen -config gqlgen.yml >/dev/null 2>&1; h2=$(sha256sum graph/resolver.go | cut -c1-16)
$d/gen -config gqlgen.yml >/dev/null 2>&1; h3=$(sha256sum graph/resolver.go | cut -c1-16)
echo "resolver.go after run 1: $h1, run 2: $h2, run 3: $h3"
if [ "$h1" != "$h2" ]; then echo "NOT IDEMPOTENT: the second run changed an untouched file:"; grep -n "WARNING" -A12 graph/resolver.go | head -30; exit 1; fi
echo "idempotent"
