package f15

import (
	"net/http/httptest"
	"testing"

	"github.com/99designs/gqlgen/graphql/handler/testserver"
	"github.com/99designs/gqlgen/graphql/handler/transport"
)

// A GET whose query string cannot be parsed is answered with a JSON error body; its Content-Type
// must be the negotiated JSON media type, not a sniffed text/plain.
func TestGetBadQueryStringContentType(t *testing.T) {
	h := testserver.New()
	h.AddTransport(transport.GET{})
	w := httptest.NewRecorder()
	r := httptest.NewRequest("GET", "/?query=%zz", nil)
	r.Header.Set("Accept", "application/json")
	h.ServeHTTP(w, r)
	ct := w.Result().Header.Get("Content-Type")
	t.Logf("status=%d content-type=%q body=%s", w.Code, ct, w.Body.String())
	if ct != "application/json" {
		t.Fatalf("Content-Type = %q, want application/json", ct)
	}
}
