#!/bin/bash
# Demonstrates F1: with exec.worker_limit, a list marshaler hangs in wg.Wait() when the context is cancelled while
# elements wait for a worker slot.  usage: run.sh [before|after]   (before = type.gotpl of the commit preceding the fix)
set -e
mode=${1:-after}
d=$(mktemp -d /dev/shm/f1-XXXX); trap "rm -rf $d" EXIT
rsync -a --exclude .git --exclude /_examples /repo/ $d/
cd $d
if [ "$mode" = before ]; then
  fix=$(git -C /repo log --format=%h -1 --grep='account for list elements whose worker slot' )
  git -C /repo show $fix~1:codegen/type.gotpl > codegen/type.gotpl
fi
export GOFLAGS=-mod=mod GOPROXY=off
go build -o $d/gen ./testdata/gqlgen.go
src=codegen/testserver/singlefile; dst=codegen/testserver/singlefilewl
rsync -a --exclude '*_test.go' $src/ $dst/
grep -rl "testserver/singlefile" $dst --include=*.go --include=*.yml | xargs sed -i 's#testserver/singlefile#testserver/singlefilewl#g'
sed -i 's/^exec:/exec:\n  worker_limit: 1/' $dst/gqlgen.yml
(cd $dst && rm -f resolver.go && $d/gen -config gqlgen.yml -stub stub.go >/dev/null)
cat > $dst/f1_test.go <<'EOT'
package singlefile

import (
	"context"
	"testing"
	"time"

	"github.com/99designs/gqlgen/graphql"
	"github.com/vektah/gqlparser/v2/ast"
)

func TestWorkerLimitCancelDoesNotHang(t *testing.T) {
	resolvers := &Stub{}
	started := make(chan struct{}, 8)
	resolvers.DeferModelResolver.Values = func(ctx context.Context, obj *DeferModel) ([]string, error) {
		started <- struct{}{}
		<-ctx.Done() // a well-behaved resolver: returns promptly once cancelled
		return nil, ctx.Err()
	}
	es := NewExecutableSchema(Config{Resolvers: resolvers}).(*executableSchema)
	ec := executionContext{&graphql.OperationContext{RecoverFunc: graphql.DefaultRecover, ResolverMiddleware: func(ctx context.Context, next graphql.Resolver) (any, error) { return next(ctx) }}, es, 0, 0, make(chan graphql.DeferredResult)}
	ctx, cancel := context.WithCancel(context.Background())
	ctx = graphql.WithResponseContext(ctx, graphql.DefaultErrorPresenter, graphql.DefaultRecover)
	ctx = graphql.WithFieldContext(ctx, &graphql.FieldContext{})
	sel := ast.SelectionSet{&ast.Field{Name: "values", Alias: "values", Definition: &ast.FieldDefinition{Name: "values"}}}
	list := []*DeferModel{{ID: "1"}, {ID: "2"}, {ID: "3"}}
	done := make(chan struct{})
	go func() {
		defer close(done)
		ec.marshalODeferModel2ᚕᚖgithubᚗcomᚋ99designsᚋgqlgenᚋcodegenᚋtestserverᚋsinglefilewlᚐDeferModelᚄ(ctx, sel, list)
	}()
	<-started // element 0 holds the only worker slot, elements 1 and 2 wait in Acquire
	time.Sleep(50 * time.Millisecond)
	cancel()
	select {
	case <-done:
	case <-time.After(3 * time.Second):
		t.Fatal("list marshaler still blocked in wg.Wait() 3s after every resolver returned")
	}
}
EOT
go test -count=1 -run TestWorkerLimitCancelDoesNotHang ./$dst/ 2>&1 | tail -5
