package f14

import (
	"net/http/httptest"
	"strings"
	"testing"

	"github.com/99designs/gqlgen/graphql/handler"
	"github.com/99designs/gqlgen/graphql/handler/testserver"
	"github.com/99designs/gqlgen/graphql/handler/transport"
)

func TestTokenLimit(t *testing.T) {
	h := testserver.New()
	h.AddTransport(transport.POST{})
	h.SetParserTokenLimit(5)
	_ = handler.New
	w := httptest.NewRecorder()
	r := httptest.NewRequest("POST", "/", strings.NewReader(`{"query":"{ name a: name b: name c: name d: name e: name }"}`))
	r.Header.Set("Content-Type", "application/json")
	h.ServeHTTP(w, r)
	t.Logf("status=%d body=%s", w.Code, w.Body.String())
	if !strings.Contains(w.Body.String(), "errors") {
		t.Fatalf("query over the token limit was executed")
	}
}
