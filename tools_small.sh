#!/bin/bash
# usage: tools_small.sh <worktree-with-SMALL-dir> <property> [prefix, default small]
# Imports a sub-agent's small breaking changes as selftest mutants (selftest/mutants/small-<prop>-sK-*.patch, property header = the
# given property, no expected rule) and runs them; prints which ones the property's check misses, with the agent's description.
set -u
wt=$1; prop=$2; pre=${3:-small}; p=$(echo $prop | tr 'A-Z' 'a-z')
for f in $wt/SMALL/s*.diff; do
  [ -s "$f" ] || continue
  n=$(basename $f .diff)
  fn=$(jq -r --arg f "$n.diff" '.[] | select(.file==$f) | .function' $wt/SMALL/index.json 2>/dev/null | tr -c 'a-zA-Z0-9\n' '-' | tr 'A-Z' 'a-z' | cut -c1-40 | sed 's/-*$//;s/^-*//')
  out=selftest/mutants/$pre-$p-$n-$fn.patch
  { echo "# property: $prop"; echo "# expect: "; echo "# origin: independent sub-agent asked for small slips breaking $prop";
    jq -r --arg f "$n.diff" '.[] | select(.file==$f) | "# clause: " + (.clause|gsub("\n";" ")) + "\n# manifests: " + (.manifests|gsub("\n";" "))' $wt/SMALL/index.json 2>/dev/null; cat $f | python3 -c "import sys,re; t=sys.stdin.read(); parts=re.split(r'(?m)^(?=diff --git )',t); sys.stdout.write(''.join(x for x in parts if not re.match(r'diff --git a/go\.(mod|sum) ',x)))"; } > $out
done
SELFTEST_JOBS=${SELFTEST_JOBS:-4} selftest/run.py $pre-$p- 2>&1 | grep -E "^(PASS|FAIL|[0-9]+ variants)" | cut -c1-150
