#!/usr/bin/env python3
# Validates MANIFEST.json and every evidence file against the harness schemas (development aid).
import json, sys, glob
import jsonschema
ms = json.load(open('/root/.vp/MANIFEST.schema.json'))
es = json.load(open('/root/.vp/EVIDENCE.schema.json'))
ok = True
try:
    m = json.load(open('MANIFEST.json'))
    jsonschema.validate(m, ms)
    print('MANIFEST ok:', len(m['checks']), 'checks,', len(m.get('not_applicable', [])), 'n/a')
except Exception as e:
    ok = False; print('MANIFEST INVALID', e)
for f in sorted(glob.glob('evidence/*.json')):
    try:
        jsonschema.validate(json.load(open(f)), es); print(f, 'ok')
    except Exception as e:
        ok = False; print(f, 'INVALID', str(e)[:300])
sys.exit(0 if ok else 1)
