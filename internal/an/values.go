package an

import (
	"go/token"
	"go/types"

	"golang.org/x/tools/go/ssa"
)

// RootAlloc follows FreeVar bindings up to the Alloc (or other value) that a captured variable
// denotes in the outermost function.  For non-FreeVar values it returns v itself.
func RootAlloc(v ssa.Value) ssa.Value {
	for i := 0; i < 16; i++ {
		fv, ok := v.(*ssa.FreeVar)
		if !ok {
			return v
		}
		fn := fv.Parent()
		idx := -1
		for i, x := range fn.FreeVars {
			if x == fv {
				idx = i
			}
		}
		sites := creationSites(fn)
		if idx < 0 || len(sites) == 0 {
			return v
		}
		// all creation sites must bind the same value, otherwise stay conservative
		var b ssa.Value
		for _, s := range sites {
			mc := s.(*ssa.MakeClosure)
			if b == nil {
				b = mc.Bindings[idx]
			} else if b != mc.Bindings[idx] {
				return v
			}
		}
		v = b
	}
	return v
}

// cellRefs returns every instruction that refers to the storage cell rooted at alloc, in the
// allocating function and in every closure that captures it (transitively).
func cellRefs(root ssa.Value) []ssa.Instruction {
	var out []ssa.Instruction
	seen := map[ssa.Value]bool{}
	var walk func(v ssa.Value)
	walk = func(v ssa.Value) {
		if seen[v] {
			return
		}
		seen[v] = true
		for _, r := range Referrers(v) {
			out = append(out, r)
			if mc, ok := r.(*ssa.MakeClosure); ok {
				fn := mc.Fn.(*ssa.Function)
				for i, b := range mc.Bindings {
					if b == v && i < len(fn.FreeVars) {
						walk(fn.FreeVars[i])
					}
				}
			}
		}
	}
	walk(root)
	return out
}

// CellStores returns the stores whose address is exactly the cell (not a field of it).
func CellStores(cell ssa.Value) []*ssa.Store {
	root := RootAlloc(cell)
	var out []*ssa.Store
	for _, r := range cellRefs(root) {
		if st, ok := r.(*ssa.Store); ok && RootAlloc(st.Addr) == root {
			out = append(out, st)
		}
	}
	return out
}

// CellLoads returns the loads of exactly the cell (in the allocating function and in closures capturing it).
func CellLoads(cell ssa.Value) []ssa.Value {
	root := RootAlloc(cell)
	var out []ssa.Value
	for _, r := range cellRefs(root) {
		if ld, ok := r.(*ssa.UnOp); ok && ld.Op == token.MUL && RootAlloc(ld.X) == root {
			out = append(out, ld)
		}
	}
	return out
}

// CellRefs exposes every referrer of a (possibly captured) variable cell.
func CellRefs(cell ssa.Value) []ssa.Instruction { return cellRefs(RootAlloc(cell)) }

// IsLocalCell reports whether v (after following FreeVars) is a local variable cell (Alloc).
func IsLocalCell(v ssa.Value) bool {
	_, ok := RootAlloc(v).(*ssa.Alloc)
	return ok
}

// Defs returns the values that may be observed by v, looking through loads of local variable
// cells (all stores, including those made by closures), Phi nodes and value-preserving wrappers.
// The result never contains loads of local cells or Phis; other values are returned as they are.
func Defs(v ssa.Value) []ssa.Value {
	var out []ssa.Value
	seen := map[ssa.Value]bool{}
	var walk func(v ssa.Value, depth int)
	walk = func(v ssa.Value, depth int) {
		v = Strip(v)
		if seen[v] || depth > 24 {
			return
		}
		seen[v] = true
		switch x := v.(type) {
		case *ssa.Phi:
			for _, e := range x.Edges {
				walk(e, depth+1)
			}
			return
		case *ssa.UnOp:
			if x.Op == token.MUL && IsLocalCell(x.X) {
				sts := CellStores(x.X)
				if len(sts) == 0 {
					out = append(out, v) // zero value only
					return
				}
				for _, st := range sts {
					walk(st.Val, depth+1)
				}
				return
			}
		}
		out = append(out, v)
	}
	walk(v, 0)
	return out
}

// SoleDef returns the single definition of v after looking through cells/phis, or nil.
func SoleDef(v ssa.Value) ssa.Value {
	d := Defs(v)
	if len(d) == 1 {
		return d[0]
	}
	return nil
}

// SameVar reports whether a and b denote the same variable or value: identical SSA values, loads
// of the same local cell, or identical access paths.
func SameVar(a, b ssa.Value) bool {
	a, b = Strip(a), Strip(b)
	if a == b {
		return true
	}
	la, oka := a.(*ssa.UnOp)
	lb, okb := b.(*ssa.UnOp)
	if oka && okb && la.Op == token.MUL && lb.Op == token.MUL {
		ra, rb := RootAlloc(la.X), RootAlloc(lb.X)
		if ra == rb {
			return true
		}
		if SameAddr(la.X, lb.X) {
			return true
		}
	}
	// a load of a cell whose only definition is b (or vice versa)
	if da := SoleDef(a); da != nil && da != a && da == SoleDef(b) {
		return true
	}
	if SoleDef(a) == b && b != nil || SoleDef(b) == a && a != nil {
		return true
	}
	return false
}

// SameAddr: two address expressions denote the same location (same root cell and same
// field path; roots compared after following FreeVars and loads of single-definition cells).
func SameAddr(a, b ssa.Value) bool {
	for i := 0; i < 16; i++ {
		a, b = RootAlloc(a), RootAlloc(b)
		if a == b {
			return true
		}
		fa, oka := a.(*ssa.FieldAddr)
		fb, okb := b.(*ssa.FieldAddr)
		if oka && okb {
			if fa.Field != fb.Field {
				return false
			}
			a, b = fa.X, fb.X
			continue
		}
		la, oka := a.(*ssa.UnOp)
		lb, okb := b.(*ssa.UnOp)
		if oka && okb && la.Op == token.MUL && lb.Op == token.MUL {
			a, b = la.X, lb.X
			continue
		}
		// pointer values: compare sole definitions
		da, db := SoleDef(a), SoleDef(b)
		if da != nil && db != nil && (da != a || db != b) {
			a, b = da, db
			continue
		}
		return false
	}
	return false
}

// ExtractOf: v is result #idx of call c (directly, or through a single-definition cell).
func ExtractOf(v ssa.Value, idx int) ssa.CallInstruction {
	for _, d := range Defs(v) {
		if e, ok := d.(*ssa.Extract); ok && e.Index == idx {
			if c, ok := e.Tuple.(*ssa.Call); ok {
				return c
			}
		}
		if c, ok := d.(*ssa.Call); ok && idx == 0 {
			if c.Call.Signature().Results().Len() == 1 {
				return c
			}
		}
	}
	return nil
}

// AllExtractOf: every definition of v is result #idx of the same call.
func AllExtractOf(v ssa.Value, idx int) ssa.CallInstruction {
	ds := Defs(v)
	if len(ds) == 0 {
		return nil
	}
	var call ssa.CallInstruction
	for _, d := range ds {
		var c ssa.CallInstruction
		if e, ok := d.(*ssa.Extract); ok && e.Index == idx {
			if cc, ok := e.Tuple.(*ssa.Call); ok {
				c = cc
			}
		} else if cc, ok := d.(*ssa.Call); ok && idx == 0 && cc.Call.Signature().Results().Len() == 1 {
			c = cc
		}
		if c == nil || (call != nil && c != call) {
			return nil
		}
		call = c
	}
	return call
}

// IsEmptinessFact: the fact says value v is nil / has length 0 (empty=true) or the opposite.
// Recognised: v == nil, v != nil, len(v) == 0, len(v) != 0, len(v) > 0, 0 < len(v) ...
func EmptinessFact(f Fact, same func(ssa.Value) bool) (empty, ok bool) {
	x, y := f.X, f.Y
	// `_, ok := v.(T)` with ok true: v holds a T, so v is not nil (the false edge says nothing about nil-ness)
	if f.Op == token.ILLEGAL && !f.Neg && x != nil {
		if ex, isEx := x.(*ssa.Extract); isEx && ex.Index == 1 {
			if ta, isTA := ex.Tuple.(*ssa.TypeAssert); isTA && ta.CommaOk && same(ta.X) {
				return false, true
			}
		}
	}
	if f.Op == token.ILLEGAL || x == nil || y == nil {
		return false, false
	}
	isLen := func(v ssa.Value) (ssa.Value, bool) {
		if c, ok := v.(*ssa.Call); ok {
			if b, ok := c.Call.Value.(*ssa.Builtin); ok && b.Name() == "len" && len(c.Call.Args) == 1 {
				return c.Call.Args[0], true
			}
		}
		return nil, false
	}
	try := func(a, b ssa.Value, op token.Token) (bool, bool) {
		if IsNilConst(b) && same(a) {
			switch op {
			case token.EQL:
				return true, true
			case token.NEQ:
				return false, true
			}
		}
		if n, okc := ConstInt(b); okc {
			if arg, okl := isLen(a); okl && same(arg) {
				switch {
				case n == 0 && op == token.EQL, n == 0 && op == token.LEQ, n == 1 && op == token.LSS:
					return true, true
				case n == 0 && op == token.NEQ, n == 0 && op == token.GTR, n == 1 && op == token.GEQ:
					return false, true
				}
			}
		}
		return false, false
	}
	if e, ok := try(x, y, f.Op); ok {
		return e, true
	}
	// mirrored
	mir := map[token.Token]token.Token{token.EQL: token.EQL, token.NEQ: token.NEQ, token.LSS: token.GTR, token.GTR: token.LSS, token.LEQ: token.GEQ, token.GEQ: token.LEQ}
	return try(y, x, mir[f.Op])
}

// IsErrorType reports whether t is the predeclared error interface.
func IsErrorType(t types.Type) bool {
	return types.Identical(t, types.Universe.Lookup("error").Type())
}

// NamedIs reports whether t (or *t) is the named type pkg.name.
func NamedIs(t types.Type, pkg, name string) bool {
	if p, ok := t.(*types.Pointer); ok {
		t = p.Elem()
	}
	if a, ok := t.(*types.Alias); ok {
		t = types.Unalias(a)
	}
	n, ok := t.(*types.Named)
	if !ok {
		return false
	}
	o := n.Obj()
	return o.Name() == name && o.Pkg() != nil && o.Pkg().Path() == pkg
}

// FieldLoadDef: v is a load of a struct field address; if the enclosing function contains exactly
// one store to the same field address, and that store executes before the load on every path,
// return the stored value.  (Adjacent `x.f = e; if x.f == nil` idiom; not a general alias analysis.)
func FieldLoadDef(v ssa.Value) ssa.Value {
	ld, ok := Strip(v).(*ssa.UnOp)
	if !ok || ld.Op != token.MUL {
		return nil
	}
	fa, ok := ld.X.(*ssa.FieldAddr)
	if !ok {
		return nil
	}
	var found *ssa.Store
	for _, b := range ld.Parent().Blocks {
		for _, in := range b.Instrs {
			st, ok := in.(*ssa.Store)
			if !ok {
				continue
			}
			a, ok := st.Addr.(*ssa.FieldAddr)
			if !ok || a.Field != fa.Field || !SameAddr(a.X, fa.X) {
				continue
			}
			if found != nil {
				return nil
			}
			found = st
		}
	}
	if found == nil || !Before(found, ld) {
		return nil
	}
	return found.Val
}

// FlowsToReturn reports a Return that value v reaches directly, through value-preserving
// wrappers, or through a local result cell (go/ssa spills results to a cell in functions with defer).
func FlowsToReturn(v ssa.Value) *ssa.Return {
	seen := map[ssa.Value]bool{}
	var walk func(v ssa.Value, depth int) *ssa.Return
	walk = func(v ssa.Value, depth int) *ssa.Return {
		if seen[v] || depth > 8 {
			return nil
		}
		seen[v] = true
		for _, r := range Referrers(v) {
			switch x := r.(type) {
			case *ssa.Return:
				return x
			case *ssa.Store:
				if x.Val == v && IsLocalCell(x.Addr) {
					for _, ref := range CellRefs(x.Addr) {
						if ld, ok := ref.(*ssa.UnOp); ok && ld.Op == token.MUL {
							if ret := walk(ld, depth+1); ret != nil {
								return ret
							}
						}
					}
				}
			case *ssa.ChangeType, *ssa.MakeInterface, *ssa.ChangeInterface, *ssa.Phi:
				if ret := walk(x.(ssa.Value), depth+1); ret != nil {
					return ret
				}
			}
		}
		return nil
	}
	return walk(v, 0)
}

// ReturnedValue returns the value a Return yields at index idx, looking through go/ssa's result spilling: in a function
// with defer the results are stored into a cell just before `rundefers` and reloaded for the return instruction.
func ReturnedValue(r *ssa.Return, idx int) ssa.Value {
	v := r.Results[idx]
	ld, ok := v.(*ssa.UnOp)
	if !ok || ld.Op != token.MUL || !IsLocalCell(ld.X) {
		return v
	}
	b := r.Block()
	var last ssa.Value
	for _, in := range b.Instrs {
		if st, ok := in.(*ssa.Store); ok && RootAlloc(st.Addr) == RootAlloc(ld.X) {
			last = st.Val
		}
	}
	if last != nil {
		return last
	}
	return v
}

// SameExpr: a and b are structurally the same pure expression over the same variables: identical values, equal constants,
// len/cap of the same expression, the same operator applied to the same operands, loads of the same variable (SameVar).
func SameExpr(a, b ssa.Value) bool {
	return sameExpr(a, b, 0)
}

func sameExpr(a, b ssa.Value, depth int) bool {
	if a == nil || b == nil || depth > 6 {
		return false
	}
	a, b = Strip(a), Strip(b)
	if a == b || SameVar(a, b) {
		return true
	}
	switch x := a.(type) {
	case *ssa.Const:
		y, ok := b.(*ssa.Const)
		if !ok {
			return false
		}
		if x.Value == nil || y.Value == nil {
			return x.Value == nil && y.Value == nil && types.Identical(x.Type(), y.Type())
		}
		return x.Value.ExactString() == y.Value.ExactString()
	case *ssa.Call:
		y, ok := b.(*ssa.Call)
		if !ok {
			return false
		}
		bx, okx := x.Call.Value.(*ssa.Builtin)
		by, oky := y.Call.Value.(*ssa.Builtin)
		if !okx || !oky || bx.Name() != by.Name() || (bx.Name() != "len" && bx.Name() != "cap") || len(x.Call.Args) != 1 || len(y.Call.Args) != 1 {
			return false
		}
		return sameExpr(x.Call.Args[0], y.Call.Args[0], depth+1)
	case *ssa.BinOp:
		y, ok := b.(*ssa.BinOp)
		return ok && x.Op == y.Op && sameExpr(x.X, y.X, depth+1) && sameExpr(x.Y, y.Y, depth+1)
	case *ssa.UnOp:
		y, ok := b.(*ssa.UnOp)
		return ok && x.Op == y.Op && x.Op != token.MUL && sameExpr(x.X, y.X, depth+1)
	case *ssa.Convert:
		y, ok := b.(*ssa.Convert)
		return ok && types.Identical(x.Type(), y.Type()) && sameExpr(x.X, y.X, depth+1)
	}
	return false
}
