package an

import (
	"strings"

	"golang.org/x/tools/go/ssa"
)

// LockOp classifies a call as Lock/Unlock of a sync.Mutex / sync.RWMutex and returns the mutex address.
func LockOp(in ssa.Instruction) (addr ssa.Value, lock, unlock, deferred bool) {
	call, ok := in.(ssa.CallInstruction)
	if !ok {
		return nil, false, false, false
	}
	_, isGo := in.(*ssa.Go)
	if isGo {
		return nil, false, false, false
	}
	_, deferred = in.(*ssa.Defer)
	n := CalleeOf(call).FullName()
	switch n {
	case "(*sync.Mutex).Lock", "(*sync.RWMutex).Lock", "(*sync.RWMutex).RLock":
		return call.Common().Args[0], true, false, deferred
	case "(*sync.Mutex).Unlock", "(*sync.RWMutex).Unlock", "(*sync.RWMutex).RUnlock":
		return call.Common().Args[0], false, true, deferred
	}
	return nil, false, false, false
}

// LockKey is a textual identity for a mutex address ("c.mu", "t3.errorsMu"); "" if unknown.
func LockKey(addr ssa.Value) string { return Path(addr) }

// Locksets computes, for every instruction of fn, the set of mutex keys that are definitely held
// immediately before it (must-analysis: intersection at joins).  `defer m.Unlock()` does not
// release (the lock is held until the function returns); a deferred closure that unlocks is
// treated the same way.
func Locksets(fn *ssa.Function) map[ssa.Instruction]map[string]bool {
	type set = map[string]bool
	in := map[*ssa.BasicBlock]set{}
	out := map[*ssa.BasicBlock]set{}
	top := set{"\x00TOP": true}
	isTop := func(s set) bool { return s["\x00TOP"] }
	for _, b := range fn.Blocks {
		out[b] = top
	}
	copySet := func(s set) set {
		c := set{}
		for k := range s {
			c[k] = true
		}
		return c
	}
	transfer := func(b *ssa.BasicBlock, s set, rec map[ssa.Instruction]set) set {
		cur := copySet(s)
		for _, instr := range b.Instrs {
			if rec != nil {
				rec[instr] = copySet(cur)
			}
			addr, lock, unlock, deferred := LockOp(instr)
			if addr == nil {
				continue
			}
			k := LockKey(addr)
			if k == "" {
				continue
			}
			if lock && !deferred {
				cur[k] = true
			}
			if unlock && !deferred {
				delete(cur, k)
			}
		}
		return cur
	}
	changed := true
	for iter := 0; changed && iter < 50; iter++ {
		changed = false
		for _, b := range fn.Blocks {
			var s set
			if len(b.Preds) == 0 {
				s = set{}
			} else {
				for _, p := range b.Preds {
					po := out[p]
					if isTop(po) {
						continue
					}
					if s == nil {
						s = copySet(po)
					} else {
						for k := range s {
							if !po[k] {
								delete(s, k)
							}
						}
					}
				}
				if s == nil {
					s = top
				}
			}
			in[b] = s
			var o set
			if isTop(s) {
				o = top
			} else {
				o = transfer(b, s, nil)
			}
			if !sameSet(o, out[b]) {
				out[b] = o
				changed = true
			}
		}
	}
	rec := map[ssa.Instruction]set{}
	for _, b := range fn.Blocks {
		s := in[b]
		if s == nil || isTop(s) {
			s = set{}
		}
		transfer(b, s, rec)
	}
	return rec
}

func sameSet(a, b map[string]bool) bool {
	if len(a) != len(b) {
		return false
	}
	for k := range a {
		if !b[k] {
			return false
		}
	}
	return true
}

// HeldFor reports whether a lock whose key is base+"."+lockField is held in ls.
func HeldFor(ls map[string]bool, base string, lockField string) bool {
	return ls[base+"."+lockField]
}

// BasePath returns the access path of the struct a field address belongs to ("c*" for c.active).
func BasePath(fieldAddr ssa.Value) (base, field string) {
	p := Path(fieldAddr)
	i := strings.LastIndex(p, ".")
	if i < 0 {
		return "", ""
	}
	return p[:i], p[i+1:]
}

// WrappedClosure describes a call H(..., func(){...}, ...) where H is a function with a body that calls that
// parameter itself ("run this under my lock" helpers).
type WrappedClosure struct {
	Call    ssa.CallInstruction
	Wrapper *ssa.Function
	Closure *ssa.Function
	Invokes []*ssa.Call // direct calls of the parameter inside Wrapper
	Escapes bool        // the parameter is also used in some other way (stored, deferred, passed on, go) inside Wrapper
	Once    bool        // exactly one invoke, outside any loop, dominating every return of Wrapper
}

// WrappedClosures lists the closure-taking helper calls of fn (go and defer statements are not included).
func WrappedClosures(fn *ssa.Function) []WrappedClosure {
	var out []WrappedClosure
	for _, b := range fn.Blocks {
		for _, in := range b.Instrs {
			call, ok := in.(*ssa.Call)
			if !ok {
				continue
			}
			h := call.Call.StaticCallee()
			if h == nil || len(h.Blocks) == 0 {
				continue
			}
			for i, a := range call.Call.Args {
				mc, ok := Strip(a).(*ssa.MakeClosure)
				if !ok || i >= len(h.Params) {
					continue
				}
				cl, _ := mc.Fn.(*ssa.Function)
				if cl == nil {
					continue
				}
				w := WrappedClosure{Call: call, Wrapper: h, Closure: cl}
				p := h.Params[i]
				for _, r := range Referrers(p) {
					if c2, ok := r.(*ssa.Call); ok && c2.Call.Value == ssa.Value(p) && !c2.Call.IsInvoke() {
						uses := 0
						for _, op := range c2.Operands(nil) {
							if *op == ssa.Value(p) {
								uses++
							}
						}
						if uses == 1 {
							w.Invokes = append(w.Invokes, c2)
							continue
						}
					}
					if _, isDbg := r.(*ssa.DebugRef); isDbg {
						continue
					}
					w.Escapes = true
				}
				if len(w.Invokes) == 0 && !w.Escapes {
					continue // the parameter is never used
				}
				if len(w.Invokes) == 1 && !w.Escapes && !CanReach(w.Invokes[0], w.Invokes[0]) {
					w.Once = true
					for _, r := range Returns(h) {
						if h.Recover != nil && r.Block() == h.Recover {
							continue // resumption point after a recovered panic, not a normal exit
						}
						if !Before(w.Invokes[0], r) {
							w.Once = false
						}
					}
				}
				out = append(out, w)
			}
		}
	}
	return out
}

// HeldViaWrapper reports whether closure fn only ever runs inside same-program helpers that call it while holding the
// mutex field lockField of the very object obj (a value of fn): every creation site of fn hands the closure directly to a
// wrapper H (see WrappedClosures) that does nothing else with it, some argument j of that call is the same variable as
// obj, and at every invocation inside H the must-lockset contains <H.Params[j]>.<lockField>.
func HeldViaWrapper(fn *ssa.Function, obj ssa.Value, lockField string) bool {
	if fn == nil || fn.Parent() == nil || obj == nil {
		return false
	}
	sites := creationSites(fn)
	if len(sites) == 0 {
		return false
	}
	for _, s := range sites {
		mc := s.(*ssa.MakeClosure)
		wcs := WrappedClosures(mc.Parent())
		n := 0
		for _, r := range Referrers(mc) {
			if _, isDbg := r.(*ssa.DebugRef); isDbg {
				continue
			}
			n++
			c2, ok := r.(*ssa.Call)
			if !ok {
				return false
			}
			var w *WrappedClosure
			for i := range wcs {
				if wcs[i].Call == ssa.CallInstruction(c2) && wcs[i].Closure == fn {
					w = &wcs[i]
				}
			}
			if w == nil || w.Escapes || len(w.Invokes) == 0 {
				return false
			}
			ls := Locksets(w.Wrapper)
			found := false
			for j, p := range w.Wrapper.Params {
				if j >= len(c2.Call.Args) || !SameVar(obj, c2.Call.Args[j]) {
					continue
				}
				all := true
				for _, inv := range w.Invokes {
					if !ls[inv][p.Name()+"."+lockField] {
						all = false
					}
				}
				if all {
					found = true
				}
			}
			if !found {
				return false
			}
		}
		if n == 0 {
			return false
		}
	}
	return true
}

// InlineScope returns fn together with the function literals that fn hands to a helper which calls them itself and does
// nothing else with them (see WrappedClosures): their bodies run as part of fn, at the helper call.
func InlineScope(fn *ssa.Function) []*ssa.Function {
	out := []*ssa.Function{fn}
	seen := map[*ssa.Function]bool{fn: true}
	for i := 0; i < len(out); i++ {
		for _, w := range WrappedClosures(out[i]) {
			if !w.Escapes && len(w.Invokes) > 0 && !seen[w.Closure] {
				seen[w.Closure] = true
				out = append(out, w.Closure)
			}
		}
	}
	return out
}

// MayLocksets is the union variant of Locksets: the locks that are held on at least one path reaching the instruction
// (lock taken by a non-deferred Lock/RLock and not released by a non-deferred Unlock on that path).
func MayLocksets(fn *ssa.Function) map[ssa.Instruction]map[string]bool {
	type set = map[string]bool
	out := map[*ssa.BasicBlock]set{}
	copySet := func(s set) set {
		c := set{}
		for k := range s {
			c[k] = true
		}
		return c
	}
	transfer := func(b *ssa.BasicBlock, s set, rec map[ssa.Instruction]set) set {
		cur := copySet(s)
		for _, instr := range b.Instrs {
			if rec != nil {
				rec[instr] = copySet(cur)
			}
			addr, lock, unlock, deferred := LockOp(instr)
			if addr == nil {
				continue
			}
			k := LockKey(addr)
			if k == "" {
				continue
			}
			if lock && !deferred {
				cur[k] = true
			}
			if unlock && !deferred {
				delete(cur, k)
			}
		}
		return cur
	}
	inOf := func(b *ssa.BasicBlock) set {
		s := set{}
		for _, p := range b.Preds {
			for k := range out[p] {
				s[k] = true
			}
		}
		return s
	}
	changed := true
	for iter := 0; changed && iter < 50; iter++ {
		changed = false
		for _, b := range fn.Blocks {
			o := transfer(b, inOf(b), nil)
			if !sameSet(o, out[b]) {
				out[b] = o
				changed = true
			}
		}
	}
	rec := map[ssa.Instruction]set{}
	for _, b := range fn.Blocks {
		transfer(b, inOf(b), rec)
	}
	return rec
}
