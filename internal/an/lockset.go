package an

import (
	"strings"

	"golang.org/x/tools/go/ssa"
)

// LockOp classifies a call as Lock/Unlock of a sync.Mutex / sync.RWMutex and returns the mutex address.
func LockOp(in ssa.Instruction) (addr ssa.Value, lock, unlock, deferred bool) {
	call, ok := in.(ssa.CallInstruction)
	if !ok {
		return nil, false, false, false
	}
	_, isGo := in.(*ssa.Go)
	if isGo {
		return nil, false, false, false
	}
	_, deferred = in.(*ssa.Defer)
	n := CalleeOf(call).FullName()
	switch n {
	case "(*sync.Mutex).Lock", "(*sync.RWMutex).Lock", "(*sync.RWMutex).RLock":
		return call.Common().Args[0], true, false, deferred
	case "(*sync.Mutex).Unlock", "(*sync.RWMutex).Unlock", "(*sync.RWMutex).RUnlock":
		return call.Common().Args[0], false, true, deferred
	}
	return nil, false, false, false
}

// LockKey is a textual identity for a mutex address ("c.mu", "t3.errorsMu"); "" if unknown.
func LockKey(addr ssa.Value) string { return Path(addr) }

// Locksets computes, for every instruction of fn, the set of mutex keys that are definitely held
// immediately before it (must-analysis: intersection at joins).  `defer m.Unlock()` does not
// release (the lock is held until the function returns); a deferred closure that unlocks is
// treated the same way.
func Locksets(fn *ssa.Function) map[ssa.Instruction]map[string]bool {
	type set = map[string]bool
	in := map[*ssa.BasicBlock]set{}
	out := map[*ssa.BasicBlock]set{}
	top := set{"\x00TOP": true}
	isTop := func(s set) bool { return s["\x00TOP"] }
	for _, b := range fn.Blocks {
		out[b] = top
	}
	copySet := func(s set) set {
		c := set{}
		for k := range s {
			c[k] = true
		}
		return c
	}
	transfer := func(b *ssa.BasicBlock, s set, rec map[ssa.Instruction]set) set {
		cur := copySet(s)
		for _, instr := range b.Instrs {
			if rec != nil {
				rec[instr] = copySet(cur)
			}
			addr, lock, unlock, deferred := LockOp(instr)
			if addr == nil {
				continue
			}
			k := LockKey(addr)
			if k == "" {
				continue
			}
			if lock && !deferred {
				cur[k] = true
			}
			if unlock && !deferred {
				delete(cur, k)
			}
		}
		return cur
	}
	changed := true
	for iter := 0; changed && iter < 50; iter++ {
		changed = false
		for _, b := range fn.Blocks {
			var s set
			if len(b.Preds) == 0 {
				s = set{}
			} else {
				for _, p := range b.Preds {
					po := out[p]
					if isTop(po) {
						continue
					}
					if s == nil {
						s = copySet(po)
					} else {
						for k := range s {
							if !po[k] {
								delete(s, k)
							}
						}
					}
				}
				if s == nil {
					s = top
				}
			}
			in[b] = s
			var o set
			if isTop(s) {
				o = top
			} else {
				o = transfer(b, s, nil)
			}
			if !sameSet(o, out[b]) {
				out[b] = o
				changed = true
			}
		}
	}
	rec := map[ssa.Instruction]set{}
	for _, b := range fn.Blocks {
		s := in[b]
		if s == nil || isTop(s) {
			s = set{}
		}
		transfer(b, s, rec)
	}
	return rec
}

func sameSet(a, b map[string]bool) bool {
	if len(a) != len(b) {
		return false
	}
	for k := range a {
		if !b[k] {
			return false
		}
	}
	return true
}

// HeldFor reports whether a lock whose key is base+"."+lockField is held in ls.
func HeldFor(ls map[string]bool, base string, lockField string) bool {
	return ls[base+"."+lockField]
}

// BasePath returns the access path of the struct a field address belongs to ("c*" for c.active).
func BasePath(fieldAddr ssa.Value) (base, field string) {
	p := Path(fieldAddr)
	i := strings.LastIndex(p, ".")
	if i < 0 {
		return "", ""
	}
	return p[:i], p[i+1:]
}
