// Package an is the shared analysis toolkit (DESIGN.md §2.2): edge-dominance guards (G1),
// path pairing (G2), effects/reachability (G3), locksets (G4), goroutines (G5), recover
// containment (G6) and helpers to resolve callees and access paths on go/ssa.
package an

import (
	"go/constant"
	"go/token"
	"go/types"
	"strings"

	"golang.org/x/tools/go/ssa"
)

// Guard is a branch condition known to hold (Branch=true: the true edge) at some program point.
type Guard struct {
	Cond   ssa.Value
	Branch bool
	If     *ssa.If
}

// backEdgeFree reports the predecessors of b that are not dominated by b (i.e. not loop back edges).
func forwardPreds(b *ssa.BasicBlock) []*ssa.BasicBlock {
	var out []*ssa.BasicBlock
	for _, p := range b.Preds {
		if !b.Dominates(p) && !Infeasible[Edge{p, b}] {
			out = append(out, p)
		}
	}
	return out
}

// Edge is a CFG edge.
type Edge struct{ From, To *ssa.BasicBlock }

// Infeasible is the set of CFG edges proved infeasible by a lemma (e.g. the !ok edge of a type
// assertion whose operand is proved to always have the asserted dynamic type).  Rules add to it
// only after discharging the lemma as an obligation of its own.
var Infeasible = map[Edge]bool{}

// BlockGuards returns every branch condition whose *edge* dominates block b: for each dominator X
// of b (b included) that has exactly one forward predecessor P ending in an If with distinct
// successors, the condition of P with the polarity of the edge P->X.  A join block after an
// if-without-else has two forward predecessors and therefore contributes nothing.
func BlockGuards(b *ssa.BasicBlock) []Guard {
	var out []Guard
	for x := b; x != nil; x = x.Idom() {
		fp := forwardPreds(x)
		if len(fp) != 1 {
			continue
		}
		p := fp[0]
		if len(p.Instrs) == 0 {
			continue
		}
		iff, ok := p.Instrs[len(p.Instrs)-1].(*ssa.If)
		if !ok || len(p.Succs) != 2 || p.Succs[0] == p.Succs[1] {
			continue
		}
		out = append(out, Guard{Cond: iff.Cond, Branch: p.Succs[0] == x, If: iff})
	}
	return out
}

// creationSites returns the instructions that create closure fn (MakeClosure in the parent).
func creationSites(fn *ssa.Function) []ssa.Instruction {
	par := fn.Parent()
	if par == nil {
		return nil
	}
	var out []ssa.Instruction
	for _, b := range par.Blocks {
		for _, in := range b.Instrs {
			if mc, ok := in.(*ssa.MakeClosure); ok && mc.Fn == fn {
				out = append(out, mc)
			}
		}
	}
	return out
}

// Guards returns the guards holding at instr, lifted through closure creation: guards that hold
// at *every* creation site of the enclosing closure(s) also hold inside.
func Guards(instr ssa.Instruction) []Guard {
	out := BlockGuards(instr.Block())
	fn := instr.Parent()
	for fn != nil && fn.Parent() != nil {
		sites := creationSites(fn)
		if len(sites) == 0 {
			break
		}
		common := BlockGuards(sites[0].Block())
		for _, s := range sites[1:] {
			gs := BlockGuards(s.Block())
			var keep []Guard
			for _, g := range common {
				for _, h := range gs {
					if g.Cond == h.Cond && g.Branch == h.Branch {
						keep = append(keep, g)
						break
					}
				}
			}
			common = keep
		}
		out = append(out, common...)
		fn = fn.Parent()
	}
	return out
}

// Fact is a normalised atomic comparison known to hold.
type Fact struct {
	Op   token.Token // EQL NEQ LSS LEQ GTR GEQ, or ILLEGAL for a boolean value
	X, Y ssa.Value   // for ILLEGAL: X is the boolean value, Y nil
	Neg  bool        // for ILLEGAL: value is false
}

func negate(op token.Token) token.Token {
	switch op {
	case token.EQL:
		return token.NEQ
	case token.NEQ:
		return token.EQL
	case token.LSS:
		return token.GEQ
	case token.GEQ:
		return token.LSS
	case token.GTR:
		return token.LEQ
	case token.LEQ:
		return token.GTR
	}
	return token.ILLEGAL
}

// FactOf normalises a guard: strips NOT, flips comparison operators on the false edge.
func FactOf(g Guard) Fact {
	v, br := g.Cond, g.Branch
	for {
		if u, ok := v.(*ssa.UnOp); ok && u.Op == token.NOT {
			v, br = u.X, !br
			continue
		}
		// a boolean kept in a field of a struct literal built in this function (`s := &T{Flag: x != ""}; … if s.Flag`): the
		// field's single store, made before the struct can have been handed to anyone, is what the load observes
		if u, ok := v.(*ssa.UnOp); ok && u.Op == token.MUL {
			if sv := fieldOfFreshStruct(u); sv != nil {
				v = sv
				continue
			}
		}
		// b == false, b != true, true == b ... : a comparison of a boolean with a boolean constant is that boolean (or its negation)
		if bo, ok := v.(*ssa.BinOp); ok && (bo.Op == token.EQL || bo.Op == token.NEQ) {
			other, cv, isC := ssa.Value(nil), false, false
			if k, ok := bo.Y.(*ssa.Const); ok && k.Value != nil && k.Value.Kind() == constant.Bool {
				other, cv, isC = bo.X, constant.BoolVal(k.Value), true
			} else if k, ok := bo.X.(*ssa.Const); ok && k.Value != nil && k.Value.Kind() == constant.Bool {
				other, cv, isC = bo.Y, constant.BoolVal(k.Value), true
			}
			if isC {
				if (bo.Op == token.EQL) != cv {
					br = !br
				}
				v = other
				continue
			}
		}
		break
	}
	if b, ok := v.(*ssa.BinOp); ok {
		switch b.Op {
		case token.EQL, token.NEQ, token.LSS, token.LEQ, token.GTR, token.GEQ:
			op := b.Op
			if !br {
				op = negate(op)
			}
			return Fact{Op: op, X: b.X, Y: b.Y}
		}
	}
	return Fact{Op: token.ILLEGAL, X: v, Neg: !br}
}

// Facts returns the normalised facts at instr.
func Facts(instr ssa.Instruction) []Fact {
	gs := Guards(instr)
	out := make([]Fact, 0, len(gs))
	seen := map[ssa.Value]bool{}
	var add func(g Guard, depth int)
	add = func(g Guard, depth int) {
		out = append(out, FactOf(g))
		// a short-circuit condition kept as a value (`case a && b:` is built as phi[false, b]): when it is true it was
		// reached through the one edge that is not the constant false, so b holds and so does everything that guards that
		// edge (a among it); dually for `||` found false
		phi, ok := g.Cond.(*ssa.Phi)
		if !ok || depth > 3 || seen[phi] {
			return
		}
		var want bool
		switch {
		case phi.Comment == "&&" && g.Branch:
			want = false
		case phi.Comment == "||" && !g.Branch:
			want = true
		default:
			return
		}
		seen[phi] = true
		idx := -1
		for i, e := range phi.Edges {
			if k, isC := e.(*ssa.Const); isC && k.Value != nil && k.Value.Kind() == constant.Bool && constant.BoolVal(k.Value) == want {
				continue
			}
			if idx >= 0 {
				return // more than one way to get this value
			}
			idx = i
		}
		if idx < 0 || idx >= len(phi.Block().Preds) {
			return
		}
		add(Guard{Cond: phi.Edges[idx], Branch: g.Branch}, depth+1)
		for _, g2 := range BlockGuards(phi.Block().Preds[idx]) {
			add(g2, depth+1)
		}
	}
	for _, g := range gs {
		add(g, 0)
	}
	return out
}

// IsNilConst reports whether v is the nil constant (of any type).
func IsNilConst(v ssa.Value) bool {
	c, ok := v.(*ssa.Const)
	return ok && c.Value == nil && !isBasicNonNil(c.Type())
}

func isBasicNonNil(t types.Type) bool {
	b, ok := t.Underlying().(*types.Basic)
	return ok && b.Kind() != types.UntypedNil && b.Kind() != types.UnsafePointer
}

// ConstInt returns the integer value of a constant.
func ConstInt(v ssa.Value) (int64, bool) {
	c, ok := v.(*ssa.Const)
	if !ok || c.Value == nil || c.Value.Kind() != constant.Int {
		return 0, false
	}
	return c.Int64(), true
}

// ConstString returns the string value of a constant.
func ConstString(v ssa.Value) (string, bool) {
	c, ok := v.(*ssa.Const)
	if !ok || c.Value == nil || c.Value.Kind() != constant.String {
		return "", false
	}
	return constant.StringVal(c.Value), true
}

// Strip removes value-preserving wrappers: ChangeType, ChangeInterface, MakeInterface (optional),
// Convert between identical underlying types.
func Strip(v ssa.Value) ssa.Value {
	for {
		switch x := v.(type) {
		case *ssa.ChangeType:
			v = x.X
		case *ssa.ChangeInterface:
			v = x.X
		case *ssa.MakeInterface:
			v = x.X
		default:
			return v
		}
	}
}

// Path is a textual access path for a value: root identity plus field/deref/extract steps.  Two
// values with the same non-empty path denote the same storage or the same extracted result.
func Path(v ssa.Value) string {
	var steps []string
	for i := 0; i < 32; i++ {
		switch x := v.(type) {
		case *ssa.UnOp:
			if x.Op == token.MUL {
				steps = append(steps, "*")
				v = x.X
				continue
			}
			return ""
		case *ssa.FieldAddr:
			steps = append(steps, "."+fieldName(x.X.Type(), x.Field))
			v = x.X
			continue
		case *ssa.Field:
			steps = append(steps, "."+fieldName(x.X.Type(), x.Field))
			v = x.X
			continue
		case *ssa.ChangeType:
			v = x.X
			continue
		case *ssa.Extract:
			steps = append(steps, "#"+itoa(x.Index))
			v = x.Tuple
			continue
		case *ssa.Alloc, *ssa.Parameter, *ssa.FreeVar, *ssa.Global, *ssa.Call, *ssa.Phi, *ssa.TypeAssert, *ssa.MakeClosure, *ssa.Lookup, *ssa.Next:
			root := x.Name()
			if g, ok := x.(*ssa.Global); ok {
				root = g.String()
			}
			// reverse steps
			var sb strings.Builder
			sb.WriteString(root)
			for j := len(steps) - 1; j >= 0; j-- {
				sb.WriteString(steps[j])
			}
			_ = x
			return sb.String()
		default:
			return ""
		}
	}
	return ""
}

func itoa(i int) string {
	if i == 0 {
		return "0"
	}
	s := ""
	neg := i < 0
	if neg {
		i = -i
	}
	for i > 0 {
		s = string(rune('0'+i%10)) + s
		i /= 10
	}
	if neg {
		s = "-" + s
	}
	return s
}

func fieldName(t types.Type, idx int) string {
	if p, ok := t.Underlying().(*types.Pointer); ok {
		t = p.Elem()
	}
	if s, ok := t.Underlying().(*types.Struct); ok && idx < s.NumFields() {
		return s.Field(idx).Name()
	}
	return "?" + itoa(idx)
}

// SameValue: identical SSA value (after stripping wrappers) or identical non-empty access path
// within one function.
func SameValue(a, b ssa.Value) bool {
	a, b = Strip(a), Strip(b)
	if a == b {
		return true
	}
	pa, pb := Path(a), Path(b)
	return pa != "" && pa == pb && sameFunc(a, b)
}

func sameFunc(a, b ssa.Value) bool {
	fa, fb := a.Parent(), b.Parent()
	return fa == fb
}

// Callee resolves the static callee or interface method of a call.
type CalleeInfo struct {
	Static *ssa.Function // non-nil for static calls (incl. closures called directly)
	Method *types.Func   // non-nil for interface-method (invoke) calls
	Recv   ssa.Value     // receiver / first arg for method calls
}

func CalleeOf(c ssa.CallInstruction) CalleeInfo {
	cc := c.Common()
	if cc.IsInvoke() {
		return CalleeInfo{Method: cc.Method, Recv: cc.Value}
	}
	if f := cc.StaticCallee(); f != nil {
		ci := CalleeInfo{Static: f}
		if f.Signature.Recv() != nil && len(cc.Args) > 0 {
			ci.Recv = cc.Args[0]
		}
		return ci
	}
	return CalleeInfo{}
}

// FullName is "pkgpath.Func" or "(pkgpath.T).Method" / "(*pkgpath.T).Method" of the callee;
// for interface methods "(pkgpath.Iface).Method".
func (ci CalleeInfo) FullName() string {
	if ci.Static != nil {
		f := ci.Static
		if o := f.Origin(); o != nil {
			f = o
		}
		return f.String()
	}
	if ci.Method != nil {
		return ci.Method.FullName()
	}
	return ""
}

// IsCallTo reports whether instr is a call (call/go/defer) whose resolved callee has one of the
// given full names.
func IsCallTo(instr ssa.Instruction, names ...string) (ssa.CallInstruction, bool) {
	c, ok := instr.(ssa.CallInstruction)
	if !ok {
		return nil, false
	}
	fn := CalleeOf(c).FullName()
	if fn == "" {
		return nil, false
	}
	for _, n := range names {
		if fn == n {
			return c, true
		}
	}
	return nil, false
}

// CallsIn lists the call instructions in fn (not descending into closures) satisfying pred.
func CallsIn(fn *ssa.Function, pred func(ssa.CallInstruction, CalleeInfo) bool) []ssa.CallInstruction {
	var out []ssa.CallInstruction
	for _, b := range fn.Blocks {
		for _, in := range b.Instrs {
			if c, ok := in.(ssa.CallInstruction); ok {
				if pred(c, CalleeOf(c)) {
					out = append(out, c)
				}
			}
		}
	}
	return out
}

// WithClosures returns fn and all anonymous functions nested in it, transitively.
func WithClosures(fn *ssa.Function) []*ssa.Function {
	out := []*ssa.Function{fn}
	for i := 0; i < len(out); i++ {
		out = append(out, out[i].AnonFuncs...)
	}
	return out
}

// Referrers is a nil-safe accessor.
func Referrers(v ssa.Value) []ssa.Instruction {
	if r := v.Referrers(); r != nil {
		return *r
	}
	return nil
}

// fieldOfFreshStruct: load is `*(&alloc.f)` of a struct allocated in the same function, field f is stored exactly once, that
// store dominates the load, and every use of the struct other than field accesses comes after the load.
func fieldOfFreshStruct(load *ssa.UnOp) ssa.Value {
	fa, ok := load.X.(*ssa.FieldAddr)
	if !ok {
		return nil
	}
	al, ok := fa.X.(*ssa.Alloc)
	if !ok || al.Referrers() == nil {
		return nil
	}
	var st *ssa.Store
	n := 0
	for _, r := range *al.Referrers() {
		fa2, ok := r.(*ssa.FieldAddr)
		if !ok {
			// the struct itself is used (handed on, stored): only acceptable after the load
			if in, ok := r.(ssa.Instruction); ok && !Before(load, in) {
				return nil
			}
			continue
		}
		if fa2.Field != fa.Field || fa2.Referrers() == nil {
			continue
		}
		for _, r2 := range *fa2.Referrers() {
			if s, ok := r2.(*ssa.Store); ok && s.Addr == ssa.Value(fa2) {
				st = s
				n++
			}
		}
	}
	if n != 1 || !Before(st, load) {
		return nil
	}
	return st.Val
}
