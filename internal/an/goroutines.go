package an

import (
	"go/token"
	"go/types"
	"strings"

	"golang.org/x/tools/go/ssa"
)

// GoSite is one `go` statement.
type GoSite struct {
	Go     *ssa.Go
	Callee *ssa.Function // nil if not statically known
}

// GoSites lists the go statements of fn and its closures.
func GoSites(fn *ssa.Function) []GoSite {
	var out []GoSite
	for _, f := range WithClosures(fn) {
		for _, b := range f.Blocks {
			for _, in := range b.Instrs {
				g, ok := in.(*ssa.Go)
				if !ok {
					continue
				}
				s := GoSite{Go: g}
				switch v := g.Call.Value.(type) {
				case *ssa.MakeClosure:
					s.Callee = v.Fn.(*ssa.Function)
				case *ssa.Function:
					s.Callee = v
				}
				if s.Callee == nil {
					s.Callee = g.Call.StaticCallee()
				}
				out = append(out, s)
			}
		}
	}
	return out
}

// IsDoneChan: v is a channel used as a cancellation signal: ctx.Done() (possibly through a variable)
// or a struct field / variable named done/closed/quit/stop of channel type.
func IsDoneChan(v ssa.Value) bool {
	for _, d := range Defs(v) {
		switch x := d.(type) {
		case *ssa.Call:
			if x.Call.IsInvoke() && x.Call.Method.Name() == "Done" && strings.HasSuffix(x.Call.Value.Type().String(), "context.Context") {
				continue
			}
			return false
		case *ssa.UnOp:
			if x.Op == token.MUL {
				if fa, ok := x.X.(*ssa.FieldAddr); ok {
					n := strings.ToLower(fieldName(fa.X.Type(), fa.Field))
					if n == "done" || n == "quit" || n == "stop" || n == "closed" {
						continue
					}
				}
			}
			return false
		default:
			return false
		}
	}
	return true
}

// inCycle reports whether block b can reach itself.
func inCycle(b *ssa.BasicBlock) bool {
	for _, s := range b.Succs {
		if Reach(s, nil)[b] {
			return true
		}
	}
	return false
}

// reachesReturnWithout: from block start a Return is reachable without passing through block avoid.
func reachesReturnWithout(start, avoid *ssa.BasicBlock) bool {
	seen := Reach(start, func(b *ssa.BasicBlock) bool { return b == avoid })
	for b := range seen {
		if b == avoid {
			continue
		}
		if len(b.Instrs) > 0 {
			if _, ok := b.Instrs[len(b.Instrs)-1].(*ssa.Return); ok {
				return true
			}
		}
	}
	return false
}

// selectDoneExit: the select has a receive state on a done channel whose case leads to a return
// without re-entering the select's block.
func selectDoneExit(sel *ssa.Select) bool {
	for i, st := range sel.States {
		if st.Dir != types.RecvOnly || !IsDoneChan(st.Chan) {
			continue
		}
		// find the block taken when index == i: `t = extract sel #0; if t == i goto X`
		for _, r := range Referrers(sel) {
			ex, ok := r.(*ssa.Extract)
			if !ok || ex.Index != 0 {
				continue
			}
			for _, u := range Referrers(ex) {
				bo, ok := u.(*ssa.BinOp)
				if !ok || bo.Op != token.EQL {
					continue
				}
				n, isC := ConstInt(bo.Y)
				if !isC || int(n) != i {
					continue
				}
				for _, u2 := range Referrers(bo) {
					if iff, ok := u2.(*ssa.If); ok {
						if reachesReturnWithout(iff.Block().Succs[0], sel.Block()) {
							return true
						}
					}
				}
			}
		}
	}
	return false
}

// chanCap returns the constant capacity of the channel value (MakeChan through variables), or -1.
func chanCap(v ssa.Value) int64 {
	cap := int64(-1)
	for _, d := range Defs(v) {
		mc, ok := d.(*ssa.MakeChan)
		if !ok {
			return -1
		}
		n, isC := ConstInt(mc.Size)
		if !isC {
			return -1
		}
		if cap == -1 || n < cap {
			cap = n
		}
	}
	return cap
}

// TerminationWitness examines a goroutine body (fn and its closures are NOT followed into callees)
// and returns problems that prevent a termination argument:
//   - a loop (cycle) without a select case on a done channel that exits,
//   - a blocking send outside select on a channel whose capacity is not a positive constant
//     (or that is sent to more than cap times on one path),
//   - a blocking receive outside select on something other than a done channel.
//
// `accept` lets the caller whitelist individual instructions (reviewed table).
func TerminationWitness(fn *ssa.Function, accept func(ssa.Instruction) bool) (problems []string, witness []string) {
	for _, b := range fn.Blocks {
		cyc := inCycle(b)
		for _, in := range b.Instrs {
			if accept != nil && accept(in) {
				continue
			}
			switch x := in.(type) {
			case *ssa.Send:
				c := chanCap(x.Chan)
				if c >= 1 && !cyc {
					witness = append(witness, "send on channel of capacity ≥1 outside any loop")
					continue
				}
				problems = append(problems, "blocking send outside select on a channel that is unbuffered or of unknown capacity (nobody may be receiving)")
			case *ssa.UnOp:
				if x.Op == token.ARROW {
					if IsDoneChan(x.X) {
						witness = append(witness, "waits for a done/cancel channel")
						continue
					}
					problems = append(problems, "blocking receive outside select on a channel that is not a cancellation signal")
				}
			case *ssa.Select:
				if !x.Blocking {
					continue
				}
				if selectDoneExit(x) {
					witness = append(witness, "select with a done/cancel case that returns")
				} else if cyc {
					problems = append(problems, "loop select without a done/cancel case that returns")
				} else {
					problems = append(problems, "blocking select without a done/cancel case")
				}
			}
		}
	}
	// cycles must contain an exiting select (or be bounded range loops)
	for _, b := range fn.Blocks {
		if !inCycle(b) {
			continue
		}
		hasExit := false
		bounded := false
		for c := range Reach(b, nil) {
			if !Reach(c, nil)[b] {
				continue // not in the same cycle
			}
			for _, in := range c.Instrs {
				if s, ok := in.(*ssa.Select); ok && selectDoneExit(s) {
					hasExit = true
				}
				if p, ok := in.(*ssa.Phi); ok && p.Comment == "rangeindex" {
					bounded = true
				}
				if _, ok := in.(*ssa.Next); ok {
					bounded = true
				}
			}
		}
		if !hasExit && !bounded {
			// loops driven by a callee's result (responses(ctx) == nil) are reported for review
			problems = append(problems, "unbounded loop without a cancellation exit")
			break
		}
	}
	return dedup(problems), dedup(witness)
}

func dedup(in []string) []string {
	seen := map[string]bool{}
	var out []string
	for _, s := range in {
		if !seen[s] {
			seen[s] = true
			out = append(out, s)
		}
	}
	return out
}
