package an

import (
	"golang.org/x/tools/go/ssa"
)

// Reach returns the blocks forward-reachable from start (inclusive) over feasible edges.
// Blocks for which stop returns true are included but not expanded.
func Reach(start *ssa.BasicBlock, stop func(*ssa.BasicBlock) bool) map[*ssa.BasicBlock]bool {
	seen := map[*ssa.BasicBlock]bool{}
	var walk func(b *ssa.BasicBlock)
	walk = func(b *ssa.BasicBlock) {
		if seen[b] {
			return
		}
		seen[b] = true
		if stop != nil && stop(b) {
			return
		}
		for _, s := range b.Succs {
			if !Infeasible[Edge{b, s}] {
				walk(s)
			}
		}
	}
	walk(start)
	return seen
}

// Returns lists the Return instructions of fn.
func Returns(fn *ssa.Function) []*ssa.Return {
	var out []*ssa.Return
	for _, b := range fn.Blocks {
		if len(b.Instrs) > 0 {
			if r, ok := b.Instrs[len(b.Instrs)-1].(*ssa.Return); ok {
				out = append(out, r)
			}
		}
	}
	return out
}

// IfEdges enumerates every conditional edge of fn with its normalised fact.
type CondEdge struct {
	If   *ssa.If
	From *ssa.BasicBlock
	To   *ssa.BasicBlock
	Fact Fact
}

func CondEdges(fn *ssa.Function) []CondEdge {
	var out []CondEdge
	for _, b := range fn.Blocks {
		if len(b.Instrs) == 0 {
			continue
		}
		iff, ok := b.Instrs[len(b.Instrs)-1].(*ssa.If)
		if !ok || len(b.Succs) != 2 || b.Succs[0] == b.Succs[1] {
			continue
		}
		out = append(out,
			CondEdge{iff, b, b.Succs[0], FactOf(Guard{Cond: iff.Cond, Branch: true, If: iff})},
			CondEdge{iff, b, b.Succs[1], FactOf(Guard{Cond: iff.Cond, Branch: false, If: iff})})
	}
	return out
}

// InstrIndex returns the index of instr in its block.
func InstrIndex(in ssa.Instruction) int {
	for i, x := range in.Block().Instrs {
		if x == in {
			return i
		}
	}
	return -1
}

// Before reports whether a executes before b on every path that reaches b within one function:
// a's block strictly dominates b's, or same block and earlier index.
func Before(a, b ssa.Instruction) bool {
	if a.Parent() != b.Parent() {
		return false
	}
	if a.Block() == b.Block() {
		return InstrIndex(a) < InstrIndex(b)
	}
	return a.Block().Dominates(b.Block())
}

// CanReach reports whether instruction b is reachable from a (a != b) along feasible CFG edges.
func CanReach(a, b ssa.Instruction) bool {
	if a.Parent() != b.Parent() {
		return false
	}
	if a.Block() == b.Block() && InstrIndex(a) < InstrIndex(b) {
		return true
	}
	for _, s := range a.Block().Succs {
		if Infeasible[Edge{a.Block(), s}] {
			continue
		}
		if Reach(s, nil)[b.Block()] {
			return true
		}
	}
	return false
}

// ControlDeps computes, for every block of fn, the blocks ending in a conditional branch (If, or the Next/TypeSwitch style
// two-way jumps that go/ssa also lowers to If) on which it is directly control dependent (Ferrante–Ottenstein–Warren): B is
// control dependent on A when A has a successor S such that B post-dominates S (or is S) but B does not strictly
// post-dominate A.  Post-dominators are computed with a virtual exit that every Return and Panic block reaches.
func ControlDeps(fn *ssa.Function) map[*ssa.BasicBlock][]*ssa.BasicBlock {
	n := len(fn.Blocks)
	if n == 0 {
		return nil
	}
	// pdom[i] as bitset over n+1 nodes (index n = exit)
	words := (n + 1 + 63) / 64
	full := make([]uint64, words)
	for i := 0; i <= n; i++ {
		full[i/64] |= 1 << (uint(i) % 64)
	}
	pdom := make([][]uint64, n+1)
	for i := 0; i < n; i++ {
		pdom[i] = append([]uint64(nil), full...)
	}
	pdom[n] = make([]uint64, words)
	pdom[n][n/64] |= 1 << (uint(n) % 64)
	succs := func(b *ssa.BasicBlock) []int {
		if len(b.Succs) == 0 {
			return []int{n}
		}
		out := make([]int, 0, len(b.Succs))
		for _, s := range b.Succs {
			out = append(out, s.Index)
		}
		return out
	}
	for changed := true; changed; {
		changed = false
		for i := n - 1; i >= 0; i-- {
			b := fn.Blocks[i]
			cur := append([]uint64(nil), full...)
			for _, s := range succs(b) {
				for w := range cur {
					cur[w] &= pdom[s][w]
				}
			}
			cur[i/64] |= 1 << (uint(i) % 64)
			for w := range cur {
				if cur[w] != pdom[i][w] {
					pdom[i] = cur
					changed = true
					break
				}
			}
		}
	}
	has := func(set []uint64, i int) bool { return set[i/64]&(1<<(uint(i)%64)) != 0 }
	out := map[*ssa.BasicBlock][]*ssa.BasicBlock{}
	for _, a := range fn.Blocks {
		if len(a.Succs) < 2 {
			continue
		}
		for _, b := range fn.Blocks {
			// b strictly post-dominates a?
			if b != a && has(pdom[a.Index], b.Index) {
				continue
			}
			dep := false
			for _, s := range a.Succs {
				if has(pdom[s.Index], b.Index) {
					dep = true
				}
			}
			if dep {
				out[b] = append(out[b], a)
			}
		}
	}
	return out
}
