package an

import (
	"golang.org/x/tools/go/ssa"
)

// Reach returns the blocks forward-reachable from start (inclusive) over feasible edges.
// Blocks for which stop returns true are included but not expanded.
func Reach(start *ssa.BasicBlock, stop func(*ssa.BasicBlock) bool) map[*ssa.BasicBlock]bool {
	seen := map[*ssa.BasicBlock]bool{}
	var walk func(b *ssa.BasicBlock)
	walk = func(b *ssa.BasicBlock) {
		if seen[b] {
			return
		}
		seen[b] = true
		if stop != nil && stop(b) {
			return
		}
		for _, s := range b.Succs {
			if !Infeasible[Edge{b, s}] {
				walk(s)
			}
		}
	}
	walk(start)
	return seen
}

// Returns lists the Return instructions of fn.
func Returns(fn *ssa.Function) []*ssa.Return {
	var out []*ssa.Return
	for _, b := range fn.Blocks {
		if len(b.Instrs) > 0 {
			if r, ok := b.Instrs[len(b.Instrs)-1].(*ssa.Return); ok {
				out = append(out, r)
			}
		}
	}
	return out
}

// IfEdges enumerates every conditional edge of fn with its normalised fact.
type CondEdge struct {
	If   *ssa.If
	From *ssa.BasicBlock
	To   *ssa.BasicBlock
	Fact Fact
}

func CondEdges(fn *ssa.Function) []CondEdge {
	var out []CondEdge
	for _, b := range fn.Blocks {
		if len(b.Instrs) == 0 {
			continue
		}
		iff, ok := b.Instrs[len(b.Instrs)-1].(*ssa.If)
		if !ok || len(b.Succs) != 2 || b.Succs[0] == b.Succs[1] {
			continue
		}
		out = append(out,
			CondEdge{iff, b, b.Succs[0], FactOf(Guard{Cond: iff.Cond, Branch: true, If: iff})},
			CondEdge{iff, b, b.Succs[1], FactOf(Guard{Cond: iff.Cond, Branch: false, If: iff})})
	}
	return out
}

// InstrIndex returns the index of instr in its block.
func InstrIndex(in ssa.Instruction) int {
	for i, x := range in.Block().Instrs {
		if x == in {
			return i
		}
	}
	return -1
}

// Before reports whether a executes before b on every path that reaches b within one function:
// a's block strictly dominates b's, or same block and earlier index.
func Before(a, b ssa.Instruction) bool {
	if a.Parent() != b.Parent() {
		return false
	}
	if a.Block() == b.Block() {
		return InstrIndex(a) < InstrIndex(b)
	}
	return a.Block().Dominates(b.Block())
}

// CanReach reports whether instruction b is reachable from a (a != b) along feasible CFG edges.
func CanReach(a, b ssa.Instruction) bool {
	if a.Parent() != b.Parent() {
		return false
	}
	if a.Block() == b.Block() && InstrIndex(a) < InstrIndex(b) {
		return true
	}
	for _, s := range a.Block().Succs {
		if Infeasible[Edge{a.Block(), s}] {
			continue
		}
		if Reach(s, nil)[b.Block()] {
			return true
		}
	}
	return false
}
