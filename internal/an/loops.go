package an

import (
	"go/constant"
	"go/token"

	"golang.org/x/tools/go/ssa"
)

// Loop is a natural loop of a function's CFG.
type Loop struct {
	Header *ssa.BasicBlock
	Blocks map[*ssa.BasicBlock]bool
	// Exits are the CFG edges that leave the loop.
	Exits []Edge
}

// Loops returns the natural loops of fn (one per header; loops sharing a header are merged).
func Loops(fn *ssa.Function) []*Loop {
	by := map[*ssa.BasicBlock]*Loop{}
	var order []*ssa.BasicBlock
	for _, b := range fn.Blocks {
		for _, s := range b.Succs {
			if !s.Dominates(b) {
				continue
			}
			// back edge b -> s
			l := by[s]
			if l == nil {
				l = &Loop{Header: s, Blocks: map[*ssa.BasicBlock]bool{s: true}}
				by[s] = l
				order = append(order, s)
			}
			var stack []*ssa.BasicBlock
			if !l.Blocks[b] {
				l.Blocks[b] = true
				stack = append(stack, b)
			}
			for len(stack) > 0 {
				x := stack[len(stack)-1]
				stack = stack[:len(stack)-1]
				for _, p := range x.Preds {
					if !l.Blocks[p] {
						l.Blocks[p] = true
						stack = append(stack, p)
					}
				}
			}
		}
	}
	var out []*Loop
	for _, h := range order {
		l := by[h]
		for b := range l.Blocks {
			for _, s := range b.Succs {
				if !l.Blocks[s] {
					l.Exits = append(l.Exits, Edge{b, s})
				}
			}
		}
		out = append(out, l)
	}
	return out
}

// IndexRange describes which indices of a collection of length n a counting loop visits: [Lo, n+HiOff) — both ends relative as
// stated: Lo is an absolute constant, HiOff an offset from the collection's length (0 means "up to and including the last").
type IndexRange struct {
	Lo    int64
	HiOff int64
	Of    ssa.Value // the collection whose len() bounds the loop
	Index ssa.Value // the value that holds the current index inside the body
}

// LoopIndexRange recognises the counting loops the gc front end and hand-written code produce over a slice/array/string:
//
//	for i := range xs / for _, x := range xs   (go/ssa: i = phi(-1, i+1); i+1 < len(xs))
//	for i := c; i < len(xs)-k; i++             (and <=)
//	for i := len(xs)-k; i >= c; i--            (and >)
//
// and returns the index interval visited.  ok is false for any other shape.
func LoopIndexRange(l *Loop) (IndexRange, bool) {
	h := l.Header
	if len(h.Instrs) == 0 {
		return IndexRange{}, false
	}
	iff, ok := h.Instrs[len(h.Instrs)-1].(*ssa.If)
	if !ok {
		return IndexRange{}, false
	}
	cond, ok := iff.Cond.(*ssa.BinOp)
	if !ok {
		return IndexRange{}, false
	}
	// the true edge must stay in the loop
	stay := l.Blocks[h.Succs[0]]
	op := cond.Op
	if !stay {
		op = negate(op)
	}
	lenOf := func(v ssa.Value) (ssa.Value, int64, bool) {
		// len(x) + k
		off := int64(0)
		for i := 0; i < 3; i++ {
			if bo, ok := v.(*ssa.BinOp); ok && (bo.Op == token.ADD || bo.Op == token.SUB) {
				if k, isC := ConstInt(bo.Y); isC {
					if bo.Op == token.SUB {
						k = -k
					}
					off += k
					v = bo.X
					continue
				}
			}
			break
		}
		if call, ok := v.(*ssa.Call); ok {
			if bi, ok := call.Call.Value.(*ssa.Builtin); ok && bi.Name() == "len" {
				return call.Call.Args[0], off, true
			}
		}
		return nil, 0, false
	}
	// find the phi and its step
	type ind struct {
		phi  *ssa.Phi
		init ssa.Value
		step int64
	}
	var inds []ind
	for _, in := range h.Instrs {
		phi, ok := in.(*ssa.Phi)
		if !ok {
			break
		}
		var init ssa.Value
		step := int64(0)
		okp := true
		for i, e := range phi.Edges {
			if l.Blocks[h.Preds[i]] {
				bo, ok := e.(*ssa.BinOp)
				if !ok || (bo.Op != token.ADD && bo.Op != token.SUB) || bo.X != ssa.Value(phi) {
					okp = false
					break
				}
				k, isC := ConstInt(bo.Y)
				if !isC {
					okp = false
					break
				}
				if bo.Op == token.SUB {
					k = -k
				}
				if step != 0 && step != k {
					okp = false
				}
				step = k
			} else {
				if init != nil && init != e {
					okp = false
				}
				init = e
			}
		}
		if okp && init != nil && (step == 1 || step == -1) {
			inds = append(inds, ind{phi, init, step})
		}
	}
	for _, iv := range inds {
		// the compared value: phi itself, or phi+1 (range lowering)
		x, y := cond.X, cond.Y
		cop := op
		cur := ssa.Value(iv.phi) // value tested
		shift := int64(0)        // tested value = phi + shift
		matchIdx := func(v ssa.Value) bool {
			if v == ssa.Value(iv.phi) {
				shift = 0
				return true
			}
			if bo, ok := v.(*ssa.BinOp); ok && bo.Op == token.ADD && bo.X == ssa.Value(iv.phi) {
				if k, isC := ConstInt(bo.Y); isC {
					shift = k
					cur = bo
					return true
				}
			}
			return false
		}
		if !matchIdx(x) {
			if !matchIdx(y) {
				continue
			}
			x, y = y, x
			switch cop {
			case token.LSS:
				cop = token.GTR
			case token.GTR:
				cop = token.LSS
			case token.LEQ:
				cop = token.GEQ
			case token.GEQ:
				cop = token.LEQ
			}
		}
		if iv.step == 1 {
			// tested value t = phi+shift runs while t < len+k (or <=); body index is t when shift != 0 (range form) else phi
			coll, k, isLen := lenOf(y)
			i0, isC := ConstInt(iv.init)
			if !isLen || !isC {
				continue
			}
			hi := k
			if cop == token.LEQ {
				hi = k + 1
			} else if cop != token.LSS {
				continue
			}
			// indices visited (as values of the tested expression): [i0+shift, len+hi)
			return IndexRange{Lo: i0 + shift, HiOff: hi, Of: coll, Index: cur}, true
		}
		// descending: init = len(x)+k (+shift irrelevant), runs while t >= c (or > c)
		coll, k, isLen := lenOf(iv.init)
		c, isC := ConstInt(y)
		if !isLen || !isC || shift != 0 {
			continue
		}
		lo := c
		if cop == token.GTR {
			lo = c + 1
		} else if cop != token.GEQ {
			continue
		}
		return IndexRange{Lo: lo, HiOff: k + 1, Of: coll, Index: cur}, true
	}
	return IndexRange{}, false
}

// Full reports whether the range is exactly [0, len).
func (r IndexRange) Full() bool { return r.Lo == 0 && r.HiOff == 0 }

var _ = constant.MakeInt64
