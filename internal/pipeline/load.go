package pipeline

import (
	"fmt"
	"go/ast"
	"go/token"
	"go/types"
	"sort"
	"strings"

	"golang.org/x/tools/go/callgraph"
	"golang.org/x/tools/go/callgraph/cha"
	"golang.org/x/tools/go/callgraph/vta"
	"golang.org/x/tools/go/packages"
	"golang.org/x/tools/go/ssa"
	"golang.org/x/tools/go/ssa/ssautil"
)

const Module = "github.com/99designs/gqlgen"

// World is the loaded, type-checked program plus its SSA form.
type World struct {
	Snap     *Snapshot
	Fset     *token.FileSet
	Pkgs     []*packages.Package          // root packages
	All      map[string]*packages.Package // every package by path (deps included)
	Prog     *ssa.Program
	SSA      map[string]*ssa.Package
	Mats     []*Materialised
	TypeErrs []string // type errors in module packages

	allFuncs map[*ssa.Function]bool
	cha      *callgraph.Graph
	vta      *callgraph.Graph
}

// Load type-checks the given patterns (relative to the snapshot root) with full syntax for
// dependencies, and builds SSA for the whole program.
func Load(snap *Snapshot, patterns []string, goarch string) (*World, error) {
	env := goEnv()
	if goarch != "" {
		env = append(env, "GOARCH="+goarch)
	}
	cfg := &packages.Config{
		Mode:  packages.LoadAllSyntax,
		Dir:   snap.Dir,
		Env:   env,
		Tests: false,
	}
	pkgs, err := packages.Load(cfg, patterns...)
	if err != nil {
		return nil, fmt.Errorf("packages.Load: %w", err)
	}
	if len(pkgs) == 0 {
		return nil, fmt.Errorf("packages.Load: no packages matched %v", patterns)
	}
	w := &World{Snap: snap, Pkgs: pkgs, All: map[string]*packages.Package{}, SSA: map[string]*ssa.Package{}}
	packages.Visit(pkgs, nil, func(p *packages.Package) {
		w.All[p.PkgPath] = p
		if w.Fset == nil {
			w.Fset = p.Fset
		}
		if strings.HasPrefix(p.PkgPath, Module) {
			for _, e := range p.Errors {
				w.TypeErrs = append(w.TypeErrs, p.PkgPath+": "+e.Error())
			}
			if p.Types == nil || len(p.Syntax) == 0 && len(p.GoFiles) > 0 {
				w.TypeErrs = append(w.TypeErrs, p.PkgPath+": not type-checked")
			}
		}
	})
	sort.Strings(w.TypeErrs)
	if len(w.TypeErrs) > 0 {
		return w, nil // caller decides: SSA is not built on a broken program
	}
	prog, _ := ssautil.AllPackages(pkgs, ssa.InstantiateGenerics)
	prog.Build()
	w.Prog = prog
	for _, sp := range prog.AllPackages() {
		w.SSA[sp.Pkg.Path()] = sp
	}
	return w, nil
}

// Pos renders a position relative to the repository root.
func (w *World) Pos(p token.Pos) string {
	if !p.IsValid() {
		return "-"
	}
	ps := w.Fset.Position(p)
	return fmt.Sprintf("%s:%d", w.Snap.Rel(ps.Filename), ps.Line)
}

// PosFile returns just the repo-relative file of a position.
func (w *World) PosFile(p token.Pos) string {
	if !p.IsValid() {
		return ""
	}
	return w.Snap.Rel(w.Fset.Position(p).Filename)
}

func (w *World) Line(p token.Pos) int { return w.Fset.Position(p).Line }

// Pkg returns the SSA package with the given path (module-relative paths are accepted).
func (w *World) Pkg(path string) *ssa.Package {
	if p, ok := w.SSA[path]; ok {
		return p
	}
	if p, ok := w.SSA[Module+"/"+path]; ok {
		return p
	}
	return nil
}

func (w *World) TPkg(path string) *packages.Package {
	if p, ok := w.All[path]; ok {
		return p
	}
	if p, ok := w.All[Module+"/"+path]; ok {
		return p
	}
	return nil
}

// Func resolves "Name" or "Recv.Name" / "*Recv.Name" in a package.
func (w *World) Func(pkgPath, name string) *ssa.Function {
	p := w.Pkg(pkgPath)
	if p == nil {
		return nil
	}
	if i := strings.Index(name, "."); i >= 0 {
		recv, m := strings.TrimPrefix(name[:i], "*"), name[i+1:]
		tm, ok := p.Members[recv].(*ssa.Type)
		if !ok {
			return nil
		}
		T := tm.Type()
		for _, t := range []types.Type{T, types.NewPointer(T)} {
			ms := w.Prog.MethodSets.MethodSet(t)
			if sel := ms.Lookup(p.Pkg, m); sel != nil {
				if f := w.Prog.MethodValue(sel); f != nil && f.Synthetic == "" {
					return f
				} else if f != nil && name[0] != '*' {
					// wrapper for promoted method: keep looking at pointer
					continue
				}
			}
		}
		// fall back to pointer method value including synthetic
		ms := w.Prog.MethodSets.MethodSet(types.NewPointer(T))
		if sel := ms.Lookup(p.Pkg, m); sel != nil {
			return w.Prog.MethodValue(sel)
		}
		return nil
	}
	if f, ok := p.Members[name].(*ssa.Function); ok {
		return f
	}
	return nil
}

// AllFuncs is every function of the program (including anonymous and instantiated ones).
func (w *World) AllFuncs() map[*ssa.Function]bool {
	if w.allFuncs == nil {
		w.allFuncs = ssautil.AllFunctions(w.Prog)
	}
	return w.allFuncs
}

// FuncsIn returns the source-level functions (incl. closures) whose package path satisfies pred,
// sorted by position for determinism.
func (w *World) FuncsIn(pred func(path string) bool) []*ssa.Function {
	var out []*ssa.Function
	for f := range w.AllFuncs() {
		if f.Pkg == nil && f.Origin() == nil && f.Parent() == nil {
			continue
		}
		p := FuncPkgPath(f)
		if p == "" || !pred(p) {
			continue
		}
		if f.Synthetic != "" && !strings.HasPrefix(f.Synthetic, "instance of") {
			continue
		}
		if len(f.Blocks) == 0 {
			continue
		}
		out = append(out, f)
	}
	sort.Slice(out, func(i, j int) bool {
		if out[i].Pos() != out[j].Pos() {
			return out[i].Pos() < out[j].Pos()
		}
		return out[i].String() < out[j].String()
	})
	return out
}

// FuncPkgPath returns the path of the package that lexically owns f.
func FuncPkgPath(f *ssa.Function) string {
	for g := f; g != nil; g = g.Parent() {
		if g.Pkg != nil {
			return g.Pkg.Pkg.Path()
		}
		if o := g.Origin(); o != nil && o.Pkg != nil {
			return o.Pkg.Pkg.Path()
		}
	}
	if f.Object() != nil && f.Object().Pkg() != nil {
		return f.Object().Pkg().Path()
	}
	return ""
}

// InModule reports whether path is a package of the gqlgen module.
func InModule(path string) bool {
	return path == Module || strings.HasPrefix(path, Module+"/")
}

// CHA returns the class-hierarchy call graph (over-approximation).
func (w *World) CHA() *callgraph.Graph {
	if w.cha == nil {
		w.cha = cha.CallGraph(w.Prog)
	}
	return w.cha
}

// VTA returns the VTA-refined call graph.
func (w *World) VTA() *callgraph.Graph {
	if w.vta == nil {
		w.vta = vta.CallGraph(w.AllFuncs(), w.CHA())
	}
	return w.vta
}

// FileOf returns the syntax file containing pos.
func (w *World) FileOf(pos token.Pos) *ast.File {
	for _, p := range w.All {
		for _, f := range p.Syntax {
			if f.Pos() <= pos && pos < f.End() {
				return f
			}
		}
	}
	return nil
}

// ModulePackages lists loaded package paths of the gqlgen module, sorted.
func (w *World) ModulePackages() []string {
	var out []string
	for p := range w.All {
		if InModule(p) {
			out = append(out, p)
		}
	}
	sort.Strings(out)
	return out
}
