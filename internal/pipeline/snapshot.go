// Package pipeline builds the analysed program: snapshot of /repo's working
// tree, materialisation of generator output, type-checked packages and SSA.
package pipeline

import (
	"bytes"
	"crypto/sha256"
	"encoding/hex"
	"fmt"
	"os"
	"os/exec"
	"path/filepath"
	"sort"
	"strings"
	"sync"
)

// Snapshot is a private copy of /repo's working tree.
type Snapshot struct {
	Dir  string // root of the copy (the gqlgen module root)
	base string // scratch dir that owns Dir (removed by Close)
}

func repoDir() string {
	if d := os.Getenv("VERIF_REPO"); d != "" {
		return d
	}
	return "/repo"
}

// NewSnapshot copies the working tree of the repository (no .git) to a fresh
// scratch directory.  withExamples also copies the _examples module.
func NewSnapshot(withExamples bool) (*Snapshot, error) {
	scratch := os.Getenv("VERIF_SCRATCH")
	if scratch == "" {
		scratch = "/dev/shm"
		if st, err := os.Stat(scratch); err != nil || !st.IsDir() {
			scratch = os.TempDir()
		}
	}
	base, err := os.MkdirTemp(scratch, "gqlverif-")
	if err != nil {
		return nil, err
	}
	dst := filepath.Join(base, "repo")
	args := []string{"-a", "--exclude", ".git", "--exclude", "/bin"}
	if !withExamples {
		args = append(args, "--exclude", "/_examples")
	}
	args = append(args, repoDir()+"/", dst+"/")
	cmd := exec.Command("rsync", args...)
	if out, err := cmd.CombinedOutput(); err != nil {
		os.RemoveAll(base)
		return nil, fmt.Errorf("rsync: %v: %s", err, out)
	}
	return &Snapshot{Dir: dst, base: base}, nil
}

// AddFixtures copies /verif/fixtures into the snapshot as packages of the gqlgen module
// (<module>/verif_fixtures/<name>), so that positive examples are analysed in the same program.
func (s *Snapshot) AddFixtures(verifDir string) error {
	src := filepath.Join(verifDir, "fixtures")
	if _, err := os.Stat(src); err != nil {
		return nil
	}
	if out, err := exec.Command("rsync", "-a", src+"/", filepath.Join(s.Dir, "verif_fixtures")+"/").CombinedOutput(); err != nil {
		return fmt.Errorf("fixtures rsync: %v: %s", err, out)
	}
	return nil
}

// AddProbes copies /verif/probes/<name> (generator configurations owned by the framework: a gqlgen.yml and its SDL) to
// <module>/verif_probes/<name> inside the snapshot, where the repository's generator driver materialises them like the
// repository's own configurations.
func (s *Snapshot) AddProbes(verifDir string) error {
	src := filepath.Join(verifDir, "probes")
	if _, err := os.Stat(src); err != nil {
		return nil
	}
	if out, err := exec.Command("rsync", "-a", "--exclude", "*.go", src+"/", filepath.Join(s.Dir, "verif_probes")+"/").CombinedOutput(); err != nil {
		return fmt.Errorf("probes rsync: %v: %s", err, out)
	}
	// hand-written Go sources of a probe are kept as *.go.in (so that they are not part of the /verif module) and get
	// their real name inside the snapshot
	return filepath.Walk(filepath.Join(s.Dir, "verif_probes"), func(p string, info os.FileInfo, err error) error {
		if err != nil || info.IsDir() || !strings.HasSuffix(p, ".go.in") {
			return err
		}
		return os.Rename(p, strings.TrimSuffix(p, ".in"))
	})
}

func (s *Snapshot) Close() {
	if s != nil && s.base != "" {
		os.RemoveAll(s.base)
	}
}

// Rel returns a path relative to the snapshot root (for reports), mapped back
// onto /repo so that it is clickable.
func (s *Snapshot) Rel(p string) string {
	if strings.HasPrefix(p, s.Dir+"/") {
		return strings.TrimPrefix(p, s.Dir+"/")
	}
	return p
}

func goEnv() []string {
	env := os.Environ()
	out := env[:0:0]
	for _, e := range env {
		if strings.HasPrefix(e, "GOFLAGS=") || strings.HasPrefix(e, "GOPROXY=") || strings.HasPrefix(e, "GOWORK=") {
			continue
		}
		out = append(out, e)
	}
	return append(out, "GOFLAGS=-mod=mod -trimpath", "GOPROXY=off", "GOWORK=off")
}

// GenConfig is one generator configuration to materialise.
type GenConfig struct {
	Name   string   // short name used in obligation keys (gen:<Name>)
	Dir    string   // working directory, relative to module root
	Config string   // -config argument ("" = default location)
	Stub   string   // -stub argument ("" = none)
	Remove []string // files removed first (the repo's go:generate lines do the same)
	Pkgs   []string // package patterns (relative to module root, "./...") the run emits code into
	Schema []string // globs (relative to Dir) of the SDL files
	// overlay: when From != "", Dir is created by cloning From and rewriting the import path
	From      string
	YAMLPatch map[string]string // "exec.worker_limit" -> "2": textual yaml patch applied to Config in the clone
}

// Materialised records the outcome of one generator run.
type Materialised struct {
	Config GenConfig
	Err    string            // non-empty: generator failed
	Files  map[string]string // generated .go files (relative path) -> sha256
	WallS  float64
}

func fileSHA(p string) string {
	b, err := os.ReadFile(p)
	if err != nil {
		return ""
	}
	h := sha256.Sum256(b)
	return hex.EncodeToString(h[:])
}

// applyOverlay clones cfg.From to cfg.Dir inside the snapshot.
func (s *Snapshot) applyOverlay(cfg GenConfig) error {
	src := filepath.Join(s.Dir, cfg.From)
	dst := filepath.Join(s.Dir, cfg.Dir)
	if out, err := exec.Command("rsync", "-a", "--exclude", "*_test.go", src+"/", dst+"/").CombinedOutput(); err != nil {
		return fmt.Errorf("overlay rsync: %v: %s", err, out)
	}
	oldImp := "github.com/99designs/gqlgen/" + cfg.From
	newImp := "github.com/99designs/gqlgen/" + cfg.Dir
	err := filepath.Walk(dst, func(p string, info os.FileInfo, err error) error {
		if err != nil || info.IsDir() {
			return err
		}
		if !(strings.HasSuffix(p, ".go") || strings.HasSuffix(p, ".yml") || strings.HasSuffix(p, ".graphqls") || strings.HasSuffix(p, ".graphql")) { // SDL too: @goModel/@goEnum name Go packages
			return nil
		}
		b, err := os.ReadFile(p)
		if err != nil {
			return err
		}
		nb := bytes.ReplaceAll(b, []byte(oldImp), []byte(newImp))
		if strings.HasSuffix(p, ".yml") && filepath.Base(p) == filepath.Base(cfgFile(cfg)) {
			nb = patchYAML(nb, cfg.YAMLPatch)
		}
		if !bytes.Equal(nb, b) {
			return os.WriteFile(p, nb, info.Mode())
		}
		return nil
	})
	return err
}

func cfgFile(cfg GenConfig) string {
	if cfg.Config == "" {
		return "gqlgen.yml"
	}
	return cfg.Config
}

// patchYAML inserts "key: value" lines under a top-level section ("exec.worker_limit")
// or at top level ("omit_complexity").  Purely additive; existing keys of the same
// name under that section are replaced.
func patchYAML(b []byte, patch map[string]string) []byte {
	if len(patch) == 0 {
		return b
	}
	lines := strings.Split(string(b), "\n")
	keys := make([]string, 0, len(patch))
	for k := range patch {
		keys = append(keys, k)
	}
	sort.Strings(keys)
	for _, k := range keys {
		v := patch[k]
		parts := strings.SplitN(k, ".", 2)
		if len(parts) == 1 {
			replaced := false
			for i, l := range lines {
				if strings.HasPrefix(l, k+":") {
					lines[i] = k + ": " + v
					replaced = true
				}
			}
			if !replaced {
				lines = append(lines, k+": "+v)
			}
			continue
		}
		sec, sub := parts[0], parts[1]
		done := false
		for i := 0; i < len(lines) && !done; i++ {
			if strings.HasPrefix(lines[i], sec+":") {
				// remove an existing sub key
				j := i + 1
				for j < len(lines) && (strings.HasPrefix(lines[j], " ") || strings.TrimSpace(lines[j]) == "") {
					if strings.HasPrefix(strings.TrimSpace(lines[j]), sub+":") {
						lines = append(lines[:j], lines[j+1:]...)
						continue
					}
					j++
				}
				ins := "  " + sub + ": " + v
				lines = append(lines[:i+1], append([]string{ins}, lines[i+1:]...)...)
				done = true
			}
		}
		if !done {
			lines = append(lines, sec+":", "  "+sub+": "+v)
		}
	}
	return []byte(strings.Join(lines, "\n"))
}

// Materialise builds the repository's generator driver from the snapshot and runs it for every configuration.  Each run works
// in its own private copy of the snapshot (the generator runs `go mod tidy` and package loads over the whole module, so
// concurrent runs in one tree can observe each other's half-written output); the files it wrote are then copied back.
func (s *Snapshot) Materialise(cfgs []GenConfig) ([]*Materialised, error) {
	gen := filepath.Join(s.base, "gqlgen-driver")
	cmd := exec.Command("go", "build", "-o", gen, "./testdata/gqlgen.go")
	cmd.Dir = s.Dir
	cmd.Env = goEnv()
	if out, err := cmd.CombinedOutput(); err != nil {
		return nil, fmt.Errorf("building generator driver from snapshot: %v\n%s", err, out)
	}
	res := make([]*Materialised, len(cfgs))
	var wg sync.WaitGroup
	sem := make(chan struct{}, 8)
	var mu sync.RWMutex // copy-back writes the snapshot; a private copy must not read it half-written (rsync temp files vanish)
	for i, c := range cfgs {
		res[i] = &Materialised{Config: c, Files: map[string]string{}}
		wg.Add(1)
		go func(m *Materialised, idx int) {
			defer wg.Done()
			sem <- struct{}{}
			defer func() { <-sem }()
			c := m.Config
			priv := &Snapshot{Dir: filepath.Join(s.base, fmt.Sprintf("gen-%d", idx), "repo"), base: s.base}
			os.MkdirAll(filepath.Dir(priv.Dir), 0o755)
			defer os.RemoveAll(filepath.Dir(priv.Dir))
			mu.RLock()
			out, err := exec.Command("rsync", "-a", s.Dir+"/", priv.Dir+"/").CombinedOutput()
			mu.RUnlock()
			if err != nil {
				m.Err = fmt.Sprintf("private copy: %v: %s", err, out)
				return
			}
			if c.From != "" {
				if err := priv.applyOverlay(c); err != nil {
					m.Err = err.Error()
					return
				}
			}
			dir := filepath.Join(priv.Dir, c.Dir)
			for _, r := range c.Remove {
				os.Remove(filepath.Join(dir, r))
			}
			var args []string
			if c.Config != "" {
				args = append(args, "-config", c.Config)
			}
			if c.Stub != "" {
				args = append(args, "-stub", c.Stub)
			}
			before := goFileTimes(dir)
			cmd := exec.Command(gen, args...)
			cmd.Dir = dir
			cmd.Env = goEnv()
			out, err = cmd.CombinedOutput()
			if err != nil {
				m.Err = fmt.Sprintf("generator failed for %s: %v\n%s", c.Name, err, tail(string(out), 2000))
				return
			}
			after := goFileTimes(dir)
			mu.Lock()
			defer mu.Unlock()
			// overlay directories are copied back whole; otherwise only the files the generator wrote
			if c.From != "" {
				if out, err := exec.Command("rsync", "-a", dir+"/", filepath.Join(s.Dir, c.Dir)+"/").CombinedOutput(); err != nil {
					m.Err = fmt.Sprintf("copy back: %v: %s", err, out)
					return
				}
			}
			for p, t := range after {
				if bt, ok := before[p]; !ok || bt != t {
					rel, _ := filepath.Rel(priv.Dir, p)
					dst := filepath.Join(s.Dir, rel)
					b, err := os.ReadFile(p)
					if err != nil {
						m.Err = err.Error()
						return
					}
					os.MkdirAll(filepath.Dir(dst), 0o755)
					if err := os.WriteFile(dst, b, 0o644); err != nil {
						m.Err = err.Error()
						return
					}
					m.Files[rel] = fileSHA(dst)
				}
			}
		}(res[i], i)
	}
	wg.Wait()
	return res, nil
}

func tail(s string, n int) string {
	if len(s) > n {
		return s[len(s)-n:]
	}
	return s
}

func goFileTimes(dir string) map[string]int64 {
	m := map[string]int64{}
	filepath.Walk(dir, func(p string, info os.FileInfo, err error) error {
		if err == nil && !info.IsDir() && strings.HasSuffix(p, ".go") {
			m[p] = info.ModTime().UnixNano()
		}
		return nil
	})
	return m
}
