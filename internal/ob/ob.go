// Package ob holds obligations, the known-findings file, evidence and the verdict.
package ob

import (
	"bufio"
	"encoding/json"
	"fmt"
	"os"
	"path/filepath"
	"sort"
	"strings"
)

type Status string

const (
	Discharged Status = "discharged"
	Violated   Status = "violated"
	Undecided  Status = "undecided"
	Info       Status = "info" // informational, never fails
)

// Obligation is one rule instance on one construct.
type Obligation struct {
	Property string `json:"property"`
	Rule     string `json:"rule"`
	Key      string `json:"key"` // property/rule/construct
	Status   Status `json:"status"`
	Pos      string `json:"pos,omitempty"`
	Detail   string `json:"detail,omitempty"`  // witness (guard found / path) or what fails
	Trivial  bool   `json:"trivial,omitempty"` // discharged without a real argument (counted separately)
	Known    bool   `json:"known,omitempty"`
}

// RuleInfo is static information about one rule.
type RuleInfo struct {
	Property string `json:"property"`
	Name     string `json:"rule"`
	Text     string `json:"text"`
	Floor    int    `json:"floor"`
	Found    int    `json:"instances"`
	Disch    int    `json:"discharged"`
	Viol     int    `json:"violated"`
	Undec    int    `json:"undecided"`
	Known    int    `json:"known"`
	Infos    int    `json:"info"`
}

// Report accumulates obligations for one property run.
type Report struct {
	Property string
	Rules    []*RuleInfo
	Obs      []*Obligation
	Failures []string // analysis-level failures (unresolved anchors, type errors, floors)
	Notes    []string
	cur      *RuleInfo
	seen     map[string]int
}

func NewReport(prop string) *Report { return &Report{Property: prop, seen: map[string]int{}} }

// Rule starts a new rule; subsequent Add calls belong to it.
func (r *Report) Rule(name, text string, floor int) {
	r.cur = &RuleInfo{Property: r.Property, Name: name, Text: text, Floor: floor}
	r.Rules = append(r.Rules, r.cur)
}

// SetFloor adjusts the floor of the current rule (self-scaling floors).
func (r *Report) SetFloor(n int) { r.cur.Floor = n }

func (r *Report) add(construct string, st Status, pos, detail string, trivial bool) *Obligation {
	key := r.Property + "/" + r.cur.Name + "/" + construct
	r.seen[key]++
	if n := r.seen[key]; n > 1 {
		key = fmt.Sprintf("%s#%d", key, n)
	}
	o := &Obligation{Property: r.Property, Rule: r.cur.Name, Key: key, Status: st, Pos: pos, Detail: detail, Trivial: trivial}
	r.Obs = append(r.Obs, o)
	if st != Info {
		r.cur.Found++
	}
	return o
}

func (r *Report) OK(construct, pos, witness string) {
	r.add(construct, Discharged, pos, witness, false)
}
func (r *Report) OKTrivial(construct, pos, witness string) {
	r.add(construct, Discharged, pos, witness, true)
}
func (r *Report) Bad(construct, pos, what string)     { r.add(construct, Violated, pos, what, false) }
func (r *Report) Unknown(construct, pos, what string) { r.add(construct, Undecided, pos, what, false) }
func (r *Report) Note(construct, pos, what string)    { r.add(construct, Info, pos, what, false) }

// Check is a convenience: discharged when ok, violated otherwise.
func (r *Report) Check(ok bool, construct, pos, witness, what string) {
	if ok {
		r.OK(construct, pos, witness)
	} else {
		r.Bad(construct, pos, what)
	}
}

// Fail records an analysis-level failure (always fails the check).
func (r *Report) Fail(format string, a ...any) {
	r.Failures = append(r.Failures, fmt.Sprintf(format, a...))
}

// ---------------------------------------------------------------------------------------------
// known findings

type Finding struct {
	Property string
	Key      string // may contain '*' wildcards
	Text     string
	used     bool
}

type Findings struct {
	List  []*Finding
	Fixed []string
}

func LoadFindings(path string) (*Findings, error) {
	f, err := os.Open(path)
	if err != nil {
		if os.IsNotExist(err) {
			return &Findings{}, nil
		}
		return nil, err
	}
	defer f.Close()
	fs := &Findings{}
	sc := bufio.NewScanner(f)
	sc.Buffer(make([]byte, 1<<20), 1<<20)
	for sc.Scan() {
		line := strings.TrimSpace(sc.Text())
		if line == "" || strings.HasPrefix(line, "#") {
			continue
		}
		switch {
		case strings.HasPrefix(line, "finding:"):
			rest := strings.Fields(strings.TrimPrefix(line, "finding:"))
			fd := &Finding{}
			var text []string
			for _, w := range rest {
				switch {
				case strings.HasPrefix(w, "property=") && fd.Property == "":
					fd.Property = strings.TrimPrefix(w, "property=")
				case strings.HasPrefix(w, "key=") && fd.Key == "":
					fd.Key = strings.TrimPrefix(w, "key=")
				default:
					text = append(text, w)
				}
			}
			fd.Text = strings.Join(text, " ")
			if fd.Property == "" || fd.Key == "" {
				return nil, fmt.Errorf("known_findings: malformed line %q", line)
			}
			fs.List = append(fs.List, fd)
		case strings.HasPrefix(line, "fixed:"):
			fs.Fixed = append(fs.Fixed, strings.TrimSpace(strings.TrimPrefix(line, "fixed:")))
		default:
			return nil, fmt.Errorf("known_findings: malformed line %q", line)
		}
	}
	return fs, sc.Err()
}

func globMatch(pat, s string) bool {
	// '*' matches any run of characters (including '/').
	parts := strings.Split(pat, "*")
	if len(parts) == 1 {
		return pat == s
	}
	if !strings.HasPrefix(s, parts[0]) {
		return false
	}
	s = s[len(parts[0]):]
	for i := 1; i < len(parts)-1; i++ {
		j := strings.Index(s, parts[i])
		if j < 0 {
			return false
		}
		s = s[j+len(parts[i]):]
	}
	return strings.HasSuffix(s, parts[len(parts)-1])
}

func (fs *Findings) match(o *Obligation) *Finding {
	for _, f := range fs.List {
		if f.Property == o.Property && globMatch(f.Key, o.Key) {
			return f
		}
	}
	return nil
}

// ---------------------------------------------------------------------------------------------
// verdict + evidence

type Evidence struct {
	PropertyID  string         `json:"property_id"`
	Tier        string         `json:"tier"`
	Seed        int            `json:"seed"`
	Level       string         `json:"level"`
	Coverage    map[string]any `json:"coverage"`
	Assumptions []string       `json:"assumptions"`
	WallS       float64        `json:"wall_s"`
	Violations  int            `json:"violations"`
}

type Replay struct {
	Property    string        `json:"property"`
	Tier        string        `json:"tier"`
	Failures    []string      `json:"analysis_failures,omitempty"`
	Obligations []*Obligation `json:"violating_obligations"`
	Rules       []*RuleInfo   `json:"rules"`
	Rerun       string        `json:"rerun"`
}

// Finish applies known findings, floors, prints the verdict lines, writes evidence and (on
// violation) a replay file.  It returns the process exit code.
func (r *Report) Finish(verifDir, tier string, seed int, wall float64, fs *Findings, cov map[string]any, assumptions []string, explanation string) int {
	if o := os.Getenv("VERIF_OUT"); o != "" {
		verifDir = o // selftests write their evidence elsewhere
	}
	var violating []*Obligation
	knownLines := map[string]bool{}
	for _, o := range r.Obs {
		if o.Status == Violated || o.Status == Undecided {
			if f := fs.match(o); f != nil {
				o.Known = true
				f.used = true
				knownLines[fmt.Sprintf("KNOWN-FINDING: property=%s %s %s", o.Property, f.Key, f.Text)] = true
			} else {
				violating = append(violating, o)
			}
		}
	}
	ruleBy := map[string]*RuleInfo{}
	for _, ri := range r.Rules {
		ruleBy[ri.Name] = ri
	}
	for _, o := range r.Obs {
		ri := ruleBy[o.Rule]
		switch {
		case o.Status == Info:
			ri.Infos++
		case o.Known:
			ri.Known++
		case o.Status == Discharged:
			ri.Disch++
		case o.Status == Violated:
			ri.Viol++
		case o.Status == Undecided:
			ri.Undec++
		}
	}
	for _, ri := range r.Rules {
		if ri.Found < ri.Floor {
			r.Fail("instance floor not met for %s/%s: found %d constructs, floor %d (rule would pass vacuously)", ri.Property, ri.Name, ri.Found, ri.Floor)
		}
	}
	var kl []string
	for l := range knownLines {
		kl = append(kl, l)
	}
	sort.Strings(kl)
	for _, l := range kl {
		fmt.Println(l)
	}

	// evidence
	distinct := map[string]bool{}
	nontrivial := 0
	for _, o := range r.Obs {
		if o.Status == Info {
			continue
		}
		if !distinct[o.Key] {
			distinct[o.Key] = true
			if !o.Trivial {
				nontrivial++
			}
		}
	}
	total := 0
	disch := 0
	for _, ri := range r.Rules {
		total += ri.Found
		disch += ri.Disch
	}
	samples := pickSamples(r.Obs, seed)
	if cov == nil {
		cov = map[string]any{}
	}
	cov["explanation"] = explanation
	cov["evaluations"] = total
	cov["distinct_nontrivial"] = nontrivial
	cov["rule"] = "one obligation per (rule, construct) enumerated from the resolved program; distinct = distinct obligation keys; non-trivial = not discharged by a trivial argument (no user-code call / nothing to guard)"
	cov["obligations"] = total
	cov["discharged"] = disch
	cov["samples"] = samples
	cov["rules"] = r.Rules
	cov["analysis_failures"] = r.Failures
	cov["notes"] = r.Notes
	cov["exhaustive"] = false
	ev := &Evidence{PropertyID: r.Property, Tier: tier, Seed: seed, Level: "other", Coverage: cov,
		Assumptions: assumptions, WallS: wall, Violations: len(violating) + len(r.Failures)}
	os.MkdirAll(filepath.Join(verifDir, "evidence"), 0o755)
	writeJSON(filepath.Join(verifDir, "evidence", r.Property+".json"), ev)

	// summary to stdout
	for _, ri := range r.Rules {
		fmt.Printf("rule %s/%s: instances=%d floor=%d discharged=%d violated=%d undecided=%d known=%d info=%d\n",
			ri.Property, ri.Name, ri.Found, ri.Floor, ri.Disch, ri.Viol, ri.Undec, ri.Known, ri.Infos)
	}
	if len(violating) == 0 && len(r.Failures) == 0 {
		fmt.Printf("OK property=%s tier=%s obligations=%d discharged=%d known=%d wall=%.1fs\n", r.Property, tier, total, disch, len(kl), wall)
		return 0
	}
	for _, f := range r.Failures {
		fmt.Printf("ANALYSIS-FAILURE property=%s %s\n", r.Property, f)
	}
	for _, o := range violating {
		fmt.Printf("%s %s at %s: %s\n", strings.ToUpper(string(o.Status)), o.Key, o.Pos, o.Detail)
	}
	rp := &Replay{Property: r.Property, Tier: tier, Failures: r.Failures, Obligations: violating, Rules: r.Rules,
		Rerun: fmt.Sprintf("./run.sh check %s %s", r.Property, tier)}
	os.MkdirAll(filepath.Join(verifDir, "evidence", "replay"), 0o755)
	path := filepath.Join("evidence", "replay", r.Property+"-"+tier+".json")
	writeJSON(filepath.Join(verifDir, path), rp)
	fmt.Printf("VIOLATION property=%s replay=%s\n", r.Property, path)
	return 1
}

func pickSamples(obs []*Obligation, seed int) []*Obligation {
	// a few per rule, rotated by seed; always includes non-discharged ones
	byRule := map[string][]*Obligation{}
	var order []string
	for _, o := range obs {
		if _, ok := byRule[o.Rule]; !ok {
			order = append(order, o.Rule)
		}
		byRule[o.Rule] = append(byRule[o.Rule], o)
	}
	var out []*Obligation
	for _, rn := range order {
		l := byRule[rn]
		n := 0
		for _, o := range l {
			if o.Status != Discharged && n < 6 {
				out = append(out, o)
				n++
			}
		}
		if len(l) == 0 {
			continue
		}
		if seed < 0 {
			seed = -seed
		}
		for k := 0; k < 3 && k < len(l); k++ {
			o := l[(seed+k*(len(l)/3+1))%len(l)]
			if o.Status == Discharged {
				out = append(out, o)
			}
		}
	}
	return out
}

func writeJSON(path string, v any) {
	b, err := json.MarshalIndent(v, "", " ")
	if err != nil {
		fmt.Fprintln(os.Stderr, "evidence marshal:", err)
		return
	}
	if err := os.WriteFile(path, append(b, '\n'), 0o644); err != nil {
		fmt.Fprintln(os.Stderr, "evidence write:", err)
	}
}
