package rules

import (
	"go/constant"
	"go/token"
	"go/types"
	"strings"

	"golang.org/x/tools/go/ssa"

	"verif/internal/an"
	"verif/internal/pipeline"
)

// Rules from the second small-slip round.

// forwardersKeepOrder: a method that forwards to a method of the same name (an adapter such as handler.apqAdapter.Add, or a
// cache wrapper) passes its own parameters on in the same positions.  Swapped key/value arguments bind a persisted query's
// text to its hash instead of the reverse.
func forwardersKeepOrder(c *Ctx, rule string, pkgs ...string) {
	c.R.Rule(rule, "in "+strings.Join(shortPkgs(pkgs), ", ")+": a method whose body calls a method of the same name and arity on one of its fields passes its parameters in their own order", 2)
	in := func(p string) bool {
		for _, q := range pkgs {
			if p == q {
				return true
			}
		}
		return false
	}
	n := 0
	for _, fn := range c.moduleFuncs(in) {
		if fn.Parent() != nil || fn.Signature.Recv() == nil || len(fn.Blocks) == 0 {
			continue
		}
		for _, b := range fn.Blocks {
			for _, i := range b.Instrs {
				call, ok := i.(ssa.CallInstruction)
				if !ok {
					continue
				}
				cc := call.Common()
				name := ""
				var args []ssa.Value
				if cc.IsInvoke() {
					name, args = cc.Method.Name(), cc.Args
				} else if sc := cc.StaticCallee(); sc != nil && sc.Signature.Recv() != nil && len(cc.Args) > 0 {
					name, args = sc.Name(), cc.Args[1:]
				}
				own := fn.Params[1:]
				if name != fn.Name() || len(args) != len(own) || len(own) < 2 {
					continue
				}
				// the callee's receiver must come out of the method's own receiver (a field): a genuine forwarder
				n++
				bad := -1
				for k := range own {
					a := an.Strip(args[k])
					if a == ssa.Value(own[k]) || an.SameVar(a, own[k]) {
						continue
					}
					// another of the method's parameters in this position: swapped
					for j := range own {
						if j != k && (a == ssa.Value(own[j]) || an.SameVar(a, own[j])) && types.Identical(own[j].Type(), own[k].Type()) {
							bad = k
						}
					}
				}
				c.R.Check(bad < 0, shortFn(fn)+"/forwards", c.ipos(i), "parameters forwarded in order",
					sprintf("argument %d of the forwarded call is another parameter of the same type: the adapter swaps its arguments (a persisted query's text is stored under… its text, and looked up by hash never to be found)", bad+1))
			}
		}
	}
	if n < 2 {
		c.R.Fail("%s: %d forwarding methods found", rule, n)
	}
}

// decoderUsesNumber: transport.jsonDecode switches the decoder to json.Number before decoding: numbers in variables and
// extensions keep their exact text (1.5 is not 1; 2^53+1 is not rounded).
func decoderUsesNumber(c *Ctx) {
	c.R.Rule("decoder-uses-number", "transport.jsonDecode: every path to (*json.Decoder).Decode passes (*json.Decoder).UseNumber on the same decoder", 1)
	fn := c.fn(pkgTransport, "jsonDecode")
	if fn == nil {
		return
	}
	n := 0
	for _, call := range an.CallsIn(fn, func(_ ssa.CallInstruction, ci an.CalleeInfo) bool {
		return ci.FullName() == "(*encoding/json.Decoder).Decode"
	}) {
		n++
		ok := mustPassThrough(fn, call, func(in ssa.Instruction) bool {
			c2, isCall := in.(ssa.CallInstruction)
			return isCall && an.CalleeOf(c2).FullName() == "(*encoding/json.Decoder).UseNumber" && c2.Common().Args[0] == call.Common().Args[0]
		})
		c.R.Check(ok, "jsonDecode/use-number", c.ipos(call), "numbers are decoded as json.Number",
			"request JSON is decoded without UseNumber: numbers become float64, so an Int variable above 2^53 is rounded and a persisted-query version of 1.5 is taken for 1")
	}
	if n == 0 {
		c.R.Fail("decoder-uses-number: jsonDecode does not call Decode")
	}
	// and nothing decodes request members behind its back: no other JSON decode in the package targets a RawParams member
	for _, f2 := range transportFuncs(c) {
		if topFn(f2) == fn {
			continue
		}
		for _, call := range an.CallsIn(f2, func(_ ssa.CallInstruction, ci an.CalleeInfo) bool {
			nm := ci.FullName()
			return nm == "encoding/json.Unmarshal" || nm == "(*encoding/json.Decoder).Decode"
		}) {
			args := call.Common().Args
			tgt := an.Strip(args[len(args)-1])
			if mi, ok := tgt.(*ssa.MakeInterface); ok {
				tgt = an.Strip(mi.X)
			}
			if fa, ok := tgt.(*ssa.FieldAddr); ok && strings.HasSuffix(fa.X.Type().String(), "graphql.RawParams") {
				c.R.Bad(shortFn(topFn(f2))+"/decode:"+fieldNameOf(fa), c.ipos(call), "RawParams."+fieldNameOf(fa)+" is decoded by a JSON decoder of its own, without UseNumber: on this transport numbers in "+strings.ToLower(fieldNameOf(fa))+" arrive as float64 (an Int variable is refused, a large one is rounded) while the other transports keep them exact")
			}
		}
	}
}

// c11Round2: websocket rules from the second round.
func c11Round2(c *Ctx) {
	c.R.Rule("operation-frames-carry-id", "package transport: every struct literal that names the message type data, error or complete by a constant also stores the operation id", 3)
	opTypes := map[string]bool{"dataMessageType": true, "errorMessageType": true, "completeMessageType": true}
	typeName := map[int64]string{}
	if tp := c.W.TPkg(pkgTransport); tp != nil {
		for _, n := range tp.Types.Scope().Names() {
			if cn, ok := tp.Types.Scope().Lookup(n).(*types.Const); ok && an.NamedIs(cn.Type(), pkgTransport, "messageType") {
				if v, ok := constant.Int64Val(cn.Val()); ok {
					typeName[v] = n
				}
			}
		}
	}
	n := 0
	for _, fn := range transportFuncs(c) {
		for _, b := range fn.Blocks {
			for _, in := range b.Instrs {
				al, ok := in.(*ssa.Alloc)
				if !ok {
					continue
				}
				nt := namedStruct(al.Type())
				if nt == nil || nt.Obj().Pkg() == nil || nt.Obj().Pkg().Path() != pkgTransport {
					continue
				}
				// a literal of the package (message, or an intermediate such as an envelope) that names its message type by a constant
				t, okT := int64(0), false
				for _, r := range an.Referrers(al) {
					fa, ok := r.(*ssa.FieldAddr)
					if !ok {
						continue
					}
					for _, r2 := range an.Referrers(fa) {
						if st, ok := r2.(*ssa.Store); ok && st.Addr == ssa.Value(fa) && an.NamedIs(st.Val.Type(), pkgTransport, "messageType") {
							if k, isC := an.ConstInt(st.Val); isC {
								t, okT = k, true
							}
						}
					}
				}
				if !okT || !opTypes[typeName[t]] {
					continue
				}
				n++
				hasID := false
				for _, r := range an.Referrers(al) {
					if fa, ok := r.(*ssa.FieldAddr); ok && strings.EqualFold(fieldNameOf(fa), "id") {
						for _, r2 := range an.Referrers(fa) {
							if st, ok := r2.(*ssa.Store); ok && st.Addr == ssa.Value(fa) {
								hasID = true
							}
						}
					}
				}
				c.R.Check(hasID, shortFn(topFn(fn))+"/"+typeName[t]+"-literal", c.ipos(al), "carries the id",
					"a "+typeName[t]+" frame is built without the operation id: the client cannot attribute it, and the operation it was meant for never sees its terminating frame")
			}
		}
	}
	if n < 3 {
		c.R.Fail("operation-frames-carry-id: %d operation frame literals", n)
	}

	c.R.Rule("nothing-after-complete", "wsConnection.subscribe and its goroutine/epilogue: no sendError/sendResponse call is reachable from a complete(id) call of the same function", 2)
	nc := 0
	if sub := c.fn(pkgTransport, "*"+wsConn+".subscribe"); sub != nil {
		for _, fn := range an.WithClosures(sub) {
			for _, call := range an.CallsIn(fn, func(_ ssa.CallInstruction, ci an.CalleeInfo) bool {
				return ci.FullName() == "(*"+pkgTransport+"."+wsConn+").complete"
			}) {
				if call.Parent() != fn {
					continue
				}
				nc++
				var after ssa.Instruction
				for _, c2 := range an.CallsIn(fn, func(_ ssa.CallInstruction, ci an.CalleeInfo) bool {
					n := ci.FullName()
					return n == "(*"+pkgTransport+"."+wsConn+").sendError" || n == "(*"+pkgTransport+"."+wsConn+").sendResponse"
				}) {
					if c2.Parent() == fn && an.CanReach(call, c2) {
						after = c2
					}
				}
				pos := c.ipos(call)
				if after != nil {
					pos = c.ipos(after)
				}
				c.R.Check(after == nil, shortFn(topFn(fn))+sprintf("/complete#%d", nc), pos, "the completion is the last frame of the id",
					"a frame for the operation is sent after its completion: the client has already forgotten the id")
			}
		}
	}
	if nc < 2 {
		c.R.Fail("nothing-after-complete: %d complete calls in subscribe", nc)
	}

	c.R.Rule("waits-on-own-context", "wsConnection.closeOnCancel waits on the Done channel of the context it is given (the one run cancels when it exits); AddSubscriptionError appends to the holder it got from the context, not to a copy", 2)
	if fn := c.fn(pkgTransport, "*"+wsConn+".closeOnCancel"); fn != nil {
		ok := false
		for _, b := range fn.Blocks {
			for _, in := range b.Instrs {
				u, isU := in.(*ssa.UnOp)
				if !isU || u.Op != token.ARROW {
					continue
				}
				if call, isCall := u.X.(*ssa.Call); isCall && call.Call.IsInvoke() && call.Call.Method.Name() == "Done" {
					if _, isParam := an.Strip(call.Call.Value).(*ssa.Parameter); isParam {
						ok = true
					}
				}
			}
		}
		c.R.Check(ok, "closeOnCancel/waits-on-parameter", c.pos(fn.Pos()), "waits for the context run cancels",
			"closeOnCancel waits on another context than the one it is handed: when the read loop ends (client gone) nothing wakes it — operations keep their contexts, the goroutine stays and the close callback never fires")
	}
	if fn := c.fn(pkgTransport, "AddSubscriptionError"); fn != nil {
		ok, n := true, 0
		for _, b := range fn.Blocks {
			for _, in := range b.Instrs {
				st, isSt := in.(*ssa.Store)
				if !isSt {
					continue
				}
				fa, isFA := st.Addr.(*ssa.FieldAddr)
				if !isFA || fieldNameOf(fa) != "errs" {
					continue
				}
				n++
				if _, isCopy := an.Strip(fa.X).(*ssa.Alloc); isCopy {
					ok = false
				}
			}
		}
		// the append may sit in a method of the holder (`holder.record(err)`): then the receiver handed to it must not be a copy either
		for _, call := range an.CallsIn(fn, func(_ ssa.CallInstruction, ci an.CalleeInfo) bool {
			return ci.Static != nil && ci.Static.Pkg != nil && ci.Static.Pkg.Pkg.Path() == pkgTransport && ci.Static.Signature.Recv() != nil
		}) {
			n++
			if _, isCopy := an.Strip(call.Common().Args[0]).(*ssa.Alloc); isCopy {
				ok = false
			}
		}
		c.R.Check(ok && n > 0, "AddSubscriptionError/stores-into-holder", c.pos(fn.Pos()), "appends to the context's holder",
			"the subscription error is appended to a copy of the holder: the epilogue finds no error and completes the operation normally instead of ending it with the error")
	}
}

// c12Round2: the multipart header announces the boundary the body uses; the deferred counter is compared with 0.
func c12Round2(c *Ctx) {
	c.R.Rule("boundary-agreement", "MultipartMixed.Do: the boundary formatted into the Content-Type header is the same value that is handed to the aggregator which writes the parts", 0)
	if fn := c.W.Func(pkgTransport, "MultipartMixed.Do"); fn != nil {
		var hdr, body ssa.Value
		var at ssa.Instruction
		for _, call := range an.CallsIn(fn, func(_ ssa.CallInstruction, ci an.CalleeInfo) bool { return ci.FullName() == "fmt.Sprintf" }) {
			f, ok := an.ConstString(call.Common().Args[0])
			if !ok || !strings.Contains(f, "boundary=") {
				continue
			}
			if sl, ok := call.Common().Args[1].(*ssa.Slice); ok {
				for _, r := range an.Referrers(sl.X) {
					if ia, ok := r.(*ssa.IndexAddr); ok {
						for _, r2 := range an.Referrers(ia) {
							if st, ok := r2.(*ssa.Store); ok {
								v := an.Strip(st.Val)
								if mi, ok := v.(*ssa.MakeInterface); ok {
									v = an.Strip(mi.X)
								}
								hdr, at = v, call
							}
						}
					}
				}
			}
		}
		if hdr == nil {
			// concatenation form: `multipart/mixed;boundary="` + boundary + `";…`
			for _, b := range fn.Blocks {
				for _, in := range b.Instrs {
					if bo, ok := in.(*ssa.BinOp); ok && bo.Op == token.ADD {
						if s, ok := an.ConstString(bo.X); ok && strings.Contains(s, "boundary=") {
							hdr, at = an.Strip(bo.Y), in
						}
					}
				}
			}
		}
		for _, call := range an.CallsIn(fn, func(_ ssa.CallInstruction, ci an.CalleeInfo) bool {
			return ci.Static != nil && ci.Static.Pkg != nil && ci.Static.Pkg.Pkg.Path() == pkgTransport && strings.Contains(ci.Static.Name(), "ggregator")
		}) {
			for _, a := range call.Common().Args {
				if b, ok := a.Type().Underlying().(*types.Basic); ok && b.Kind() == types.String {
					body = an.Strip(a)
				}
			}
		}
		if hdr == nil || body == nil {
			c.R.Note("MultipartMixed.Do/boundary", c.pos(fn.Pos()), "header format or aggregator construction not recognised; not decided")
		} else {
			same := hdr == body || an.SameVar(hdr, body)
			if hc, ok := hdr.(*ssa.Call); ok {
				if bc, ok := body.(*ssa.Call); ok && hc.Call.StaticCallee() != nil && hc.Call.StaticCallee() == bc.Call.StaticCallee() && len(hc.Call.Args) == 1 && len(bc.Call.Args) == 1 &&
					(hc.Call.Args[0] == bc.Call.Args[0] || an.SameVar(hc.Call.Args[0], bc.Call.Args[0])) {
					same = true // `t.boundary()` evaluated twice on the same receiver value
				}
			}
			c.R.Check(same, "MultipartMixed.Do/boundary", c.ipos(at), "one boundary value for header and body",
				"the Content-Type header announces a different boundary from the one the parts are written with (the configured one before defaulting): with the default configuration the response cannot be split into parts")
		}
	}
}

// deferredCounterCompared: per materialised executor, the count of deferred groups is compared with zero (a single deferred
// group already makes the response incremental).
func deferredCounterCompared(c *Ctx) {
	c.R.Rule("deferred-counter-zero", "per materialised executor: every comparison of the deferred / pendingDeferred counters is with the constant 0", len(c.Gen))
	for _, g := range c.Gen {
		n, bad := 0, ssa.Instruction(nil)
		for _, fn := range c.genFuncs(g) {
			for _, b := range fn.Blocks {
				for _, in := range b.Instrs {
					bo, ok := in.(*ssa.BinOp)
					if !ok {
						continue
					}
					switch bo.Op {
					case token.GTR, token.LSS, token.GEQ, token.LEQ, token.EQL, token.NEQ:
					default:
						continue
					}
					call, ok := bo.X.(*ssa.Call)
					if !ok {
						continue
					}
					_, isD := isAtomicOn(call, "LoadInt32", "deferred")
					_, isP := isAtomicOn(call, "LoadInt32", "pendingDeferred")
					if !isD && !isP {
						continue
					}
					n++
					if k, isC := an.ConstInt(bo.Y); !isC || k != 0 {
						bad = in
					}
				}
			}
		}
		pos := g.Spec.Dir
		if bad != nil {
			pos = c.ipos(bad)
		}
		c.R.Check(bad == nil && n > 0, "gen:"+g.Name+"/deferred-counters", pos, sprintf("%d comparisons, all with 0", n),
			"a deferred-group counter is compared with a constant other than 0: with exactly one deferred group the response is not marked incremental (hasNext stays unset) and the stream is closed before the group is delivered")
	}
}

var _ = pipeline.Module

// c06FedDoneLast: the federation goroutines' Done is their last effect (C20/group-done-last), for every federation configuration.
func c06FedDoneLast(c *Ctx) {
	var feds []*GenPkg
	for _, g := range c.Gen {
		if g.Fed {
			feds = append(feds, g)
		}
	}
	if len(feds) > 0 {
		doneIsLast(c, "group-done-last", feds)
	}
}

// connectionHeadersAfterDecode: wsConnection.subscribe attaches the connection's header map (shared by every operation of the
// connection) to the operation's RawParams only after the client's payload has been decoded into those params — a payload
// member "headers" would otherwise be merged INTO the shared map and show up in every later operation of the connection.
func connectionHeadersAfterDecode(c *Ctx) {
	c.R.Rule("connection-headers-after-decode", "wsConnection.subscribe: no JSON decode into the operation's RawParams is reachable after the connection's header map was stored into RawParams.Headers", 1)
	sub := c.fn(pkgTransport, "*"+wsConn+".subscribe")
	if sub == nil {
		return
	}
	n := 0
	for _, b := range sub.Blocks {
		for _, in := range b.Instrs {
			var at ssa.Instruction
			switch x := in.(type) {
			case *ssa.Store:
				fa, ok := x.Addr.(*ssa.FieldAddr)
				if !ok || !isRawParamsField(fa, "Headers") {
					continue
				}
				if src, ok := loadAddr(an.Strip(x.Val)).(*ssa.FieldAddr); !ok || fieldNameOf(src) != "headers" {
					continue
				}
				at = in
			}
			if at == nil {
				continue
			}
			n++
			var later ssa.Instruction
			for _, call := range an.CallsIn(sub, func(ci ssa.CallInstruction, _ an.CalleeInfo) bool { return c.decodeTarget(ci) != nil }) {
				if call.Parent() == sub && an.CanReach(at, call) {
					later = call
				}
			}
			pos := c.ipos(at)
			if later != nil {
				pos = c.ipos(later)
			}
			c.R.Check(later == nil, "subscribe/headers-attached-after-decode", pos, "the shared map is attached after decoding",
				"the client's payload is decoded into params that already point at the connection's header map: a \"headers\" member of one operation's payload is written into the map every later operation of the connection sees")
		}
	}
	if n == 0 {
		c.R.Note("subscribe/headers-attached-after-decode", c.pos(sub.Pos()), "subscribe does not attach the connection's headers by a field store; not decided")
	}
}
