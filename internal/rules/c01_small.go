package rules

import (
	"go/token"
	"go/types"
	"strings"

	"golang.org/x/tools/go/ssa"

	"verif/internal/an"
)

// Structural necessary conditions of C01 from the small-slip round.
func c01Small(c *Ctx) {
	// (1) the interface tests of field merging compare across the two definitions
	c.R.Rule("merge-compares-across", "package graphql (field merging): wherever an element of D.Interfaces is compared with the Name of an *ast.Definition, that definition is the OTHER one, never D itself (a type is not among its own interfaces)", 2)
	{
		n := 0
		for _, fn := range c.moduleFuncs(func(p string) bool { return p == pkgGraphql }) {
			for _, b := range fn.Blocks {
				for _, in := range b.Instrs {
					bo, ok := in.(*ssa.BinOp)
					if !ok || bo.Op != token.EQL {
						continue
					}
					for _, pair := range [][2]ssa.Value{{bo.X, bo.Y}, {bo.Y, bo.X}} {
						ifaceBase := interfacesElemBase(pair[0])
						nameFA, isName := loadAddr(an.Strip(pair[1])).(*ssa.FieldAddr)
						if ifaceBase == nil || !isName || fieldNameOf(nameFA) != "Name" {
							continue
						}
						n++
						same := accessPath(ifaceBase, 0) == accessPath(nameFA.X, 0)
						c.R.Check(!same, sprintf("%s/interface-test#%d", fn.Name(), n), c.ipos(in), "interface of one definition against the name of the other",
							"an interface of a definition is compared with that definition's own name: the test can never hold, so a field selected once on an object and once on an interface it implements is not merged — it is resolved and delivered twice / its sub-selections are split")
					}
				}
			}
		}
		if n < 2 {
			c.R.Fail("merge-compares-across: %d interface tests found", n)
		}
	}

	// (2) @skip and @include are evaluated independently
	c.R.Rule("skip-include-independent", "graphql.shouldIncludeNode: the lookup of @include is not control dependent on the outcome of the lookup of @skip (and vice versa): both directives apply when both are present", 1)
	if fn := c.fn(pkgGraphql, "shouldIncludeNode"); fn != nil {
		cd := an.ControlDeps(fn)
		var lookups []*ssa.Call
		for _, call := range an.CallsIn(fn, func(_ ssa.CallInstruction, ci an.CalleeInfo) bool {
			return strings.HasSuffix(ci.FullName(), "ast.DirectiveList).ForName")
		}) {
			if cc, ok := call.(*ssa.Call); ok {
				lookups = append(lookups, cc)
			}
		}
		if len(lookups) < 2 {
			c.R.Fail("skip-include-independent: %d directive lookups in shouldIncludeNode", len(lookups))
		}
		for _, lk := range lookups {
			name, _ := an.ConstString(lk.Call.Args[len(lk.Call.Args)-1])
			dep := ""
			seen := map[*ssa.BasicBlock]bool{}
			var walk func(b *ssa.BasicBlock)
			walk = func(b *ssa.BasicBlock) {
				if seen[b] {
					return
				}
				seen[b] = true
				for _, a := range cd[b] {
					if iff, ok := a.Instrs[len(a.Instrs)-1].(*ssa.If); ok {
						for _, other := range lookups {
							if other != lk && dependsOn(iff.Cond, other, 0) {
								dep, _ = an.ConstString(other.Call.Args[len(other.Call.Args)-1])
							}
						}
					}
					walk(a)
				}
			}
			walk(lk.Block())
			c.R.Check(dep == "", "shouldIncludeNode/lookup:"+name, c.ipos(lk), "evaluated whatever the other directive says",
				"@"+name+" is only looked at depending on whether @"+dep+" is present: with both on one node one of them is ignored")
		}
	}

	errorOnPath(c)

	// (4)–(6) per materialised executor
	var emit4, emit5, emit6 []func()
	nErr, nAssert, nFold := 0, 0, 0
	for _, g := range c.Gen {
		for _, fn := range c.genFuncs(g) {
			// (4)
			if fn.Parent() == nil && isFieldFuncSig(fn) {
				var marshals []ssa.Instruction
				for _, b := range fn.Blocks {
					for _, in := range b.Instrs {
						if call, ok := in.(*ssa.Call); ok && call.Call.StaticCallee() != nil && call.Call.StaticCallee().Pkg == g.SSA {
							res := call.Call.Signature().Results()
							if res.Len() == 1 && an.NamedIs(res.At(0).Type(), pkgGraphql, "Marshaler") {
								marshals = append(marshals, in)
							}
						}
					}
				}
				for _, call := range an.CallsIn(fn, func(_ ssa.CallInstruction, ci an.CalleeInfo) bool {
					return strings.HasSuffix(ci.FullName(), "graphql.OperationContext).Error")
				}) {
					if call.Parent() != fn {
						continue
					}
					nErr++
					var reach ssa.Instruction
					for _, m := range marshals {
						if an.CanReach(call, m) {
							reach = m
						}
					}
					pos, okk, key := c.ipos(call), reach == nil, "gen:"+g.Name+"/"+fn.Name()+"/error-then-null"
					emit4 = append(emit4, func() {
						c.R.Check(okk, key, pos, "returns without marshalling",
							"after reporting the resolver's error the field function goes on to marshal whatever value came back with it: the field is delivered (or fails a second time as `must not be null`) although it has an error")
					})
				}
			}
			// (5)
			for _, b := range fn.Blocks {
				for _, in := range b.Instrs {
					ta, ok := in.(*ssa.TypeAssert)
					if !ok || !ta.CommaOk {
						continue
					}
					ex, ok := ta.X.(*ssa.Extract)
					if !ok || ex.Index != 0 {
						continue
					}
					call, ok := ex.Tuple.(*ssa.Call)
					if !ok || call.Call.IsInvoke() || call.Call.StaticCallee() != nil && call.Call.StaticCallee().Parent() == nil {
						continue
					}
					// the callee is a local directive closure: func(context.Context) (any, error)
					sig := call.Call.Signature()
					if sig.Params().Len() != 1 || sig.Results().Len() != 2 {
						continue
					}
					if _, isIface := sig.Results().At(0).Type().Underlying().(*types.Interface); !isIface {
						continue
					}
					if !strings.HasPrefix(fn.Name(), "_") && fn.Parent() == nil {
						continue
					}
					if !isFieldFuncSig(topFn(fn)) {
						continue
					}
					nAssert++
					nonNil := false
					for _, f := range an.Facts(ta) {
						if empty, k := an.EmptinessFact(f, func(x ssa.Value) bool { return x == ssa.Value(ex) }); k && !empty {
							nonNil = true
						}
					}
					pos, key := c.ipos(ta), "gen:"+g.Name+"/"+topFn(fn).Name()+"/chain-result-assert"
					emit5 = append(emit5, func() {
						c.R.Check(nonNil, key, pos, "asserted only when non-nil",
							"the result of the directive chain is type-asserted without a nil test: a directive that answers null (the usual way to hide a field) turns into an `unexpected type <nil>` error instead of a null field")
					})
				}
			}
			// (6)
			if fn.Parent() == nil && strings.HasSuffix(fn.Name(), "Middleware") && strings.HasPrefix(fn.Name(), "_") {
				inLoop := map[*ssa.BasicBlock]bool{}
				for _, l := range an.Loops(fn) {
					for b := range l.Blocks {
						inLoop[b] = true
					}
				}
				for _, b := range fn.Blocks {
					if !inLoop[b] {
						continue
					}
					for _, in := range b.Instrs {
						mc, ok := in.(*ssa.MakeClosure)
						if !ok {
							continue
						}
						for _, bnd := range mc.Bindings {
							al, ok := bnd.(*ssa.Alloc)
							if !ok || !an.NamedIs(al.Type().(*types.Pointer).Elem(), pkgGraphql, "Resolver") {
								continue
							}
							// `next` itself (the parameter's cell) is allocated outside the loop and is not what wrappers call
							stores := an.CellStores(al)
							fromNext := false
							for _, st := range stores {
								switch v := st.Val.(type) {
								case *ssa.Phi, *ssa.Parameter:
									fromNext = true
								case *ssa.UnOp:
									if _, isAl := v.X.(*ssa.Alloc); isAl && v.Op == token.MUL && v.X != ssa.Value(al) {
										fromNext = true
									}
								}
							}
							if !fromNext {
								continue
							}
							nFold++
							okk, pos, key := inLoop[al.Block()], c.ipos(mc), "gen:"+g.Name+"/"+fn.Name()+"/inner-binding"
							emit6 = append(emit6, func() {
								c.R.Check(okk, key, pos, "a fresh inner resolver per directive",
									"the inner resolver captured by each directive wrapper is one variable set before the loop: every wrapper calls the original resolver, so only the last directive of the operation takes part in the chain")
							})
						}
					}
				}
			}
		}
	}
	c.R.Rule("resolver-error-nulls", "per materialised executor: in a field function no marshal call is reachable from the report of the resolver's error (ec.Error on the err != nil edge): a failed field is null, its partial value is not marshalled", 10)
	for _, f := range emit4 {
		f()
	}
	if nErr < 10 {
		c.R.Fail("resolver-error-nulls: %d error reports in field functions", nErr)
	}
	c.R.Rule("directive-null-accepted", "per materialised executor: the type assertion applied to the result of a field's directive chain runs only on the edge where that result is non-nil (a directive may legitimately return null)", 3)
	for _, f := range emit5 {
		f()
	}
	if nAssert < 3 {
		c.R.Fail("directive-null-accepted: %d chain-result assertions", nAssert)
	}
	c.R.Rule("directive-fold-binding", "per materialised executor: in the loop that folds the operation's directives into `next`, the variable a wrapper closure captures as its inner resolver is declared inside the loop and initialised from `next` there", 1)
	for _, f := range emit6 {
		f()
	}
	if nFold < 1 {
		c.R.Fail("directive-fold-binding: %d wrapper bindings", nFold)
	}
}

// interfacesElemBase: v is an element of `B.Interfaces` (a range/index over that slice): returns B.
func interfacesElemBase(v ssa.Value) ssa.Value {
	v = an.Strip(v)
	u, ok := v.(*ssa.UnOp)
	if !ok || u.Op != token.MUL {
		return nil
	}
	ia, ok := u.X.(*ssa.IndexAddr)
	if !ok {
		return nil
	}
	fa, ok := loadAddr(an.Strip(ia.X)).(*ssa.FieldAddr)
	if !ok || fieldNameOf(fa) != "Interfaces" {
		return nil
	}
	return fa.X
}

// dependsOn: v is computed from `from` (operands, transitively).
func dependsOn(v, from ssa.Value, depth int) bool {
	if v == from {
		return true
	}
	if depth > 8 {
		return false
	}
	in, ok := v.(ssa.Instruction)
	if !ok {
		return false
	}
	for _, op := range in.Operands(nil) {
		if *op != nil && dependsOn(*op, from, depth+1) {
			return true
		}
	}
	return false
}

// accessPath renders a pure access expression (parameter, field selections, loads) as a string; values of other shapes get
// a name of their own, so two paths are equal only when they denote the same selection from the same root.
func accessPath(v ssa.Value, depth int) string {
	v = an.Strip(v)
	if depth > 10 {
		return v.Name()
	}
	switch x := v.(type) {
	case *ssa.Parameter:
		return x.Name()
	case *ssa.UnOp:
		if x.Op == token.MUL {
			return accessPath(x.X, depth+1)
		}
	case *ssa.FieldAddr:
		return accessPath(x.X, depth+1) + "." + fieldNameOf(x)
	case *ssa.Field:
		st, _ := x.X.Type().Underlying().(*types.Struct)
		name := sprintf("#%d", x.Field)
		if st != nil {
			name = st.Field(x.Field).Name()
		}
		return accessPath(x.X, depth+1) + "." + name
	}
	return v.Name()
}

// errorOnPath: shared with C04 (one error at its path).
func errorOnPath(c *Ctx) {
	// (3) errors are stamped with the path before the presenter sees them
	c.R.Rule("error-on-path", "package graphql: every call of an ErrorPresenterFunc value receives the result of ErrorOnPath(ctx, err)", 1)
	nPres := 0
	for _, fn := range c.moduleFuncs(func(p string) bool { return p == pkgGraphql }) {
		for _, b := range fn.Blocks {
			for _, in := range b.Instrs {
				call, ok := in.(*ssa.Call)
				if !ok || call.Call.IsInvoke() || call.Call.StaticCallee() != nil || !an.NamedIs(call.Call.Value.Type(), pkgGraphql, "ErrorPresenterFunc") {
					continue
				}
				nPres++
				arg := an.Strip(call.Call.Args[len(call.Call.Args)-1])
				onPath := false
				if ac, ok := arg.(*ssa.Call); ok && an.CalleeOf(ac).FullName() == pkgGraphql+".ErrorOnPath" {
					onPath = true
				}
				c.R.Check(onPath, shortFn(topFn(fn))+"/presenter-call", c.ipos(in), "presented error carries the path",
					"the error is handed to the presenter without ErrorOnPath: a *gqlerror.Error returned by a resolver without a path is reported with no path at all")
			}
		}
	}
	if nPres < 1 {
		c.R.Fail("error-on-path: no call of an ErrorPresenterFunc in package graphql")
	}
}
