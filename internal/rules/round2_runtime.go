package rules

import (
	"go/token"
	"go/types"
	"strings"

	"golang.org/x/tools/go/ssa"

	"verif/internal/an"
)

// useUnderErrorEdge: a value returned together with an error is not used (method call, field access, dereference) on an
// edge where that very error is known to be non-nil.  `part, err := r.NextPart(); if err != nil && part.FormName() …` calls a
// method on the nil part.
func useUnderErrorEdge(c *Ctx, rule string, pkgs ...string) {
	c.R.Rule(rule, "in "+strings.Join(shortPkgs(pkgs), ", ")+": a pointer/interface result returned next to an error is not dereferenced or called on an edge where that error is non-nil", 0)
	in := func(p string) bool {
		for _, q := range pkgs {
			if p == q {
				return true
			}
		}
		return false
	}
	n := 0
	for _, fn := range c.moduleFuncs(in) {
		for _, b := range fn.Blocks {
			for _, i := range b.Instrs {
				// uses: invoke on v, static method call with v as receiver, FieldAddr on v
				var v ssa.Value
				switch x := i.(type) {
				case ssa.CallInstruction:
					if x.Common().IsInvoke() {
						v = x.Common().Value
					} else if sc := x.Common().StaticCallee(); sc != nil && sc.Signature.Recv() != nil && len(x.Common().Args) > 0 {
						v = x.Common().Args[0]
					}
				case *ssa.FieldAddr:
					v = x.X
				}
				if v == nil {
					continue
				}
				ex, ok := an.Strip(v).(*ssa.Extract)
				if !ok {
					continue
				}
				call, ok := ex.Tuple.(*ssa.Call)
				if !ok {
					continue
				}
				res := call.Call.Signature().Results()
				if res.Len() < 2 || !an.IsErrorType(res.At(res.Len()-1).Type()) || ex.Index == res.Len()-1 {
					continue
				}
				switch ex.Type().Underlying().(type) {
				case *types.Pointer, *types.Interface:
				default:
					continue
				}
				n++
				bad := false
				for _, f := range an.Facts(i) {
					if empty, k := an.EmptinessFact(f, func(x ssa.Value) bool {
						e2, ok := an.Strip(x).(*ssa.Extract)
						return ok && e2.Tuple == ssa.Value(call) && e2.Index == res.Len()-1
					}); k && !empty {
						bad = true
					}
				}
				if bad {
					c.R.Bad(shortFn(topFn(fn))+"/use-of-"+lastSeg(an.CalleeOf(call).FullName())+"-result", c.ipos(i), "the result of "+lastSeg(an.CalleeOf(call).FullName())+" is used on the edge where its error is non-nil (the value is nil there): a malformed request makes gqlgen's own code panic")
				}
			}
		}
	}
	c.R.Note(rule+"/examined", "-", sprintf("%d uses of (value, error) results examined", n))
}

// nilDerefOnNilEdge: a pointer is not dereferenced on an edge where it was just found to be nil (one branch tests it, the other
// dereferences it: a flipped test).
func nilDerefOnNilEdge(c *Ctx, rule string, pkgs ...string) {
	c.R.Rule(rule, "in "+strings.Join(shortPkgs(pkgs), ", ")+": no field access or method call through a pointer on an edge where that pointer was compared equal to nil", 0)
	in := func(p string) bool {
		for _, q := range pkgs {
			if p == q {
				return true
			}
		}
		return false
	}
	for _, fn := range c.moduleFuncs(in) {
		for _, b := range fn.Blocks {
			for _, i := range b.Instrs {
				fa, ok := i.(*ssa.FieldAddr)
				if !ok {
					continue
				}
				base := an.Strip(fa.X)
				if _, isPtr := base.Type().Underlying().(*types.Pointer); !isPtr {
					continue
				}
				if _, isAlloc := base.(*ssa.Alloc); isAlloc {
					continue
				}
				for _, f := range an.Facts(i) {
					if empty, k := an.EmptinessFact(f, func(x ssa.Value) bool {
						x = an.Strip(x)
						return x == base || an.SameVar(x, base) || an.SameExpr(x, base)
					}); k && empty {
						if _, isPtr2 := f.X.Type().Underlying().(*types.Pointer); !isPtr2 {
							continue
						}
						c.R.Bad(shortFn(topFn(fn))+"/deref-of-nil:"+fieldNameOf(fa), c.ipos(i), "this pointer is dereferenced on the very edge on which it was found to be nil (the nil test is flipped): the accessor panics, or silently takes the other branch for every non-nil value")
					}
				}
			}
		}
	}
}

// loopCapturedCleanup: a function literal that is deferred or started with go inside a loop does not capture a variable that
// is declared outside the loop and assigned inside it — every iteration's cleanup would see the last iteration's value
// (N temp files, one removed N times).
func loopCapturedCleanup(c *Ctx, rule string, pkgs ...string) {
	c.R.Rule(rule, "in "+strings.Join(shortPkgs(pkgs), ", ")+": a function literal deferred or started inside a loop captures no variable that lives outside the loop and is assigned inside it", 0)
	in := func(p string) bool {
		for _, q := range pkgs {
			if p == q {
				return true
			}
		}
		return false
	}
	for _, fn := range c.moduleFuncs(in) {
		loops := an.Loops(fn)
		if len(loops) == 0 {
			continue
		}
		for _, l := range loops {
			for b := range l.Blocks {
				for _, i := range b.Instrs {
					var mc *ssa.MakeClosure
					switch x := i.(type) {
					case *ssa.Defer:
						mc, _ = x.Call.Value.(*ssa.MakeClosure)
					case *ssa.Go:
						mc, _ = x.Call.Value.(*ssa.MakeClosure)
					}
					if mc == nil {
						continue
					}
					for _, bnd := range mc.Bindings {
						al, ok := bnd.(*ssa.Alloc)
						if !ok || l.Blocks[al.Block()] {
							continue
						}
						assignedInLoop := false
						for _, st := range an.CellStores(al) {
							if l.Blocks[st.Block()] {
								assignedInLoop = true
							}
						}
						// synchronisation objects and accumulators shared on purpose are not "per-iteration state": only plain
						// values (strings, numbers, pointers to files) count
						switch al.Type().(*types.Pointer).Elem().Underlying().(type) {
						case *types.Basic:
						default:
							continue
						}
						if assignedInLoop {
							c.R.Bad(shortFn(topFn(fn))+"/captured:"+al.Comment, c.ipos(i), "this deferred/started function literal captures `"+al.Comment+"`, which is declared outside the loop and re-assigned in every iteration: all of them act on the last value (with several uploads spilled to disk only the last temporary file is removed)")
						}
					}
				}
			}
		}
	}
}

// encodeErrorsKept: the error of a JSON encode that produces response bytes is not discarded (a value that cannot be encoded —
// a non-finite float inside a Map/Any — must not silently leave a hole in the document).
func encodeErrorsKept(c *Ctx) {
	c.R.Rule("encode-errors-kept", "package graphql: the error result of (*json.Encoder).Encode / json.Marshal is used (tested, returned or passed on), never dropped", 2)
	n := 0
	for _, fn := range c.moduleFuncs(func(p string) bool { return p == pkgGraphql }) {
		for _, b := range fn.Blocks {
			for _, i := range b.Instrs {
				call, ok := i.(*ssa.Call)
				if !ok {
					continue
				}
				name := an.CalleeOf(call).FullName()
				if name != "(*encoding/json.Encoder).Encode" && name != "encoding/json.Marshal" {
					continue
				}
				n++
				used := false
				if name == "encoding/json.Marshal" {
					for _, r := range an.Referrers(call) {
						if ex, ok := r.(*ssa.Extract); ok && ex.Index == 1 && len(an.Referrers(ex)) > 0 {
							used = true
						}
					}
				} else {
					used = len(an.Referrers(call)) > 0
				}
				c.R.Check(used, shortFn(topFn(fn))+"/"+lastSeg(an.CalleeOf(call).FullName())+"-error", c.ipos(i), "error examined",
					"the error of this JSON encode is dropped: a value that cannot be encoded writes nothing, and the enclosing object or list is emitted with a hole (`{\"m\":}`) — not a JSON text")
			}
		}
	}
	if n < 2 {
		c.R.Fail("encode-errors-kept: %d encodes found", n)
	}
}

// readerIndexInRange: bytesReader keeps 0 <= i <= len: the slice expression of Read is taken only behind an upper-bound test of
// the index (a strict or non-strict order comparison with the length, not an equality), and Seek stores a computed position only
// behind a test that it is not negative.
func readerIndexInRange(c *Ctx) {
	c.R.Rule("reader-index-in-range", "transport.(*bytesReader): Read slices the data only on an edge where the index was order-compared with the length; Seek stores the new index only on an edge where it was compared with 0", 2)
	if fn := c.fn(pkgTransport, "*bytesReader.Read"); fn != nil {
		n := 0
		for _, b := range fn.Blocks {
			for _, i := range b.Instrs {
				sl, ok := i.(*ssa.Slice)
				if !ok || sl.Low == nil {
					continue
				}
				if _, isC := sl.Low.(*ssa.Const); isC {
					continue
				}
				n++
				ok = false
				for _, f := range an.Facts(i) {
					switch f.Op {
					case token.LSS, token.LEQ, token.GTR, token.GEQ:
						if an.SameExpr(f.X, sl.Low) || an.SameVar(f.X, sl.Low) || an.SameExpr(f.Y, sl.Low) || an.SameVar(f.Y, sl.Low) {
							ok = true
						}
					}
				}
				c.R.Check(ok, "bytesReader.Read/slice-low", c.ipos(i), "index order-compared with the length",
					"the data is sliced from the index without an order comparison against its length (an equality test lets an index beyond the end through): Seek past the end followed by Read panics with slice bounds out of range")
			}
		}
		if n == 0 {
			c.R.Note("bytesReader.Read/slice-low", c.pos(fn.Pos()), "Read takes no slice from a variable index; not decided")
		}
	}
	if fn := c.fn(pkgTransport, "*bytesReader.Seek"); fn != nil {
		n := 0
		for _, b := range fn.Blocks {
			for _, i := range b.Instrs {
				st, ok := i.(*ssa.Store)
				if !ok {
					continue
				}
				fa, ok := st.Addr.(*ssa.FieldAddr)
				if !ok || fieldNameOf(fa) != "i" {
					continue
				}
				n++
				ok = false
				for _, f := range an.Facts(i) {
					k, isC := an.ConstInt(f.Y)
					if isC && k == 0 && (f.Op == token.GEQ || f.Op == token.LSS || f.Op == token.GTR || f.Op == token.LEQ) && (f.X == st.Val || an.SameVar(f.X, st.Val)) {
						ok = true
					}
				}
				c.R.Check(ok, "bytesReader.Seek/store-index", c.ipos(i), "position compared with 0 before it is stored",
					"Seek stores a position that was never compared with 0: Seek(-10, io.SeekEnd) on a short upload succeeds with a negative position and the next Read panics")
			}
		}
		if n == 0 {
			c.R.Note("bytesReader.Seek/store-index", c.pos(fn.Pos()), "Seek stores no index; not decided")
		}
	}
}

// directiveArgAssertChecked: in package graphql a value obtained from (*ast.Value).Value — what the client wrote as a directive
// argument, possibly null — is type-asserted only in the comma-ok form.
func directiveArgAssertChecked(c *Ctx) {
	c.R.Rule("directive-arg-assert-checked", "package graphql: every type assertion on the result of (*ast.Value).Value is of the comma-ok form", 2)
	n := 0
	for _, fn := range c.moduleFuncs(func(p string) bool { return p == pkgGraphql }) {
		for _, b := range fn.Blocks {
			for _, i := range b.Instrs {
				ta, ok := i.(*ssa.TypeAssert)
				if !ok {
					continue
				}
				ex, ok := an.Strip(ta.X).(*ssa.Extract)
				if !ok {
					continue
				}
				call, ok := ex.Tuple.(*ssa.Call)
				if !ok || !strings.HasSuffix(an.CalleeOf(call).FullName(), "gqlparser/v2/ast.Value).Value") {
					continue
				}
				n++
				c.R.Check(ta.CommaOk, shortFn(topFn(fn))+"/assert-on-directive-arg@"+argNameNear(call), c.ipos(i), "comma-ok assertion",
					"a directive argument's value is asserted without the comma-ok form: `@defer(if: $v)` with a null or omitted variable panics while collecting fields, and the whole field fails where the plain query succeeds")
			}
		}
	}
	if n < 2 {
		c.R.Fail("directive-arg-assert-checked: %d assertions found", n)
	}
}

// errorsNotDropped: in the runtime packages the error result of a call is looked at (tested, returned, stored, passed on) —
// not ignored.  Writes to the response (io.Writer / http / websocket writes, Close, deadlines, file removal) are exempt: their
// errors mean the client is gone and nothing can be done; three further sites are reviewed one by one.  A newly ignored error
// (a dropped `err =`, `_ = enc.Encode(v)`) turns a failure into silently wrong output.
var errorsDroppedReviewed = map[string]string{
	"(graphql.Omittable[T]).MarshalGQL→MarshalGQLContext":        "the value's own ContextMarshaler reports its error through the context it is given (graphql.AddError in the generated adapter); Omittable has no error result to hand it on",
	"(graphql.Omittable[T]).MarshalGQLContext→MarshalGQLContext": "as above",
	"graphql/handler:Marshal(*graphql.Response)":                 "package handler marshals a graphql.Response only to report a failure (sendError: built from strings; the recover epilogue of ServeHTTP: built from the presented error); a failing encoder leaves an empty body on a request that has already failed",
}

func errorsNotDropped(c *Ctx) {
	c.R.Rule("errors-not-dropped", "runtime packages (graphql, executor, handler, extension, transport, lru, complexity): every call whose last result is an error has that result used, except writes/closes/deadlines on the response or connection and the reviewed sites", 100)
	exemptMethod := map[string]bool{"Write": true, "WriteString": true, "WriteByte": true, "WriteRune": true, "Close": true, "Flush": true, "SetReadDeadline": true, "SetWriteDeadline": true,
		"WriteMessage": true, "WriteControl": true, "WriteJSON": true, "Remove": true, "Copy": true, "Fprintf": true, "Fprint": true, "Fprintln": true, "Stop": true, "Send": true}
	in := func(p string) bool {
		switch {
		case p == pkgGraphql, p == pkgExecutor, p == pkgHandler, p == pkgExtension, p == pkgTransport, p == pkgComplex, p == modPath("graphql/handler/lru"), p == modPath("graphql/errcode"):
			return true
		}
		return false
	}
	n := 0
	seenSite := map[string]bool{}
	for _, fn := range c.moduleFuncs(in) {
		for _, b := range fn.Blocks {
			for _, i := range b.Instrs {
				call, ok := i.(*ssa.Call)
				if !ok {
					continue
				}
				res := call.Call.Signature().Results()
				if res.Len() == 0 || !an.IsErrorType(res.At(res.Len()-1).Type()) {
					continue
				}
				if _, isB := call.Call.Value.(*ssa.Builtin); isB {
					continue
				}
				name := ""
				if call.Call.IsInvoke() {
					name = call.Call.Method.Name()
				} else {
					name = lastSeg(an.CalleeOf(call).FullName())
				}
				if exemptMethod[name] {
					continue
				}
				n++
				used := false
				if res.Len() == 1 {
					used = len(an.Referrers(call)) > 0
				} else {
					for _, r := range an.Referrers(call) {
						if ex, ok := r.(*ssa.Extract); ok && ex.Index == res.Len()-1 && len(an.Referrers(ex)) > 0 {
							used = true
						}
					}
				}
				if used {
					continue
				}
				top := topFn(fn)
				if o := top.Origin(); o != nil {
					top = o // all instantiations of a generic method are one site
				}
				key := shortFn(top) + "→" + name
				if seenSite[key+"@"+c.ipos(i)] {
					continue
				}
				seenSite[key+"@"+c.ipos(i)] = true
				if why, ok := errorsDroppedReviewed[key]; ok {
					c.R.OK(key, c.ipos(i), "reviewed: "+why)
					continue
				}
				// a helper of the package whose only error comes from a reviewed encode (marshalErrorResponse wraps
				// json.Marshal(*graphql.Response)): ignoring the helper's error is ignoring that one
				if h := call.Call.StaticCallee(); h != nil && h.Pkg == top.Pkg && len(h.Blocks) > 0 && top.Pkg != nil {
					reviewedInner, otherErr := false, false
					for _, hb := range h.Blocks {
						for _, hi := range hb.Instrs {
							hc, ok := hi.(*ssa.Call)
							if !ok {
								continue
							}
							hr := hc.Call.Signature().Results()
							if hr.Len() == 0 || !an.IsErrorType(hr.At(hr.Len()-1).Type()) {
								continue
							}
							hname := lastSeg(an.CalleeOf(hc).FullName())
							if len(hc.Call.Args) > 0 {
								a := hc.Call.Args[0]
								if mi, ok := a.(*ssa.MakeInterface); ok {
									a = mi.X
								}
								hk := shortPkgPath(top.Pkg.Pkg.Path()) + ":" + hname + "(" + strings.ReplaceAll(a.Type().String(), modPath("")+"/", "") + ")"
								if _, ok := errorsDroppedReviewed[hk]; ok {
									reviewedInner = true
									continue
								}
							}
							otherErr = true
						}
					}
					if reviewedInner && !otherErr {
						c.R.OK(key, c.ipos(i), "reviewed: the helper's only error is that of the reviewed encode inside it")
						continue
					}
				}
				// reviewed by what is encoded rather than by where: package + callee + static type of the encoded value
				if len(call.Call.Args) > 0 && top.Pkg != nil {
					arg := call.Call.Args[0]
					if mi, ok := arg.(*ssa.MakeInterface); ok {
						arg = mi.X
					}
					k2 := shortPkgPath(top.Pkg.Pkg.Path()) + ":" + name + "(" + strings.ReplaceAll(arg.Type().String(), modPath("")+"/", "") + ")"
					if why, ok := errorsDroppedReviewed[k2]; ok {
						c.R.OK(key, c.ipos(i), "reviewed: "+why)
						continue
					}
				}
				c.R.Bad(key, c.ipos(i), "the error returned by "+name+" is ignored here: when it fails the code carries on as if it had succeeded (a value is missing from the output, a failed step is not reported)")
			}
		}
	}
	c.R.SetFloor(1)
	if n < 100 {
		c.R.Fail("errors-not-dropped: only %d error-returning calls examined", n)
	}
}
