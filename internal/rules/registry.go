// Package rules holds the rule instances per property (DESIGN.md §3).
package rules

import (
	"fmt"
	"go/token"
	"sort"
	"strings"

	gast "github.com/vektah/gqlparser/v2/ast"
	"golang.org/x/tools/go/ssa"

	"verif/internal/ob"
	"verif/internal/pipeline"
)

// Ctx is what a rule sees.
type Ctx struct {
	W    *pipeline.World
	R    *ob.Report
	Tier string
	Gen  []*GenPkg // materialised executor packages (template properties)
	// Alt386 lazily loads ./graphql for GOARCH=386 (thorough tier, lossy-conv)
	Alt386 func() *pipeline.World

	valHelpers    map[*ssa.Function]int  // C03: validation helpers of package executor (lazily computed)
	gateHelperSet map[*ssa.Function]bool // C03: list-returning helpers reachable from CreateOperationContext / parseQuery
}

// GenPkg is one materialised executor package.
type GenPkg struct {
	Name string // short name used in keys
	Path string // import path
	Mat  *pipeline.Materialised
	SSA  *ssa.Package
	Fed  bool
	Spec GenSpec

	schemaDone bool
	schemaVal  *gast.Schema
	funcs      []*ssa.Function
	cfgDone    bool
	cfg        map[string]any
}

// Property describes one property's check.
type Property struct {
	ID          string
	NeedGen     bool
	Runtime     []string // package patterns (module-relative) always loaded
	Run         func(*Ctx)
	Explanation string
	NotDecided  string
	Assumptions []string
	Technique   string // MANIFEST technique
	LevelText   string // MANIFEST level_claimed.text ("" = Explanation)
}

// NotApplicable lists properties that are not claimed, with the reason (MANIFEST not_applicable).
var NotApplicable = map[string]string{}

var registry = map[string]*Property{}

func register(p *Property) { registry[p.ID] = p }

func Get(id string) *Property { return registry[id] }

func IDs() []string {
	var out []string
	for id := range registry {
		out = append(out, id)
	}
	sort.Strings(out)
	return out
}

// ---- helpers shared by rules -------------------------------------------------------------------

func (c *Ctx) pos(p token.Pos) string { return c.W.Pos(p) }

func (c *Ctx) ipos(in ssa.Instruction) string {
	if in.Pos().IsValid() {
		return c.W.Pos(in.Pos())
	}
	// fall back to the nearest positioned instruction in the block, then the function
	b := in.Block()
	if b != nil {
		for _, x := range b.Instrs {
			if x.Pos().IsValid() {
				return c.W.Pos(x.Pos()) + "(near)"
			}
		}
	}
	if in.Parent() != nil {
		return c.W.Pos(in.Parent().Pos()) + "(func)"
	}
	return "-"
}

// fn resolves a function anchor or records an unresolved-anchor failure.
func (c *Ctx) fn(pkg, name string) *ssa.Function {
	f := c.W.Func(pkg, name)
	if f == nil || len(f.Blocks) == 0 {
		c.R.Fail("unresolved anchor: function %s.%s not found in the loaded program", pkg, name)
		return nil
	}
	return f
}

// shortFn renders a function name for obligation keys: pkgname.Recv.Method$1
func shortFn(f *ssa.Function) string {
	s := f.String()
	s = strings.ReplaceAll(s, pipeline.Module+"/", "")
	s = strings.ReplaceAll(s, "github.com/vektah/gqlparser/v2/", "gqlparser/")
	return s
}

func sprintf(f string, a ...any) string { return fmt.Sprintf(f, a...) }

// modPath turns a module-relative path into an import path.
func modPath(rel string) string {
	if rel == "" || rel == "." {
		return pipeline.Module
	}
	return pipeline.Module + "/" + rel
}

const (
	pkgGraphql   = pipeline.Module + "/graphql"
	pkgExecutor  = pipeline.Module + "/graphql/executor"
	pkgTransport = pipeline.Module + "/graphql/handler/transport"
	pkgHandler   = pipeline.Module + "/graphql/handler"
	pkgExtension = pipeline.Module + "/graphql/handler/extension"
	pkgIntrosp   = pipeline.Module + "/graphql/introspection"
	pkgComplex   = pipeline.Module + "/complexity"
	pkgErrcode   = pipeline.Module + "/graphql/errcode"
	pkgAST       = "github.com/vektah/gqlparser/v2/ast"
	pkgGqlerror  = "github.com/vektah/gqlparser/v2/gqlerror"
	pkgValidator = "github.com/vektah/gqlparser/v2/validator"
	pkgParser    = "github.com/vektah/gqlparser/v2/parser"
)

// RuntimeCore is the pattern set of the runtime packages.
var RuntimeCore = []string{"./graphql/...", "./complexity"}

func sortStrings(s []string) { sort.Strings(s) }
