package rules

import (
	"go/ast"
	"go/token"
	"go/types"
	"sort"
	"strings"

	"golang.org/x/tools/go/ssa"

	"verif/internal/an"
	"verif/internal/pipeline"
)

func init() {
	register(&Property{
		ID:      "C16",
		NeedGen: true,
		Runtime: RuntimeCore,
		Run:     runC16,
		Explanation: "Introspection gate and attribute provenance: (gate) in every materialised executor each call of introspection.WrapSchema/WrapTypeFromDef/WrapTypeFromType, and each read of the embedded SDL `sources` outside " +
			"package initialisation (federation _service), is edge-dominated by DisableIntrospection == false; introspection's wrapper types have only unexported fields, so no other code can fabricate a description; " +
			"(flag-writers) OperationContext.DisableIntrospection is stored only by the executor (constant true) and by extension.Introspection (constant false); (own-attributes) in every composite literal of " +
			"introspection.Field/InputValue/EnumValue/Directive all schema-node operands are the very node the element's Name is read from, and sibling literals of one wrapper type set the same keys; (deprecated-iff-directive) EnumValue/Field/InputValue.IsDeprecated is exactly the presence of the element's own deprecation directive (a bare @deprecated without reason included); (default-only-absent) the default-value renderer returns nil only for an absent default. (stateless-introspection) package introspection writes no package-level state outside initialisation.",
		NotDecided:  "that the introspection result rebuilds the schema exactly (value-level: defaults' text, ordering, possible-type relations)",
		Assumptions: []string{"user resolvers do not expose the schema through their own fields"},
	})
}

func isDisableIntrospectionLoad(v ssa.Value) bool {
	fa, ok := loadAddr(v).(*ssa.FieldAddr)
	return ok && fieldNameOf(fa) == "DisableIntrospection"
}

func introspectionEnabledAt(in ssa.Instruction) bool {
	for _, f := range an.Facts(in) {
		if f.Op == token.ILLEGAL && f.Neg && isDisableIntrospectionLoad(f.X) {
			return true
		}
	}
	return false
}

func runC16(c *Ctx) {
	c16Small(c)
	// the description is built from the shared parsed schema without writing to it (C07/ast-immutable)
	c07ASTImmutable(c)
	layoutAgreement(c)
	nilDerefOnNilEdge(c, "nil-deref-on-nil-edge", pkgIntrosp)
	c16Round2(c)
	c.R.Rule("gate", "in every materialised package: calls of introspection.Wrap* and reads of the embedded SDL table outside init are edge-dominated by DisableIntrospection == false", 2*len(c.Gen))
	for _, g := range c.Gen {
		n := 0
		for _, fn := range c.genFuncs(g) {
			top := topFn(fn)
			for _, call := range an.CallsIn(fn, func(_ ssa.CallInstruction, ci an.CalleeInfo) bool {
				return strings.HasPrefix(ci.FullName(), pkgIntrosp+".Wrap")
			}) {
				n++
				c.R.Check(introspectionEnabledAt(call), "gen:"+g.Name+"/"+top.Name()+"→"+call.Common().StaticCallee().Name(), c.ipos(call),
					"guarded by !DisableIntrospection", "schema description is built without testing DisableIntrospection: introspection data is served although it is disabled")
			}
			if strings.HasPrefix(top.Name(), "init") {
				continue
			}
			for _, b := range fn.Blocks {
				for _, in := range b.Instrs {
					for _, op := range in.Operands(nil) {
						gl, ok := (*op).(*ssa.Global)
						if !ok || gl.Name() != "sources" || gl.Pkg != g.SSA {
							continue
						}
						n++
						c.R.Check(introspectionEnabledAt(in), "gen:"+g.Name+"/"+top.Name()+"→sources", c.ipos(in),
							"SDL read guarded by !DisableIntrospection", "the schema SDL is read on a request path without testing DisableIntrospection (federation _service leak)")
					}
				}
			}
		}
		if n < 2 {
			c.R.Fail("gen:%s: expected at least the two gated introspection helpers, found %d guarded constructs", g.Name, n)
		}
	}

	c.R.Rule("flag-writers", "OperationContext.DisableIntrospection is stored only by Executor.CreateOperationContext (true) and extension.Introspection.MutateOperationContext (false)", 2)
	all := c.W.FuncsIn(func(p string) bool { return pipeline.InModule(p) && !strings.Contains(p, "verif_fixtures") })
	for _, fn := range all {
		for _, b := range fn.Blocks {
			for _, in := range b.Instrs {
				st, ok := in.(*ssa.Store)
				if !ok {
					continue
				}
				fa, ok := st.Addr.(*ssa.FieldAddr)
				if !ok || fieldNameOf(fa) != "DisableIntrospection" || !an.NamedIs(fa.X.Type(), pkgGraphql, "OperationContext") {
					continue
				}
				t := topFn(fn)
				cv, isC := st.Val.(*ssa.Const)
				val := ""
				if isC && cv.Value != nil {
					val = cv.Value.ExactString()
				}
				ok = (t.String() == "(*"+pkgExecutor+".Executor).CreateOperationContext" && val == "true") ||
					(t.String() == "("+pkgExtension+".Introspection).MutateOperationContext" && val == "false")
				c.R.Check(ok, shortFn(t)+"/store:DisableIntrospection="+val, c.ipos(st), "reviewed writer", "an additional writer of DisableIntrospection: introspection can be switched on outside the Introspection extension")
			}
		}
	}

	c16OwnAttributes(c)
	c16OptionalOnlyWhenAbsent(c)
	c16DeprecatedIffDirective(c)
	c16Stateless(c)
}

// c16OptionalOnlyWhenAbsent: the helper that renders a default value returns "absent" (nil) only when the schema node has no default.
func c16OptionalOnlyWhenAbsent(c *Ctx) {
	c.R.Rule("default-only-absent", "introspection's default-value renderer returns nil only on the edge where its *ast.Value argument is nil: every declared default (including the literal null) is described", 1)
	// resolved by role: the function of package introspection with signature func(*ast.Value) *string
	var fn *ssa.Function
	for _, f := range c.moduleFuncs(func(p string) bool { return p == pkgIntrosp }) {
		if f.Parent() == nil && f.Signature.Params().Len() == 1 && f.Signature.Results().Len() == 1 && an.NamedIs(f.Signature.Params().At(0).Type(), pkgAST, "Value") {
			if p, ok := f.Signature.Results().At(0).Type().(*types.Pointer); ok {
				if b, ok := p.Elem().Underlying().(*types.Basic); ok && b.Kind() == types.String {
					fn = f
				}
			}
		}
	}
	if fn == nil {
		c.R.Fail("unresolved anchor: no func(*ast.Value) *string in package introspection")
		return
	}
	bad := ""
	nnil := 0
	for _, r := range an.Returns(fn) {
		for _, ve := range returnValueEdges(r, 0) {
			if !an.IsNilConst(ve.val) {
				continue
			}
			nnil++
			gs := an.BlockGuards(ve.from)
			if ve.edgeIf != nil {
				gs = append(gs, *ve.edgeIf)
			}
			ok := false
			for _, g := range gs {
				if empty, k := an.EmptinessFact(an.FactOf(g), func(v ssa.Value) bool { return v == ssa.Value(fn.Params[0]) }); k && empty {
					ok = true
				}
			}
			if !ok {
				bad = "nil (no default) can be returned at " + c.ipos(r) + " for a value node that is present: a declared default (for example `= null`) disappears from the introspection result"
			}
		}
	}
	c.R.Check(bad == "" && nnil > 0, shortFn(fn)+"/nil-only-when-absent", c.pos(fn.Pos()), "nil only on value == nil", bad)
}

func c16OwnAttributes(c *Ctx) {
	c.R.Rule("own-attributes", "in package introspection every composite literal of Field/InputValue/EnumValue/Directive reads all schema-node operands from the node its Name comes from, and sibling literals of one wrapper type set the same keys", 6)
	tp := c.W.TPkg(pkgIntrosp)
	if tp == nil {
		c.R.Fail("unresolved anchor: package introspection")
		return
	}
	type lit struct {
		pos  token.Pos
		keys []string
		fn   string
	}
	byType := map[string][]lit{}
	isNode := func(t types.Type) bool {
		p, ok := t.(*types.Pointer)
		if !ok {
			return false
		}
		n, ok := p.Elem().(*types.Named)
		if !ok || n.Obj().Pkg() == nil || n.Obj().Pkg().Path() != pkgAST {
			return false
		}
		switch n.Obj().Name() {
		case "FieldDefinition", "ArgumentDefinition", "EnumValueDefinition", "DirectiveDefinition", "Definition":
			return true
		}
		return false
	}
	for _, f := range tp.Syntax {
		var fnName string
		ast.Inspect(f, func(n ast.Node) bool {
			if fd, ok := n.(*ast.FuncDecl); ok {
				fnName = fd.Name.Name
			}
			cl, ok := n.(*ast.CompositeLit)
			if !ok {
				return true
			}
			tv, ok := tp.TypesInfo.Types[cl]
			if !ok {
				return true
			}
			named, ok := tv.Type.(*types.Named)
			if !ok || named.Obj().Pkg() == nil || named.Obj().Pkg().Path() != pkgIntrosp {
				return true
			}
			switch named.Obj().Name() {
			case "Field", "InputValue", "EnumValue", "Directive":
			default:
				return true
			}
			// root node object of the Name key
			roots := func(e ast.Expr) map[types.Object]bool {
				out := map[types.Object]bool{}
				ast.Inspect(e, func(n ast.Node) bool {
					// a schema node reached through a struct field (t.def): counts as a different node than any local
					if se, ok := n.(*ast.SelectorExpr); ok {
						if sel := tp.TypesInfo.Selections[se]; sel != nil && sel.Kind() == types.FieldVal && isNode(sel.Type()) {
							out[sel.Obj()] = true
						}
					}
					if id, ok := n.(*ast.Ident); ok {
						if o := tp.TypesInfo.Uses[id]; o != nil {
							if v, ok := o.(*types.Var); ok && !v.IsField() && isNode(v.Type()) {
								out[o] = true
							}
						}
					}
					return true
				})
				return out
			}
			var nameRoot types.Object
			var keys []string
			for _, e := range cl.Elts {
				kv, ok := e.(*ast.KeyValueExpr)
				if !ok {
					continue
				}
				k := kv.Key.(*ast.Ident).Name
				keys = append(keys, k)
				if k == "Name" {
					for o := range roots(kv.Value) {
						nameRoot = o
					}
				}
			}
			sort.Strings(keys)
			key := named.Obj().Name() + "@" + fnName
			byType[named.Obj().Name()] = append(byType[named.Obj().Name()], lit{cl.Pos(), keys, fnName})
			if nameRoot == nil {
				c.R.Unknown(key+"/provenance", c.pos(cl.Pos()), "could not determine the schema node the element's Name is read from")
				return true
			}
			bad := ""
			for _, e := range cl.Elts {
				kv, ok := e.(*ast.KeyValueExpr)
				if !ok {
					continue
				}
				for o := range roots(kv.Value) {
					if o != nameRoot {
						bad = sprintf("attribute %s is read from %s, but the element is %s: the element reports another node's %s", kv.Key.(*ast.Ident).Name, o.Name(), nameRoot.Name(), kv.Key.(*ast.Ident).Name)
					}
				}
			}
			c.R.Check(bad == "", key+"/provenance", c.pos(cl.Pos()), "all schema-node operands are "+nameRoot.Name(), bad)
			return true
		})
	}
	var tnames []string
	for t := range byType {
		tnames = append(tnames, t)
	}
	sort.Strings(tnames)
	for _, t := range tnames {
		lits := byType[t]
		union := map[string]bool{}
		for _, l := range lits {
			for _, k := range l.keys {
				union[k] = true
			}
		}
		for _, l := range lits {
			var missing []string
			for k := range union {
				found := false
				for _, k2 := range l.keys {
					if k2 == k {
						found = true
					}
				}
				if !found {
					missing = append(missing, k)
				}
			}
			sort.Strings(missing)
			c.R.Check(len(missing) == 0, t+"@"+l.fn+"/keys", c.pos(l.pos), sprintf("sets the same %d keys as its %d sibling literal(s)", len(l.keys), len(lits)-1),
				"this "+t+" literal does not set "+strings.Join(missing, ",")+" although sibling literals of the same wrapper do: the attribute is silently dropped for this kind of element")
		}
	}
}

// c16DeprecatedIffDirective: an element's isDeprecated is the presence of its own @deprecated directive — nothing else (a bare
// @deprecated without a reason is still deprecated).  In EnumValue/Field/InputValue.IsDeprecated every returned value is the
// comparison `recv.deprecation != nil`, or a constant agreeing with such a test on the edge it is returned on, or `h() != nil`
// for a method h of the same receiver that returns nil exactly on the deprecation == nil edges.
func c16DeprecatedIffDirective(c *Ctx) {
	c.R.Rule("deprecated-iff-directive", "introspection.{EnumValue,Field,InputValue}.IsDeprecated is true exactly when the element's own deprecation directive is present (independent of whether a reason was given)", 3)
	isOwnDeprecation := func(v ssa.Value, recv ssa.Value) bool {
		fa, ok := loadAddr(v).(*ssa.FieldAddr)
		return ok && fieldNameOf(fa) == "deprecation" && an.SameVar(fa.X, recv)
	}
	// nilness fact about the receiver's deprecation field at an instruction / on an edge
	depFact := func(fs []an.Fact, recv ssa.Value) (present, known bool) {
		for _, f := range fs {
			if empty, k := an.EmptinessFact(f, func(x ssa.Value) bool { return isOwnDeprecation(x, recv) }); k {
				return !empty, true
			}
		}
		return false, false
	}
	for _, typ := range []string{"EnumValue", "Field", "InputValue"} {
		fn := c.fn(pkgIntrosp, "*"+typ+".IsDeprecated")
		if fn == nil {
			continue
		}
		recv := ssa.Value(fn.Params[0])
		bad := ""
		n := 0
		var judge func(v ssa.Value, facts []an.Fact, depth int) string
		judge = func(v ssa.Value, facts []an.Fact, depth int) string {
			switch x := v.(type) {
			case *ssa.Const:
				if x.Value == nil {
					return "returns a non-boolean constant"
				}
				present, known := depFact(facts, recv)
				want := x.Value.String() == "true"
				if !known {
					return "returns the constant " + x.Value.String() + " on a path that does not depend on the element's deprecation directive"
				}
				if present != want {
					return "returns " + x.Value.String() + " on the edge where the deprecation directive is " + map[bool]string{true: "present", false: "absent"}[present]
				}
				return ""
			case *ssa.BinOp:
				if x.Op == token.NEQ || x.Op == token.EQL {
					for _, pr := range [][2]ssa.Value{{x.X, x.Y}, {x.Y, x.X}} {
						if !an.IsNilConst(pr[1]) {
							continue
						}
						if isOwnDeprecation(pr[0], recv) {
							if x.Op == token.NEQ {
								return ""
							}
							return "returns deprecation == nil (inverted)"
						}
						// h() != nil for a method of the same receiver that is nil exactly when the directive is absent
						if call, ok := pr[0].(*ssa.Call); ok && x.Op == token.NEQ && call.Call.StaticCallee() != nil && len(call.Call.Args) > 0 && an.SameVar(call.Call.Args[0], recv) {
							h := call.Call.StaticCallee()
							if depth < 2 && nilIffNoDeprecation(h) {
								return ""
							}
							return "is derived from " + shortFn(h) + "() != nil, which is also nil for an element that carries a bare @deprecated (no reason argument): such an element is reported as not deprecated"
						}
					}
				}
			case *ssa.UnOp:
				if x.Op == token.NOT {
					if r := judge(x.X, facts, depth+1); r == "" {
						return "returns the negation of the presence test"
					}
				}
			}
			return "returns a value that is not the presence test of the element's own deprecation directive"
		}
		for _, r := range an.Returns(fn) {
			if fn.Recover != nil && r.Block() == fn.Recover {
				continue
			}
			for _, ve := range returnValueEdges(r, 0) {
				n++
				facts := an.Facts(r)
				if ve.from != nil {
					facts = nil
					for _, g := range an.BlockGuards(ve.from) {
						facts = append(facts, an.FactOf(g))
					}
					if ve.edgeIf != nil {
						facts = append(facts, an.FactOf(*ve.edgeIf))
					}
				}
				if w := judge(an.Strip(ve.val), facts, 0); w != "" {
					bad = w
				}
			}
		}
		c.R.Check(bad == "" && n > 0, typ+".IsDeprecated", c.pos(fn.Pos()), "deprecation != nil", typ+".IsDeprecated "+bad+": introspection no longer shows this element's own deprecation status")
	}
}

// nilIffNoDeprecation: method h returns nil exactly on edges where the receiver's deprecation field is nil.
func nilIffNoDeprecation(h *ssa.Function) bool {
	if len(h.Blocks) == 0 || len(h.Params) == 0 {
		return false
	}
	recv := ssa.Value(h.Params[0])
	n := 0
	for _, r := range an.Returns(h) {
		if h.Recover != nil && r.Block() == h.Recover {
			continue
		}
		if len(r.Results) != 1 {
			return false
		}
		n++
		present, known := false, false
		for _, f := range an.Facts(r) {
			if empty, k := an.EmptinessFact(f, func(x ssa.Value) bool {
				fa, ok := loadAddr(x).(*ssa.FieldAddr)
				return ok && fieldNameOf(fa) == "deprecation" && an.SameVar(fa.X, recv)
			}); k {
				present, known = !empty, true
			}
		}
		if !known {
			return false
		}
		v := an.ReturnedValue(r, 0)
		isNil := an.IsNilConst(v)
		nonNil := false
		switch v.(type) {
		case *ssa.Alloc, *ssa.FieldAddr, *ssa.IndexAddr:
			nonNil = true
		}
		if !nonNil && nonNilAt(r, v) {
			nonNil = true
		}
		if present && !nonNil || !present && !isNil {
			return false
		}
	}
	return n > 0
}

// c16Stateless: what introspection reports is a function of the schema alone.  Package introspection keeps no package-level
// state that is written while serving: a process-wide cache of wrapped fields/types would be shared by every request (and every
// schema) and any in-place filtering of what it holds — dropping deprecated entries for one listing — changes what later
// listings of the same type report.
func c16Stateless(c *Ctx) {
	c.R.Rule("stateless-introspection", "no function of package graphql/introspection (outside package initialisation) stores to a package-level variable, updates a package-level map or calls a mutating method of a package-level sync.Map", 1)
	ws := c.globalWritesIn(pkgIntrosp)
	for _, w := range ws {
		c.R.Bad(w[0], w[1], "package introspection keeps process-wide mutable state: what one introspection request does to it (e.g. filtering deprecated fields in place) is seen by every later request, so the description no longer mirrors the schema")
	}
	n := len(c.moduleFuncs(func(p string) bool { return p == pkgIntrosp }))
	c.R.Check(n > 20, "introspection/scan", "graphql/introspection", sprintf("%d functions scanned, %d package-level writes", n, len(ws)), "package introspection not loaded")
}
