package rules

import (
	"go/constant"
	"go/token"
	"go/types"
	"sort"
	"strings"

	"golang.org/x/tools/go/ssa"

	"verif/internal/an"
)

// Generic discipline rules written after the third small-slip round.  Like the rules of round2_runtime.go they know nothing
// about a property: they encode what a consistent program looks like, and they run under every property whose statement
// the inconsistency would break.

func inPkgs(pkgs []string) func(string) bool {
	return func(p string) bool {
		for _, q := range pkgs {
			if p == q {
				return true
			}
		}
		return false
	}
}

// scopeFuncs: functions of the given runtime packages plus, when gen is set, of every materialised executor package.
func (c *Ctx) scopeFuncs(pkgs []string, gen bool) []*ssa.Function {
	fns := c.moduleFuncs(inPkgs(pkgs))
	if gen {
		for _, g := range c.Gen {
			fns = append(fns, c.genFuncs(g)...)
		}
	}
	return fns
}

func (c *Ctx) fnKey(fn *ssa.Function) string {
	for _, g := range c.Gen {
		if fn.Pkg != nil && fn.Pkg == g.SSA {
			return "gen:" + g.Name + "/" + strings.TrimPrefix(shortFn(fn), shortPkgPath(g.Path)+".")
		}
	}
	return shortFn(fn)
}

func shortPkgPath(p string) string { return strings.TrimPrefix(p, modPath("")+"/") }

// wgAddBeforeGo: a WaitGroup's Add for a goroutine happens before the go statement, never inside the goroutine it accounts
// for (Wait may otherwise return before the goroutine has registered).
func wgAddBeforeGo(c *Ctx, rule string, gen bool, pkgs ...string) {
	c.R.Rule(rule, "no sync.WaitGroup.Add inside a function started by a go statement on a WaitGroup that lives outside that function (Wait could return before the goroutine registered itself)", 1)
	n := 0
	for _, fn := range c.scopeFuncs(pkgs, gen) {
		if fn.Parent() != nil {
			continue
		}
		for _, gs := range an.GoSites(fn) {
			if gs.Callee == nil {
				continue
			}
			n++
			var bad ssa.Instruction
			for _, body := range an.WithClosures(gs.Callee) {
				for _, call := range an.CallsIn(body, func(_ ssa.CallInstruction, ci an.CalleeInfo) bool {
					return ci.FullName() == "(*sync.WaitGroup).Add"
				}) {
					recv := call.Common().Args[0]
					if a, ok := an.RootAlloc(recv).(*ssa.Alloc); ok && a.Parent() == body && !a.Heap {
						continue
					}
					if a, ok := an.RootAlloc(recv).(*ssa.Alloc); ok && a.Parent() == body {
						// a WaitGroup declared inside the goroutine for its own children
						continue
					}
					bad = call
				}
			}
			key := c.fnKey(topFn(fn)) + "/go:" + gs.Callee.Name()
			if bad != nil {
				c.R.Bad(key, c.ipos(bad), "WaitGroup.Add is called inside the goroutine it accounts for: the spawner's Wait can return before this goroutine has registered, so results are read (or the response is closed) while it still runs")
			} else {
				c.R.OK(key, c.ipos(gs.Go), "no Add on an outer WaitGroup inside the goroutine")
			}
		}
	}
	if n == 0 {
		c.R.Fail("%s: no go statement examined", rule)
	}
}

// constIndexInRange: inside a loop that ranges over (or indexes up to the length of) a slice, that same slice is not read at a
// constant index where the sibling statements use the loop index (`ret[i] = f(v[0])`).
func constIndexInRange(c *Ctx, rule string, gen bool, pkgs ...string) {
	c.R.Rule(rule, "inside an index loop over a slice, a value stored at the loop index (or appended) is not computed from the same slice read at a constant index", 1)
	n := 0
	for _, fn := range c.scopeFuncs(pkgs, gen) {
		for _, l := range an.Loops(fn) {
			ir, ok := an.LoopIndexRange(l)
			if !ok || ir.Of == nil {
				continue
			}
			n++
			var bad ssa.Instruction
			for b := range l.Blocks {
				for _, in := range b.Instrs {
					ia, ok := in.(*ssa.IndexAddr)
					if !ok {
						continue
					}
					if _, isC := an.ConstInt(ia.Index); !isC {
						continue
					}
					if !an.SameExpr(ia.X, ir.Of) {
						continue
					}
					// the constant read feeds a store at the loop index
					if feedsIndexedStore(ia, ir.Index, l) {
						bad = in
					}
				}
			}
			key := c.fnKey(fn) + "/loop@" + loopKey(l)
			if bad != nil {
				c.R.Bad(key, c.ipos(bad), "the loop walks the slice by index but this element is read at a constant index and stored per iteration: every position gets the same element")
			} else {
				c.R.OK(key, c.ipos(l.Header.Instrs[0]), "no per-iteration store computed from a constant index of the ranged slice")
			}
		}
	}
	if n == 0 {
		c.R.Fail("%s: no index loop over a slice found", rule)
	}
}

func loopKey(l *an.Loop) string { return sprintf("b%d", l.Header.Index) }

// feedsIndexedStore: addr (an element address) is loaded and the loaded value reaches, through calls and conversions of the
// same block region, a store whose address is indexed by idx.
func feedsIndexedStore(addr *ssa.IndexAddr, idx ssa.Value, l *an.Loop) bool {
	seen := map[ssa.Value]bool{}
	var flows func(v ssa.Value, depth int) bool
	flows = func(v ssa.Value, depth int) bool {
		if depth > 6 || seen[v] {
			return false
		}
		seen[v] = true
		refs := v.Referrers()
		if refs == nil {
			return false
		}
		for _, r := range *refs {
			if !l.Blocks[r.Block()] {
				continue
			}
			switch x := r.(type) {
			case *ssa.Store:
				if x.Val == v {
					if ia, ok := x.Addr.(*ssa.IndexAddr); ok && an.SameExpr(ia.Index, idx) {
						return true
					}
				}
			case ssa.Value:
				switch x.(type) {
				case *ssa.UnOp, *ssa.Call, *ssa.ChangeType, *ssa.Convert, *ssa.MakeInterface, *ssa.ChangeInterface, *ssa.Phi:
					if flows(x, depth+1) {
						return true
					}
				}
			}
		}
		return false
	}
	return flows(addr, 0)
}

// ifaceConstCompare: an interface value is not compared with a boxed constant in a place where its dynamic type can differ from
// the constant's (a `case int, bool:` clause comparing v != 0 is true for every bool).
func ifaceConstCompare(c *Ctx, rule string, pkgs ...string) {
	c.R.Rule(rule, "scalar and coercion code: an interface value is never compared (==, !=) with a constant of a concrete non-string type boxed into an interface (the comparison is decided by the dynamic type, not the value)", 0)
	n := 0
	for _, fn := range c.moduleFuncs(inPkgs(pkgs)) {
		for _, b := range fn.Blocks {
			for _, in := range b.Instrs {
				bo, ok := in.(*ssa.BinOp)
				if !ok || (bo.Op != token.EQL && bo.Op != token.NEQ) {
					continue
				}
				if _, isI := bo.X.Type().Underlying().(*types.Interface); !isI {
					continue
				}
				n++
				for _, side := range []ssa.Value{bo.X, bo.Y} {
					mi, ok := side.(*ssa.MakeInterface)
					if !ok {
						continue
					}
					k, ok := mi.X.(*ssa.Const)
					if !ok || k.Value == nil {
						continue
					}
					if k.Value.Kind() == constant.String {
						continue
					}
					c.R.Bad(c.fnKey(fn)+"/iface-vs-"+k.Value.String(), c.ipos(in), "an interface value is compared with the boxed constant "+k.Value.String()+": for a dynamic type other than "+mi.X.Type().String()+" the comparison says 'different' whatever the value (false != 0 is true)")
				}
			}
		}
	}
	c.R.Note(rule+"/examined", "-", sprintf("%d interface comparisons examined", n))
}

// trimCutsetLooksLikePrefix: strings.TrimLeft/TrimRight/Trim take a *set of characters*; a constant cutset that reads like a word is
// a TrimPrefix/TrimSuffix written wrongly (it eats every leading character of the set).
func trimCutsetLooksLikePrefix(c *Ctx, rule string, pkgs ...string) {
	c.R.Rule(rule, "no strings.TrimLeft/TrimRight/Trim (or bytes.*) with a constant cutset of three or more letters or digits: that is a prefix/suffix, and the cutset form removes any run of those characters", 0)
	n := 0
	for _, fn := range c.moduleFuncs(inPkgs(pkgs)) {
		for _, call := range an.CallsIn(fn, func(_ ssa.CallInstruction, ci an.CalleeInfo) bool {
			switch ci.FullName() {
			case "strings.TrimLeft", "strings.TrimRight", "strings.Trim", "bytes.TrimLeft", "bytes.TrimRight", "bytes.Trim":
				return true
			}
			return false
		}) {
			n++
			s, ok := an.ConstString(call.Common().Args[1])
			if !ok {
				continue
			}
			alnum := 0
			for _, r := range s {
				if r >= 'a' && r <= 'z' || r >= 'A' && r <= 'Z' || r >= '0' && r <= '9' {
					alnum++
				}
			}
			if alnum >= 3 {
				c.R.Bad(c.fnKey(fn)+"/cutset:"+s, c.ipos(call), "the cutset \""+s+"\" reads like a prefix: TrimLeft removes every leading character that occurs in it (`query Q {…}` loses `query Q` down to the first other character), TrimPrefix was meant")
			}
		}
	}
	c.R.Note(rule+"/examined", "-", sprintf("%d Trim calls examined", n))
}

// hexAlphabetIntact: a 16-character constant made of hexadecimal digits is the hexadecimal alphabet in order.
func hexAlphabetIntact(c *Ctx, rule string, pkgs ...string) {
	c.R.Rule(rule, "every 16-character string constant consisting of hexadecimal digits is \"0123456789abcdef\" or \"0123456789ABCDEF\" (a digit table indexed by a nibble)", 1)
	n := 0
	seen := map[string]bool{}
	for _, fn := range c.moduleFuncs(inPkgs(pkgs)) {
		for _, b := range fn.Blocks {
			for _, in := range b.Instrs {
				for _, op := range in.Operands(nil) {
					if op == nil || *op == nil {
						continue
					}
					s, ok := an.ConstString(*op)
					if !ok || len(s) != 16 {
						continue
					}
					hex := true
					for _, r := range s {
						if !(r >= '0' && r <= '9' || r >= 'a' && r <= 'f' || r >= 'A' && r <= 'F') {
							hex = false
						}
					}
					if !hex {
						continue
					}
					key := c.fnKey(fn) + "/table:" + s
					if seen[key] {
						continue
					}
					seen[key] = true
					n++
					c.R.Check(s == "0123456789abcdef" || s == "0123456789ABCDEF", key, c.ipos(in), "the hexadecimal alphabet in order", "the digit table \""+s+"\" is not the hexadecimal alphabet in order: some nibbles are written as the wrong digit (\\u000E comes out as \\u000D)")
				}
			}
		}
	}
	if n == 0 {
		c.R.Fail("%s: no hexadecimal digit table found in %s", rule, strings.Join(shortPkgs(pkgs), ", "))
	}
}

// nilCheckContradiction (Engler): a pointer-typed struct field that is tested against nil before it is dereferenced at one
// site of a package and dereferenced without any test at another site of the same package, where both read it through a value
// of the same type that is not freshly built in the function.  Candidates are printed; the reviewed ones are in the table.
var nilContradictionReviewed = map[string]string{}

func nilCheckContradiction(c *Ctx, rule string, pkgs ...string) {
	c.R.Rule(rule, "pointer fields of runtime structs: a field that some function tests against nil before dereferencing it is not dereferenced elsewhere in the package without a test, a preceding assignment in the same function, or a reviewed reason", 1)
	type site struct {
		fn      *ssa.Function
		in      ssa.Instruction
		guarded bool
	}
	sites := map[string][]site{} // "pkg.Type.field" -> sites
	for _, fn := range c.moduleFuncs(inPkgs(pkgs)) {
		for _, b := range fn.Blocks {
			for _, in := range b.Instrs {
				// deref: *load(FieldAddr) as UnOp MUL on a value that is itself a load of a pointer-typed field
				u, ok := in.(*ssa.UnOp)
				if !ok || u.Op != token.MUL {
					continue
				}
				inner, ok := u.X.(*ssa.UnOp)
				if !ok || inner.Op != token.MUL {
					continue
				}
				fa, ok := inner.X.(*ssa.FieldAddr)
				if !ok {
					continue
				}
				if _, isPtr := inner.Type().Underlying().(*types.Pointer); !isPtr {
					continue
				}
				st := fa.X.Type().Underlying().(*types.Pointer).Elem()
				named, ok := st.(*types.Named)
				if !ok || named.Obj().Pkg() == nil {
					continue
				}
				key := shortPkgPath(named.Obj().Pkg().Path()) + "." + named.Obj().Name() + "." + fieldNameOf(fa)
				guarded := false
				for _, f := range an.Facts(in) {
					if empty, k := an.EmptinessFact(f, func(x ssa.Value) bool {
						l, ok := an.Strip(x).(*ssa.UnOp)
						if !ok || l.Op != token.MUL {
							return false
						}
						fa2, ok := l.X.(*ssa.FieldAddr)
						return ok && fa2.Field == fa.Field && sameAccess(fa2.X, fa.X, 0)
					}); k && !empty {
						guarded = true
					}
				}
				if !guarded {
					// assigned earlier in this function
					for _, b2 := range fn.Blocks {
						for _, i2 := range b2.Instrs {
							if s, ok := i2.(*ssa.Store); ok {
								if fa2, ok := s.Addr.(*ssa.FieldAddr); ok && fa2.Field == fa.Field && sameAccess(fa2.X, fa.X, 0) && !an.IsNilConst(s.Val) && an.CanReach(i2, in) {
									guarded = true
								}
							}
						}
					}
				}
				sites[key] = append(sites[key], site{fn, in, guarded})
			}
		}
	}
	var keys []string
	for k := range sites {
		keys = append(keys, k)
	}
	sort.Strings(keys)
	n := 0
	for _, k := range keys {
		anyG := false
		for _, s := range sites[k] {
			if s.guarded {
				anyG = true
			}
		}
		if !anyG {
			continue
		}
		for _, s := range sites[k] {
			n++
			okey := k + "@" + c.fnKey(s.fn)
			if s.guarded {
				c.R.OK(okey, c.ipos(s.in), "tested against nil (or assigned) before the dereference")
				continue
			}
			if why, ok := nilContradictionReviewed[okey]; ok {
				c.R.OK(okey, c.ipos(s.in), "reviewed: "+why)
				continue
			}
			c.R.Bad(okey, c.ipos(s.in), "the field "+k+" is dereferenced here without a test, while other code of the package tests it against nil first: one of the two is wrong, and when the field is nil this is a nil pointer dereference in gqlgen's own code")
		}
	}
	if n == 0 {
		c.R.Fail("%s: no nil-tested pointer field found", rule)
	}
}

// Round3Generic attaches the generic rules of this file to the properties whose statement they are a necessary condition of.
func Round3Generic(c *Ctx, id string) {
	if c.W == nil || c.W.Prog == nil {
		return
	}
	switch id {
	case "C17":
		emptinessTestCoversFilled(c, "emptiness-test-covers-filled", modPath("plugin/modelgen"), modPath("plugin/resolvergen"), modPath("plugin/federation"), modPath("codegen"))
		filledCollectionIsRead(c, "filled-collection-is-read", modPath("plugin/modelgen"), modPath("codegen"), modPath("codegen/config"))
		cleanupKeepsCachedPrefix(c)
		typeReferenceUnaliases(c)
		noSelfComparison(c, "no-self-comparison", modPath("internal/code"), modPath("codegen"), modPath("codegen/config"), modPath("codegen/templates"), modPath("plugin/modelgen"), modPath("plugin/resolvergen"), modPath("plugin/federation"))
		c19Small(c)
	case "C20":
		testedErrorIsUsed(c, "tested-error-is-used")
		addCountsSpawnedLoop(c, "add-counts-spawned-loop", true, pkgGraphql)
		c20Round3(c, true)
	case "C19":
		mismatchContinuesSearch(c, "mismatch-continues-search", pkgRewrite)
		filledCollectionIsRead(c, "filled-collection-is-read", pkgResolvergen, pkgRewrite)
		pruneKeepsComments(c)
		nameSwappedForwarding(c, "parameters-forwarded-in-place", pkgRewrite, pkgResolvergen, modPath("internal/imports"))
		rewriterRound3(c)
	case "C18":
		mismatchContinuesSearch(c, "mismatch-continues-search", pkgRewrite)
		typeReferenceUnaliases(c)
		c19Small(c)
		rewriterRound3(c)
		c20Round3(c, true)
	case "C11":
		testedErrorIsUsed(c, "tested-error-is-used")
		c05StreamSelect(c)
		deferredReceiveCancellable(c)
		c05ForkJoin(c)
		layoutAgreement(c)
		wireSwitchHasDefault(c)
		wsRejectedOperationAnswered(c)
		ctxParamUsed(c, "ctx-param-used", pkgTransport)
		errorListLenZeroOnly(c, "error-list-len-zero-only", false, pkgTransport, pkgExecutor, pkgGraphql)
		valueHalfOnErrorEdge(c, "value-half-on-error-edge", pkgTransport)
		nilFuncCalls(c, "nil-func-call", pkgTransport)
	case "C16":
		loopOuterStateEscapes(c, "loop-outer-state-escapes", pkgIntrosp)
		loopInvariantFilter(c, "loop-invariant-filter", pkgIntrosp)
		mutatorListsInOrderAndComplete(c)
		c16Round3(c)
		decidedConditions(c, "decided-conditions", modPath("graphql/introspection"))
	case "C01":
		errorTestedBeforeValue(c, "error-tested-before-value", true, pkgGraphql, pkgExecutor)
		c08FloatGuard(c)
		genRound3(c, "field-directives")
		syntaxAgreement(c, "probe-naming", "probe-namingfn")
		syntaxAgreement(c, "probe-models", "probe-modelsfn")
		wgAddBeforeGo(c, "wg-add-before-go", true, pkgGraphql)
		constIndexInRange(c, "const-index-in-range", true, pkgGraphql)
		genRound3(c, "typename", "implementors", "reported-error", "args-ctx")
		// one error per failed field: the error list is appended under its lock, every spawned field is joined, a recovered
		// panic nulls the field (C06/response-locks, C05/wg-accounting, C04/handler-shape)
		c06ResponseLocks(c)
		c05WG(c)
		c04HandlerShape(c)
	case "C03":
		callbackUsesOwnContext(c, "callback-uses-own-context", true, pkgGraphql, pkgExecutor)
		responseHandlerGetsDispatchContext(c, "response-handler-gets-dispatch-context")
		c09StatusVsDispatch(c, nil)
		mutatorListsInOrderAndComplete(c)
		rawParamsReadAfterMutators(c)
		createReturnsContext(c)
		mutatorsSeeOperationContext(c)
		getParamFields(c)
		independentTests(c)
		configFieldsRead(c, "config-fields-read", pkgExecutor, pkgHandler, pkgTransport, pkgExtension)
		rawParamsJSONNames(c)
		variableValuesOfSelectedOperation(c)
		execInsideOperationMiddleware(c)
		genRound3(c, "field-hooks", "deferred-only")
		swappedFieldArgs(c, "swapped-field-args", pkgGraphql)
	case "C14":
		optionFieldsDistinct(c, "option-fields-distinct", modPath("handler"))
		validateTestsOwnFields(c, "validate-tests-own-fields", pkgExtension)
		mutatorListsInOrderAndComplete(c)
		rawParamsReadAfterMutators(c)
		c03DispatchGated(c)
		c09StatusVsDispatch(c, nil)
		genRound3(c, "complexity-keys")
		independentTests(c)
		staleLoopCarried(c, "stale-loop-carried", pkgComplex)
		c03FailClosed(c)
		configFieldsRead(c, "config-fields-read", pkgExecutor, pkgHandler, pkgExtension, pkgComplex)
	case "C15":
		validateTestsOwnFields(c, "validate-tests-own-fields", pkgExtension)
		unconditionalSelfRecursion(c, "unconditional-self-recursion", pkgExtension, pkgExecutor, pkgHandler, pkgTransport, modPath("graphql/handler/lru"), modPath("handler"))
		rawParamsReadAfterMutators(c)
		lruIsSynchronised(c)
		c07NoGlobalWrites(c)
		createReturnsContext(c)
		mutatorsSeeOperationContext(c)
		wsRejectedOperationAnswered(c)
		independentTests(c)
		dispatchCtxCarriesOperation(c)
		rawParamsJSONNames(c)
	case "C07":
		responseContextPerResponse(c)
		freshResponseContextIsFresh(c)
		getErrorsCopies(c)
		lruGetPromotes(c)
		c11TerminalFrame(c)
		batchHasNextFromLast(c)
		nilCheckContradiction(c, "nil-check-contradiction", pkgTransport)
		c06ResponseLocks(c)
		dispatchCtxCarriesOperation(c)
		mapRangeSorted(c, "map-range-sorted", modPath("graphql/introspection"), pkgExecutor, pkgGraphql)
	case "C02":
		genRound3(c, "ptr-ptr")
		failedAssertIsZero(c, "failed-assert-is-zero", pkgGraphql)
		jsonUnmarshalNeedsPointer(c, "json-unmarshal-needs-pointer", pkgGraphql, pkgTransport)
		ifaceConstCompare(c, "iface-const-compare", pkgGraphql)
		variableValuesOfSelectedOperation(c)
		rawParamsJSONNames(c)
		genRound3(c, "input-null", "arg-absent", "args-ctx")
		c07PoolReset(c) // variables of an earlier request must not reach this one's coercion
	case "C04":
		genRound3(c, "event-ctx")
		genRound3(c, "handler-ctx")
		errorTestedBeforeValue(c, "error-tested-before-value", true, pkgGraphql, pkgExecutor, pkgTransport)
		recoverComparedWithNil(c, "recover-compared-with-nil", true, pkgGraphql, pkgTransport, pkgExecutor, pkgHandler)
		noSharedErrorValues(c)
		c01OneError(c)
		c20Round3(c, false)
		errorListLenZeroOnly(c, "error-list-len-zero-only", true, pkgTransport, pkgExecutor, pkgGraphql)
		genRound3(c, "reported-error", "deferred-fields")
		recoverResultGuarded(c, "recover-result-guarded", pkgTransport, pkgHandler, pkgExecutor)
		c06ResponseLocks(c)
		c02ArgErrors(c)
		c01Invalids(c)
	case "C13":
		deferredLiteralUsesDeliveredContext(c)
		incrementalHasNextOnlyFromBatch(c)
		freshResponseContextIsFresh(c)
		deferredErrorsAfterDispatch(c)
		responseContextPerResponse(c)
		c12Round2(c)
		genRound3(c, "deferred-set-fresh", "hasnext-per-payload")
		valueReceiverCopiesSync(c, "value-receiver-copies-sync", true, pkgTransport, pkgGraphql)
		rootOnce(c)
		genRound3(c, "deferred-fields")
	case "C05":
		panicUnderLock(c, "no-panic-under-lock", pkgGraphql, pkgTransport, pkgExecutor, pkgHandler, pkgExtension)
		countedLoopHasNoEarlyExit(c, "counted-loop-no-early-exit", true, pkgGraphql)
		locksReleasedIn(c, "locks-released-extensions", modPath("graphql/handler/apollotracing"), modPath("graphql/handler/apollofederatedtracingv1"), pkgExtension)
		noReentrantLock(c, "no-reentrant-lock", modPath("graphql/handler/apollotracing"), modPath("graphql/handler/apollofederatedtracingv1"), pkgExtension, pkgGraphql, pkgTransport, pkgExecutor, pkgHandler)
		oneShotIsOneShot(c)
		addCountsSpawnedLoop(c, "add-counts-spawned-loop", true, pkgGraphql)
		valueReceiverCopiesSync(c, "value-receiver-copies-sync", true, pkgTransport, pkgGraphql)
		ctxParamUsed(c, "ctx-param-used", pkgTransport)
		wgAddBeforeGo(c, "wg-add-before-go", true, pkgGraphql, pkgTransport)
		panicSafeLocks(c, "panic-safe-locks", pkgTransport)
		genRound3(c, "stream-closed", "worker-limit")
		stopDeferredAtOnce(c)
	case "C06":
		countedLoopHasNoEarlyExit(c, "counted-loop-no-early-exit", true, pkgGraphql)
		noSharedErrorValues(c)
		batchHasNextFromLast(c)
		c02InputTable(c)
		valueReceiverCopiesSync(c, "value-receiver-copies-sync", true, pkgTransport, pkgGraphql)
		wgAddBeforeGo(c, "wg-add-before-go", true, pkgGraphql)
		var feds []*GenPkg
		for _, g := range c.Gen {
			if g.Fed {
				feds = append(feds, g)
			}
		}
		if len(feds) > 0 {
			c20IndexProvenance(c, feds)
		}
		fieldLockConsistency(c, "field-lock-consistency", modPath("graphql/handler/apollotracing"), pkgTransport, pkgExtension, pkgHandler)
	case "C08":
		jsonUnmarshalNeedsPointer(c, "json-unmarshal-needs-pointer", pkgGraphql, pkgTransport)
		genRound3(c, "response-buffer")
		c01ListNull(c)
		numericCaseSets(c)
		constIndexInRange(c, "const-index-in-range", true, pkgGraphql)
		ifaceConstCompare(c, "iface-const-compare", pkgGraphql)
		hexAlphabetIntact(c, "hex-alphabet-intact", pkgGraphql)
		slotAndFunctionSameElement(c)
		idMarshalersQuote(c)
	case "C09":
		forwardersKeepOrder(c, "forwarders-keep-order", modPath("handler"), pkgGraphql, pkgExtension, modPath("graphql/handler/lru"))
		eventStreamLabelAfterRefusals(c)
		cleanupBodyOrder(c)
		graphqlResponseStatusOnlyWhenNegotiated(c)
		nameSwappedForwarding(c, "parameters-forwarded-in-place", pkgTransport, pkgHandler, pkgExecutor, pkgExtension, modPath("handler"), modPath("graphql/handler/lru"))
		constHaystack(c, "varying-string-is-searched", pkgTransport, pkgHandler, pkgExecutor, pkgExtension)
		getParamFields(c)
		decidedConditions(c, "decided-conditions", pkgTransport, pkgExecutor, pkgHandler)
		dispatchCtxCarriesOperation(c)
		trimCutsetLooksLikePrefix(c, "trim-cutset", pkgTransport, pkgExecutor, pkgHandler)
		errcodeSetOnReturnedError(c)
		formBodiesQueryUnescaped(c)
		rawParamsJSONNames(c)
	case "C10":
		wireSwitchHasDefault(c)
		loopOuterStateEscapes(c, "loop-outer-state-escapes", pkgTransport, pkgGraphql)
		c11Tables(c)
		c11CloseOnce(c)
		valueHalfOnErrorEdge(c, "value-half-on-error-edge", pkgTransport)
		trimCutsetLooksLikePrefix(c, "trim-cutset", pkgTransport, pkgExecutor, pkgHandler, pkgGraphql)
		nilCheckContradiction(c, "nil-check-contradiction", pkgTransport, pkgExecutor, pkgGraphql, pkgHandler)
		c07PoolReset(c)
		c03FailClosed(c)
		c03Cache(c)
		uploadFieldsFromPart(c)
		seekBasePerWhence(c)
	case "C12":
		eventStreamLabelAfterRefusals(c)
		oneShotIsOneShot(c)
		locksReleased(c, pkgTransport)
		genRound2(c)
		genRound3(c, "response-buffer")
		genRound3(c, "hasnext-per-payload")
		valueReceiverCopiesSync(c, "value-receiver-copies-sync", true, pkgTransport, pkgGraphql)
		rootOnce(c)
		genRound3(c, "stream-closed")
		nilCheckContradiction(c, "nil-check-contradiction", pkgTransport)
	}
}

// sameAccess: the two values are the same selection from the same roots (loads are compared by what they load from: the
// memory in between is assumed unchanged, which is what a test-then-use pair in one expression relies on).
func sameAccess(a, b ssa.Value, depth int) bool {
	if a == nil || b == nil || depth > 8 {
		return false
	}
	a, b = an.Strip(a), an.Strip(b)
	if a == b || an.SameExpr(a, b) {
		return true
	}
	switch x := a.(type) {
	case *ssa.UnOp:
		y, ok := b.(*ssa.UnOp)
		return ok && x.Op == y.Op && sameAccess(x.X, y.X, depth+1)
	case *ssa.FieldAddr:
		y, ok := b.(*ssa.FieldAddr)
		return ok && x.Field == y.Field && sameAccess(x.X, y.X, depth+1)
	case *ssa.Field:
		y, ok := b.(*ssa.Field)
		return ok && x.Field == y.Field && sameAccess(x.X, y.X, depth+1)
	case *ssa.IndexAddr:
		y, ok := b.(*ssa.IndexAddr)
		return ok && sameAccess(x.X, y.X, depth+1) && sameAccess(x.Index, y.Index, depth+1)
	case *ssa.BinOp:
		y, ok := b.(*ssa.BinOp)
		return ok && x.Op == y.Op && sameAccess(x.X, y.X, depth+1) && sameAccess(x.Y, y.Y, depth+1)
	case *ssa.Call:
		y, ok := b.(*ssa.Call)
		if !ok {
			return false
		}
		bx, okx := x.Call.Value.(*ssa.Builtin)
		by, oky := y.Call.Value.(*ssa.Builtin)
		return okx && oky && bx.Name() == by.Name() && len(x.Call.Args) == 1 && len(y.Call.Args) == 1 && sameAccess(x.Call.Args[0], y.Call.Args[0], depth+1)
	}
	return false
}

// panicSafeLocks: a mutex held across a call that can panic by its own code (an explicit panic in the callee or in what it
// calls inside the module) must be released by a deferred unlock; with an explicit unlock after the call the panic leaves the
// mutex locked and everything that needs it afterwards (the deferred flush of the same request, the keep-alive goroutine) blocks.
func panicSafeLocks(c *Ctx, rule string, pkgs ...string) {
	c.R.Rule(rule, "a sync.Mutex held (no deferred unlock registered) across a call to a module function that contains an explicit panic, directly or through module functions it calls, is a violation: the panic would leave the mutex locked", 1)
	memo := map[*ssa.Function]int{}
	var canPanic func(fn *ssa.Function, depth int) bool
	canPanic = func(fn *ssa.Function, depth int) bool {
		if fn == nil || len(fn.Blocks) == 0 || depth > 4 {
			return false
		}
		if v, ok := memo[fn]; ok {
			return v == 1
		}
		memo[fn] = 0
		res := false
		for _, b := range fn.Blocks {
			for _, in := range b.Instrs {
				switch x := in.(type) {
				case *ssa.Panic:
					res = true
				case *ssa.Call:
					if sc := x.Call.StaticCallee(); sc != nil && sc.Pkg != nil && strings.HasPrefix(sc.Pkg.Pkg.Path(), modPath("")) && canPanic(sc, depth+1) {
						res = true
					}
				}
			}
		}
		if res {
			memo[fn] = 1
		}
		return res
	}
	n := 0
	for _, fn := range c.moduleFuncs(inPkgs(pkgs)) {
		hasLock := false
		for _, b := range fn.Blocks {
			for _, i := range b.Instrs {
				if addr, lock, _, _ := an.LockOp(i); addr != nil && lock {
					hasLock = true
				}
			}
		}
		if !hasLock {
			continue
		}
		ls := an.Locksets(fn)
		type du struct {
			in  ssa.Instruction
			key string
		}
		var dus []du
		for _, b := range fn.Blocks {
			for _, i := range b.Instrs {
				if _, ok := i.(*ssa.Defer); !ok {
					continue
				}
				if addr, _, unlock, _ := an.LockOp(i); addr != nil && unlock {
					dus = append(dus, du{i, an.LockKey(addr)})
				}
			}
		}
		for _, b := range fn.Blocks {
			for _, i := range b.Instrs {
				call, ok := i.(*ssa.Call)
				if !ok {
					continue
				}
				sc := call.Call.StaticCallee()
				if sc == nil || sc.Pkg == nil || !strings.HasPrefix(sc.Pkg.Pkg.Path(), modPath("")) {
					continue
				}
				for key := range ls[i] {
					n++
					okey := c.fnKey(topFn(fn)) + "/" + key + "/call:" + sc.Name()
					if !canPanic(sc, 0) {
						c.R.OK(okey, c.ipos(i), "the callee has no explicit panic")
						continue
					}
					covered := false
					for _, d := range dus {
						if (d.key == key || strings.HasSuffix(key, "."+lastSeg(d.key)) && sameLockBase(key, d.key)) && an.CanReach(d.in, i) {
							covered = true
						}
					}
					c.R.Check(covered, okey, c.ipos(i), "the unlock is deferred", sc.Name()+" can panic (explicit panic in its code) while "+key+" is held and the unlock is not deferred: the mutex stays locked, and the request's own deferred epilogue or the keep-alive goroutine then blocks on it forever")
				}
			}
		}
	}
	if n == 0 {
		c.R.Fail("%s: no module call under a held mutex found", rule)
	}
}
