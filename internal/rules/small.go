package rules

import (
	"go/token"
	"go/types"
	"strings"

	"golang.org/x/tools/go/ssa"

	"verif/internal/an"
)

// locksReleased: no function of the packages examined returns while it still holds a mutex it locked itself, unless an unlock
// of that mutex was deferred on the way.  A lock leaked on one exit (typically an early return) blocks every later user of the
// connection / response forever: operations never terminate and their goroutines never end.
func locksReleased(c *Ctx, pkgs ...string) { locksReleasedNamed(c, "locks-released", 10, pkgs...) }

// locksReleasedIn: the same rule over further packages (the tracing extensions), under a name of its own.
func locksReleasedIn(c *Ctx, rule string, pkgs ...string) { locksReleasedNamed(c, rule, 3, pkgs...) }

func locksReleasedNamed(c *Ctx, rule string, floor int, pkgs ...string) {
	c.R.Rule(rule, "in "+strings.Join(shortPkgs(pkgs), ", ")+": no function returns with a sync.Mutex/RWMutex it locked still held (no explicit unlock on that path and no deferred unlock registered before the return)", floor)
	in := func(p string) bool {
		for _, q := range pkgs {
			if p == q {
				return true
			}
		}
		return false
	}
	n := 0
	for _, fn := range c.moduleFuncs(in) {
		hasLock := false
		for _, b := range fn.Blocks {
			for _, i := range b.Instrs {
				if addr, lock, _, _ := an.LockOp(i); addr != nil && lock {
					hasLock = true
				}
			}
		}
		if !hasLock {
			continue
		}
		ls := an.MayLocksets(fn) // held on at least one path: a branch that locks and forgets to unlock joins a branch that never locked
		// deferred unlocks (direct, or inside a deferred function literal)
		type du struct {
			in  ssa.Instruction
			key string
		}
		var dus []du
		for _, b := range fn.Blocks {
			for _, i := range b.Instrs {
				d, ok := i.(*ssa.Defer)
				if !ok {
					continue
				}
				if addr, _, unlock, _ := an.LockOp(i); addr != nil && unlock {
					dus = append(dus, du{i, an.LockKey(addr)})
				}
				if mc, ok := d.Call.Value.(*ssa.MakeClosure); ok {
					for _, b2 := range mc.Fn.(*ssa.Function).Blocks {
						for _, i2 := range b2.Instrs {
							if addr, _, unlock, _ := an.LockOp(i2); addr != nil && unlock {
								// key as seen from the enclosing function: through the captured variable
								k := an.LockKey(addr)
								dus = append(dus, du{i, k})
								if fa, ok := addr.(*ssa.FieldAddr); ok {
									dus = append(dus, du{i, an.Path(an.RootAlloc(fa.X)) + "." + fieldNameOf(fa)})
								}
							}
						}
					}
				}
			}
		}
		for _, r := range an.Returns(fn) {
			if fn.Recover != nil && r.Block() == fn.Recover {
				continue
			}
			for key := range ls[r] {
				n++
				covered := false
				for _, d := range dus {
					if (d.key == key || strings.HasSuffix(key, "."+lastSeg(d.key)) && sameLockBase(key, d.key)) && an.CanReach(d.in, r) {
						covered = true
					}
				}
				c.R.Check(covered, shortFn(topFn(fn))+"/return-holding:"+key, c.ipos(r), "released by a deferred unlock", "this return leaves "+key+" locked (no unlock on this path, none deferred): every later operation that needs the lock blocks forever")
			}
		}
		// functions that lock and always unlock explicitly contribute one discharged obligation, so that the rule is visibly alive
		n++
		c.R.OK(shortFn(topFn(fn))+"/lock-balance", c.pos(fn.Pos()), "every return examined")
	}
	if n < floor {
		c.R.Fail("%s examined only %d locking functions/returns", rule, n)
	}
}

func lastSeg(k string) string {
	if i := strings.LastIndex(k, "."); i >= 0 {
		return k[i+1:]
	}
	return k
}

func sameLockBase(a, b string) bool {
	// "c.mu" vs "c*.mu" (value vs spilled receiver): compare the leading identifier
	cut := func(s string) string {
		for i, r := range s {
			if r == '.' || r == '*' {
				return s[:i]
			}
		}
		return s
	}
	return cut(a) == cut(b)
}

// nilFuncCalls: a function value taken out of a map (or received from a map lookup stored in a local) is only called on an edge
// where it is known to be non-nil.  The websocket `stop` / `complete` handler looks the operation's cancel function up by a
// client-supplied id; an unknown id yields nil, and calling it panics inside gqlgen's own code.
func nilFuncCalls(c *Ctx, rule string, pkgs ...string) {
	c.R.Rule(rule, "in package transport a function value obtained from a map lookup is called only on an edge where it was tested non-nil (or the lookup's ok result is true)", 0)
	in := func(p string) bool {
		for _, q := range pkgs {
			if p == q {
				return true
			}
		}
		return false
	}
	n := 0
	for _, fn := range c.moduleFuncs(in) {
		for _, b := range fn.Blocks {
			for _, i := range b.Instrs {
				call, ok := i.(ssa.CallInstruction)
				if !ok || call.Common().IsInvoke() || call.Common().StaticCallee() != nil {
					continue
				}
				v := call.Common().Value
				if _, isB := v.(*ssa.Builtin); isB {
					continue
				}
				if _, isSig := v.Type().Underlying().(*types.Signature); !isSig {
					continue
				}
				var lk *ssa.Lookup
				for _, d := range an.Defs(v) {
					if l, ok := d.(*ssa.Lookup); ok {
						lk = l
					}
					if ex, ok := d.(*ssa.Extract); ok {
						if l, ok := ex.Tuple.(*ssa.Lookup); ok {
							lk = l
						}
					}
				}
				if lk == nil {
					continue
				}
				if _, isMap := lk.X.Type().Underlying().(*types.Map); !isMap {
					continue
				}
				n++
				okGuard := false
				for _, f := range an.Facts(i) {
					if empty, k := an.EmptinessFact(f, func(x ssa.Value) bool { return x == v || an.SameVar(x, v) }); k && !empty {
						okGuard = true
					}
					if f.Op == token.ILLEGAL && !f.Neg {
						if ex, ok := f.X.(*ssa.Extract); ok && ex.Index == 1 && ex.Tuple == ssa.Value(lk) {
							okGuard = true
						}
					}
				}
				// ranging over the map yields only stored (non-nil by construction of the callers) values: not a lookup
				c.R.Check(okGuard, shortFn(topFn(fn))+"/call-of-looked-up-func", c.ipos(i), "called only when non-nil", "a function value looked up in a map by a client-supplied key is called without a nil test: an unknown key (e.g. `stop` for an id that is not active) makes gqlgen call a nil function and panic in its own code")
			}
		}
	}
	if n == 0 {
		c.R.Note(rule, "-", "no call of a function value obtained from a map lookup; nothing to judge")
	}
}

// adapterWritesOnError: contextMarshalerAdapter.MarshalGQL (what turns a context-aware scalar marshaler into an ordinary one)
// writes a value on every path: when the wrapped marshaler reports an error (a non-finite float, for one) the adapter records
// the error AND writes null — otherwise the enclosing object or list is left with `"f":` / `[1,,3]`, which is not JSON.
func adapterWritesOnError(c *Ctx) {
	c.R.Rule("adapter-writes-on-error", "graphql.contextMarshalerAdapter.MarshalGQL: on the edge where the wrapped marshaler returned an error, every path to the return records the error and writes to the writer (null)", 1)
	fn := c.fn(pkgGraphql, "contextMarshalerAdapter.MarshalGQL")
	if fn == nil {
		return
	}
	w := ssa.Value(fn.Params[len(fn.Params)-1])
	n := 0
	for _, e := range an.CondEdges(fn) {
		isErr := func(v ssa.Value) bool {
			cc := an.AllExtractOf(v, 0)
			return cc != nil && strings.HasSuffix(an.CalleeOf(cc).FullName(), "MarshalGQLContext")
		}
		empty, k := an.EmptinessFact(e.Fact, isErr)
		if !k || empty {
			continue
		}
		n++
		writes, records := true, true
		for _, r := range an.Returns(fn) {
			if !an.Reach(e.To, nil)[r.Block()] && r.Block() != e.To {
				continue
			}
			first := e.To.Instrs[0]
			if !pathsPassFromBlock(e.To, r, func(in ssa.Instruction) bool {
				call, ok := in.(ssa.CallInstruction)
				if !ok {
					return false
				}
				for _, a := range call.Common().Args {
					if a == w || an.SameVar(a, w) {
						return true
					}
				}
				return call.Common().IsInvoke() && (call.Common().Value == w || an.SameVar(call.Common().Value, w))
			}) {
				writes = false
			}
			if !pathsPassFromBlock(e.To, r, func(in ssa.Instruction) bool {
				call, ok := in.(ssa.CallInstruction)
				return ok && strings.HasSuffix(an.CalleeOf(call).FullName(), "graphql.AddError")
			}) {
				records = false
			}
			_ = first
		}
		c.R.Check(writes && records, "contextMarshalerAdapter.MarshalGQL/error-edge", c.ipos(e.If), "records the error and writes null", sprintf("on a marshaling error the adapter does not both record the error and write a value (records: %v, writes: %v): the surrounding object/list is serialised with a missing value, which is not valid JSON, and the whole response fails", records, writes))
	}
	if n == 0 {
		c.R.Bad("contextMarshalerAdapter.MarshalGQL/error-edge", c.pos(fn.Pos()), "the error result of the wrapped marshaler is never tested")
	}
}

// pathsPassFromBlock: every path from the start of block b to instruction target executes an instruction satisfying pred.
func pathsPassFromBlock(b *ssa.BasicBlock, target ssa.Instruction, pred func(ssa.Instruction) bool) bool {
	seen := map[*ssa.BasicBlock]bool{b: true}
	var walk func(blk *ssa.BasicBlock) bool // true if target reachable avoiding pred
	walk = func(blk *ssa.BasicBlock) bool {
		for _, in := range blk.Instrs {
			if pred(in) {
				return false
			}
			if in == target {
				return true
			}
		}
		for _, s := range blk.Succs {
			if seen[s] {
				continue
			}
			seen[s] = true
			if walk(s) {
				return true
			}
		}
		return false
	}
	return !walk(b)
}

// errorListOnce: OperationContext.Error unrolls a gqlerror.List into one AddError per element — and then returns; the list as a
// whole is not added again.  One failure yields one error entry per error.
func errorListOnce(c *Ctx) {
	c.R.Rule("error-list-once", "graphql.OperationContext.Error: no path executes AddError for the elements of an unrolled gqlerror.List and then AddError again for the list itself", 1)
	fn := c.fn(pkgGraphql, "*OperationContext.Error")
	if fn == nil {
		return
	}
	var calls []ssa.CallInstruction
	for _, call := range an.CallsIn(fn, func(_ ssa.CallInstruction, ci an.CalleeInfo) bool { return ci.FullName() == pkgGraphql+".AddError" }) {
		calls = append(calls, call)
	}
	bad := ""
	for _, a := range calls {
		for _, b := range calls {
			if a != b && an.CanReach(a, b) && an.CanReach(a, a) && !an.CanReach(b, b) {
				bad = "after the per-element AddError loop at " + c.ipos(a) + " the function goes on to AddError at " + c.ipos(b) + ": every error of a returned list is reported, and then the list once more"
			}
		}
	}
	c.R.Check(bad == "" && len(calls) > 0, "OperationContext.Error/unroll-then-return", c.pos(fn.Pos()), sprintf("%d AddError sites on exclusive paths", len(calls)), bad)
}

// omittableSetOnSuccess: every successful return of Omittable's Unmarshal* methods has marked the value as set.
func omittableSetOnSuccess(c *Ctx) {
	c.R.Rule("omittable-set", "graphql.Omittable[T].UnmarshalGQL / UnmarshalGQLContext / UnmarshalJSON: every return of a nil error is preceded on all paths by a store of true into the `set` field", 2)
	n := 0
	for _, tp := range c.W.All {
		if tp.PkgPath != pkgGraphql || tp.Types == nil {
			continue
		}
		tn, _ := tp.Types.Scope().Lookup("Omittable").(*types.TypeName)
		if tn == nil {
			continue
		}
		named, _ := tn.Type().(*types.Named)
		if named == nil {
			continue
		}
		for i := 0; i < named.NumMethods(); i++ {
			m := named.Method(i)
			if !strings.HasPrefix(m.Name(), "Unmarshal") {
				continue
			}
			fn := c.W.Prog.FuncValue(m)
			if fn == nil || len(fn.Blocks) == 0 {
				continue
			}
			n++
			bad := ""
			isSetTrue := func(in ssa.Instruction) bool {
				st, ok := in.(*ssa.Store)
				if !ok {
					return false
				}
				fa, ok := st.Addr.(*ssa.FieldAddr)
				if !ok || fieldNameOf(fa) != "set" {
					return false
				}
				k, isC := st.Val.(*ssa.Const)
				return isC && k.Value != nil && k.Value.String() == "true"
			}
			var check func(fn *ssa.Function, depth int)
			check = func(fn *ssa.Function, depth int) {
				for _, r := range an.Returns(fn) {
					if fn.Recover != nil && r.Block() == fn.Recover {
						continue
					}
					if len(r.Results) != 1 {
						continue
					}
					v := an.ReturnedValue(r, 0)
					if nonNilValue(v) || nonNilAt(r, v) || nonNilAt(r, r.Results[0]) {
						continue // a failing return
					}
					if mustPassThrough(fn, r, isSetTrue) {
						continue
					}
					// `return o.markSet(err)`: the outcome is decided by a helper method of the same type, which is held to the same rule
					if call, ok := an.Strip(v).(*ssa.Call); ok && depth < 2 {
						callee := call.Call.StaticCallee()
						if callee != nil && len(callee.Blocks) == 0 && callee.Origin() != nil {
							callee = callee.Origin()
						}
						if callee != nil && len(callee.Blocks) > 0 && callee.Signature.Recv() != nil && strings.Contains(callee.Signature.Recv().Type().String(), "graphql.Omittable") {
							check(callee, depth+1)
							continue
						}
					}
					bad = "the return at " + c.ipos(r) + " reports success without having marked the value as set: an explicitly supplied value looks omitted afterwards (IsSet() false, Value() zero)"
				}
			}
			check(fn, 0)
			c.R.Check(bad == "", "Omittable."+m.Name(), c.pos(fn.Pos()), "set = true before every successful return", bad)
		}
	}
	if n < 2 {
		c.R.Fail("omittable-set examined only %d methods", n)
	}
}

// parseWidth: the built-in scalar readers parse numbers with the full width of the type they return: the bitSize handed to
// strconv.ParseInt / ParseUint / ParseFloat in graphql.Unmarshal* is 64, or at least the width of the function's numeric result
// (a narrower parse rejects valid values — e.g. a uint ID above 2^32 — or silently rounds a float64 through float32).
func parseWidth(c *Ctx) {
	c.R.Rule("parse-width", "in graphql.Unmarshal* (and their helpers) the bitSize argument of strconv.ParseInt/ParseUint/ParseFloat is a constant not smaller than the width of the function's numeric result type (64 for int, uint, int64, uint64, float64)", 8)
	sizes := types.SizesFor("gc", "amd64")
	n := 0
	for _, fn := range c.moduleFuncs(func(p string) bool { return p == pkgGraphql }) {
		top := topFn(fn)
		if top.Signature.Recv() != nil || !isScalarCodecName(top.Name()) {
			continue
		}
		want := int64(64)
		if res := top.Signature.Results(); res.Len() > 0 {
			if bt, ok := res.At(0).Type().Underlying().(*types.Basic); ok && bt.Info()&(types.IsInteger|types.IsFloat) != 0 {
				want = sizes.Sizeof(bt) * 8
			}
		}
		for _, call := range an.CallsIn(fn, func(_ ssa.CallInstruction, ci an.CalleeInfo) bool {
			n := ci.FullName()
			return n == "strconv.ParseInt" || n == "strconv.ParseUint" || n == "strconv.ParseFloat"
		}) {
			n++
			args := call.Common().Args
			bits, isC := an.ConstInt(args[len(args)-1])
			key := top.Name() + "/" + strings.TrimPrefix(an.CalleeOf(call).FullName(), "strconv.")
			if !isC {
				c.R.Note(key, c.ipos(call), "bitSize is not a constant; not judged")
				continue
			}
			// bitSize 0 means int/uint for the integer parsers
			if bits == 0 && an.CalleeOf(call).FullName() != "strconv.ParseFloat" {
				bits = 64
			}
			c.R.Check(bits >= want, key, c.ipos(call), sprintf("bitSize %d covers the %d-bit result", bits, want), sprintf("the number is parsed with bitSize %d although the function returns a %d-bit value: inputs in the upper part of the range are rejected (integers) or silently rounded (floats)", bits, want))
			// base: ParseInt/ParseUint must use base 10 (base 0 accepts 0x.., 010, 1_0 and changes the number)
			if len(args) == 3 {
				if base, isB := an.ConstInt(args[1]); isB {
					c.R.Check(base == 10, key+"/base", c.ipos(call), "base 10", sprintf("the number is parsed with base %d: \"010\" or \"0x10\" is read as a different number", base))
				}
			}
		}
	}
	if n < 8 {
		c.R.Fail("parse-width examined only %d strconv.Parse* calls", n)
	}
}

// jsonControlBound: writeQuotedString escapes every control character: the comparison that selects the \u00XX form covers all
// bytes below 0x20 (JSON forbids raw U+0000–U+001F inside strings).
func jsonControlBound(c *Ctx) {
	c.R.Rule("control-chars-escaped", "graphql.writeQuotedString: the byte comparison that guards the escape branch is `c < 0x20` (or an equivalent `<= 0x1f`): no control character is written raw", 1)
	fn := c.fn(pkgGraphql, "writeQuotedString")
	if fn == nil {
		return
	}
	found, ok := false, false
	where := c.pos(fn.Pos())
	for _, b := range fn.Blocks {
		for _, in := range b.Instrs {
			bo, isB := in.(*ssa.BinOp)
			if !isB || (bo.Op != token.LSS && bo.Op != token.LEQ && bo.Op != token.GEQ && bo.Op != token.GTR) {
				continue
			}
			k, isC := an.ConstInt(bo.Y)
			if !isC || k < 0x10 || k > 0x30 {
				continue
			}
			if bt, isBt := bo.X.Type().Underlying().(*types.Basic); !isBt || bt.Info()&types.IsInteger == 0 {
				continue
			}
			// the compared value is the character being written (a byte or rune of the input), not an index or a length
			isChar := false
			for _, d := range an.Defs(bo.X) {
				switch d.(type) {
				case *ssa.Extract, *ssa.Lookup, *ssa.Index:
					isChar = true
				case *ssa.UnOp:
					isChar = true
				}
			}
			if !isChar {
				continue
			}
			found = true
			where = c.ipos(in)
			switch {
			case bo.Op == token.LSS && k == 0x20, bo.Op == token.LEQ && k == 0x1f, bo.Op == token.GEQ && k == 0x20, bo.Op == token.GTR && k == 0x1f:
				ok = true
			}
		}
	}
	if !found {
		c.R.Note("writeQuotedString/control-bound", where, "no byte comparison with a constant near 0x20 found (escaping is organised differently); not judged")
		return
	}
	c.R.Check(ok, "writeQuotedString/control-bound", where, "all bytes below 0x20 take the escape branch", "the control-character test does not cover every byte below 0x20: a string containing such a byte is written with the raw control character inside the quotes, which is not valid JSON")
}

// getParamFields: the GET transport builds the request from URL parameters: each of `query`, `operationName`, `variables`,
// `extensions` ends up in the RawParams member of the same name (case-insensitively).  Decoding `extensions` into Variables
// (or the reverse) silently moves the persisted-query extension out of the extension's reach: a wrong hash is not rejected
// and nothing is registered.
func getParamFields(c *Ctx) {
	c.R.Rule("get-param-fields", "GET.Do: the value of URL parameter P (exactly `query`, `operationName`, `variables`, `extensions`: URL parameter names are case-sensitive) is stored / decoded into the RawParams member of that name and nowhere else", 2)
	fn := c.fn(pkgTransport, "GET.Do")
	if fn == nil {
		return
	}
	n := 0
	for _, f := range an.InlineScope(fn) {
		for _, call := range an.CallsIn(f, func(_ ssa.CallInstruction, ci an.CalleeInfo) bool { return ci.FullName() == "(net/url.Values).Get" }) {
			key, isC := an.ConstString(call.Common().Args[1])
			if !isC {
				continue
			}
			vc, _ := call.(*ssa.Call)
			if vc == nil {
				continue
			}
			// where does the value go: a store into a RawParams field, or a decode whose target is the address of one
			var fields []string
			var visit func(v ssa.Value, depth int)
			seen := map[ssa.Value]bool{}
			visit = func(v ssa.Value, depth int) {
				if seen[v] || depth > 6 {
					return
				}
				seen[v] = true
				for _, r := range an.Referrers(v) {
					switch x := r.(type) {
					case *ssa.Store:
						if x.Val == v {
							if fa, ok := x.Addr.(*ssa.FieldAddr); ok && an.NamedIs(fa.X.Type(), pkgGraphql, "RawParams") {
								fields = append(fields, fieldNameOf(fa))
							} else if an.IsLocalCell(x.Addr) {
								for _, ld := range an.CellLoads(x.Addr) {
									visit(ld, depth+1)
								}
							}
						}
					case *ssa.Phi, *ssa.MakeInterface, *ssa.ChangeType, *ssa.Convert:
						visit(x.(ssa.Value), depth+1)
					case *ssa.Call:
						// strings.NewReader(v) → jsonDecode(reader, &raw.Field)
						if res := ssa.Value(x); res != nil {
							if tgt := c.decodeTarget(x); tgt != nil {
								if fa, ok := an.Strip(tgt).(*ssa.FieldAddr); ok && an.NamedIs(fa.X.Type(), pkgGraphql, "RawParams") {
									fields = append(fields, fieldNameOf(fa))
								}
								continue
							}
							if x.Call.StaticCallee() != nil && (an.CalleeOf(x).FullName() == "strings.NewReader" || an.CalleeOf(x).FullName() == "bytes.NewBufferString") {
								visit(res, depth+1)
							}
							// same-package helper that decodes into its pointer argument
							if h := x.Call.StaticCallee(); h != nil && h.Pkg != nil && h.Pkg.Pkg.Path() == pkgTransport {
								for _, a := range x.Call.Args {
									if fa, ok := an.Strip(a).(*ssa.FieldAddr); ok && an.NamedIs(fa.X.Type(), pkgGraphql, "RawParams") {
										fields = append(fields, fieldNameOf(fa))
									}
								}
							}
						}
					}
				}
			}
			visit(vc, 0)
			if len(fields) == 0 {
				continue
			}
			n++
			bad := ""
			for _, fld := range fields {
				if lowerFirst(fld) != key {
					bad = "URL parameter `" + key + "` ends up in RawParams." + fld
				}
			}
			c.R.Check(bad == "", "GET.Do/param:"+key, c.ipos(call), "stored into RawParams."+fields[0], bad+": the request the executor and the extensions see is not the one the client sent (e.g. the persisted-query extension disappears, so a wrong hash is executed and nothing is registered)")
		}
	}
	// the same pairing made through a helper: decodeQueryParam(w, query, "variables", &raw.Variables)
	for _, f := range an.InlineScope(fn) {
		for _, call := range an.CallsIn(f, func(_ ssa.CallInstruction, ci an.CalleeInfo) bool {
			return ci.Static != nil && ci.Static.Pkg != nil && ci.Static.Pkg.Pkg.Path() == pkgTransport && len(ci.Static.Blocks) > 0
		}) {
			key, fld := "", ""
			for _, a := range call.Common().Args {
				if s, ok := an.ConstString(an.Strip(a)); ok {
					key = s
				}
				if fa, ok := an.Strip(a).(*ssa.FieldAddr); ok && an.NamedIs(fa.X.Type(), pkgGraphql, "RawParams") {
					fld = fieldNameOf(fa)
				}
			}
			if key == "" || fld == "" {
				continue
			}
			n++
			c.R.Check(lowerFirst(fld) == key, "GET.Do/param:"+key, c.ipos(call), "handed to "+call.Common().StaticCallee().Name()+" together with &RawParams."+fld, "URL parameter `"+key+"` is decoded into RawParams."+fld+": the request the executor and the extensions see is not the one the client sent")
		}
	}
	if n < 2 {
		c.R.Fail("get-param-fields traced only %d URL parameters into RawParams", n)
	}
}

// apqVersionGate: a persisted-query extension with any version other than 1 is rejected: the comparison guarding the
// "unsupported version" error is `Version != 1`.
func apqVersionGate(c *Ctx) {
	c.R.Rule("version-gate", "extension.AutomaticPersistedQuery: the edge `extension.Version != 1` only reaches returns of a non-nil error (every version but 1 is refused before the cache is touched)", 1)
	fns := c.moduleFuncs(func(p string) bool { return p == pkgExtension })
	n := 0
	for _, fn := range fns {
		for _, e := range an.CondEdges(fn) {
			if e.Fact.Op != token.NEQ && e.Fact.Op != token.EQL && e.Fact.Op != token.GTR && e.Fact.Op != token.LSS && e.Fact.Op != token.GEQ && e.Fact.Op != token.LEQ {
				continue
			}
			var fld ssa.Value
			var k int64
			for _, pr := range [][2]ssa.Value{{e.Fact.X, e.Fact.Y}, {e.Fact.Y, e.Fact.X}} {
				if kk, isC := an.ConstInt(pr[1]); isC {
					if fa, ok := loadAddr(pr[0]).(*ssa.FieldAddr); ok && fieldNameOf(fa) == "Version" {
						fld, k = pr[0], kk
					}
					if f, ok := pr[0].(*ssa.Field); ok && fieldName2(f) == "Version" {
						fld, k = pr[0], kk
					}
				}
			}
			if fld == nil {
				continue
			}
			// judge the edge that leads to the error
			ok1, _ := c.failureStops(fn, e.To, fns, 0)
			if !ok1 {
				continue // the accepting edge
			}
			n++
			c.R.Check(e.Fact.Op == token.NEQ && k == 1, shortFn(topFn(fn))+"/version-refused", c.ipos(e.If), "Version != 1 is refused", sprintf("the version test that refuses a request is `Version %s %d`, not `Version != 1`: requests with another (or no) version are accepted and read or write the persisted-query cache", e.Fact.Op, k))
		}
	}
	if n == 0 {
		c.R.Bad("AutomaticPersistedQuery/version-refused", "graphql/handler/extension/apq.go", "no test of the extension's Version leads to a refusal")
	}
}

// lowerFirst: the member name GraphQL-over-HTTP uses for a RawParams field (OperationName -> operationName).
func lowerFirst(s string) string {
	if s == "" {
		return s
	}
	return strings.ToLower(s[:1]) + s[1:]
}
