package rules

import (
	"go/token"
	"go/types"
	"strings"

	"golang.org/x/tools/go/ssa"

	"verif/internal/an"
)

// locksReleased: no function of the packages examined returns while it still holds a mutex it locked itself, unless an unlock
// of that mutex was deferred on the way.  A lock leaked on one exit (typically an early return) blocks every later user of the
// connection / response forever: operations never terminate and their goroutines never end.
func locksReleased(c *Ctx, pkgs ...string) {
	c.R.Rule("locks-released", "in the runtime packages no function returns with a sync.Mutex/RWMutex it locked still held (no explicit unlock on that path and no deferred unlock registered before the return)", 10)
	in := func(p string) bool {
		for _, q := range pkgs {
			if p == q {
				return true
			}
		}
		return false
	}
	n := 0
	for _, fn := range c.moduleFuncs(in) {
		hasLock := false
		for _, b := range fn.Blocks {
			for _, i := range b.Instrs {
				if addr, lock, _, _ := an.LockOp(i); addr != nil && lock {
					hasLock = true
				}
			}
		}
		if !hasLock {
			continue
		}
		ls := an.Locksets(fn)
		// deferred unlocks (direct, or inside a deferred function literal)
		type du struct {
			in  ssa.Instruction
			key string
		}
		var dus []du
		for _, b := range fn.Blocks {
			for _, i := range b.Instrs {
				d, ok := i.(*ssa.Defer)
				if !ok {
					continue
				}
				if addr, _, unlock, _ := an.LockOp(i); addr != nil && unlock {
					dus = append(dus, du{i, an.LockKey(addr)})
				}
				if mc, ok := d.Call.Value.(*ssa.MakeClosure); ok {
					for _, b2 := range mc.Fn.(*ssa.Function).Blocks {
						for _, i2 := range b2.Instrs {
							if addr, _, unlock, _ := an.LockOp(i2); addr != nil && unlock {
								// key as seen from the enclosing function: through the captured variable
								k := an.LockKey(addr)
								dus = append(dus, du{i, k})
								if fa, ok := addr.(*ssa.FieldAddr); ok {
									dus = append(dus, du{i, an.Path(an.RootAlloc(fa.X)) + "." + fieldNameOf(fa)})
								}
							}
						}
					}
				}
			}
		}
		for _, r := range an.Returns(fn) {
			if fn.Recover != nil && r.Block() == fn.Recover {
				continue
			}
			for key := range ls[r] {
				n++
				covered := false
				for _, d := range dus {
					if (d.key == key || strings.HasSuffix(key, "."+lastSeg(d.key)) && sameLockBase(key, d.key)) && an.CanReach(d.in, r) {
						covered = true
					}
				}
				c.R.Check(covered, shortFn(topFn(fn))+"/return-holding:"+key, c.ipos(r), "released by a deferred unlock", "this return leaves "+key+" locked (no unlock on this path, none deferred): every later operation that needs the lock blocks forever")
			}
		}
		// functions that lock and always unlock explicitly contribute one discharged obligation, so that the rule is visibly alive
		n++
		c.R.OK(shortFn(topFn(fn))+"/lock-balance", c.pos(fn.Pos()), "every return examined")
	}
	if n < 10 {
		c.R.Fail("locks-released examined only %d locking functions/returns", n)
	}
}

func lastSeg(k string) string {
	if i := strings.LastIndex(k, "."); i >= 0 {
		return k[i+1:]
	}
	return k
}

func sameLockBase(a, b string) bool {
	// "c.mu" vs "c*.mu" (value vs spilled receiver): compare the leading identifier
	cut := func(s string) string {
		for i, r := range s {
			if r == '.' || r == '*' {
				return s[:i]
			}
		}
		return s
	}
	return cut(a) == cut(b)
}

// nilFuncCalls: a function value taken out of a map (or received from a map lookup stored in a local) is only called on an edge
// where it is known to be non-nil.  The websocket `stop` / `complete` handler looks the operation's cancel function up by a
// client-supplied id; an unknown id yields nil, and calling it panics inside gqlgen's own code.
func nilFuncCalls(c *Ctx, rule string, pkgs ...string) {
	c.R.Rule(rule, "in package transport a function value obtained from a map lookup is called only on an edge where it was tested non-nil (or the lookup's ok result is true)", 0)
	in := func(p string) bool {
		for _, q := range pkgs {
			if p == q {
				return true
			}
		}
		return false
	}
	n := 0
	for _, fn := range c.moduleFuncs(in) {
		for _, b := range fn.Blocks {
			for _, i := range b.Instrs {
				call, ok := i.(ssa.CallInstruction)
				if !ok || call.Common().IsInvoke() || call.Common().StaticCallee() != nil {
					continue
				}
				v := call.Common().Value
				if _, isB := v.(*ssa.Builtin); isB {
					continue
				}
				if _, isSig := v.Type().Underlying().(*types.Signature); !isSig {
					continue
				}
				var lk *ssa.Lookup
				for _, d := range an.Defs(v) {
					if l, ok := d.(*ssa.Lookup); ok {
						lk = l
					}
					if ex, ok := d.(*ssa.Extract); ok {
						if l, ok := ex.Tuple.(*ssa.Lookup); ok {
							lk = l
						}
					}
				}
				if lk == nil {
					continue
				}
				if _, isMap := lk.X.Type().Underlying().(*types.Map); !isMap {
					continue
				}
				n++
				okGuard := false
				for _, f := range an.Facts(i) {
					if empty, k := an.EmptinessFact(f, func(x ssa.Value) bool { return x == v || an.SameVar(x, v) }); k && !empty {
						okGuard = true
					}
					if f.Op == token.ILLEGAL && !f.Neg {
						if ex, ok := f.X.(*ssa.Extract); ok && ex.Index == 1 && ex.Tuple == ssa.Value(lk) {
							okGuard = true
						}
					}
				}
				// ranging over the map yields only stored (non-nil by construction of the callers) values: not a lookup
				c.R.Check(okGuard, shortFn(topFn(fn))+"/call-of-looked-up-func", c.ipos(i), "called only when non-nil", "a function value looked up in a map by a client-supplied key is called without a nil test: an unknown key (e.g. `stop` for an id that is not active) makes gqlgen call a nil function and panic in its own code")
			}
		}
	}
	if n == 0 {
		c.R.Note(rule, "-", "no call of a function value obtained from a map lookup; nothing to judge")
	}
}
