package rules

import (
	"go/ast"
	"go/token"
	"go/types"
	"sort"
	"strconv"
	"strings"

	"golang.org/x/tools/go/ssa"

	"verif/internal/an"
)

// Rules over the materialised executors written after the third small-slip round.  Each declares its own rule; genRound3 is
// attached to the properties that read the executors.

func genRound3(c *Ctx, which ...string) {
	want := map[string]bool{}
	for _, w := range which {
		want[w] = true
	}
	on := func(n string) bool { return len(want) == 0 || want[n] }
	if on("typename") {
		genTypenameIsObjectName(c)
	}
	if on("implementors") {
		genImplementorsComplete(c)
	}
	if on("input-null") {
		genInputNullIsPresent(c)
	}
	if on("arg-absent") {
		genArgAbsentRespectsSetting(c)
	}
	if on("args-ctx") {
		genArgsUnderFieldContext(c)
	}
	if on("deferred-fields") {
		genDeferredResultConsumed(c)
	}
	if on("stream-closed") {
		genStreamClosedReturnsNil(c)
	}
	if on("worker-limit") {
		genWorkerLimitConstant(c)
	}
	if on("reported-error") {
		genReportedErrorStops(c)
	}
	if on("field-hooks") {
		genFieldHooksOnPath(c)
	}
	if on("deferred-only") {
		genDeferredFieldNotInInitial(c)
	}
	if on("complexity-keys") {
		genComplexityKeys(c)
	}
	if on("deferred-set-fresh") {
		genDeferredSetFresh(c)
	}
	if on("hasnext-per-payload") {
		genHasNextPerPayload(c)
	}
	if on("field-directives") {
		genFieldDirectivesCalled(c)
	}
	if on("response-buffer") {
		genResponseBufferLocal(c)
	}
	if on("ptr-ptr") {
		genPtrPtrUnmarshalsWhenPresent(c)
	}
	if on("handler-ctx") {
		genHandlerSeesFieldContext(c)
	}
	if on("event-ctx") {
		genEventUsesOwnContext(c)
	}
}

// (1) `__typename` answers the object's own name: the constant of the object function it stands in.
func genTypenameIsObjectName(c *Ctx) {
	c.R.Rule("typename-is-object-name", "in every generated object function _T the value written for __typename is the string constant \"T\"", 10)
	for _, g := range c.Gen {
		for _, fn := range c.genFuncs(g) {
			if fn.Parent() != nil || !strings.HasPrefix(fn.Name(), "_") || strings.Contains(fn.Name()[1:], "_") && !isObjectFunc(fn) {
				continue
			}
			if !isObjectFunc(fn) {
				continue
			}
			cases := switchCases(fn, func(v ssa.Value) bool {
				fa, ok := loadAddr(an.Strip(v)).(*ssa.FieldAddr)
				return ok && fieldNameOf(fa) == "Name"
			})
			blk := cases["__typename"]
			if blk == nil {
				continue
			}
			key := "gen:" + g.Name + "/" + fn.Name() + "/__typename"
			found := false
			for _, in := range blk.Instrs {
				call, ok := in.(*ssa.Call)
				if !ok || an.CalleeOf(call).FullName() != pkgGraphql+".MarshalString" {
					continue
				}
				found = true
				s, isC := an.ConstString(call.Call.Args[0])
				c.R.Check(isC && s == objectNameOf(fn), key, c.ipos(in), "the constant "+strconv.Quote(s), "__typename of "+objectNameOf(fn)+" is not the constant \""+objectNameOf(fn)+"\" (it is computed from the selection): for a field of interface or union type the client is told the abstract type's name instead of the concrete object's")
			}
			if !found {
				c.R.Bad(key, c.ipos(blk.Instrs[0]), "the __typename case does not marshal a string")
			}
		}
	}
}

// isObjectFunc: func(ctx, sel ast.SelectionSet, [obj]) graphql.Marshaler calling graphql.CollectFields.
func isObjectFunc(fn *ssa.Function) bool {
	ps := fn.Signature.Params()
	hasSel := false
	for i := 0; i < ps.Len(); i++ {
		if strings.HasSuffix(ps.At(i).Type().String(), "ast.SelectionSet") {
			hasSel = true
		}
	}
	if !hasSel || fn.Signature.Results().Len() != 1 {
		return false
	}
	return len(an.CallsIn(fn, func(_ ssa.CallInstruction, ci an.CalleeInfo) bool {
		return ci.FullName() == pkgGraphql+".CollectFields"
	})) > 0
}

func objectNameOf(fn *ssa.Function) string { return strings.TrimPrefix(fn.Name(), "_") }

// (2) the implementors table of an object lists the object, every interface it implements and every union it is a member of.
func genImplementorsComplete(c *Ctx) {
	c.R.Rule("implementors-complete", "for every object type of the materialised schema the generated <type>Implementors table holds exactly the object's name, its interfaces and the unions it belongs to (what a fragment's type condition may name)", 10)
	for _, g := range c.Gen {
		sch := c.schema(g)
		tp := c.W.TPkg(g.Path)
		if sch == nil || tp == nil {
			continue
		}
		// tables by the object function that uses them
		tables := map[string][]string{} // var name -> elements
		for _, f := range tp.Syntax {
			for _, d := range f.Decls {
				gd, ok := d.(*ast.GenDecl)
				if !ok || gd.Tok != token.VAR {
					continue
				}
				for _, sp := range gd.Specs {
					vs, ok := sp.(*ast.ValueSpec)
					if !ok || len(vs.Names) != 1 || len(vs.Values) != 1 || !strings.HasSuffix(vs.Names[0].Name, "Implementors") {
						continue
					}
					cl, ok := vs.Values[0].(*ast.CompositeLit)
					if !ok {
						continue
					}
					var el []string
					for _, e := range cl.Elts {
						if bl, ok := e.(*ast.BasicLit); ok {
							s, _ := strconv.Unquote(bl.Value)
							el = append(el, s)
						}
					}
					tables[vs.Names[0].Name] = el
				}
			}
		}
		for _, fn := range c.genFuncs(g) {
			if fn.Parent() != nil || !isObjectFunc(fn) {
				continue
			}
			name := objectNameOf(fn)
			def := sch.Types[name]
			if def == nil || (def.Kind != "OBJECT") {
				continue
			}
			var tab []string
			tabName := ""
			for _, call := range an.CallsIn(fn, func(_ ssa.CallInstruction, ci an.CalleeInfo) bool {
				return ci.FullName() == pkgGraphql+".CollectFields"
			}) {
				if gl, ok := loadAddr(an.Strip(call.Common().Args[2])).(*ssa.Global); ok {
					tabName = gl.Name()
					tab = tables[tabName]
				}
			}
			key := "gen:" + g.Name + "/" + fn.Name() + "/implementors"
			if tabName == "" {
				c.R.Note(key, c.pos(fn.Pos()), "CollectFields is not handed a package-level table; not judged")
				continue
			}
			want := map[string]bool{name: true}
			for _, d := range sch.GetImplements(def) {
				want[d.Name] = true
			}
			got := map[string]bool{}
			for _, s := range tab {
				got[s] = true
			}
			var missing, extra []string
			for w := range want {
				if !got[w] {
					missing = append(missing, w)
				}
			}
			for s := range got {
				if !want[s] {
					extra = append(extra, s)
				}
			}
			sort.Strings(missing)
			sort.Strings(extra)
			c.R.Check(len(missing) == 0 && len(extra) == 0, key, c.pos(fn.Pos()), sprintf("%d names", len(tab)), sprintf("%s = %v: missing %v, unexpected %v — a fragment whose type condition names a missing abstract type is skipped for this object (the selection comes back empty)", tabName, tab, missing, extra))
		}
	}
}

// (3) an input field that is present with the value null is not treated like an absent one.
func genInputNullIsPresent(c *Ctx) {
	c.R.Rule("input-null-is-present", "generated unmarshalInput* functions: the per-field loop skips a field only when the map lookup's ok result is false; the looked-up value itself is never compared with nil there", 3)
	for _, g := range c.Gen {
		for _, fn := range c.genFuncs(g) {
			if fn.Parent() != nil || !strings.HasPrefix(fn.Name(), "unmarshalInput") {
				continue
			}
			var bad ssa.Instruction
			n := 0
			for _, b := range fn.Blocks {
				for _, in := range b.Instrs {
					lk, ok := in.(*ssa.Lookup)
					if !ok || !lk.CommaOk {
						continue
					}
					n++
					for _, r := range an.Referrers(lk) {
						ex, ok := r.(*ssa.Extract)
						if !ok || ex.Index != 0 {
							continue
						}
						for _, r2 := range an.Referrers(ex) {
							if bo, ok := r2.(*ssa.BinOp); ok && (bo.Op == token.EQL || bo.Op == token.NEQ) && (an.IsNilConst(bo.X) || an.IsNilConst(bo.Y)) {
								bad = r2
							}
						}
					}
				}
			}
			if n == 0 {
				continue
			}
			key := "gen:" + g.Name + "/" + fn.Name() + "/null-present"
			if bad != nil {
				c.R.Bad(key, c.ipos(bad), "the field loop compares the looked-up value with nil: an explicit null is treated like an omitted field (Omittable.IsSet() false, map-backed inputs lose the key, input-field directives skipped)")
			} else {
				c.R.OK(key, c.pos(fn.Pos()), "only the lookup's ok result decides")
			}
		}
	}
}

// argFuncOf: per-argument functions have a parameter `rawArgs map[string]any` and results (T, error).
func isPerArgFunc(fn *ssa.Function) bool {
	if fn.Parent() != nil || fn.Signature.Results().Len() != 2 || !an.IsErrorType(fn.Signature.Results().At(1).Type()) {
		return false
	}
	if !strings.HasPrefix(fn.Name(), "field_") && !strings.HasPrefix(fn.Name(), "dir_") {
		return false
	}
	for _, p := range fn.Params {
		if p.Name() == "rawArgs" {
			if _, isMap := fn.Signature.Results().At(0).Type().Underlying().(*types.Map); isMap && strings.HasSuffix(fn.Name(), "_args") {
				return false // the collecting function
			}
			return true
		}
	}
	return false
}

// (4) call_argument_directives_with_null decides whether an absent argument skips the directives, and nothing else does.
func genArgAbsentRespectsSetting(c *Ctx) {
	c.R.Rule("arg-absent-respects-setting", "generated per-argument functions: the path context (and with it every argument directive) is entered only when the argument is present — for field arguments iff call_argument_directives_with_null is false in the configuration that was materialised, for directive arguments always (arguments without directives are not judged)", 3)
	for _, g := range c.Gen {
		setting := c.cfgBool(g, "call_argument_directives_with_null")
		for _, fn := range c.genFuncs(g) {
			if !isPerArgFunc(fn) || strings.HasSuffix(fn.Name(), "_args") || len(fn.AnonFuncs) == 0 {
				continue // without directive literals there is nothing the setting could skip
			}
			var rawArgs *ssa.Parameter
			for _, p := range fn.Params {
				if p.Name() == "rawArgs" {
					rawArgs = p
				}
			}
			for _, call := range an.CallsIn(fn, func(_ ssa.CallInstruction, ci an.CalleeInfo) bool {
				return ci.FullName() == pkgGraphql+".WithPathContext"
			}) {
				if call.Parent() != fn {
					continue
				}
				guarded := false
				for _, f := range an.Facts(call) {
					if ex, ok := an.Strip(f.X).(*ssa.Extract); ok && ex.Index == 1 && f.Op == token.ILLEGAL && !f.Neg {
						if lk, ok := ex.Tuple.(*ssa.Lookup); ok && lk.CommaOk && isParamValue(lk.X, rawArgs) {
							guarded = true
						}
					}
				}
				key := "gen:" + g.Name + "/" + fn.Name() + "/absent"
				// the option is copied to field arguments only (codegen/args.go); arguments of directives keep the default
				if setting && strings.HasPrefix(fn.Name(), "field_") {
					c.R.Check(!guarded, key, c.ipos(call), "directives run for an absent argument (call_argument_directives_with_null: true)", "call_argument_directives_with_null is true but an absent argument returns before the directives: they are skipped for omitted arguments")
				} else {
					c.R.Check(guarded, key, c.ipos(call), "an absent argument returns the zero value before any directive", "call_argument_directives_with_null is false but the early return for an absent argument is missing: argument directives run (and may inject a value) for an omitted argument")
				}
			}
		}
	}
}

// (5) argument errors carry the field's own path segment: the arguments are coerced under the field's context.
func genArgsUnderFieldContext(c *Ctx) {
	c.R.Rule("args-under-field-context", "generated fieldContext_* functions: the context handed to the field's *_args function is the result of graphql.WithFieldContext(ctx, fc)", 10)
	for _, g := range c.Gen {
		for _, fn := range c.genFuncs(g) {
			if fn.Parent() != nil || !strings.HasPrefix(fn.Name(), "fieldContext_") {
				continue
			}
			for _, call := range an.CallsIn(fn, func(_ ssa.CallInstruction, ci an.CalleeInfo) bool {
				return ci.Static != nil && strings.HasPrefix(ci.Static.Name(), "field_") && strings.HasSuffix(ci.Static.Name(), "_args")
			}) {
				if call.Parent() != fn {
					continue
				}
				var ctxArg ssa.Value
				for _, a := range call.Common().Args {
					if a.Type().String() == "context.Context" {
						ctxArg = a
						break
					}
				}
				ok := false
				if ctxArg != nil {
					v := an.Strip(ctxArg)
					if cl, isCall := v.(*ssa.Call); isCall && an.CalleeOf(cl).FullName() == pkgGraphql+".WithFieldContext" {
						ok = true
					}
					if addr := loadAddr(v); addr != nil {
						for _, st := range an.CellStores(addr) {
							if cl, isCall := an.Strip(st.Val).(*ssa.Call); isCall && an.CalleeOf(cl).FullName() == pkgGraphql+".WithFieldContext" && an.CanReach(st, call) {
								ok = true
							}
						}
					}
				}
				c.R.Check(ok, "gen:"+g.Name+"/"+fn.Name()+"/args-ctx", c.ipos(call), "arguments are coerced under WithFieldContext(ctx, fc)", "the arguments are coerced under the parent's context: an argument error's path lacks the field's own segment (\"input.nesting.field\" instead of \"updateSomething.input.nesting.field\")")
			}
		}
	}
}

// (6) every field of graphql.DeferredResult is consumed where the executor turns a deferred result into a response.
func genDeferredResultConsumed(c *Ctx) {
	c.R.Rule("deferred-result-consumed", "the generated Exec reads every field of graphql.DeferredResult (Path, Label, Result, Errors) when it builds the incremental response", 2)
	for _, g := range c.Gen {
		ex := c.genFunc(g, "Exec")
		if ex == nil {
			continue
		}
		var st *types.Struct
		read := map[string]bool{}
		for _, fn := range an.WithClosures(ex) {
			for _, b := range fn.Blocks {
				for _, in := range b.Instrs {
					switch x := in.(type) {
					case *ssa.FieldAddr:
						if an.NamedIs(x.X.Type().Underlying().(*types.Pointer).Elem(), pkgGraphql, "DeferredResult") {
							st = x.X.Type().Underlying().(*types.Pointer).Elem().Underlying().(*types.Struct)
							read[st.Field(x.Field).Name()] = true
						}
					case *ssa.Field:
						if an.NamedIs(x.X.Type(), pkgGraphql, "DeferredResult") {
							st = x.X.Type().Underlying().(*types.Struct)
							read[st.Field(x.Field).Name()] = true
						}
					}
				}
			}
		}
		key := "gen:" + g.Name + "/Exec/deferred-result"
		if st == nil {
			c.R.Note(key, c.pos(ex.Pos()), "no DeferredResult read in Exec")
			continue
		}
		var missing []string
		for i := 0; i < st.NumFields(); i++ {
			if !read[st.Field(i).Name()] {
				missing = append(missing, st.Field(i).Name())
			}
		}
		c.R.Check(len(missing) == 0, key, c.pos(ex.Pos()), sprintf("%d fields read", st.NumFields()), "Exec never reads DeferredResult."+strings.Join(missing, ", ")+": a deferred fragment's "+strings.ToLower(strings.Join(missing, ", "))+" never reaches the incremental payload (a failed deferred field arrives as null without its error)")
	}
}

// (7) a subscription whose channel was closed ends: the response function answers nil, not a null payload.
func genStreamClosedReturnsNil(c *Ctx) {
	c.R.Rule("stream-closed-returns-nil", "generated subscription field functions: on the edge where the receive from the resolver's channel reports closed (ok false) the returned response function answers nil (end of stream), never a Marshaler", 1)
	for _, g := range c.Gen {
		for _, fn := range c.genFuncs(g) {
			if fn.Parent() == nil || !isFieldFuncSig(topFn(fn)) {
				continue
			}
			for _, b := range fn.Blocks {
				for _, in := range b.Instrs {
					sel, ok := in.(*ssa.Select)
					if !ok {
						continue
					}
					// the receive from the resolver's channel (not a Done() channel) must look at its ok result
					hasRecv := false
					for _, st := range sel.States {
						if st.Dir == types.RecvOnly && !an.IsDoneChan(st.Chan) {
							hasRecv = true
						}
					}
					okUsed := false
					for _, r := range an.Referrers(sel) {
						if ex, ok := r.(*ssa.Extract); ok && ex.Index == 1 && len(an.Referrers(ex)) > 0 {
							okUsed = true
						}
					}
					if hasRecv && !okUsed {
						c.R.Bad("gen:"+g.Name+"/"+topFn(fn).Name()+"/closed-channel", c.ipos(sel), "the receive from the resolver's channel ignores its ok result: once the resolver closes the channel every call yields a zero value, an endless run of phantom events and never a completion")
					}
					// recvOk is Extract #1
					for _, r := range an.Referrers(sel) {
						ex, ok := r.(*ssa.Extract)
						if !ok || ex.Index != 1 {
							continue
						}
						for _, r2 := range an.Referrers(ex) {
							ifi, ok := r2.(*ssa.If)
							if !ok {
								continue
							}
							closed := ifi.Block().Succs[1]
							key := "gen:" + g.Name + "/" + topFn(fn).Name() + "/closed-channel"
							ret, _ := closed.Instrs[len(closed.Instrs)-1].(*ssa.Return)
							good := ret != nil && len(ret.Results) == 1 && an.IsNilConst(ret.Results[0])
							c.R.Check(good, key, c.ipos(ifi), "answers nil when the channel is closed", "when the resolver closes its channel the response function answers a Marshaler instead of nil: the transport keeps calling it and the subscription busy-loops on {\"data\":null} without ever completing")
						}
					}
				}
			}
		}
	}
}

// (8) the semaphore of a list marshaler has exactly the configured number of slots.
func genWorkerLimitConstant(c *Ctx) {
	c.R.Rule("worker-limit-constant", "every semaphore.NewWeighted in the generated list marshalers is given the positive constant that exec.worker_limit names in the materialised configuration", 0)
	for _, g := range c.Gen {
		want := int64(0)
		if m := c.config(g); m != nil {
			if ex, ok := m["exec"].(map[string]any); ok {
				switch v := ex["worker_limit"].(type) {
				case int:
					want = int64(v)
				case int64:
					want = v
				case string:
					k, _ := strconv.Atoi(v)
					want = int64(k)
				}
			}
		}
		for _, fn := range c.genFuncs(g) {
			for _, call := range an.CallsIn(fn, func(_ ssa.CallInstruction, ci an.CalleeInfo) bool {
				return strings.HasSuffix(ci.FullName(), "semaphore.NewWeighted")
			}) {
				if call.Parent() != fn {
					continue
				}
				k, isC := an.ConstInt(call.Common().Args[0])
				c.R.Check(isC && k > 0 && (want == 0 || k == want), "gen:"+g.Name+"/"+fn.Name()+"/semaphore-size", c.ipos(call), sprintf("%d slots", k), sprintf("the semaphore has %d slots where worker_limit is %d: with no slot every element waits until the request is cancelled", k, want))
			}
		}
	}
}

// (9) after an error was reported with ec.Error on the edge where a call's error is non-nil, the value half of that call is not used.
func genReportedErrorStops(c *Ctx) {
	c.R.Rule("reported-error-stops", "generated code: once the error half of a (value, error) call has been handed to ec.Error, no path from there uses the value half (the function answers null instead)", 5)
	for _, g := range c.Gen {
		for _, fn := range c.genFuncs(g) {
			for _, b := range fn.Blocks {
				for idx, in := range b.Instrs {
					call, ok := in.(*ssa.Call)
					if !ok || !strings.HasSuffix(an.CalleeOf(call).FullName(), ".Error") || len(call.Call.Args) < 2 {
						continue
					}
					errArg := an.Strip(call.Call.Args[len(call.Call.Args)-1])
					ex, ok := errArg.(*ssa.Extract)
					if !ok {
						continue
					}
					src, ok := ex.Tuple.(*ssa.Call)
					if !ok || src.Call.Signature().Results().Len() != 2 || ex.Index != 1 {
						continue
					}
					var val ssa.Value
					for _, r := range an.Referrers(src) {
						if e2, ok := r.(*ssa.Extract); ok && e2.Index == 0 {
							val = e2
						}
					}
					if val == nil {
						continue
					}
					// walk forward from the Error call
					var bad ssa.Instruction
					seen := map[*ssa.BasicBlock]bool{}
					uses := func(i ssa.Instruction) bool {
						if _, isDbg := i.(*ssa.DebugRef); isDbg {
							return false
						}
						for _, op := range i.Operands(nil) {
							if op != nil && *op != nil && an.Strip(*op) == val {
								return true
							}
						}
						return false
					}
					var walk func(bb *ssa.BasicBlock, from int)
					walk = func(bb *ssa.BasicBlock, from int) {
						if bad != nil {
							return
						}
						for _, i := range bb.Instrs[from:] {
							if uses(i) {
								bad = i
								return
							}
						}
						for _, s := range bb.Succs {
							if !seen[s] {
								seen[s] = true
								walk(s, 0)
							}
						}
					}
					walk(b, idx+1)
					key := "gen:" + g.Name + "/" + c.fnKeyIn(g, fn) + "/after-" + lastSeg(an.CalleeOf(src).FullName())
					if bad != nil {
						c.R.Bad(key, c.ipos(bad), "the value returned next to an error is still used after the error was reported with ec.Error: the client gets data next to the error (or two errors) instead of a null")
					} else {
						c.R.OK(key, c.ipos(call), "nothing uses the value after the error was reported")
					}
				}
			}
		}
	}
}

func (c *Ctx) fnKeyIn(g *GenPkg, fn *ssa.Function) string {
	return strings.TrimPrefix(strings.TrimPrefix(shortFn(fn), shortPkgPath(g.Path)+"."), "(*"+shortPkgPath(g.Path)+".executionContext).")
}

// isParamValue: v is parameter p or a load of the cell p was spilled into (parameters captured by literals).
func isParamValue(v ssa.Value, p *ssa.Parameter) bool {
	v = an.Strip(v)
	if v == ssa.Value(p) {
		return true
	}
	if addr := loadAddr(v); addr != nil {
		sts := an.CellStores(addr)
		return len(sts) == 1 && an.Strip(sts[0].Val) == ssa.Value(p)
	}
	return false
}

// (10) every field is resolved through the field interceptor chain: directly, or through _fieldMiddleware which calls it.
func genFieldHooksOnPath(c *Ctx) {
	c.R.Rule("field-hooks-on-path", "generated field functions: the resolver closure is handed to ec.ResolverMiddleware, either directly or by _fieldMiddleware (which must itself call ec.ResolverMiddleware)", 10)
	callsRM := func(fn *ssa.Function) bool {
		for _, body := range an.WithClosures(fn) {
			for _, b := range body.Blocks {
				for _, in := range b.Instrs {
					if call, ok := in.(ssa.CallInstruction); ok {
						if fa, isF := loadAddr(an.Strip(call.Common().Value)).(*ssa.FieldAddr); isF && fieldNameOf(fa) == "ResolverMiddleware" {
							return true
						}
					}
				}
			}
		}
		return false
	}
	for _, g := range c.Gen {
		fm := c.genFunc(g, "_fieldMiddleware")
		if fm != nil {
			c.R.Check(callsRM(fm), "gen:"+g.Name+"/_fieldMiddleware", c.pos(fm.Pos()), "calls ec.ResolverMiddleware", "_fieldMiddleware resolves the field without ec.ResolverMiddleware: in a schema with a FIELD directive no field interceptor runs for any field")
		}
		for _, fn := range c.genFuncs(g) {
			if fn.Parent() != nil || !isFieldFuncSig(fn) || !strings.HasPrefix(fn.Name(), "_") || strings.HasPrefix(fn.Name(), "___") {
				continue
			}
			hasResolverLiteral := false
			for _, cl := range fn.AnonFuncs {
				if cl.Signature.Params().Len() == 1 && cl.Signature.Results().Len() == 2 && an.IsErrorType(cl.Signature.Results().At(1).Type()) {
					hasResolverLiteral = true
				}
			}
			if !hasResolverLiteral {
				continue // nothing is resolved here (a field of a root type answers an empty root value)
			}
			viaFM := false
			for _, call := range an.CallsIn(fn, func(_ ssa.CallInstruction, ci an.CalleeInfo) bool {
				return ci.Static != nil && ci.Static == fm && fm != nil
			}) {
				_ = call
				viaFM = true
			}
			c.R.Check(viaFM || callsRM(fn), "gen:"+g.Name+"/"+fn.Name()+"/hooks", c.pos(fn.Pos()), "resolved through the field interceptor chain", "this field is resolved without passing ec.ResolverMiddleware: field interceptors (tracing, auth hooks) never see it")
		}
	}
}

// (11) a deferred field is handed to its deferred group only: the same iteration does not also schedule it on the initial set.
func genDeferredFieldNotInInitial(c *Ctx) {
	c.R.Rule("deferred-field-not-in-initial", "generated object functions: after a field was scheduled on a deferred FieldSet (Concurrently on the set taken from / put into the `deferred` map) the same loop iteration does not reach a Concurrently/field call on the initial set", 1)
	for _, g := range c.Gen {
		for _, fn := range c.genFuncs(g) {
			if fn.Parent() != nil || !isObjectFunc(fn) {
				continue
			}
			// the initial set: result of graphql.NewFieldSet(fields) at function top (first call)
			var conc []*ssa.Call
			for _, call := range an.CallsIn(fn, func(_ ssa.CallInstruction, ci an.CalleeInfo) bool {
				return ci.FullName() == "(*"+pkgGraphql+".FieldSet).Concurrently"
			}) {
				if cc, ok := call.(*ssa.Call); ok && cc.Parent() == fn {
					conc = append(conc, cc)
				}
			}
			isDeferredSet := func(v ssa.Value) bool {
				v = an.Strip(v)
				if _, ok := v.(*ssa.Phi); ok {
					return true // dfs := existing-or-new
				}
				if _, ok := v.(*ssa.Lookup); ok {
					return true
				}
				if ex, ok := v.(*ssa.Extract); ok {
					_, isLk := ex.Tuple.(*ssa.Lookup)
					return isLk
				}
				if addr := loadAddr(v); addr != nil {
					for _, st := range an.CellStores(addr) {
						if ex, ok := an.Strip(st.Val).(*ssa.Extract); ok {
							if _, isLk := ex.Tuple.(*ssa.Lookup); isLk {
								return true
							}
						}
						if _, isLk := an.Strip(st.Val).(*ssa.Lookup); isLk {
							return true
						}
					}
				}
				return false
			}
			for _, d := range conc {
				if !isDeferredSet(d.Call.Args[0]) {
					continue
				}
				var bad ssa.Instruction
				for _, o := range conc {
					if o == d || isDeferredSet(o.Call.Args[0]) {
						continue
					}
					if reachesWithinIteration(d, o) {
						bad = o
					}
				}
				key := "gen:" + g.Name + "/" + fn.Name() + "/deferred-only"
				if bad != nil {
					c.R.Bad(key, c.ipos(bad), "a field scheduled on its deferred group falls through to the initial set's Concurrently in the same iteration: its resolver and hooks run twice, once for the initial payload and once for the deferred one")
				} else {
					c.R.OK(key, c.ipos(d), "the iteration ends after the deferred scheduling")
				}
			}
		}
	}
}

// (12) the Complexity dispatcher looks a cost function up under "Type.field" and hands it the arguments under their schema names.
func genComplexityKeys(c *Ctx) {
	c.R.Rule("complexity-keys", "generated Complexity: the switch subject is typeName + \".\" + field in this order, and inside the case for Type.field every constant key read from the argument map is the name of an argument the schema declares for that field", 2)
	for _, g := range c.Gen {
		fn := c.genFunc(g, "Complexity")
		sch := c.schema(g)
		if fn == nil || sch == nil {
			continue
		}
		var pType, pField *ssa.Parameter
		for _, p := range fn.Params {
			switch p.Name() {
			case "typeName":
				pType = p
			case "field":
				pField = p
			}
		}
		if pType == nil || pField == nil {
			c.R.Note("gen:"+g.Name+"/Complexity", c.pos(fn.Pos()), "parameters typeName/field not found; not judged")
			continue
		}
		// the subject: a concatenation whose leftmost operand is typeName
		var subject ssa.Value
		for _, b := range fn.Blocks {
			for _, in := range b.Instrs {
				if bo, ok := in.(*ssa.BinOp); ok && bo.Op == token.ADD && an.Strip(bo.Y) == ssa.Value(pField) || ok && bo.Op == token.ADD && an.Strip(bo.Y) == ssa.Value(pType) {
					subject = bo
				}
			}
		}
		cases := map[string]*ssa.BasicBlock{}
		if subject == nil {
			// nested form: switch typeName { case "T": switch field { case "f": … } }
			outer := switchCases(fn, func(v ssa.Value) bool { return an.Strip(v) == ssa.Value(pType) })
			for _, e := range an.CondEdges(fn) {
				if e.Fact.Op != token.EQL {
					continue
				}
				for _, pr := range [][2]ssa.Value{{e.Fact.X, e.Fact.Y}, {e.Fact.Y, e.Fact.X}} {
					f, ok := an.ConstString(pr[1])
					if !ok || an.Strip(pr[0]) != ssa.Value(pField) {
						continue
					}
					for t, tb := range outer {
						if tb == e.To || tb.Dominates(e.To) {
							cases[t+"."+f] = e.To
						}
					}
				}
			}
			if len(cases) == 0 {
				c.R.Note("gen:"+g.Name+"/Complexity", c.pos(fn.Pos()), "neither a concatenated nor a nested switch; not judged")
				c.R.SetFloor(0)
				continue
			}
			c.R.OK("gen:"+g.Name+"/Complexity/subject", c.pos(fn.Pos()), "nested switch: type name, then field")
		}
		left := subject
		for {
			bo, ok := left.(*ssa.BinOp)
			if !ok {
				break
			}
			left = an.Strip(bo.X)
		}
		if subject != nil {
			c.R.Check(left == ssa.Value(pType), "gen:"+g.Name+"/Complexity/subject", c.pos(fn.Pos()), "typeName + \".\" + field", "the switch subject is not typeName + \".\" + field: no case label (\"Type.field\") can match, every custom complexity function is ignored and the default cost is used")
			cases = switchCases(fn, func(v ssa.Value) bool { return v == subject })
		}
		n := 0
		for label, blk := range cases {
			parts := strings.SplitN(label, ".", 2)
			if len(parts) != 2 {
				continue
			}
			def := sch.Types[parts[0]]
			if def == nil {
				continue
			}
			fd := def.Fields.ForName(parts[1])
			if fd == nil {
				continue
			}
			// lookups in blocks dominated by the case block
			for _, b := range fn.Blocks {
				if !(blk == b || blk.Dominates(b)) {
					continue
				}
				for _, in := range b.Instrs {
					lk, ok := in.(*ssa.Lookup)
					if !ok {
						continue
					}
					key, isC := an.ConstString(lk.Index)
					if !isC {
						continue
					}
					n++
					c.R.Check(fd.Arguments.ForName(key) != nil, "gen:"+g.Name+"/Complexity/"+label+"/arg:"+key, c.ipos(in), "a declared argument", "the cost function of "+label+" is handed args[\""+key+"\"], but the field declares no argument of that name (the argument map is keyed by schema names): the type assertion on the missing entry panics, and every operation selecting the field is refused")
				}
			}
		}
		if n == 0 {
			c.R.Note("gen:"+g.Name+"/Complexity/args", c.pos(fn.Pos()), "no field with arguments has a cost function in this configuration")
		}
	}
}

// (13) a deferred group gets a FieldSet of its own: never a window into the slice of collected fields.
func genDeferredSetFresh(c *Ctx) {
	c.R.Rule("deferred-set-fresh", "generated object functions: graphql.NewFieldSet is given either the collected fields themselves (the initial set) or a freshly built slice, never a sub-slice of the collected fields (a later AddField would overwrite the next collected field)", 10)
	for _, g := range c.Gen {
		for _, fn := range c.genFuncs(g) {
			if fn.Parent() != nil || !isObjectFunc(fn) {
				continue
			}
			var fields ssa.Value
			for _, call := range an.CallsIn(fn, func(_ ssa.CallInstruction, ci an.CalleeInfo) bool {
				return ci.FullName() == pkgGraphql+".CollectFields"
			}) {
				if v, ok := call.(ssa.Value); ok {
					fields = v
				}
			}
			for _, call := range an.CallsIn(fn, func(_ ssa.CallInstruction, ci an.CalleeInfo) bool { return ci.FullName() == pkgGraphql+".NewFieldSet" }) {
				if call.Parent() != fn {
					continue
				}
				arg := an.Strip(call.Common().Args[0])
				bad := false
				if sl, ok := arg.(*ssa.Slice); ok {
					base := an.Strip(sl.X)
					if base == fields || an.SameVar(base, fields) {
						bad = true
					}
				}
				c.R.Check(!bad, "gen:"+g.Name+"/"+fn.Name()+"/NewFieldSet", c.ipos(call), "the collected fields or a fresh slice", "a deferred group's FieldSet is built on a window into the slice of collected fields: adding a second field to the group overwrites the next collected field, which is then never delivered under its key")
			}
		}
	}
}

// (14) every payload carries its own hasNext.
func genHasNextPerPayload(c *Ctx) {
	c.R.Rule("hasnext-per-payload", "generated Exec: the pointer stored into Response.HasNext points to a variable of the response function that builds that response (one per payload), not to a variable of Exec shared by all payloads", 2)
	for _, g := range c.Gen {
		ex := c.genFunc(g, "Exec")
		if ex == nil {
			continue
		}
		for _, fn := range an.WithClosures(ex) {
			for _, b := range fn.Blocks {
				for _, in := range b.Instrs {
					st, ok := in.(*ssa.Store)
					if !ok {
						continue
					}
					fa, ok := st.Addr.(*ssa.FieldAddr)
					if !ok || fieldNameOf(fa) != "HasNext" || !strings.HasSuffix(fa.X.Type().String(), "graphql.Response") {
						continue
					}
					v := an.Strip(st.Val)
					local := false
					if a, isA := v.(*ssa.Alloc); isA && a.Parent() == fn {
						local = true
					}
					if _, isFV := v.(*ssa.FreeVar); isFV {
						local = false
					}
					c.R.Check(local, "gen:"+g.Name+"/Exec/"+fn.Name()+"/HasNext", c.ipos(in), "a variable of this response function", "Response.HasNext points to a variable shared by every payload of the operation: a payload that is still queued (multipart batches them) changes its hasNext when the next payload is computed — the initial part says hasNext:false although increments follow")
				}
			}
		}
	}
}

// (15) a runtime directive the schema puts on a field is called by that field's function.
func genFieldDirectivesCalled(c *Ctx) {
	c.R.Rule("field-directives-called", "for every object field of the materialised schema that carries a directive with an implementation (ec.directives.X): the generated field function reads ec.directives.X", 1)
	n := 0
	for _, g := range c.Gen {
		sch := c.schema(g)
		if sch == nil {
			continue
		}
		// implemented directives: fields of DirectiveRoot
		impl := map[string]bool{}
		if tp := c.W.TPkg(g.Path); tp != nil && tp.Types != nil {
			if obj := tp.Types.Scope().Lookup("DirectiveRoot"); obj != nil {
				if st, ok := obj.Type().Underlying().(*types.Struct); ok {
					for i := 0; i < st.NumFields(); i++ {
						impl[strings.ToLower(st.Field(i).Name())] = true
					}
				}
			}
		}
		if len(impl) == 0 {
			continue
		}
		for _, fn := range c.genFuncs(g) {
			if fn.Parent() != nil || !isFieldFuncSig(fn) || !strings.HasPrefix(fn.Name(), "_") {
				continue
			}
			parts := strings.SplitN(strings.TrimPrefix(fn.Name(), "_"), "_", 2)
			if len(parts) != 2 {
				continue
			}
			def := sch.Types[parts[0]]
			if def == nil {
				continue
			}
			fd := def.Fields.ForName(parts[1])
			if fd == nil {
				continue
			}
			for _, d := range fd.Directives {
				if !impl[strings.ToLower(d.Name)] {
					continue
				}
				n++
				called := false
				for _, body := range an.WithClosures(fn) {
					for _, b := range body.Blocks {
						for _, in := range b.Instrs {
							if fa, ok := in.(*ssa.FieldAddr); ok && strings.EqualFold(fieldNameOf(fa), d.Name) && strings.HasSuffix(fa.X.Type().String(), "DirectiveRoot") {
								called = true
							}
						}
					}
				}
				c.R.Check(called, "gen:"+g.Name+"/"+fn.Name()+"/@"+d.Name, c.pos(fn.Pos()), "the field function calls the directive", "the schema puts @"+d.Name+" on "+parts[0]+"."+parts[1]+" but the generated field function never calls it: a guard directive is silently ignored and the resolver's value is returned")
			}
		}
	}
	if n == 0 {
		c.R.Fail("field-directives-called: no object field with an implemented directive in the materialised schemas")
	}
}

// (16) every payload is serialised into a buffer of its own.
func genResponseBufferLocal(c *Ctx) {
	c.R.Rule("response-buffer-local", "generated Exec: the bytes stored into Response.Data come from a bytes.Buffer that lives in the response function building that response, not from one shared by all payloads of the operation", 2)
	for _, g := range c.Gen {
		ex := c.genFunc(g, "Exec")
		if ex == nil {
			continue
		}
		for _, fn := range an.WithClosures(ex) {
			for _, b := range fn.Blocks {
				for _, in := range b.Instrs {
					st, ok := in.(*ssa.Store)
					if !ok {
						continue
					}
					fa, ok := st.Addr.(*ssa.FieldAddr)
					if !ok || fieldNameOf(fa) != "Data" || !strings.HasSuffix(fa.X.Type().String(), "graphql.Response") {
						continue
					}
					call, ok := an.Strip(st.Val).(*ssa.Call)
					if !ok || an.CalleeOf(call).FullName() != "(*bytes.Buffer).Bytes" {
						continue
					}
					buf := an.RootAlloc(call.Call.Args[0])
					local := false
					if a, isA := buf.(*ssa.Alloc); isA && a.Parent() == fn {
						local = true
					}
					// a subscription resets a shared buffer before each payload: accepted when the Reset precedes the marshal
					if !local {
						for _, b2 := range fn.Blocks {
							for _, i2 := range b2.Instrs {
								if c2, ok := i2.(*ssa.Call); ok && an.CalleeOf(c2).FullName() == "(*bytes.Buffer).Reset" && an.Before(i2, in) {
									local = true
								}
							}
						}
					}
					c.R.Check(local, "gen:"+g.Name+"/Exec/"+fn.Name()+"/Data", c.ipos(in), "a buffer of this response function (or reset before use)", "Response.Data is taken from a buffer shared by all payloads of the operation and never reset: the second payload's data is the first one's JSON followed by its own, which no client can parse")
				}
			}
		}
	}
}

// (17) a pointer-to-pointer input unmarshals its content exactly when there is content.
func genPtrPtrUnmarshalsWhenPresent(c *Ctx) {
	c.R.Rule("ptr-ptr-unmarshals-when-present", "generated **T unmarshalers: the inner unmarshal call on the raw value v stands on the edge v != nil (a provided value is unmarshalled, an explicit null is not)", 1)
	n := 0
	for _, g := range c.Gen {
		for _, fn := range c.genFuncs(g) {
			if fn.Parent() != nil || !strings.HasPrefix(fn.Name(), "unmarshal") || fn.Signature.Results().Len() != 2 {
				continue
			}
			pp, ok := fn.Signature.Results().At(0).Type().Underlying().(*types.Pointer)
			if !ok {
				continue
			}
			if _, ok := pp.Elem().Underlying().(*types.Pointer); !ok {
				continue
			}
			var v *ssa.Parameter
			for _, p := range fn.Params {
				if _, isI := p.Type().Underlying().(*types.Interface); isI && p.Name() == "v" {
					v = p
				}
			}
			if v == nil {
				continue
			}
			for _, call := range an.CallsIn(fn, func(_ ssa.CallInstruction, ci an.CalleeInfo) bool {
				return ci.Static != nil && ci.Static.Pkg == g.SSA && strings.HasPrefix(ci.Static.Name(), "unmarshal")
			}) {
				uses := false
				for _, a := range call.Common().Args {
					if an.Strip(a) == ssa.Value(v) {
						uses = true
					}
				}
				if !uses {
					continue
				}
				n++
				present, absent := false, false
				for _, f := range an.Facts(call) {
					if (an.Strip(f.X) == ssa.Value(v) && an.IsNilConst(f.Y)) || (an.Strip(f.Y) == ssa.Value(v) && an.IsNilConst(f.X)) {
						if f.Op == token.NEQ {
							present = true
						}
						if f.Op == token.EQL {
							absent = true
						}
					}
				}
				c.R.Check(present && !absent, "gen:"+g.Name+"/"+fn.Name()+"/inner", c.ipos(call), "unmarshals the content only when v != nil", "the inner unmarshaler runs when the raw value is nil and is skipped when a value was provided: every provided value of this **T input silently becomes an explicit null")
			}
		}
	}
	if n == 0 {
		c.R.Note("ptr-ptr-unmarshals-when-present/none", "-", "no **T unmarshaler in the materialised configurations")
		c.R.SetFloor(0)
	}
}

// (18) a recovered panic is reported at the field's own path: the recover handler sees the field's context.
func genHandlerSeesFieldContext(c *Ctx) {
	c.R.Rule("handler-sees-field-context", "generated field and field-context functions that bind ctx = graphql.WithFieldContext(ctx, fc): the context their deferred recover handler hands to ec.Recover / ec.Error is that bound context (captured by reference, or passed after the binding), not the one the function was entered with", 10)
	n := 0
	for _, g := range c.Gen {
		for _, fn := range c.genFuncs(g) {
			if fn.Parent() != nil {
				continue
			}
			binds := len(an.CallsIn(fn, func(_ ssa.CallInstruction, ci an.CalleeInfo) bool {
				return ci.FullName() == pkgGraphql+".WithFieldContext"
			})) > 0
			if !binds || !(strings.HasPrefix(fn.Name(), "fieldContext_") || isFieldFuncSig(fn)) {
				continue
			}
			for _, b := range fn.Blocks {
				for _, in := range b.Instrs {
					d, ok := in.(*ssa.Defer)
					if !ok {
						continue
					}
					mc, ok := d.Call.Value.(*ssa.MakeClosure)
					if !ok {
						continue
					}
					h := mc.Fn.(*ssa.Function)
					for _, call := range an.CallsIn(h, func(_ ssa.CallInstruction, ci an.CalleeInfo) bool {
						return strings.HasSuffix(ci.FullName(), "OperationContext).Recover") || strings.HasSuffix(ci.FullName(), "OperationContext).Error")
					}) {
						var ctxArg ssa.Value
						for _, a := range call.Common().Args {
							if a.Type().String() == "context.Context" {
								ctxArg = a
								break
							}
						}
						if ctxArg == nil {
							continue
						}
						n++
						good := false
						if p, isP := an.Strip(ctxArg).(*ssa.Parameter); isP {
							// passed at the defer statement: the argument there must already be the bound context
							for i, q := range h.Params {
								if q == p && i < len(d.Call.Args) {
									good = ctxFromWith("WithFieldContext", d.Call.Args[i], d)
								}
							}
						} else {
							good = ctxFromWith("WithFieldContext", ctxArg, call)
							if !good {
								// captured by reference: the cell is assigned the bound context somewhere in the function
								if u, ok := an.Strip(ctxArg).(*ssa.UnOp); ok {
									if fv, ok := u.X.(*ssa.FreeVar); ok {
										for i, f := range h.FreeVars {
											if f == fv && i < len(mc.Bindings) {
												for _, st := range an.CellStores(mc.Bindings[i]) {
													if cl, ok := an.Strip(st.Val).(*ssa.Call); ok && an.CalleeOf(cl).FullName() == pkgGraphql+".WithFieldContext" {
														good = true
													}
												}
											}
										}
									}
								}
							}
						}
						c.R.Check(good, "gen:"+g.Name+"/"+fn.Name()+"/handler-ctx", c.ipos(call), "the handler reports under the field's context", "the recover handler reports the panic under the context the function was entered with, not the field's own: the error carries the parent's path (or none, for a root field)")
					}
				}
			}
		}
	}
	if n < 10 {
		c.R.Fail("handler-sees-field-context: only %d handler calls examined", n)
	}
}

// (19) a subscription event is marshalled under the context of the call that delivers it.
func genEventUsesOwnContext(c *Ctx) {
	c.R.Rule("event-uses-own-context", "generated subscription field functions: inside the response function func(ctx) graphql.Marshaler, the context handed to the element marshaler is that function's own parameter (errors raised while an event is marshalled belong to the response that delivers it), not the context of the call that set the subscription up", 1)
	n := 0
	for _, g := range c.Gen {
		for _, fn := range c.genFuncs(g) {
			top := topFn(fn)
			if fn.Parent() == nil || !isFieldFuncSig(top) {
				continue
			}
			// the response function: func(context.Context) graphql.Marshaler that contains a select
			sig := fn.Signature
			if sig.Params().Len() != 1 || sig.Params().At(0).Type().String() != "context.Context" || sig.Results().Len() != 1 || !an.NamedIs(sig.Results().At(0).Type(), pkgGraphql, "Marshaler") {
				continue
			}
			hasSelect := false
			for _, b := range fn.Blocks {
				for _, in := range b.Instrs {
					if _, ok := in.(*ssa.Select); ok {
						hasSelect = true
					}
				}
			}
			if !hasSelect || len(fn.Params) == 0 {
				continue
			}
			own := fn.Params[0]
			// the event may be marshalled by a literal of the field function that the response function calls with its context
			for _, b := range fn.Blocks {
				for _, in := range b.Instrs {
					call, ok := in.(*ssa.Call)
					if !ok || call.Call.IsInvoke() || call.Call.StaticCallee() != nil && call.Call.StaticCallee().Parent() == nil {
						continue
					}
					isLocalLiteral := false
					for _, d := range an.Defs(call.Call.Value) {
						if _, ok := d.(*ssa.MakeClosure); ok {
							isLocalLiteral = true
						}
					}
					if u, ok := an.Strip(call.Call.Value).(*ssa.UnOp); ok {
						if _, isFV := u.X.(*ssa.FreeVar); isFV {
							isLocalLiteral = true
						}
					}
					if _, isFV := an.Strip(call.Call.Value).(*ssa.FreeVar); isFV {
						isLocalLiteral = true
					}
					if !isLocalLiteral {
						continue
					}
					for _, a := range call.Call.Args {
						if a.Type().String() == "context.Context" {
							n++
							c.R.Check(derivesFromParam(a, own, 0), "gen:"+g.Name+"/"+top.Name()+"/event-ctx", c.ipos(call), "the response function's own context", "an event is marshalled under the context of the subscription's set-up call instead of the context of the response function that delivers it")
						}
					}
				}
			}
			for _, body := range an.WithClosures(fn) {
				for _, call := range an.CallsIn(body, func(_ ssa.CallInstruction, ci an.CalleeInfo) bool {
					return ci.Static != nil && ci.Static.Pkg == g.SSA && strings.HasPrefix(ci.Static.Name(), "marshal")
				}) {
					var ctxArg ssa.Value
					for _, a := range call.Common().Args {
						if a.Type().String() == "context.Context" {
							ctxArg = a
							break
						}
					}
					if ctxArg == nil {
						continue
					}
					n++
					c.R.Check(derivesFromParam(ctxArg, own, 0), "gen:"+g.Name+"/"+top.Name()+"/event-ctx", c.ipos(call), "the response function's own context", "an event is marshalled under the context of the subscription's set-up call instead of the context of the response function that delivers it: errors raised while marshalling the event land in a response context nobody reads — the event shows null without an error")
				}
			}
		}
	}
	if n == 0 {
		c.R.Fail("event-uses-own-context: no subscription response function found")
	}
}

// derivesFromParam: v is parameter p, a load of the cell p was spilled into, or the same seen from a literal that captured it.
func derivesFromParam(v ssa.Value, p *ssa.Parameter, depth int) bool {
	if v == nil || depth > 5 {
		return false
	}
	v = an.Strip(v)
	if v == ssa.Value(p) {
		return true
	}
	switch x := v.(type) {
	case *ssa.UnOp:
		if x.Op != token.MUL {
			return false
		}
		switch a := x.X.(type) {
		case *ssa.Alloc:
			sts := an.CellStores(a)
			if len(sts) == 0 {
				return false
			}
			for _, st := range sts {
				if !derivesFromParam(st.Val, p, depth+1) {
					return false
				}
			}
			return true
		case *ssa.FreeVar:
			cl := a.Parent()
			for i, f := range cl.FreeVars {
				if f != a || cl.Parent() == nil {
					continue
				}
				for _, b := range cl.Parent().Blocks {
					for _, in := range b.Instrs {
						if mc, ok := in.(*ssa.MakeClosure); ok && mc.Fn == ssa.Value(cl) && i < len(mc.Bindings) {
							bind := mc.Bindings[i]
							if al, ok := bind.(*ssa.Alloc); ok {
								sts := an.CellStores(al)
								if len(sts) == 0 {
									return false
								}
								for _, st := range sts {
									if !derivesFromParam(st.Val, p, depth+1) {
										return false
									}
								}
								return true
							}
							return derivesFromParam(bind, p, depth+1)
						}
					}
				}
			}
		}
	case *ssa.FreeVar:
		cl := x.Parent()
		for i, f := range cl.FreeVars {
			if f != x || cl.Parent() == nil {
				continue
			}
			for _, b := range cl.Parent().Blocks {
				for _, in := range b.Instrs {
					if mc, ok := in.(*ssa.MakeClosure); ok && mc.Fn == ssa.Value(cl) && i < len(mc.Bindings) {
						return derivesFromParam(mc.Bindings[i], p, depth+1)
					}
				}
			}
		}
	}
	return false
}
