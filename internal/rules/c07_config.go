package rules

import (
	"go/types"
	"sort"

	"golang.org/x/tools/go/ssa"

	"verif/internal/an"
)

// c07ConfigImmutable: a transport value (transport.POST{ResponseHeaders: …}) is configured once and then serves every request;
// its Do method has a value receiver, but the maps, slices and pointers inside the copy are the configured ones.  Request-path
// code must not write through them: a MapUpdate on, an element store into, or a field store through a value that was read
// from a field of a Transport.Do receiver — followed through same-module calls — makes what one request negotiated
// (e.g. its Content-Type) part of the configuration every later request sees.
func c07ConfigImmutable(c *Ctx) {
	c.R.Rule("config-immutable", "no value read from a field of a Transport.Do receiver (the transport's configuration: header maps, option slices, pointers) is written through — map update, element store or field store — by Do or by the same-module functions it is passed to", 1)
	roots := []*ssa.Function{}
	for _, f := range c.requestRoots() {
		if f.Name() == "Do" && f.Signature.Recv() != nil {
			roots = append(roots, f)
		}
	}
	sort.Slice(roots, func(i, j int) bool { return roots[i].String() < roots[j].String() })
	tainted := map[ssa.Value]string{} // value -> configuration field it came from
	var work []ssa.Value
	mark := func(v ssa.Value, from string) {
		if v == nil {
			return
		}
		if _, ok := tainted[v]; ok {
			return
		}
		switch v.Type().Underlying().(type) {
		case *types.Map, *types.Slice, *types.Pointer, *types.Interface, *types.Struct:
		default:
			return
		}
		tainted[v] = from
		work = append(work, v)
	}
	for _, do := range roots {
		recv := do.Params[0]
		for _, fn := range an.WithClosures(do) {
			for _, b := range fn.Blocks {
				for _, in := range b.Instrs {
					switch x := in.(type) {
					case *ssa.Field:
						if an.SameVar(x.X, recv) {
							mark(x, shortFn(do)+" receiver field "+fieldName2(x))
						}
					case *ssa.UnOp:
						if fa, ok := x.X.(*ssa.FieldAddr); ok && (fa.X == ssa.Value(recv) || an.SameVar(fa.X, recv) || an.RootAlloc(fa.X) == an.RootAlloc(recvCell(do, recv))) {
							mark(x, shortFn(do)+" receiver field "+fieldNameOf(fa))
						}
					}
				}
			}
		}
	}
	nsrc := len(tainted)
	type hit struct{ key, pos, what string }
	var hits []hit
	seenFn := map[*ssa.Function]bool{}
	for len(work) > 0 {
		v := work[len(work)-1]
		work = work[:len(work)-1]
		from := tainted[v]
		for _, r := range an.Referrers(v) {
			switch x := r.(type) {
			case *ssa.MapUpdate:
				if x.Map == v {
					hits = append(hits, hit{shortFn(topFn(x.Parent())) + "/mapstore", c.ipos(x), from})
				}
			case *ssa.Store:
				if x.Val == v {
					if an.IsLocalCell(x.Addr) {
						for _, ld := range an.CellLoads(x.Addr) {
							mark(ld, from)
						}
					}
					continue
				}
			case *ssa.IndexAddr:
				if x.X == v {
					for _, r2 := range an.Referrers(x) {
						if st, ok := r2.(*ssa.Store); ok && st.Addr == ssa.Value(x) {
							hits = append(hits, hit{shortFn(topFn(x.Parent())) + "/elemstore", c.ipos(st), from})
						}
					}
				}
			case *ssa.FieldAddr:
				if x.X == v {
					for _, r2 := range an.Referrers(x) {
						if st, ok := r2.(*ssa.Store); ok && st.Addr == ssa.Value(x) {
							hits = append(hits, hit{shortFn(topFn(x.Parent())) + "/fieldstore", c.ipos(st), from})
						}
					}
				}
			case *ssa.Phi, *ssa.ChangeType, *ssa.MakeInterface, *ssa.ChangeInterface, *ssa.Slice, *ssa.TypeAssert, *ssa.Extract:
				mark(x.(ssa.Value), from)
			case ssa.CallInstruction:
				callee := x.Common().StaticCallee()
				if callee == nil || len(callee.Blocks) == 0 || !isRuntimePkg(funcPkg(callee)) {
					continue
				}
				seenFn[callee] = true
				for i, a := range x.Common().Args {
					if a == v && i < len(callee.Params) {
						mark(callee.Params[i], from)
					}
				}
			case *ssa.MakeClosure:
				cl := x.Fn.(*ssa.Function)
				for i, bnd := range x.Bindings {
					if bnd == v && i < len(cl.FreeVars) {
						mark(cl.FreeVars[i], from)
					}
				}
			}
		}
	}
	sort.Slice(hits, func(i, j int) bool { return hits[i].pos < hits[j].pos })
	for _, h := range hits {
		c.R.Bad(h.key, h.pos, "request-path code writes through a value read from the "+h.what+": the transport's configuration is shared by every request it serves, so what this request stores there (for instance its negotiated Content-Type) decides later responses")
	}
	c.R.Check(nsrc >= 4, "transports/scan", "graphql/handler/transport", sprintf("%d configuration reads in %d Do methods followed into %d callees; %d writes through them", nsrc, len(roots), len(seenFn), len(hits)), sprintf("only %d configuration reads found: the rule has gone blind", nsrc))
}

func funcPkg(f *ssa.Function) string {
	for g := f; g != nil; g = g.Parent() {
		if g.Pkg != nil {
			return g.Pkg.Pkg.Path()
		}
		if o := g.Origin(); o != nil && o.Pkg != nil {
			return o.Pkg.Pkg.Path()
		}
	}
	return ""
}

// recvCell: the cell a value receiver was spilled to (when closures capture it), or the receiver itself.
func recvCell(do *ssa.Function, recv *ssa.Parameter) ssa.Value {
	for _, r := range an.Referrers(recv) {
		if st, ok := r.(*ssa.Store); ok && st.Val == ssa.Value(recv) {
			return st.Addr
		}
	}
	return recv
}
