package rules

import (
	"go/ast"
	"go/token"
	"go/types"
	"sort"
	"strconv"
	"strings"

	"golang.org/x/tools/go/ssa"

	"verif/internal/an"
	"verif/internal/pipeline"
)

func init() {
	register(&Property{
		ID:      "C03",
		NeedGen: true, // dispatch-once and root-once read the materialised executors
		Runtime: RuntimeCore,
		Run:     runC03,
		Explanation: "Gate structure of request admission, decided on every path: (dispatch-gated) every call of GraphExecutor.DispatchOperation in the module is edge-dominated by the 'error list is nil/empty' " +
			"outcome of the CreateOperationContext call that produced its operation context; (fail-closed) in Executor.CreateOperationContext and parseQuery every gate's result is tested and every path from " +
			"a gate's failure edge ends in a return carrying a provably non-empty error list without passing queryCache.Add (the `err.(*gqlerror.Error)` !ok edges are pruned only after lemma L-gqlerr is " +
			"discharged on gqlparser's source); (success-needs-validate) every nil-error return of parseQuery is dominated by a cache hit or by len(Validate(schema, doc))==0 for the returned doc; " +
			"(cache-after-validate) Cache.Add on the query cache is called only from parseQuery under that same guard; OperationContext.Doc/Operation are assigned only from parseQuery / ForName; " +
			"(no-global-rule-mutation) nothing reachable from a request root mutates gqlparser's package-level validator rule set. (rule-swap-paired) every validation rule package executor removes from gqlparser's global rule set has its WithoutSuggestions replacement referenced, and vice versa.",
		NotDecided: "extension ordering and exactly-once invocation of hooks (value-level property of a fold over user extensions); behaviour under concurrent requests beyond the effect rule",
		Assumptions: []string{
			"GraphExecutor implementations other than executor.Executor are user code",
			"gqlparser's Validate is a total validator (trusted)",
		},
	})
}

const (
	mDispatchOp = "(" + pkgGraphql + ".GraphExecutor).DispatchOperation"
	mCreateOp   = "(" + pkgGraphql + ".GraphExecutor).CreateOperationContext"
	fDispatchOp = "(*" + pkgExecutor + ".Executor).DispatchOperation"
	fCreateOp   = "(*" + pkgExecutor + ".Executor).CreateOperationContext"
)

// moduleFuncs returns all functions (incl. closures) of gqlgen module packages outside generated/test trees.
func (c *Ctx) moduleFuncs(filter func(path string) bool) []*ssa.Function {
	return c.W.FuncsIn(func(p string) bool {
		return pipeline.InModule(p) && (filter == nil || filter(p))
	})
}

func isRuntimePkg(p string) bool {
	return strings.HasPrefix(p, pkgGraphql) || p == pkgComplex || strings.HasPrefix(p, pipeline.Module+"/handler")
}

// transportName renders the enclosing top-level function of fn for keys.
func topFn(fn *ssa.Function) *ssa.Function {
	for fn.Parent() != nil {
		fn = fn.Parent()
	}
	return fn
}

func runC03(c *Ctx) {
	c03DispatchGated(c)
	c03FailClosed(c)
	c03Cache(c)
	c03ExtensionRegistration(c)
	c03RuleSwapPaired(c)
	ruleSwapControlEquivalent(c)
	dispatchOnce(c)
	adaptersCallReceiver(c)
	rootOnce(c)
	c03NoGlobalRuleMutation(c, "C03")
	// what a request executes is what *it* named: no member of a pooled request object survives into the next request (C07/pool-reset)
	c07PoolReset(c)
}

// ------------------------------------------------------------------------------------------------

func c03DispatchGated(c *Ctx) {
	c.R.Rule("dispatch-gated", "every call of GraphExecutor.DispatchOperation is edge-dominated by the nil/empty outcome of the gqlerror.List returned by the CreateOperationContext call whose first result is the opCtx argument (when the operation context is a parameter of an unexported helper, the same holds at every call site of that helper)", 8)
	for _, fn := range c.moduleFuncs(isRuntimePkg) {
		for _, call := range an.CallsIn(fn, func(ci ssa.CallInstruction, info an.CalleeInfo) bool {
			n := info.FullName()
			return n == mDispatchOp || n == fDispatchOp
		}) {
			key := shortFn(topFn(fn)) + "→DispatchOperation"
			args := call.Common().Args
			found, bad := c.gatedOpCtx(fn, call, args[len(args)-1], 0)
			c.R.Check(bad == "", key, c.ipos(call), found, bad)
		}
	}
}

// gatedOpCtx: at instruction `at` of fn the operation context v is the first result of a CreateOperationContext call whose
// error list is empty on the only edge into `at`; or v is a parameter of the unexported function fn and that holds for the
// corresponding argument at every static call site of fn (never started with go/defer, never used as a value).
func (c *Ctx) gatedOpCtx(fn *ssa.Function, at ssa.Instruction, v ssa.Value, depth int) (witness, bad string) {
	notGated := "DispatchOperation is reachable without passing the 'error list == nil / len == 0' edge of its CreateOperationContext call: a rejected request could be executed"
	if create := an.AllExtractOf(v, 0); create != nil {
		if n := an.CalleeOf(create).FullName(); n != mCreateOp && n != fCreateOp {
			return "", "the operation context passed to DispatchOperation comes from " + n + ", not from CreateOperationContext"
		}
		isErrList := func(x ssa.Value) bool {
			cc := an.AllExtractOf(x, 1)
			return cc != nil && cc == create
		}
		for _, f := range an.Facts(at) {
			if empty, ok := an.EmptinessFact(f, isErrList); ok && empty {
				return "guard: error list of " + c.ipos(create) + " is nil/empty on the only edge into the dispatch", ""
			}
		}
		return "", notGated
	}
	// a field of an unexported struct of the package (`op.rc` of a per-operation value): every store to that field anywhere in
	// the package must itself store a gated operation context
	if fa, ok := loadAddr(an.Strip(v)).(*ssa.FieldAddr); ok && depth <= 2 {
		if nt := namedStruct(fa.X.Type()); nt != nil && !nt.Obj().Exported() && nt.Obj().Pkg() != nil && nt.Obj().Pkg().Path() == pipeline.FuncPkgPath(topFn(fn)) {
			n := 0
			for _, f2 := range c.moduleFuncs(func(p string) bool { return p == nt.Obj().Pkg().Path() }) {
				for _, b := range f2.Blocks {
					for _, in := range b.Instrs {
						st, ok := in.(*ssa.Store)
						if !ok {
							continue
						}
						fa2, ok := st.Addr.(*ssa.FieldAddr)
						if !ok || fa2.Field != fa.Field || namedStruct(fa2.X.Type()) != nt {
							continue
						}
						n++
						if _, w := c.gatedOpCtx(f2, st, st.Val, depth+1); w != "" {
							return "", w + " (through field " + nt.Obj().Name() + "." + fieldNameOf(fa) + " stored at " + c.ipos(st) + ")"
						}
					}
				}
			}
			if n > 0 {
				return sprintf("operation context is kept in %s.%s; gated at its %d store(s)", nt.Obj().Name(), fieldNameOf(fa), n), ""
			}
		}
	}
	// a parameter of an unexported helper
	var param *ssa.Parameter
	for _, d := range an.Defs(v) {
		if p, ok := d.(*ssa.Parameter); ok {
			param = p
		}
	}
	top := topFn(fn)
	if param == nil || param.Parent() != top || depth > 2 || top.Object() == nil || top.Object().Exported() {
		return "", "the operation context passed to DispatchOperation is not (only) the first result of a CreateOperationContext call in this function"
	}
	idx := -1
	for i, p := range top.Params {
		if p == param {
			idx = i
		}
	}
	n := 0
	pkg := pipeline.FuncPkgPath(top)
	for _, caller := range c.moduleFuncs(func(p string) bool { return p == pkg }) {
		for _, b := range caller.Blocks {
			for _, in := range b.Instrs {
				for _, op := range in.Operands(nil) {
					if *op == ssa.Value(top) {
						if ci, isCall := in.(ssa.CallInstruction); !isCall || ci.Common().Value != ssa.Value(top) {
							return "", "the helper " + shortFn(top) + " that dispatches is also used as a function value (its operation context cannot be traced)"
						}
					}
				}
				ci, ok := in.(ssa.CallInstruction)
				if !ok || ci.Common().StaticCallee() != top {
					continue
				}
				if _, isDefer := in.(*ssa.Defer); isDefer {
					return "", "the helper " + shortFn(top) + " that dispatches is deferred at " + c.ipos(in)
				}
				n++
				if idx >= len(ci.Common().Args) {
					return "", notGated
				}
				if _, w := c.gatedOpCtx(caller, in, ci.Common().Args[idx], depth+1); w != "" {
					return "", w + " (through " + shortFn(top) + " called at " + c.ipos(in) + ")"
				}
			}
		}
	}
	if n == 0 {
		return "", "the helper " + shortFn(top) + " that dispatches has no static caller"
	}
	return sprintf("operation context is a parameter of %s; gated at its %d call site(s)", shortFn(top), n), ""
}

// ------------------------------------------------------------------------------------------------
// lemma L-gqlerr: the error result #idx of fn is always nil or a *gqlerror.Error.

func isGqlerrPtr(t types.Type) bool {
	p, ok := t.(*types.Pointer)
	return ok && an.NamedIs(p.Elem(), pkgGqlerror, "Error")
}

func (c *Ctx) lemmaGqlerr(fn *ssa.Function, idx int, depth int, why *[]string) bool {
	if fn == nil || len(fn.Blocks) == 0 || depth > 4 {
		*why = append(*why, "cannot analyse "+sprintf("%v", fn))
		return false
	}
	ok := true
	for _, r := range an.Returns(fn) {
		if idx >= len(r.Results) {
			ok = false
			continue
		}
		if !c.valueIsGqlerr(r.Results[idx], depth, why) {
			ok = false
			*why = append(*why, "return at "+c.ipos(r))
		}
	}
	return ok
}

func (c *Ctx) valueIsGqlerr(v ssa.Value, depth int, why *[]string) bool {
	if isGqlerrPtr(v.Type()) {
		return true
	}
	for _, d := range an.Defs(v) {
		if isGqlerrPtr(d.Type()) {
			continue
		}
		switch x := d.(type) {
		case *ssa.Const:
			if x.Value != nil {
				return false
			}
		case *ssa.MakeInterface:
			if !isGqlerrPtr(x.X.Type()) {
				*why = append(*why, "value of type "+x.X.Type().String()+" converted to error")
				return false
			}
		case *ssa.UnOp:
			// load of a struct field: every store to that field in its package must satisfy the lemma
			fa, ok := x.X.(*ssa.FieldAddr)
			if x.Op != token.MUL || !ok {
				return false
			}
			if !c.fieldStoresAreGqlerr(fa, depth, why) {
				return false
			}
		case *ssa.Extract:
			call, ok := x.Tuple.(*ssa.Call)
			if !ok || call.Call.StaticCallee() == nil {
				return false
			}
			if !c.lemmaGqlerr(call.Call.StaticCallee(), x.Index, depth+1, why) {
				return false
			}
		case *ssa.Call:
			if x.Call.StaticCallee() == nil || !c.lemmaGqlerr(x.Call.StaticCallee(), 0, depth+1, why) {
				return false
			}
		default:
			*why = append(*why, sprintf("unrecognised error source %T", d))
			return false
		}
	}
	return true
}

func (c *Ctx) fieldStoresAreGqlerr(fa *ssa.FieldAddr, depth int, why *[]string) bool {
	st := fa.X.Type().Underlying().(*types.Pointer).Elem()
	named, _ := st.(*types.Named)
	if named == nil || named.Obj().Pkg() == nil {
		return false
	}
	pkg := c.W.Pkg(named.Obj().Pkg().Path())
	if pkg == nil {
		return false
	}
	n := 0
	for _, f := range c.W.FuncsIn(func(p string) bool { return p == pkg.Pkg.Path() }) {
		for _, b := range f.Blocks {
			for _, in := range b.Instrs {
				s, ok := in.(*ssa.Store)
				if !ok {
					continue
				}
				a, ok := s.Addr.(*ssa.FieldAddr)
				if !ok || a.Field != fa.Field || !types.Identical(a.X.Type(), fa.X.Type()) {
					continue
				}
				n++
				if !c.valueIsGqlerr(s.Val, depth+1, why) {
					*why = append(*why, "store at "+c.ipos(s))
					return false
				}
			}
		}
	}
	return n > 0
}

// ------------------------------------------------------------------------------------------------

// gqlerrLemma discharges L-gqlerr for the comma-ok assertions to *gqlerror.Error in the two executor
// functions and prunes the proved-infeasible !ok edges.  With report=false (other properties reusing the
// pruning) nothing is recorded.
func (c *Ctx) gqlerrLemma(create, parse *ssa.Function, report bool) {
	okf := func(k, p, m string) {
		if report {
			c.R.OK(k, p, m)
		}
	}
	notef := func(k, p, m string) {
		if report {
			c.R.Note(k, p, m)
		}
	}
	badf := func(k, p, m string) {
		if report {
			c.R.Bad(k, p, m)
		}
	}
	// ---- lemma first: prune !ok edges of err.(*gqlerror.Error) only where proved
	if report {
		c.R.Rule("lemma-gqlerr", "L-gqlerr: the error returned by gqlparser's parser entry point / VariableValues is always nil or a *gqlerror.Error, so the !ok edge of `err.(*gqlerror.Error)` is infeasible (checked on the module-cache source)", 0)
	}
	for _, fn := range c.gateFuncs(create, parse) {
		for _, b := range fn.Blocks {
			for _, in := range b.Instrs {
				ta, ok := in.(*ssa.TypeAssert)
				if !ok || !ta.CommaOk || !isGqlerrPtr(ta.AssertedType) {
					continue
				}
				var srcCall *ssa.Call
				var idx int
				for _, d := range an.Defs(ta.X) {
					if e, ok := d.(*ssa.Extract); ok {
						if cc, ok := e.Tuple.(*ssa.Call); ok {
							srcCall, idx = cc, e.Index
						}
					}
				}
				key := shortFn(fn) + "/assert(*gqlerror.Error)"
				if srcCall == nil || srcCall.Call.StaticCallee() == nil {
					// e.g. err = gqlerror.Errorf(...) converted: decided by valueIsGqlerr directly
					var why []string
					if c.valueIsGqlerr(ta.X, 0, &why) {
						c.pruneNotOK(ta)
						okf(key, c.ipos(ta), "operand is always nil or *gqlerror.Error")
					} else {
						notef(key, c.ipos(ta), "operand not proved to be *gqlerror.Error; !ok edge kept: "+strings.Join(why, "; "))
					}
					continue
				}
				callee := srcCall.Call.StaticCallee()
				key = shortFn(fn) + "/assert-after:" + callee.Name()
				var why []string
				if c.lemmaGqlerr(callee, idx, 0, &why) {
					// the !ok edge is infeasible only where the asserted error is known to be non-nil (a nil error takes it)
					if nonNilAt(ta, ta.X) {
						c.pruneNotOK(ta)
					}
					okf(key, c.ipos(ta), "every error "+shortFn(callee)+" returns is nil or *gqlerror.Error; !ok edge pruned")
				} else {
					badf(key, c.ipos(ta), shortFn(callee)+" can return an error that is not *gqlerror.Error ("+firstN(why, 4)+"): the request would fall through the gate on the !ok edge")
				}
			}
		}
	}

}

type gate struct {
	name     string
	call     ssa.Instruction // the gate call (or the len() for the operations gate)
	result   func(v ssa.Value) bool
	failWhen bool // failure when the result is empty (true) or non-empty (false)
}

// nonEmptyListByConstruction: v is gqlerror.List{x...} with ≥1 element, or is known non-empty by a guard.
func nonEmptyList(at ssa.Instruction, v ssa.Value) (bool, string) {
	for _, d := range an.Defs(v) {
		ok := false
		if sl, isSl := d.(*ssa.Slice); isSl {
			if al, isAl := sl.X.(*ssa.Alloc); isAl {
				if arr, isArr := al.Type().Underlying().(*types.Pointer).Elem().Underlying().(*types.Array); isArr && arr.Len() >= 1 && sl.Low == nil && sl.High == nil {
					ok = true
				}
			}
		}
		if !ok {
			for _, f := range an.Facts(at) {
				if empty, k := an.EmptinessFact(f, func(x ssa.Value) bool { return an.SameVar(x, d) || an.SameVar(x, v) }); k && !empty {
					ok = true
				}
			}
		}
		if !ok {
			return false, sprintf("%s may be nil/empty", d.Name())
		}
	}
	return true, ""
}

func c03FailClosed(c *Ctx) {
	create := c.fn(pkgExecutor, "*Executor.CreateOperationContext")
	parse := c.fn(pkgExecutor, "*Executor.parseQuery")
	if create == nil || parse == nil {
		return
	}

	c.gqlerrLemma(create, parse, true)

	c.R.Rule("fail-closed", "for every gate of CreateOperationContext/parseQuery and of the list-returning helpers they call: its result is tested, and every path from the failure edge ends in a return whose error list is non-empty by construction and never reaches queryCache.Add", 6)
	for _, fn := range c.gateFuncs(create, parse) {
		for _, g := range c.gatesOf(fn) {
			key := shortFn(fn) + "/gate:" + g.name
			// find the conditional edges that test the gate's result
			var failEdges []an.CondEdge
			for _, e := range an.CondEdges(fn) {
				if empty, ok := an.EmptinessFact(e.Fact, g.result); ok && empty == g.failWhen {
					failEdges = append(failEdges, e)
				}
			}
			if len(failEdges) == 0 {
				// the gate's own result is what the function returns: the caller's gate on this function tests it
				propagated := false
				for _, r := range an.Returns(fn) {
					if n := len(r.Results); n > 0 && g.result(an.ReturnedValue(r, n-1)) {
						propagated = true
					}
				}
				if c.gateHelperSet[fn] && propagated {
					c.R.OK(key, c.ipos(g.call), "result returned to the caller, whose gate on "+fn.Name()+" tests it")
					continue
				}
				if fn == create && propagated {
					// `return opCtx, e.bindOperation(…)`: the list is CreateOperationContext's own result; every caller's test of it is C03/dispatch-gated
					c.R.OK(key, c.ipos(g.call), "result returned as CreateOperationContext's own error list (tested by every caller: dispatch-gated)")
					continue
				}
				c.R.Bad(key, c.ipos(g.call), "the gate's result is never tested: its failure cannot stop the request")
				continue
			}
			bad := ""
			for _, e := range failEdges {
				if !g.call.Block().Dominates(e.From) && g.call.Block() != e.From {
					continue
				}
				for b := range an.Reach(e.To, nil) {
					for _, in := range b.Instrs {
						switch x := in.(type) {
						case *ssa.Return:
							if len(x.Results) < 1 || !strings.HasSuffix(x.Results[len(x.Results)-1].Type().String(), "gqlerror.List") {
								continue
							}
							if ok, why := nonEmptyList(x, x.Results[len(x.Results)-1]); !ok {
								bad = sprintf("failure edge at %s reaches the return at %s whose error list %s", c.ipos(e.If), c.ipos(x), why)
							}
						case ssa.CallInstruction:
							if n := an.CalleeOf(x).FullName(); strings.HasSuffix(n, ".Add") && strings.Contains(n, pkgGraphql+".Cache[") {
								bad = sprintf("failure edge at %s reaches queryCache.Add at %s", c.ipos(e.If), c.ipos(x))
							}
						}
					}
				}
			}
			c.R.Check(bad == "", key, c.ipos(g.call), sprintf("%d failure edge(s); all paths from them end in returns with a non-empty error list", len(failEdges)), bad)
		}
	}

	c.R.Rule("success-needs-validate", "every return of parseQuery with a nil error list is dominated by a query-cache hit or by len(validator.Validate(schema, doc)) == 0 for the returned document", 2)
	for _, r := range an.Returns(parse) {
		if len(r.Results) < 2 {
			continue
		}
		if ok, _ := nonEmptyList(r, r.Results[1]); ok {
			continue
		}
		key := shortFn(parse) + "/return-ok"
		doc := r.Results[0]
		witness := ""
		for _, f := range an.Facts(r) {
			// cache hit: ok result of Cache.Get is true, and doc is its first result
			if f.Op == token.ILLEGAL && !f.Neg {
				if e, ok := f.X.(*ssa.Extract); ok && e.Index == 1 {
					if call, ok := e.Tuple.(*ssa.Call); ok && strings.HasSuffix(an.CalleeOf(call).FullName(), ".Get") && strings.Contains(an.CalleeOf(call).FullName(), pkgGraphql+".Cache[") {
						if cc := an.AllExtractOf(doc, 0); cc == ssa.CallInstruction(call) {
							witness = "cache hit at " + c.ipos(call)
						}
					}
				}
			}
			if empty, ok := an.EmptinessFact(f, func(v ssa.Value) bool { return c.isValidateOf(v, doc) }); ok && empty {
				witness = "len(Validate(schema, doc)) == 0"
			}
		}
		c.R.Check(witness != "", key, c.ipos(r), witness, "parseQuery can return a document with no error although neither a cache hit nor a successful validation of that document dominates the return")
	}
}

func (c *Ctx) pruneNotOK(ta *ssa.TypeAssert) {
	for _, r := range an.Referrers(ta) {
		e, ok := r.(*ssa.Extract)
		if !ok || e.Index != 1 {
			continue
		}
		for _, u := range an.Referrers(e) {
			if iff, ok := u.(*ssa.If); ok && iff.Cond == ssa.Value(e) {
				b := iff.Block()
				an.Infeasible[an.Edge{From: b, To: b.Succs[1]}] = true
			}
		}
	}
}

// isValidateOf: v is the result of validator.Validate*(schema, doc') with doc' the same document as doc, or of a validation
// helper of package executor (see validateHelpers) applied to that document.
func (c *Ctx) isValidateOf(v, doc ssa.Value) bool {
	return c.isValidateOfDepth(v, doc, true)
}

func (c *Ctx) isValidateOfDepth(v, doc ssa.Value, helpers bool) bool {
	for _, d := range an.Defs(v) {
		if e, ok := d.(*ssa.Extract); ok {
			d = e.Tuple
		}
		call, ok := d.(*ssa.Call)
		if !ok {
			return false
		}
		n := an.CalleeOf(call).FullName()
		if strings.HasPrefix(n, pkgValidator+".Validate") {
			okDoc := false
			for _, a := range call.Call.Args {
				if an.SameVar(a, doc) {
					okDoc = true
				}
			}
			if !okDoc {
				return false
			}
			continue
		}
		if !helpers {
			return false
		}
		h := call.Call.StaticCallee()
		idx, isH := c.validateHelpers()[h]
		if !isH {
			return false
		}
		// the helper's document parameter receives doc (parameters include the receiver; Args too for static calls)
		if idx >= len(call.Call.Args) || !an.SameVar(call.Call.Args[idx], doc) {
			return false
		}
	}
	return true
}

// validateHelpers: functions of package executor that wrap validation — they take a *ast.QueryDocument (parameter index in
// the map) and their last result is a gqlerror.List that is empty only if validator.Validate(schema, thatDocument) returned an
// empty list: every return either returns a list that is non-empty by construction, returns Validate's own result, or is
// dominated by len(Validate(...)) == 0.  A call of such a helper is a validation gate for its caller.
func (c *Ctx) validateHelpers() map[*ssa.Function]int {
	if c.valHelpers != nil {
		return c.valHelpers
	}
	c.valHelpers = map[*ssa.Function]int{}
	for _, fn := range c.moduleFuncs(func(p string) bool { return p == pkgExecutor }) {
		if fn.Parent() != nil || len(fn.Blocks) == 0 {
			continue
		}
		res := fn.Signature.Results()
		if res.Len() == 0 || !strings.HasSuffix(res.At(res.Len()-1).Type().String(), "gqlerror.List") {
			continue
		}
		for i, p := range fn.Params {
			pt, ok := p.Type().(*types.Pointer)
			if !ok || !an.NamedIs(pt.Elem(), pkgAST, "QueryDocument") {
				continue
			}
			ok2, nret, usesValidate := true, 0, false
			for _, r := range an.Returns(fn) {
				if fn.Recover != nil && r.Block() == fn.Recover {
					continue
				}
				nret++
				lst := an.ReturnedValue(r, res.Len()-1)
				if ne, _ := nonEmptyList(r, lst); ne {
					continue
				}
				if c.isValidateOfDepth(lst, p, false) {
					usesValidate = true
					continue
				}
				dom := false
				for _, f := range an.Facts(r) {
					if empty, k := an.EmptinessFact(f, func(v ssa.Value) bool { return c.isValidateOfDepth(v, p, false) }); k && empty {
						dom = true
					}
				}
				if dom {
					usesValidate = true
					continue
				}
				ok2 = false
			}
			if ok2 && nret > 0 && usesValidate {
				c.valHelpers[fn] = i
			}
		}
	}
	return c.valHelpers
}

// gateFuncs: the functions whose gates are examined: CreateOperationContext, parseQuery and the gate helpers they call.
func (c *Ctx) gateFuncs(create, parse *ssa.Function) []*ssa.Function {
	out := []*ssa.Function{create, parse}
	var hs []*ssa.Function
	for h := range c.gateHelpers(create, parse) {
		hs = append(hs, h)
	}
	sort.Slice(hs, func(i, j int) bool { return hs[i].Name() < hs[j].Name() })
	return append(out, hs...)
}

// gateHelpers: functions of package executor reachable through static calls from CreateOperationContext / parseQuery whose last
// result is a gqlerror.List ("what went wrong, empty if nothing").  A call of one is a gate of its caller — the caller must test
// the list and fail on the non-empty edge — and the helper's own gates are examined like those of its callers, so a failure
// inside the helper provably surfaces as a failing return of CreateOperationContext.
func (c *Ctx) gateHelpers(create, parse *ssa.Function) map[*ssa.Function]bool {
	if c.gateHelperSet != nil {
		return c.gateHelperSet
	}
	c.gateHelperSet = map[*ssa.Function]bool{}
	seen := map[*ssa.Function]bool{create: true, parse: true}
	work := []*ssa.Function{create, parse}
	for len(work) > 0 {
		f := work[len(work)-1]
		work = work[:len(work)-1]
		for _, call := range an.CallsIn(f, func(_ ssa.CallInstruction, ci an.CalleeInfo) bool {
			return ci.Static != nil && ci.Static.Pkg != nil && ci.Static.Pkg.Pkg.Path() == pkgExecutor && len(ci.Static.Blocks) > 0
		}) {
			h := call.Common().StaticCallee()
			if seen[h] {
				continue
			}
			seen[h] = true
			res := h.Signature.Results()
			if res.Len() == 0 || !strings.HasSuffix(res.At(res.Len()-1).Type().String(), "gqlerror.List") {
				continue
			}
			c.gateHelperSet[h] = true
			work = append(work, h)
		}
	}
	for h := range c.validateHelpers() {
		if h != create && h != parse {
			c.gateHelperSet[h] = true
		}
	}
	return c.gateHelperSet
}

func (c *Ctx) gatesOf(fn *ssa.Function) []gate {
	var gs []gate
	resultIs := func(call ssa.CallInstruction, idx int) func(ssa.Value) bool {
		return func(v ssa.Value) bool {
			if cc := an.AllExtractOf(v, idx); cc != nil && cc == call {
				return true
			}
			// a field the result was just stored to (opCtx.Operation = ...; if opCtx.Operation == nil)
			if d := an.FieldLoadDef(v); d != nil {
				cc := an.AllExtractOf(d, idx)
				return cc != nil && cc == call
			}
			return false
		}
	}
	for _, b := range fn.Blocks {
		for _, in := range b.Instrs {
			call, ok := in.(*ssa.Call)
			if !ok {
				continue
			}
			n := an.CalleeOf(call).FullName()
			switch {
			case n == "("+pkgGraphql+".OperationParameterMutator).MutateOperationParameters":
				gs = append(gs, gate{"MutateOperationParameters", call, resultIs(call, 0), false})
			case n == "("+pkgGraphql+".OperationContextMutator).MutateOperationContext":
				gs = append(gs, gate{"MutateOperationContext", call, resultIs(call, 0), false})
			case strings.HasPrefix(n, pkgParser+".ParseQuery"):
				gs = append(gs, gate{"parse", call, resultIs(call, 1), false})
			case strings.HasPrefix(n, pkgValidator+".Validate"):
				gs = append(gs, gate{"validate", call, resultIs(call, 0), false})
			case n == pkgValidator+".VariableValues":
				gs = append(gs, gate{"VariableValues", call, resultIs(call, 1), false})
			case n == "("+pkgAST+".OperationList).ForName":
				gs = append(gs, gate{"operation-selected", call, resultIs(call, 0), true})
			case n == "(*"+pkgExecutor+".Executor).parseQuery":
				gs = append(gs, gate{"parseQuery", call, resultIs(call, 1), false})
			default:
				if h := call.Call.StaticCallee(); h != nil && h != fn {
					if _, isH := c.validateHelpers()[h]; isH {
						gs = append(gs, gate{"validate-helper:" + h.Name(), call, resultIs(call, h.Signature.Results().Len()-1), false})
					} else if c.gateHelperSet[h] {
						gs = append(gs, gate{"helper:" + h.Name(), call, resultIs(call, h.Signature.Results().Len()-1), false})
					}
				}
			}
			// len(doc.Operations) == 0
			if bi, ok := call.Call.Value.(*ssa.Builtin); ok && bi.Name() == "len" {
				if ld, ok := call.Call.Args[0].(*ssa.UnOp); ok && ld.Op == token.MUL {
					if fa, ok := ld.X.(*ssa.FieldAddr); ok && an.NamedIs(fa.X.Type().Underlying().(*types.Pointer).Elem(), pkgAST, "QueryDocument") {
						if fieldNameOf(fa) == "Operations" {
							arg := call.Call.Args[0]
							gs = append(gs, gate{"has-operations", call, func(v ssa.Value) bool { return v == arg }, true})
						}
					}
				}
			}
		}
	}
	return gs
}

func fieldNameOf(fa *ssa.FieldAddr) string {
	st := fa.X.Type().Underlying().(*types.Pointer).Elem().Underlying().(*types.Struct)
	return st.Field(fa.Field).Name()
}

// ------------------------------------------------------------------------------------------------

func c03Cache(c *Ctx) {
	parse := c.fn(pkgExecutor, "*Executor.parseQuery")
	if parse == nil {
		return
	}
	c.R.Rule("cache-after-validate", "Cache[*ast.QueryDocument].Add is called only in parseQuery, edge-dominated by len(Validate(schema, doc)) == 0 for the document being added; OperationContext.Doc is stored only from parseQuery's result and .Operation only from Doc.Operations.ForName", 3)
	isDocCacheAdd := func(n string) bool {
		return strings.HasSuffix(n, ".Add") && strings.Contains(n, pkgGraphql+".Cache[*"+pkgAST+".QueryDocument]")
	}
	for _, fn := range c.moduleFuncs(isRuntimePkg) {
		for _, call := range an.CallsIn(fn, func(ci ssa.CallInstruction, info an.CalleeInfo) bool { return isDocCacheAdd(info.FullName()) }) {
			key := shortFn(topFn(fn)) + "→Cache.Add"
			if fn != parse {
				c.R.Bad(key, c.ipos(call), "the query-document cache is filled outside parseQuery: documents may enter the cache without validation")
				continue
			}
			args := call.Common().Args
			doc := args[len(args)-1]
			w := ""
			for _, f := range an.Facts(call) {
				if empty, ok := an.EmptinessFact(f, func(v ssa.Value) bool { return c.isValidateOf(v, doc) }); ok && empty {
					w = "dominated by len(Validate(schema, doc)) == 0"
				}
			}
			c.R.Check(w != "", key, c.ipos(call), w, "queryCache.Add is not dominated by the success edge of validator.Validate on the same document: an invalid document could be cached and later served without validation")
		}
	}
	// stores to OperationContext.Doc / .Operation
	for _, fn := range c.moduleFuncs(isRuntimePkg) {
		for _, b := range fn.Blocks {
			for _, in := range b.Instrs {
				st, ok := in.(*ssa.Store)
				if !ok {
					continue
				}
				fa, ok := st.Addr.(*ssa.FieldAddr)
				if !ok || !an.NamedIs(fa.X.Type().Underlying().(*types.Pointer).Elem(), pkgGraphql, "OperationContext") {
					continue
				}
				switch fieldNameOf(fa) {
				case "Doc":
					cc := an.AllExtractOf(st.Val, 0)
					ok := cc != nil && an.CalleeOf(cc).FullName() == "(*"+pkgExecutor+".Executor).parseQuery"
					c.R.Check(ok, shortFn(topFn(fn))+"/store:OperationContext.Doc", c.ipos(st), "assigned from parseQuery's first result", "OperationContext.Doc is assigned from something other than parseQuery's result")
				case "Operation":
					cc := an.AllExtractOf(st.Val, 0)
					ok := cc != nil && an.CalleeOf(cc).FullName() == "("+pkgAST+".OperationList).ForName"
					c.R.Check(ok, shortFn(topFn(fn))+"/store:OperationContext.Operation", c.ipos(st), "assigned from Operations.ForName", "OperationContext.Operation is assigned from something other than Doc.Operations.ForName")
				}
			}
		}
	}
}

// ------------------------------------------------------------------------------------------------
// request roots + reachability (shared with C07)

func (c *Ctx) requestRoots() []*ssa.Function {
	var roots []*ssa.Function
	add := func(pkg, name string) {
		if f := c.W.Func(pkg, name); f != nil {
			roots = append(roots, f)
		} else {
			c.R.Fail("unresolved anchor: request root %s.%s", pkg, name)
		}
	}
	add(pkgHandler, "*Server.ServeHTTP")
	add(pkgExecutor, "*Executor.CreateOperationContext")
	add(pkgExecutor, "*Executor.DispatchOperation")
	add(pkgExecutor, "*Executor.DispatchError")
	// every Transport.Do implementation in package transport
	tp := c.W.Pkg(pkgTransport)
	if tp == nil {
		c.R.Fail("unresolved anchor: package transport")
		return roots
	}
	n := 0
	for _, m := range tp.Members {
		t, ok := m.(*ssa.Type)
		if !ok {
			continue
		}
		for _, T := range []types.Type{t.Type(), types.NewPointer(t.Type())} {
			ms := c.W.Prog.MethodSets.MethodSet(T)
			if sel := ms.Lookup(tp.Pkg, "Do"); sel != nil {
				if f := c.W.Prog.MethodValue(sel); f != nil && f.Signature.Params().Len() == 3 {
					if f.Synthetic == "" {
						roots = append(roots, f)
						n++
					}
					break
				}
			}
		}
	}
	if n < 8 {
		c.R.Fail("unresolved anchor: expected at least 8 Transport.Do implementations, found %d", n)
	}
	// package introspection is entered from generated resolvers while a request is served (the call graph is not followed
	// through generated code): its exported functions and methods are request roots too
	for _, f := range c.moduleFuncs(func(p string) bool { return p == pkgIntrosp }) {
		if f.Parent() == nil && f.Object() != nil && f.Object().Exported() {
			roots = append(roots, f)
		}
	}
	return roots
}

// reachable computes the functions reachable from roots in the CHA call graph, restricted by follow.
func (c *Ctx) reachable(roots []*ssa.Function, follow func(*ssa.Function) bool) map[*ssa.Function]bool {
	cg := c.W.CHA()
	seen := map[*ssa.Function]bool{}
	var stack []*ssa.Function
	for _, r := range roots {
		if !seen[r] {
			seen[r] = true
			stack = append(stack, r)
		}
	}
	for len(stack) > 0 {
		f := stack[len(stack)-1]
		stack = stack[:len(stack)-1]
		n := cg.Nodes[f]
		if n == nil {
			continue
		}
		for _, e := range n.Out {
			g := e.Callee.Func
			if seen[g] {
				continue
			}
			if follow != nil && !follow(g) {
				continue
			}
			seen[g] = true
			stack = append(stack, g)
		}
		// closures created by f run with f's authority even when stored and called elsewhere
		for _, a := range f.AnonFuncs {
			if !seen[a] {
				seen[a] = true
				stack = append(stack, a)
			}
		}
	}
	return seen
}

func c03NoGlobalRuleMutation(c *Ctx, prop string) {
	c.R.Rule("no-global-rule-mutation", "no gqlgen function reachable from a request root (Server.ServeHTTP, every Transport.Do, Executor.CreateOperationContext/DispatchOperation/DispatchError) calls a gqlparser function that stores to a package-level variable of gqlparser (validator.AddRule/RemoveRule/ReplaceRule ...)", 2)
	roots := c.requestRoots()
	if len(roots) == 0 {
		return
	}
	// gqlparser functions that (transitively within gqlparser) store to a gqlparser global
	mut := c.globalMutators("github.com/vektah/gqlparser/v2")
	scan := func(roots []*ssa.Function, follow func(string) bool) (nreach, nsites int, hits []string) {
		reach := c.reachable(roots, func(f *ssa.Function) bool { return follow(pipeline.FuncPkgPath(f)) })
		for fn := range reach {
			if !follow(pipeline.FuncPkgPath(fn)) {
				continue
			}
			for _, call := range an.CallsIn(fn, func(ci ssa.CallInstruction, info an.CalleeInfo) bool {
				return info.Static != nil && strings.HasPrefix(pipeline.FuncPkgPath(info.Static), "github.com/vektah/gqlparser/v2")
			}) {
				nsites++
				callee := call.Common().StaticCallee()
				if g, bad := mut[callee]; bad {
					hits = append(hits, shortFn(topFn(fn))+"→"+shortFn(callee)+"|"+c.ipos(call)+"|"+g)
				}
			}
		}
		sort.Strings(hits)
		return len(reach), nsites, hits
	}
	nreach, nsites, hits := scan(roots, isRuntimePkg)
	for _, h := range hits {
		p := strings.Split(h, "|")
		c.R.Bad(p[0], p[1], "request-path code mutates gqlparser's process-global "+p[2]+": concurrent and later requests (of every server in the process) are validated with a rule set that is being rewritten")
	}
	c.R.OK("request-roots/scan", "-", sprintf("%d roots, %d reachable gqlgen functions, %d static call sites into gqlparser examined, %d gqlparser functions write package-level state", len(roots), nreach, nsites, len(mut)))
	// positive fixture: must be flagged on every run
	if fr := c.W.Func(modPath("verif_fixtures/globalrule"), "Root"); fr == nil {
		c.R.Fail("fixture verif_fixtures/globalrule.Root not loaded")
	} else {
		_, _, fh := scan([]*ssa.Function{fr}, func(p string) bool { return strings.HasPrefix(p, modPath("verif_fixtures")) })
		c.R.Check(len(fh) == 1, "fixture:globalrule", c.pos(fr.Pos()), "positive example flagged: "+strings.Join(fh, ","), "the positive fixture (a root that reaches validator.RemoveRule) was NOT flagged: the rule has gone blind")
	}
}

// globalMutators: functions of packages under prefix that store to a package-level variable of such
// a package, directly or through static callees within the prefix (fixpoint).  init functions excluded.
func (c *Ctx) globalMutators(prefix string) map[*ssa.Function]string {
	direct := map[*ssa.Function]string{}
	fns := c.W.FuncsIn(func(p string) bool { return strings.HasPrefix(p, prefix) })
	for _, f := range fns {
		if f.Name() == "init" || strings.HasPrefix(f.Name(), "init#") || (f.Parent() != nil && strings.HasPrefix(topFn(f).Name(), "init")) {
			continue
		}
		for _, b := range f.Blocks {
			for _, in := range b.Instrs {
				if st, ok := in.(*ssa.Store); ok {
					if g := globalRoot(st.Addr); g != nil && g.Pkg != nil && strings.HasPrefix(g.Pkg.Pkg.Path(), prefix) {
						direct[f] = g.Pkg.Pkg.Name() + "." + g.Name()
					}
				}
			}
		}
	}
	changed := true
	for changed {
		changed = false
		for _, f := range fns {
			if _, ok := direct[f]; ok {
				continue
			}
			if f.Name() == "init" || strings.HasPrefix(f.Name(), "init#") {
				continue
			}
			for _, call := range an.CallsIn(f, func(ci ssa.CallInstruction, info an.CalleeInfo) bool { return info.Static != nil }) {
				if g, ok := direct[call.Common().StaticCallee()]; ok {
					direct[f] = g
					changed = true
					break
				}
			}
		}
	}
	return direct
}

// globalRoot returns the package-level variable an address is rooted in (through field/index addressing), or nil.
func globalRoot(addr ssa.Value) *ssa.Global {
	for i := 0; i < 16; i++ {
		switch x := addr.(type) {
		case *ssa.Global:
			return x
		case *ssa.FieldAddr:
			addr = x.X
		case *ssa.IndexAddr:
			// element of a global array, or element of a slice loaded from a global
			addr = x.X
		case *ssa.UnOp:
			if x.Op == token.MUL {
				// slice/pointer loaded from a global: writing through it mutates shared state
				addr = x.X
				continue
			}
			return nil
		default:
			return nil
		}
	}
	return nil
}

func firstN(l []string, n int) string {
	if len(l) > n {
		return strings.Join(l[:n], "; ") + sprintf("; … (%d more)", len(l)-n)
	}
	return strings.Join(l, "; ")
}

// c03ExtensionRegistration: processExtensions must look at every hook interface of every extension independently.
func c03ExtensionRegistration(c *Ctx) {
	c.R.Rule("extension-registration", "in executor.processExtensions each of the six hook interfaces (operation-parameter mutator, operation-context mutator, operation / response / root-field / field interceptor) is tested with its own comma-ok assertion that is not control-dependent on another hook assertion having failed: an extension implementing several hooks is registered for all of them", 6)
	fn := c.fn(pkgExecutor, "processExtensions")
	if fn == nil {
		return
	}
	hooks := []string{"OperationParameterMutator", "OperationContextMutator", "OperationInterceptor", "ResponseInterceptor", "RootFieldInterceptor", "FieldInterceptor"}
	asserts := map[string][]*ssa.TypeAssert{}
	isHookAssert := func(v ssa.Value) (string, bool) {
		ex, ok := v.(*ssa.Extract)
		if !ok || ex.Index != 1 {
			return "", false
		}
		ta, ok := ex.Tuple.(*ssa.TypeAssert)
		if !ok {
			return "", false
		}
		for _, h := range hooks {
			if an.NamedIs(ta.AssertedType, pkgGraphql, h) {
				return h, true
			}
		}
		return "", false
	}
	// the tests may sit in processExtensions itself or in chain builders of the package it calls (`operationChain(exts)` …)
	scan := []*ssa.Function{fn}
	for _, call := range an.CallsIn(fn, func(_ ssa.CallInstruction, ci an.CalleeInfo) bool {
		return ci.Static != nil && ci.Static.Pkg != nil && ci.Static.Pkg.Pkg.Path() == pkgExecutor && len(ci.Static.Blocks) > 0
	}) {
		if call.Parent() == fn {
			scan = append(scan, an.WithClosures(call.Common().StaticCallee())...)
		}
	}
	for _, f := range scan {
		for _, b := range f.Blocks {
			for _, in := range b.Instrs {
				if ta, ok := in.(*ssa.TypeAssert); ok && ta.CommaOk {
					for _, h := range hooks {
						if an.NamedIs(ta.AssertedType, pkgGraphql, h) {
							asserts[h] = append(asserts[h], ta)
						}
					}
				}
			}
		}
	}
	for _, h := range hooks {
		tas := asserts[h]
		if len(tas) == 0 {
			c.R.Bad("processExtensions/"+h, c.pos(fn.Pos()), "extensions are never tested for the "+h+" hook: such extensions are accepted by Use but their hook never runs")
			continue
		}
		bad := ""
		for _, ta := range tas {
			for _, g := range an.BlockGuards(ta.Block()) {
				f := an.FactOf(g)
				if f.Op == token.ILLEGAL && f.Neg {
					if other, ok := isHookAssert(f.X); ok && other != h {
						bad = "the " + h + " test only runs when the extension is not a " + other + " (a type switch / else-if chain): an extension implementing both is registered for the first hook only"
					}
				}
			}
		}
		c.R.Check(bad == "", "processExtensions/"+h, c.ipos(tas[0]), "independent comma-ok assertion", bad)
	}
}

// c03RuleSwapPaired: disabling suggestions swaps validation rules in gqlparser's process-global rule set: a rule that decorates
// its message with "Did you mean …" is removed and its WithoutSuggestions twin installed.  A removed rule without its twin is a
// validation gate that silently disappears (documents it would have rejected are executed).  In package executor: every rule
// name that is removed — a string literal handed to validator.RemoveRule, or rules.<X>Rule.Name anywhere in the package — has
// a reference to rules.<X>RuleWithoutSuggestions, and vice versa (set-level pairing by gqlparser's exported names).
func c03RuleSwapPaired(c *Ctx) {
	c.R.Rule("rule-swap-paired", "package executor: the set of validation rules it removes from gqlparser's global rule set equals the set whose WithoutSuggestions variant it references (no rule is removed without its replacement)", 0)
	tp := c.W.TPkg(pkgExecutor)
	if tp == nil {
		c.R.Fail("unresolved anchor: package executor")
		return
	}
	removed := map[string]string{} // rule name -> position
	twins := map[string]string{}
	const rulesPkg = "github.com/vektah/gqlparser/v2/validator/rules"
	for _, f := range tp.Syntax {
		ast.Inspect(f, func(n ast.Node) bool {
			switch x := n.(type) {
			case *ast.CallExpr:
				if sel, ok := x.Fun.(*ast.SelectorExpr); ok && sel.Sel.Name == "RemoveRule" && len(x.Args) == 1 {
					if bl, ok := x.Args[0].(*ast.BasicLit); ok && bl.Kind == token.STRING {
						if s, err := strconv.Unquote(bl.Value); err == nil {
							removed[s] = c.pos(bl.Pos())
						}
					}
				}
			case *ast.SelectorExpr:
				id, ok := x.X.(*ast.Ident)
				if !ok {
					// rules.XRule.Name
					if inner, ok := x.X.(*ast.SelectorExpr); ok && x.Sel.Name == "Name" {
						if pid, ok := inner.X.(*ast.Ident); ok {
							if pn, ok := tp.TypesInfo.Uses[pid].(*types.PkgName); ok && pn.Imported().Path() == rulesPkg && strings.HasSuffix(inner.Sel.Name, "Rule") {
								removed[strings.TrimSuffix(inner.Sel.Name, "Rule")] = c.pos(x.Pos())
							}
						}
					}
					return true
				}
				if pn, ok := tp.TypesInfo.Uses[id].(*types.PkgName); ok && pn.Imported().Path() == rulesPkg && strings.HasSuffix(x.Sel.Name, "RuleWithoutSuggestions") {
					twins[strings.TrimSuffix(x.Sel.Name, "RuleWithoutSuggestions")] = c.pos(x.Pos())
				}
			}
			return true
		})
	}
	var names []string
	for n := range removed {
		names = append(names, n)
	}
	for n := range twins {
		if _, ok := removed[n]; !ok {
			names = append(names, n)
		}
	}
	sort.Strings(names)
	if len(names) == 0 {
		c.R.Note("rule-swap", "graphql/executor", "package executor no longer swaps validation rules; nothing to judge")
		return
	}
	for _, n := range names {
		rp, isRemoved := removed[n]
		tw, hasTwin := twins[n]
		switch {
		case isRemoved && hasTwin:
			c.R.OK("rule:"+n, rp, "removed and replaced by its WithoutSuggestions variant ("+tw+")")
		case isRemoved:
			c.R.Bad("rule:"+n, rp, "the validation rule "+n+" is removed from gqlparser's global rule set but its replacement rules."+n+"RuleWithoutSuggestions is never referenced: with suggestions disabled, documents that only this rule rejects pass validation and are executed")
		default:
			c.R.Bad("rule:"+n, tw, "rules."+n+"RuleWithoutSuggestions is installed although the rule "+n+" is not removed: the pairing of the swap table is off (another rule loses its replacement)")
		}
	}
}
