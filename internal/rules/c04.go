package rules

import (
	"go/ast"
	"go/types"
	"strings"

	"golang.org/x/tools/go/ssa"

	"verif/internal/an"
)

func init() {
	register(&Property{
		ID:      "C04",
		NeedGen: true,
		Runtime: RuntimeCore,
		Run:     runC04,
		Explanation: "Containment structure of user-code failures in every materialised executor: (contained) every call into user code made during execution — resolver interface methods, directive functions, the field/root-field " +
			"middleware chain, Unmarshaler.UnmarshalGQL — lies lexically inside a function (or an enclosing closure on the same goroutine) that registered a deferred recover() before the call, or is only called by such " +
			"functions of the execution phase; the search never crosses a go statement, a closure handed to FieldSet.Concurrently or the response closure; (handler-shape) each such deferred handler, on the r != nil " +
			"edge, calls OperationContext.Recover exactly once, reports its result exactly once and nulls the field's named result; (serialisation) Server.ServeHTTP registers its recover before Transport.Do and the " +
			"websocket operation goroutine has its own recover that sends an error frame.",
		NotDecided:  "that positions outside the propagated subtree keep their values (follows from C01's structure, not re-proved); omit_panic_handler configurations (documented opt-out); operation-level directives and root-field interceptors (reported as informational)",
		Assumptions: []string{"extension middleware invokes `next` synchronously on the calling goroutine (extension contract)"},
	})
}

func runC04(c *Ctx) {
	c04Frames(c)
	c04Contained(c)
	c04HandlerShape(c)
	c.R.Rule("serialisation", "Server.ServeHTTP registers a deferred recover before Transport.Do; the websocket operation goroutine registers a deferred recover that sends an error frame before it dispatches", 2)
	c04Serialisation(c)
	// the websocket operation goroutine registers its epilogue (which owns the recover) before it dispatches (C11/terminal-frame)
	c11TerminalFrame(c)
	// a failing scalar marshaler fails only its own position (null + error), and one failure yields one entry per error
	adapterWritesOnError(c)
	errorListOnce(c)
	c02ArgPath(c)
	// a failure inside a deferred group is counted on, and reported with, that group (C13)
	fieldSetAgreement(c)
	funcFieldsSet(c, pkgGraphql)
	c13GroupIsolated(c)
	layoutAgreement(c)
	genRound2(c)
	errorsNotDropped(c)
	errorOnPath(c)
	c13Accounting(c)
	c01ListNull(c)
	c05WG(c)
}

// userCallKind classifies a call instruction in generated code as a call into user code.
func userCallKind(g *GenPkg, call ssa.CallInstruction) string {
	cc := call.Common()
	if cc.IsInvoke() {
		recvT := cc.Value.Type()
		if n, ok := recvT.(*types.Named); ok && n.Obj().Pkg() != nil && n.Obj().Pkg().Path() == g.Path && strings.HasSuffix(n.Obj().Name(), "Resolver") {
			return "resolver"
		}
		if cc.Method.Name() == "UnmarshalGQL" || cc.Method.Name() == "UnmarshalGQLContext" {
			return "unmarshaler"
		}
		return ""
	}
	if callee := cc.StaticCallee(); callee != nil {
		// user functions bound by the configuration (custom scalar marshal/unmarshal functions, model methods):
		// defined outside the gqlgen runtime, the standard library and gqlparser, and not in a generated file
		if isUserFunc(g, callee) {
			return "userfunc"
		}
		return ""
	}
	// dynamic call through a loaded struct field
	fa, ok := loadAddr(cc.Value).(*ssa.FieldAddr)
	if !ok {
		return ""
	}
	name := fieldNameOf(fa)
	if an.NamedIs(fa.X.Type(), g.Path, "DirectiveRoot") {
		return "directive"
	}
	if name == "ResolverMiddleware" || name == "RootResolverMiddleware" {
		return "middleware"
	}
	return ""
}

// recoverDeferBefore: fn registers `defer func(){ recover() ... }()` that executes before instruction `at` on every path.
func recoverDeferBefore(fn *ssa.Function, at ssa.Instruction) *ssa.Defer {
	for _, b := range fn.Blocks {
		for _, in := range b.Instrs {
			d, ok := in.(*ssa.Defer)
			if !ok || !deferRecovers(d) {
				continue
			}
			if an.Before(d, at) {
				return d
			}
		}
	}
	return nil
}

// closureBoundary: how closure fn leaves its creator: "sync" (called or passed as an argument on the same goroutine),
// "go" (started as a goroutine), "concurrent" (handed to FieldSet.Concurrently), "returned" (escapes as a result).
func closureUse(mc *ssa.MakeClosure) string {
	use := "sync"
	var visit func(v ssa.Value, depth int)
	visit = func(v ssa.Value, depth int) {
		if depth > 4 {
			return
		}
		for _, r := range an.Referrers(v) {
			switch x := r.(type) {
			case *ssa.Go:
				if x.Call.Value == v {
					use = "go"
				}
			case *ssa.Return:
				use = "returned"
			case *ssa.Store:
				// stored into a local variable cell: follow its loads
				if x.Val == v && an.IsLocalCell(x.Addr) {
					for _, ref := range an.CellRefs(x.Addr) {
						if ld, ok := ref.(*ssa.UnOp); ok {
							visit(ld, depth+1)
						}
					}
				}
			case ssa.CallInstruction:
				n := an.CalleeOf(x).FullName()
				if strings.HasSuffix(n, "graphql.FieldSet).Concurrently") {
					use = "concurrent"
				}
			case *ssa.ChangeType, *ssa.MakeInterface:
				visit(x.(ssa.Value), depth+1)
			}
		}
	}
	visit(mc, 0)
	return use
}

func c04Contained(c *Ctx) {
	c.R.Rule("contained", "every user-code call site (resolver method, directive function, resolver middleware, UnmarshalGQL) in a materialised executor is covered by a deferred recover registered earlier on the same goroutine: in its own function, in an enclosing closure chain that is not crossed by go/Concurrently/return, or in every execution-phase caller", 1)
	total := 0
	for _, g := range c.Gen {
		if c.cfgBool(g, "omit_panic_handler") {
			c.R.Note("gen:"+g.Name, g.Spec.Dir, "skipped: documented opt-out omit_panic_handler")
			continue
		}
		// static callers within the package (for helper functions without their own recover)
		callers := map[*ssa.Function][]ssa.CallInstruction{}
		for _, fn := range c.genFuncs(g) {
			for _, b := range fn.Blocks {
				for _, in := range b.Instrs {
					if call, ok := in.(ssa.CallInstruction); ok {
						if callee := call.Common().StaticCallee(); callee != nil && callee.Pkg == g.SSA {
							callers[callee] = append(callers[callee], call)
						}
					}
				}
			}
		}
		// functions whose value is taken (method values, function values handed to the runtime): they have callers we cannot see
		usedAsValue := map[*ssa.Function]bool{}
		for _, fn := range c.genFuncs(g) {
			for _, b := range fn.Blocks {
				for _, in := range b.Instrs {
					for _, op := range in.Operands(nil) {
						f, ok := (*op).(*ssa.Function)
						if !ok {
							continue
						}
						if call, isCall := in.(ssa.CallInstruction); isCall && call.Common().Value == ssa.Value(f) {
							continue
						}
						usedAsValue[f] = true
					}
				}
			}
		}
		complexity := c.genFunc(g, "Complexity")
		var covered func(fn *ssa.Function, at ssa.Instruction, depth int, trail map[*ssa.Function]bool) (bool, string)
		covered = func(fn *ssa.Function, at ssa.Instruction, depth int, trail map[*ssa.Function]bool) (bool, string) {
			if depth > 8 || trail[fn] {
				return true, "cycle" // recursive marshalers: decided by the other callers
			}
			trail[fn] = true
			defer delete(trail, fn)
			if d := recoverDeferBefore(fn, at); d != nil {
				return true, "recover registered in " + fn.Name()
			}
			if par := fn.Parent(); par != nil {
				// closure: every creation site must be covered, without crossing a goroutine boundary
				n := 0
				for _, b := range par.Blocks {
					for _, in := range b.Instrs {
						mc, ok := in.(*ssa.MakeClosure)
						if !ok || mc.Fn != fn {
							continue
						}
						n++
						switch closureUse(mc) {
						case "go", "concurrent", "returned":
							return false, "closure " + fn.Name() + " leaves its creator (" + closureUse(mc) + ") without its own recover"
						}
						if ok2, why := covered(par, mc, depth+1, trail); !ok2 {
							return false, why
						}
					}
				}
				if n > 0 {
					return true, "enclosing closure chain"
				}
			}
			// top-level helper: every execution-phase caller must cover the call
			cs := callers[fn]
			if len(cs) == 0 {
				if !usedAsValue[fn] && fn.Parent() == nil && !ast.IsExported(fn.Name()) {
					// generated but never called and never referenced (e.g. the args function of a directive that has no executable location): unreachable
					return true, fn.Name() + " is never called or referenced"
				}
				return false, fn.Name() + " has no recover and no analysable caller"
			}
			ncov := 0
			for _, call := range cs {
				if complexity != nil && topFn(call.Parent()) == complexity {
					continue // pre-execution, on the request goroutine: C04/serialisation
				}
				ncov++
				if ok2, why := covered(call.Parent(), call, depth+1, trail); !ok2 {
					return false, why + " (caller " + topFn(call.Parent()).Name() + ")"
				}
			}
			if ncov == 0 {
				return true, "only called before execution (Complexity)"
			}
			return true, "all execution-phase callers register a recover first"
		}
		for _, fn := range c.genFuncs(g) {
			top := topFn(fn)
			for _, b := range fn.Blocks {
				for _, in := range b.Instrs {
					call, ok := in.(ssa.CallInstruction)
					if !ok {
						continue
					}
					kind := userCallKind(g, call)
					if kind == "" {
						continue
					}
					key := "gen:" + g.Name + "/" + top.Name() + "/" + kind
					// operation-level directives and the root-field interceptor are outside the property's list
					if strings.HasSuffix(top.Name(), "Middleware") && strings.HasPrefix(top.Name(), "_") && !strings.HasPrefix(top.Name(), "_field") {
						c.R.Note(key, c.ipos(in), "operation-level directive chain: outside the property's list of contained positions")
						continue
					}
					if f := loadAddr(call.Common().Value); f != nil {
						if fa, ok := f.(*ssa.FieldAddr); ok && fieldNameOf(fa) == "RootResolverMiddleware" {
							c.R.Note(key, c.ipos(in), "root-field interceptor: outside the property's list of contained positions")
							continue
						}
					}
					total++
					ok2, why := covered(fn, in, 0, map[*ssa.Function]bool{})
					c.R.Check(ok2, key, c.ipos(in), why, "a panic in this "+kind+" call is not contained at the field: "+why+" — it unwinds into another field's frame or kills the goroutine (and the process)")
				}
			}
		}
	}
	c.R.SetFloor(total)
	if total < 200 {
		c.R.Fail("contained examined only %d user-code call sites", total)
	}
}

func c04HandlerShape(c *Ctx) {
	c.R.Rule("handler-shape", "every deferred recover handler in a materialised executor: on the r != nil edge calls OperationContext.Recover exactly once and OperationContext.Error exactly once with that result; handlers of functions with a named Marshaler/closure result also reset it (graphql.Null / nil)", 1)
	total := 0
	for _, g := range c.Gen {
		if c.cfgBool(g, "omit_panic_handler") {
			continue
		}
		for _, fn := range c.genFuncs(g) {
			if fn.Parent() == nil || !callsRecover(fn) {
				continue
			}
			// only closures that are deferred
			deferred := false
			for _, b := range fn.Parent().Blocks {
				for _, in := range b.Instrs {
					if d, ok := in.(*ssa.Defer); ok {
						if mc, ok := d.Call.Value.(*ssa.MakeClosure); ok && mc.Fn == fn {
							deferred = true
						}
					}
				}
			}
			if !deferred {
				continue
			}
			total++
			key := "gen:" + g.Name + "/" + topFn(fn).Name() + "/handler"
			nRec, nErr := 0, 0
			errOfRec := false
			guarded := true
			var recCall *ssa.Call
			for _, b := range fn.Blocks {
				for _, in := range b.Instrs {
					call, ok := in.(*ssa.Call)
					if !ok {
						continue
					}
					n := an.CalleeOf(call).FullName()
					switch {
					case strings.HasSuffix(n, "graphql.OperationContext).Recover"):
						nRec++
						recCall = call
						if !recoveredNonNil(call) {
							guarded = false
						}
					case strings.HasSuffix(n, "graphql.OperationContext).Error"):
						nErr++
						arg := call.Call.Args[len(call.Call.Args)-1]
						for _, d := range an.Defs(arg) {
							if d == ssa.Value(recCall) {
								errOfRec = true
							}
						}
						if !recoveredNonNil(call) {
							guarded = false
						}
					}
				}
			}
			// named result reset
			needReset := false
			par := fn.Parent()
			res := par.Signature.Results()
			if par.Parent() == nil && res.Len() == 1 && strings.HasPrefix(par.Name(), "_") && res.At(0).Name() != "" {
				needReset = true // field functions proper; the innerFunc closures of object functions only back them up
			}
			// accepted alternative: the recovered error is handed to the caller through a named error result (federation resolveEntity)
			toNamedErr := false
			if recCall != nil {
				for _, r := range an.Referrers(recCall) {
					if st, ok := r.(*ssa.Store); ok {
						if fv, ok := st.Addr.(*ssa.FreeVar); ok && an.IsErrorType(fv.Type().(*types.Pointer).Elem()) {
							toNamedErr = true
						}
					}
				}
			}
			// the handler of a list element closure nulls the element's slot (a nil Marshaler left there panics when the list is written)
			needElem := par.Parent() != nil && isListElemClosure(par)
			resetElem := false
			reset := false
			for _, b := range fn.Blocks {
				for _, in := range b.Instrs {
					if st, ok := in.(*ssa.Store); ok && needElem {
						if _, isIx := st.Addr.(*ssa.IndexAddr); isIx && recoveredNonNil(st) {
							if g2, ok := loadGlobal(an.Strip(st.Val)); ok && g2.Name() == "Null" {
								resetElem = true
							}
						}
					}
					if st, ok := in.(*ssa.Store); ok && needReset {
						if fv, ok := st.Addr.(*ssa.FreeVar); ok && fv.Name() == res.At(0).Name() {
							v := an.Strip(st.Val)
							if an.IsNilConst(v) {
								reset = true
							}
							if g2, ok := loadGlobal(v); ok && g2.Name() == "Null" {
								reset = true
							}
						}
					}
				}
			}
			bad := ""
			switch {
			case nRec != 1:
				bad = sprintf("the handler calls Recover %d times (the recover hook must run exactly once per panic)", nRec)
			case nErr == 0 && toNamedErr:
				// reported once by the caller (checked by C20/contained)
			case nErr != 1 || !errOfRec:
				bad = sprintf("the handler reports %d errors / not the recovered one (exactly one error per panic)", nErr)
			case !guarded:
				bad = "Recover/Error are not confined to the r != nil edge: the recover hook runs without a panic"
			case needReset && !reset:
				bad = "the handler does not null the field's result: a half-built value is returned after a panic"
			case needElem && !resetElem:
				bad = "the handler of a list element's goroutine does not store graphql.Null into the element's slot: the slot stays a nil Marshaler and writing the list panics outside any handler"
			}
			c.R.Check(bad == "", key, c.pos(fn.Pos()), "Recover×1, "+map[bool]string{true: "handed to the caller through the named error result", false: "Error×1 on r != nil"}[nErr == 0]+map[bool]string{true: ", result nulled", false: ""}[needReset], bad)
		}
	}
	c.R.SetFloor(total)
	if total < 200 {
		c.R.Fail("handler-shape examined only %d recover handlers", total)
	}
}

// recoveredNonNil: the instruction is guarded by `recover() != nil`.
func recoveredNonNil(in ssa.Instruction) bool {
	for _, f := range an.Facts(in) {
		if empty, ok := an.EmptinessFact(f, func(v ssa.Value) bool {
			for _, d := range an.Defs(v) {
				cc, isCall := d.(*ssa.Call)
				if !isCall {
					return false
				}
				b, isB := cc.Call.Value.(*ssa.Builtin)
				if !isB || b.Name() != "recover" {
					return false
				}
			}
			return true
		}); ok && !empty {
			return true
		}
	}
	return false
}

func c04Serialisation(c *Ctx) {
	// (1) ServeHTTP
	fn := c.fn(pkgHandler, "*Server.ServeHTTP")
	if fn != nil {
		var rec *ssa.Defer
		for _, b := range fn.Blocks {
			for _, in := range b.Instrs {
				if d, ok := in.(*ssa.Defer); ok && deferRecovers(d) {
					rec = d
				}
			}
		}
		for _, call := range an.CallsIn(fn, func(_ ssa.CallInstruction, ci an.CalleeInfo) bool {
			return ci.FullName() == "("+pkgGraphql+".Transport).Do"
		}) {
			c.R.Check(rec != nil && an.Before(rec, call), "Server.ServeHTTP→Transport.Do", c.ipos(call), "deferred recover registered first", "Transport.Do runs without a previously registered recover: a panic while serialising a response kills the connection without an error body")
		}
	}
	// (2) websocket operation goroutine
	sub := c.fn(pkgTransport, "*"+wsConn+".subscribe")
	if sub == nil {
		return
	}
	ok := false
	for _, gs := range an.GoSites(sub) {
		if gs.Callee == nil {
			continue
		}
		for _, b := range gs.Callee.Blocks {
			for _, in := range b.Instrs {
				d, isD := in.(*ssa.Defer)
				if !isD || !deferRecovers(d) {
					continue
				}
				var handler *ssa.Function
				if mc, _ := d.Call.Value.(*ssa.MakeClosure); mc != nil {
					handler = mc.Fn.(*ssa.Function)
				} else if sc := d.Call.StaticCallee(); sc != nil && len(sc.Blocks) > 0 {
					handler = sc // a directly deferred method that calls recover() itself
				}
				if handler == nil {
					continue
				}
				for _, call := range an.CallsIn(handler, func(ci ssa.CallInstruction, info an.CalleeInfo) bool {
					return info.FullName() == "(*"+pkgTransport+"."+wsConn+").sendError" && recoveredNonNil(ci)
				}) {
					_ = call
					ok = true
				}
			}
		}
	}
	c.R.Check(ok, "wsConnection.subscribe$go/recover-sends-error", c.pos(sub.Pos()), "operation goroutine recovers and sends an error frame", "the websocket operation goroutine does not recover panics into an error frame: a serialisation panic kills the whole process")
}

func isUserFunc(g *GenPkg, f *ssa.Function) bool {
	if f.Pkg == nil || f.Synthetic != "" {
		return false
	}
	path := f.Pkg.Pkg.Path()
	first := path
	if i := strings.Index(path, "/"); i >= 0 {
		first = path[:i]
	}
	if !strings.Contains(first, ".") {
		return false // standard library
	}
	if strings.HasPrefix(path, pkgGraphql) || strings.HasPrefix(path, "github.com/vektah/gqlparser") || strings.HasPrefix(path, "golang.org/x/") ||
		strings.HasSuffix(path, "/plugin/federation/fedruntime") || path == pkgComplex {
		return false
	}
	if f.Pkg == g.SSA {
		// same package as the generated code: user code iff its file was not emitted by the generator
		file := g.fileOf(f)
		if file == "" {
			return false
		}
		_, generated := g.Mat.Files[file]
		return !generated
	}
	return true
}

// c04Frames: the mechanism itself, independent of which user code today's probe schemas reach.
func c04Frames(c *Ctx) {
	c.R.Rule("frames", "every generated field function registers its deferred recover before any call other than its field-context function and WithFieldContext; every field-context function that coerces arguments registers one before the coercion; every closure handed to FieldSet.Concurrently (through innerFunc) and every list-element closure registers one before its first call", 1)
	total := 0
	for _, g := range c.Gen {
		if c.cfgBool(g, "omit_panic_handler") {
			continue
		}
		for _, fn := range c.genFuncs(g) {
			kind := ""
			name := fn.Name()
			allowed := func(n string) bool { return false }
			switch {
			case fn.Parent() == nil && strings.HasPrefix(name, "fieldContext_"):
				hasArgs := false
				for _, call := range an.CallsIn(fn, func(_ ssa.CallInstruction, ci an.CalleeInfo) bool {
					return ci.Static != nil && strings.HasPrefix(ci.Static.Name(), "field_") && strings.HasSuffix(ci.Static.Name(), "_args")
				}) {
					_ = call
					hasArgs = true
				}
				if !hasArgs {
					continue
				}
				kind = "field-context"
			case fn.Parent() == nil && strings.HasPrefix(name, "_") && isFieldFuncSig(fn):
				kind = "field"
				allowed = func(n string) bool {
					return strings.Contains(n, ".fieldContext_") || strings.HasPrefix(n, "fieldContext_") || n == pkgGraphql+".WithFieldContext" || strings.Contains(n, ").fieldContext_")
				}
			case fn.Parent() != nil && isInnerFunc(fn):
				kind = "innerFunc"
			case fn.Parent() != nil && isListElemClosure(fn):
				kind = "list-element"
			default:
				continue
			}
			total++
			var rec *ssa.Defer
			for _, b := range fn.Blocks {
				for _, in := range b.Instrs {
					if d, ok := in.(*ssa.Defer); ok && deferRecovers(d) && rec == nil {
						rec = d
					}
				}
			}
			key := "gen:" + g.Name + "/" + topFn(fn).Name() + "/" + kind
			if rec == nil && kind == "list-element" && onlyCallsFramedClosure(fn) {
				// a goroutine wrapper that only does bookkeeping (deferred Done/Release) around a call of the sibling
				// closure that carries the recover: the user code still runs below a frame of this position
				c.R.OK(key, c.pos(fn.Pos()), "bookkeeping wrapper; the only call that can panic is the sibling closure that registers the recover first")
				continue
			}
			if rec == nil {
				c.R.Bad(key, c.pos(fn.Pos()), "no deferred recover in this "+kind+" function: a panic below it is not contained at this position")
				continue
			}
			bad := ""
			for _, b := range fn.Blocks {
				for _, in := range b.Instrs {
					call, ok := in.(*ssa.Call)
					if !ok || !mayPanicCall(in) {
						continue
					}
					if an.Before(rec, in) {
						continue
					}
					n := an.CalleeOf(call).FullName()
					if allowed(n) {
						continue
					}
					if _, isMC := call.Call.Value.(*ssa.MakeClosure); isMC {
						continue
					}
					bad = "the call of " + n + " at " + c.ipos(in) + " runs before the recover is registered"
				}
			}
			c.R.Check(bad == "", key, c.ipos(rec), "recover registered first", bad)
		}
	}
	c.R.SetFloor(total)
	if total < 300 {
		c.R.Fail("frames examined only %d functions", total)
	}
}

func isFieldFuncSig(fn *ssa.Function) bool {
	ps := fn.Signature.Params()
	for i := 0; i < ps.Len(); i++ {
		if an.NamedIs(ps.At(i).Type(), pkgGraphql, "CollectedField") {
			return fn.Signature.Results().Len() == 1
		}
	}
	return false
}

// isInnerFunc: closure with signature func(ctx, *graphql.FieldSet) graphql.Marshaler.
func isInnerFunc(fn *ssa.Function) bool {
	ps := fn.Signature.Params()
	return ps.Len() == 2 && an.NamedIs(ps.At(1).Type(), pkgGraphql, "FieldSet") && fn.Signature.Results().Len() == 1
}

// isListElemClosure: closure func(i int) inside a function that owns a sync.WaitGroup.
func isListElemClosure(fn *ssa.Function) bool {
	ps := fn.Signature.Params()
	if ps.Len() != 1 || fn.Signature.Results().Len() != 0 {
		return false
	}
	if b, ok := ps.At(0).Type().Underlying().(*types.Basic); !ok || b.Kind() != types.Int {
		return false
	}
	for _, b := range fn.Parent().Blocks {
		for _, in := range b.Instrs {
			if al, ok := in.(*ssa.Alloc); ok && an.NamedIs(al.Type(), "sync", "WaitGroup") {
				return true
			}
		}
	}
	return false
}

// onlyCallsFramedClosure: every call of fn that may panic is a call of a function literal of the same parent whose first
// may-panic call is preceded by a deferred recover.
func onlyCallsFramedClosure(fn *ssa.Function) bool {
	n := 0
	for _, b := range fn.Blocks {
		for _, in := range b.Instrs {
			call, ok := in.(*ssa.Call)
			if !ok || !mayPanicCall(in) {
				continue
			}
			var target *ssa.Function
			for _, d := range an.Defs(call.Call.Value) {
				if mc, isMC := d.(*ssa.MakeClosure); isMC {
					target, _ = mc.Fn.(*ssa.Function)
				}
			}
			if target == nil || target.Parent() != fn.Parent() {
				return false
			}
			var rec *ssa.Defer
			for _, b2 := range target.Blocks {
				for _, in2 := range b2.Instrs {
					if d, ok := in2.(*ssa.Defer); ok && deferRecovers(d) && rec == nil {
						rec = d
					}
				}
			}
			if rec == nil {
				return false
			}
			for _, b2 := range target.Blocks {
				for _, in2 := range b2.Instrs {
					if mayPanicCall(in2) && !an.Before(rec, in2) {
						if c2, isC := in2.(*ssa.Call); isC {
							if _, isMC := c2.Call.Value.(*ssa.MakeClosure); isMC {
								continue
							}
						}
						return false
					}
				}
			}
			n++
		}
	}
	return n > 0
}
