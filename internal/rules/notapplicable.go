package rules

func init() {
	pending := "check not built yet (see DESIGN.md §4a for the build order); no claim is made for this property in this commit"
	for _, id := range []string{"C01", "C02", "C03", "C04", "C05", "C06", "C07", "C08", "C09", "C10", "C11", "C12", "C13", "C14", "C15", "C16", "C18", "C19", "C20"} {
		NotApplicable[id] = pending
	}
}
