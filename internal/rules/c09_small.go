package rules

import (
	"go/token"
	"go/types"
	"strings"

	"golang.org/x/tools/go/ssa"

	"verif/internal/an"
)

// Structural necessary conditions of C08/C09/C10 from the small-slip round.

// acceptScanTotal: determineResponseContentType looks at every element of the Accept header: a loop of the function is left
// from a body block only to return, never to the code after the loop (no break).  A malformed element is skipped.
func acceptScanTotal(c *Ctx) {
	c.R.Rule("accept-scan-total", "transport.determineResponseContentType: no block inside a loop jumps to the loop's own continuation (no break): every element of the configured headers / the Accept header is looked at until one decides", 2)
	fn := c.fn(pkgTransport, "determineResponseContentType")
	if fn == nil {
		return
	}
	for i, l := range an.Loops(fn) {
		after := map[*ssa.BasicBlock]bool{}
		for _, e := range l.Exits {
			if e.From == l.Header {
				after[e.To] = true
			}
		}
		var at ssa.Instruction
		for _, e := range l.Exits {
			if e.From != l.Header && after[e.To] {
				at = e.From.Instrs[len(e.From.Instrs)-1]
			}
		}
		pos := c.pos(fn.Pos())
		if at != nil {
			pos = c.ipos(at)
		}
		c.R.Check(at == nil, sprintf("determineResponseContentType/loop#%d", i+1), pos, "left early only by return",
			"the scan of the Accept header is abandoned at this element: `Accept: text/html; charset, application/json` is answered with the fallback media type although the client named one that is supported")
	}
}

// defaultHeadersWhenEmpty: writeHeaders installs the default Content-Type when no headers are configured — a nil map and an
// empty map alike: the test is on the length.
func defaultHeadersWhenEmpty(c *Ctx) {
	c.R.Rule("default-headers-when-empty", "transport.writeHeaders: the branch that installs the default Content-Type is taken on `len(headers) == 0`, not on a nil comparison", 1)
	fn := c.fn(pkgTransport, "writeHeaders")
	if fn == nil {
		return
	}
	n := 0
	for _, b := range fn.Blocks {
		for _, in := range b.Instrs {
			mu, ok := in.(*ssa.MapUpdate)
			if !ok {
				continue
			}
			if k, isS := an.ConstString(mu.Key); !isS || !strings.EqualFold(k, "Content-Type") {
				continue
			}
			n++
			okLen := false
			for _, f := range an.Facts(in) {
				if f.Op != token.EQL {
					continue
				}
				for _, pr := range [][2]ssa.Value{{f.X, f.Y}, {f.Y, f.X}} {
					call, isCall := pr[0].(*ssa.Call)
					if !isCall {
						continue
					}
					if bi, isB := call.Call.Value.(*ssa.Builtin); isB && bi.Name() == "len" {
						if k, isC := an.ConstInt(pr[1]); isC && k == 0 {
							okLen = true
						}
					}
				}
			}
			c.R.Check(okLen, "writeHeaders/default", c.ipos(in), "default installed whenever no header is configured",
				"the default Content-Type is installed only for a nil map: with ResponseHeaders set to an empty map the response carries no Content-Type at all and net/http sniffs text/plain")
		}
	}
	if n == 0 {
		c.R.Fail("default-headers-when-empty: writeHeaders installs no default Content-Type")
	}
}

// firstTransportWins: Server.getTransport returns the first transport that supports the request: on the Supports()==true edge
// it returns that very transport immediately.
func firstTransportWins(c *Ctx) {
	c.R.Rule("first-transport-wins", "handler.(*Server).getTransport: every non-nil return is the transport whose Supports(r) just answered true, returned from inside the loop", 1)
	fn := c.fn(pkgHandler, "*Server.getTransport")
	if fn == nil {
		return
	}
	n := 0
	for _, r := range an.Returns(fn) {
		if len(r.Results) != 1 || an.IsNilConst(an.Strip(r.Results[0])) {
			continue
		}
		n++
		ok := false
		for _, f := range an.Facts(r) {
			if f.Op != token.ILLEGAL || f.Neg {
				continue
			}
			call, isCall := f.X.(*ssa.Call)
			if !isCall || !call.Call.IsInvoke() || call.Call.Method.Name() != "Supports" {
				continue
			}
			if an.Strip(call.Call.Value) == an.Strip(r.Results[0]) || an.SameVar(call.Call.Value, r.Results[0]) || sameElement(call.Call.Value, r.Results[0]) {
				ok = true
			}
		}
		c.R.Check(ok, sprintf("getTransport/return#%d", n), c.ipos(r), "the transport that just said it supports the request",
			"getTransport does not return the first supporting transport: with two transports accepting the same requests the later one answers, with its own Content-Type and status conventions")
	}
	if n == 0 {
		c.R.Fail("first-transport-wins: getTransport returns no transport")
	}
}

// nilListIsNullOnly: per materialised executor, a list marshaler answers graphql.Null for a nil slice only: no return of
// graphql.Null is taken on a `len(v) == 0` test.  An empty list is `[]`, not null.
func nilListIsNullOnly(c *Ctx) {
	c.R.Rule("empty-list-is-not-null", "per materialised executor: no list marshal function returns graphql.Null on the edge `len(v) == 0` (only a nil slice is null)", 0)
	n := 0
	for _, g := range c.Gen {
		for _, fn := range c.genFuncs(g) {
			if fn.Parent() != nil || !strings.HasPrefix(fn.Name(), "marshal") {
				continue
			}
			var v ssa.Value
			for _, p := range fn.Params {
				if _, isSl := p.Type().Underlying().(*types.Slice); isSl {
					v = p
				}
			}
			if v == nil {
				continue
			}
			n++
			var bad ssa.Instruction
			for _, r := range an.Returns(fn) {
				rv := an.ReturnedValue(r, 0)
				if rv == nil {
					continue
				}
				if g2, ok := loadGlobal(an.Strip(rv)); !ok || g2.Name() != "Null" {
					continue
				}
				for _, f := range an.Facts(r) {
					if f.Op != token.EQL {
						continue
					}
					for _, pr := range [][2]ssa.Value{{f.X, f.Y}, {f.Y, f.X}} {
						call, isCall := pr[0].(*ssa.Call)
						if !isCall {
							continue
						}
						if bi, isB := call.Call.Value.(*ssa.Builtin); isB && bi.Name() == "len" && (an.Strip(call.Call.Args[0]) == v || an.SameVar(call.Call.Args[0], v)) {
							if k, isC := an.ConstInt(pr[1]); isC && k == 0 {
								bad = r
							}
						}
					}
				}
			}
			pos := c.pos(fn.Pos())
			if bad != nil {
				pos = c.ipos(bad)
			}
			c.R.Check(bad == nil, "gen:"+g.Name+"/"+fn.Name()+"/empty-list", pos, "null only for a nil slice",
				"an empty (non-nil) list is marshalled as null: the value the client decodes differs from what the resolver returned")
		}
	}
	c.R.SetFloor(n)
	if n < 10 {
		c.R.Fail("empty-list-is-not-null: %d list marshalers", n)
	}
}

// limitHelpersOwnField: MultipartForm.maxUploadSize / maxMemory return the field they tested for zero.
func limitHelpersOwnField(c *Ctx) {
	c.R.Rule("limit-helper-own-field", "transport.MultipartForm.maxUploadSize / maxMemory: the non-constant return is the very field whose zero test selects the default", 2)
	for _, name := range []string{"maxUploadSize", "maxMemory"} {
		fn := c.W.Func(pkgTransport, "MultipartForm."+name)
		if fn == nil || len(fn.Blocks) == 0 {
			c.R.Fail("unresolved anchor: transport.MultipartForm.%s", name)
			continue
		}
		fieldOf := func(v ssa.Value) string {
			v = an.Strip(v)
			if f, ok := v.(*ssa.Field); ok {
				if st, ok := f.X.Type().Underlying().(*types.Struct); ok {
					return st.Field(f.Field).Name()
				}
			}
			if fa, ok := loadAddr(v).(*ssa.FieldAddr); ok {
				return fieldNameOf(fa)
			}
			return ""
		}
		ok, n := true, 0
		var at ssa.Instruction
		for _, r := range an.Returns(fn) {
			if len(r.Results) != 1 {
				continue
			}
			if _, isC := r.Results[0].(*ssa.Const); isC {
				continue
			}
			n++
			rf := fieldOf(r.Results[0])
			tested := false
			for _, f := range an.Facts(r) {
				for _, x := range []ssa.Value{f.X, f.Y} {
					if x != nil && rf != "" && fieldOf(x) == rf {
						tested = true
					}
				}
			}
			if !tested {
				ok = false
				at = r
			}
		}
		pos := c.pos(fn.Pos())
		if at != nil {
			pos = c.ipos(at)
		}
		c.R.Check(ok && n > 0, "MultipartForm."+name, pos, "returns the configured limit it tested",
			"the helper tests one field for zero and returns another: the configured upload limit is not the one enforced (a 64-byte limit lets megabytes through, or a large limit rejects small files)")
	}
}

// seekAddsOffset: bytesReader.Seek computes the new position by adding the offset to the chosen base (io.Seeker): the
// offset parameter is never subtracted.
func seekAddsOffset(c *Ctx) {
	c.R.Rule("seek-adds-offset", "transport.(*bytesReader).Seek: every arithmetic use of the offset parameter is an addition to the base position (start: none, current: index, end: length)", 1)
	fn := c.fn(pkgTransport, "*bytesReader.Seek")
	if fn == nil {
		return
	}
	var off ssa.Value
	for _, p := range fn.Params {
		if p.Name() == "offset" || (off == nil && p.Type().String() == "int64") {
			off = p
		}
	}
	n := 0
	for _, b := range fn.Blocks {
		for _, in := range b.Instrs {
			bo, ok := in.(*ssa.BinOp)
			if !ok || (an.Strip(bo.X) != off && an.Strip(bo.Y) != off) {
				continue
			}
			switch bo.Op {
			case token.ADD, token.SUB, token.MUL, token.QUO:
			default:
				continue
			}
			n++
			c.R.Check(bo.Op == token.ADD, sprintf("Seek/offset-arith#%d", n), c.ipos(in), "base + offset",
				"the offset is not added to the base position: Seek(-4, io.SeekEnd) on a 10-byte upload lands at 14 instead of 6, so a resolver reading a trailer gets no bytes")
		}
	}
	if n < 1 {
		c.R.Fail("seek-adds-offset: %d arithmetic uses of offset", n)
	}
}

// sameElement: two loads of the same element xs[i] (same slice value, same index value).
func sameElement(a, b ssa.Value) bool {
	ua, ok1 := an.Strip(a).(*ssa.UnOp)
	ub, ok2 := an.Strip(b).(*ssa.UnOp)
	if !ok1 || !ok2 || ua.Op != token.MUL || ub.Op != token.MUL {
		return false
	}
	ia, ok1 := ua.X.(*ssa.IndexAddr)
	ib, ok2 := ub.X.(*ssa.IndexAddr)
	if !ok1 || !ok2 {
		return false
	}
	return (ia.X == ib.X || an.SameVar(ia.X, ib.X)) && (ia.Index == ib.Index || an.SameExpr(ia.Index, ib.Index))
}
