package rules

import (
	"go/types"
	"strings"

	"golang.org/x/tools/go/ssa"

	"verif/internal/an"
)

// noSharedErrorValues: the runtime packages keep no package-level *gqlerror.Error (or gqlerror.List).  Such an error is not a
// constant: graphql.ErrorOnPath fills in Path (and presenters add extensions) on the object it is given, so a shared instance
// carries the path of the first request that failed into every later response.
func noSharedErrorValues(c *Ctx) {
	c.R.Rule("no-shared-error-values", "no package-level variable of a runtime package has type *gqlerror.Error or gqlerror.List (errors handed to ErrorOnPath / presenters are created per failure)", 1)
	isGqlErr := func(t types.Type) bool {
		s := t.String()
		return strings.HasSuffix(s, "gqlparser/v2/gqlerror.Error") || strings.HasSuffix(s, "gqlparser/v2/gqlerror.List")
	}
	nfx := 0
	for _, path := range c.W.ModulePackages() {
		fx := strings.HasPrefix(path, modPath("verif_fixtures/sharedstate"))
		if !isRuntimePkg(path) && !fx {
			continue
		}
		pkg := c.W.Pkg(path)
		if pkg == nil {
			continue
		}
		for name, m := range pkg.Members {
			g, ok := m.(*ssa.Global)
			if !ok {
				continue
			}
			if !isGqlErr(g.Type().(*types.Pointer).Elem()) {
				continue
			}
			if fx {
				nfx++
				continue
			}
			c.R.Bad(shortPkgs([]string{path})[0]+"."+name, c.pos(g.Pos()), "a package-level "+types.TypeString(g.Type().(*types.Pointer).Elem(), func(p *types.Package) string { return p.Name() })+": ErrorOnPath stamps the first failing request's path into it and every later response that reports this error carries that path")
		}
	}
	c.R.Check(nfx == 1, "fixture:sharedstate/ErrShared", "verif_fixtures/sharedstate", "positive example seen by the same scan", sprintf("the positive fixture was seen %d times, expected 1: the scan has gone blind", nfx))
}

// noMapCacheInRuntime: graphql.MapCache is an unsynchronised, never-evicting map documented as test-only; no function of a
// runtime package builds one (the executor's default query cache is NoCache; real caches are handed in by the user).
func noMapCacheInRuntime(c *Ctx) {
	c.R.Rule("no-mapcache-in-runtime", "no function of a runtime package creates a graphql.MapCache value (make, composite literal or conversion) outside MapCache's own methods", 1)
	isMapCache := func(t types.Type) bool {
		nt, ok := t.(*types.Named)
		return ok && nt.Obj().Name() == "MapCache" && nt.Obj().Pkg() != nil && nt.Obj().Pkg().Path() == pkgGraphql
	}
	nfx := 0
	for _, fn := range c.W.FuncsIn(func(p string) bool {
		return isRuntimePkg(p) || strings.HasPrefix(p, modPath("verif_fixtures/sharedstate"))
	}) {
		fx := strings.Contains(fn.String(), "verif_fixtures")
		if fn.Signature.Recv() != nil && isMapCache(fn.Signature.Recv().Type()) {
			continue
		}
		for _, b := range fn.Blocks {
			for _, in := range b.Instrs {
				v, ok := in.(ssa.Value)
				if !ok {
					continue
				}
				switch in.(type) {
				case *ssa.MakeMap, *ssa.ChangeType, *ssa.Convert, *ssa.MakeInterface:
				default:
					continue
				}
				t := v.Type()
				if mi, ok := in.(*ssa.MakeInterface); ok {
					t = mi.X.Type()
					if _, isC := mi.X.(*ssa.Const); !isC {
						continue // counted where the value was made
					}
				}
				if !isMapCache(t) {
					continue
				}
				if fx {
					nfx++
					continue
				}
				c.R.Bad(shortFn(topFn(fn))+"/MapCache", c.ipos(in), "a graphql.MapCache is created in runtime code: it is a plain map shared by all requests (concurrent Get/Add is a data race that can crash the process) and never evicts")
			}
		}
	}
	c.R.Check(nfx >= 1, "fixture:sharedstate/Cache", "verif_fixtures/sharedstate", "positive example seen by the same scan", sprintf("the positive fixture was seen %d times: the scan has gone blind", nfx))
}

// deferredReceiveCancellable: per materialised executor, the response function waits for a deferred result only inside a
// select that also watches ctx.Done(): when the request ends the handler returns instead of waiting for a group that will
// never be delivered (or that nobody will read).
func deferredReceiveCancellable(c *Ctx) {
	c.R.Rule("deferred-receive-cancellable", "per materialised executor: every receive from executionContext.deferredResults is one arm of a select whose other arm receives from a context's Done channel", len(c.Gen))
	for _, g := range c.Gen {
		exec := c.genFunc(g, "Exec")
		if exec == nil {
			c.R.Fail("gen:%s: Exec not found", g.Name)
			continue
		}
		n := 0
		// the receive may sit in the response closure or in a method it calls (`ec.nextDeferredResult(ctx)`)
		for _, fn := range c.genFuncs(g) {
			for _, b := range fn.Blocks {
				for _, in := range b.Instrs {
					switch x := in.(type) {
					case *ssa.UnOp:
						if x.Op.String() == "<-" && isFieldChan(x.X, "deferredResults") {
							n++
							c.R.Bad("gen:"+g.Name+"/Exec/deferred-receive", c.ipos(in), "a bare receive from deferredResults: when the request is cancelled while a group is outstanding the response function blocks until the group is delivered (or forever)")
						}
					case *ssa.Select:
						recv, done := false, false
						for _, st := range x.States {
							if st.Dir != types.RecvOnly {
								continue
							}
							if isFieldChan(st.Chan, "deferredResults") {
								recv = true
							}
							if call, ok := st.Chan.(*ssa.Call); ok && call.Call.IsInvoke() && call.Call.Method.Name() == "Done" {
								done = true
							}
						}
						if recv {
							n++
							c.R.Check(done, "gen:"+g.Name+"/Exec/deferred-receive", c.ipos(in), "select with ctx.Done()",
								"the select that waits for a deferred result has no ctx.Done() arm: when the request is cancelled while a group is outstanding the response function blocks until the group is delivered (or forever)")
						}
					}
				}
			}
		}
		if n == 0 {
			c.R.Bad("gen:"+g.Name+"/Exec/deferred-receive", c.pos(exec.Pos()), "the response function never receives deferred results")
		}
	}
}

// dispatchDoneLast: in the goroutines FieldSet.Dispatch starts, a direct (not deferred) WaitGroup.Done is followed by no store
// and no call: the slot of the field is written before the waiter may proceed.
func dispatchDoneLast(c *Ctx) {
	c.R.Rule("dispatch-done-last", "graphql.(*FieldSet).Dispatch: in its goroutines WaitGroup.Done is deferred, or no store or call follows a direct Done", 1)
	fn := c.fn(pkgGraphql, "*FieldSet.Dispatch")
	if fn == nil {
		return
	}
	n := 0
	for _, b := range fn.Blocks {
		for _, in := range b.Instrs {
			gi, ok := in.(*ssa.Go)
			if !ok {
				continue
			}
			var body *ssa.Function
			if mc, ok := gi.Call.Value.(*ssa.MakeClosure); ok {
				body = mc.Fn.(*ssa.Function)
			} else if sc := gi.Call.StaticCallee(); sc != nil {
				body = sc
			}
			if body == nil || len(body.Blocks) == 0 {
				continue
			}
			n++
			var bad ssa.Instruction
			for _, bb := range body.Blocks {
				for _, in2 := range bb.Instrs {
					call, ok := in2.(*ssa.Call)
					if !ok || an.CalleeOf(call).FullName() != "(*sync.WaitGroup).Done" {
						continue
					}
					for _, ob := range body.Blocks {
						for _, x := range ob.Instrs {
							effect := false
							switch y := x.(type) {
							case *ssa.Store:
								if _, isAl := y.Addr.(*ssa.Alloc); !isAl {
									effect = true
								}
							case ssa.CallInstruction:
								if _, isB := y.Common().Value.(*ssa.Builtin); !isB {
									effect = true
								}
							}
							if effect && an.CanReach(in2, x) {
								bad = x
							}
						}
					}
				}
			}
			pos := c.ipos(gi)
			if bad != nil {
				pos = c.ipos(bad)
			}
			c.R.Check(bad == nil, "Dispatch$go/done-last", pos, "nothing follows Done",
				"the goroutine writes its field's slot (or calls on) after wg.Done(): Dispatch returns and the object is marshalled while the slot is still nil or being written — a data race that delivers null or panics")
		}
	}
	if n == 0 {
		c.R.Fail("dispatch-done-last: FieldSet.Dispatch starts no goroutine")
	}
}

// rawQueryAfterMutators: Executor.CreateOperationContext reads RawParams.Query (to record it as OperationContext.RawQuery and
// to parse it) only after every OperationParameterMutator has run: the persisted-query extension substitutes the registered
// text there, and the text recorded and the text executed must be that one.
func rawQueryAfterMutators(c *Ctx) {
	c.R.Rule("query-read-after-mutators", "Executor.CreateOperationContext: no call of MutateOperationParameters is reachable from a read of RawParams.Query (the text is recorded and parsed after the parameter mutators ran)", 1)
	fn := c.fn(pkgExecutor, "*Executor.CreateOperationContext")
	if fn == nil {
		return
	}
	var muts []ssa.Instruction
	for _, call := range an.CallsIn(fn, func(ci ssa.CallInstruction, _ an.CalleeInfo) bool {
		return ci.Common().IsInvoke() && ci.Common().Method.Name() == "MutateOperationParameters"
	}) {
		muts = append(muts, call)
	}
	if len(muts) == 0 {
		// the loop over the mutators may live in a helper of the package: the call of that helper stands for them
		for _, call := range an.CallsIn(fn, func(ci ssa.CallInstruction, info an.CalleeInfo) bool {
			h := info.Static
			if h == nil || h.Pkg == nil || h.Pkg.Pkg.Path() != pkgExecutor || len(h.Blocks) == 0 {
				return false
			}
			return len(an.CallsIn(h, func(c2 ssa.CallInstruction, _ an.CalleeInfo) bool {
				return c2.Common().IsInvoke() && c2.Common().Method.Name() == "MutateOperationParameters"
			})) > 0
		}) {
			if call.Parent() == fn {
				muts = append(muts, call)
			}
		}
	}
	if len(muts) == 0 {
		muts = mutatorCallPoints(fn, "MutateOperationParameters")
	}
	if len(muts) == 0 {
		c.R.Fail("query-read-after-mutators: CreateOperationContext calls no parameter mutator")
		return
	}
	// a read is a load of RawParams.Query in CreateOperationContext itself, or a call of a helper of the package that performs one
	var readsQuery func(h *ssa.Function, depth int) bool
	readsQuery = func(h *ssa.Function, depth int) bool {
		if h == nil || len(h.Blocks) == 0 || h.Pkg == nil || h.Pkg.Pkg.Path() != pkgExecutor || depth > 2 {
			return false
		}
		for _, b := range h.Blocks {
			for _, in := range b.Instrs {
				if u, ok := in.(*ssa.UnOp); ok {
					if fa, ok := u.X.(*ssa.FieldAddr); ok && isRawParamsField(fa, "Query") {
						return true
					}
				}
				if call, ok := in.(ssa.CallInstruction); ok && call.Common().StaticCallee() != h && readsQuery(call.Common().StaticCallee(), depth+1) {
					return true
				}
			}
		}
		return false
	}
	n := 0
	for _, b := range fn.Blocks {
		for _, in := range b.Instrs {
			isRead := false
			if u, ok := in.(*ssa.UnOp); ok {
				if fa, ok := u.X.(*ssa.FieldAddr); ok && isRawParamsField(fa, "Query") {
					isRead = true
				}
			}
			if call, ok := in.(ssa.CallInstruction); ok && readsQuery(call.Common().StaticCallee(), 0) {
				isRead = true
			}
			if !isRead {
				continue
			}
			n++
			var bad ssa.Instruction
			for _, m := range muts {
				if an.CanReach(in, m) {
					bad = m
				}
			}
			c.R.Check(bad == nil, sprintf("CreateOperationContext/query-read#%d", n), c.ipos(in), "read after the mutators",
				"RawParams.Query is read before the parameter mutators have run: for a hash-only persisted-query request the operation context records (or parses) the empty text instead of the registered one")
		}
	}
	if n == 0 {
		c.R.Fail("query-read-after-mutators: CreateOperationContext never reads RawParams.Query")
	}
}
