package rules

import "verif/internal/pipeline"

// GenSet returns the generator configurations materialised for a tier.  ExecPkg is the import
// path (module-relative) of the package holding the generated executor.
type GenSpec struct {
	pipeline.GenConfig
	ExecPkg string
	Fed     bool // has a federation.go
}

func testserver(name, from string, patch map[string]string) GenSpec {
	g := GenSpec{
		GenConfig: pipeline.GenConfig{
			Name:   name,
			Dir:    "codegen/testserver/" + name,
			Config: "gqlgen.yml",
			Stub:   "stub.go",
			Remove: []string{"resolver.go"},
			Schema: []string{"*.graphql"},
		},
		ExecPkg: "codegen/testserver/" + name,
	}
	if from != "" {
		g.From = "codegen/testserver/" + from
		g.YAMLPatch = patch
	}
	return g
}

func fed(name string) GenSpec {
	return GenSpec{
		GenConfig: pipeline.GenConfig{
			Name:   "fed-" + name,
			Dir:    "plugin/federation",
			Config: "testdata/" + name + "/gqlgen.yml",
			Schema: []string{"testdata/" + name + "/schema.graphql"},
		},
		ExecPkg: "plugin/federation/testdata/" + name + "/generated",
		Fed:     true,
	}
}

// probe: a configuration owned by the framework (/verif/probes/<name>), copied into the snapshot as verif_probes/<name>.
func probe(name string) GenSpec {
	return GenSpec{
		GenConfig: pipeline.GenConfig{
			Name:   "probe-" + name,
			Dir:    "verif_probes/" + name,
			Config: "gqlgen.yml",
			Schema: []string{"graph/*.graphqls"},
		},
		ExecPkg: "verif_probes/" + name + "/graph",
	}
}

// probeOverlay: a probe configuration cloned inside the snapshot with a YAML patch.
func probeOverlay(name, from string, patch map[string]string) GenSpec {
	g := probe(name)
	g.From = "verif_probes/" + from
	g.YAMLPatch = patch
	return g
}

// GenSet lists the configurations for a tier.
func GenSet(tier string) []GenSpec {
	wl := map[string]string{"exec.worker_limit": "1"} // the smallest positive limit: where an off-by-one in a `gt WorkerLimit n` guard shows
	set := []GenSpec{
		testserver("singlefile", "", nil),
		testserver("followschema", "", nil),
		testserver("singlefilewl", "singlefile", wl),
		fed("entityresolver"),
		fed("explicitrequires"),
		fed("computedrequires"),
		probe("customroots"),
		probe("naming"),
		probe("noargs"),
		probe("models"),
		probe("godirectives"),
		probeOverlay("modelsfn", "models", map[string]string{"use_function_syntax_for_execution_context": "true"}),
		probeOverlay("namingfn", "naming", map[string]string{"use_function_syntax_for_execution_context": "true"}),
		probeOverlay("customrootsopt", "customroots", map[string]string{"nullable_input_omittable": "true", "return_pointers_in_unmarshalinput": "true", "call_argument_directives_with_null": "true", "omit_slice_element_pointers": "true"}),
	}
	if tier == "thorough" {
		set = append(set,
			testserver("followschemawl", "followschema", wl),
			testserver("usefunctionsyntaxforexecutioncontext", "", nil),
			testserver("singlefilenulldir", "singlefile", map[string]string{"call_argument_directives_with_null": "true"}),
			testserver("singlefileomittable", "singlefile", map[string]string{"nullable_input_omittable": "true"}),
			testserver("singlefileptrinput", "singlefile", map[string]string{"return_pointers_in_unmarshalinput": "true"}),
			fed("usefunctionsyntaxforexecutioncontext"),
			probeOverlay("customrootswl", "customroots", wl),
			probeOverlay("godirectivesfn", "godirectives", map[string]string{"use_function_syntax_for_execution_context": "true"}),
			// every boolean option at once (found sound by tools_optsweep.py after F24/F25; omit_root_models is left out where a
			// field returns a root type, which that option cannot serve)
			probeOverlay("modelsall", "models", allOptions(true)),
			probeOverlay("customrootsall", "customroots", allOptions(true)),
			probeOverlay("godirectivesall", "godirectives", allOptions(true)),
			probeOverlay("namingall", "naming", allOptions(false)),
			probeOverlay("customrootsfn", "customroots", map[string]string{"use_function_syntax_for_execution_context": "true"}),
			GenSpec{GenConfig: pipeline.GenConfig{Name: "nullabledirectives", Dir: "codegen/testserver/nullabledirectives", Config: "gqlgen.yml", Stub: "stub.go", Schema: []string{"*.graphql"}},
				ExecPkg: "codegen/testserver/nullabledirectives/generated"},
			GenSpec{GenConfig: pipeline.GenConfig{Name: "integration", Dir: "integration/server", Schema: []string{"schema/*.graphql", "schema/*/*.graphql"}},
				ExecPkg: "integration/server"},
			GenSpec{GenConfig: pipeline.GenConfig{Name: "api-workerlimit", Dir: "api/testdata/workerlimit", Config: "gqlgen.yml", Schema: []string{"graph/*.graphqls"}},
				ExecPkg: "api/testdata/workerlimit/graph"},
			GenSpec{GenConfig: pipeline.GenConfig{Name: "api-default", Dir: "api/testdata/default", Config: "gqlgen.yml", Schema: []string{"graph/*.graphqls"}},
				ExecPkg: "api/testdata/default/graph"},
		)
	}
	return set
}

// allOptions: every documented boolean option switched away from its default.
func allOptions(omitRootModels bool) map[string]string {
	m := map[string]string{
		"omit_slice_element_pointers": "true", "omit_getters": "true", "omit_interface_checks": "true", "omit_complexity": "true",
		"omit_gqlgen_file_notice": "true", "omit_gqlgen_version_in_file_notice": "true", "omit_resolver_fields": "true",
		"omit_panic_handler": "true", "use_function_syntax_for_execution_context": "true", "call_argument_directives_with_null": "true",
		"struct_fields_always_pointers": "false", "return_pointers_in_unmarshalinput": "true", "resolvers_always_return_pointers": "true",
		"nullable_input_omittable": "true", "enable_model_json_omitempty_tag": "true", "enable_model_json_omitzero_tag": "true",
	}
	if omitRootModels {
		m["omit_root_models"] = "true"
	}
	return m
}
