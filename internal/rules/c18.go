package rules

import (
	"go/ast"
	"go/token"
	"go/types"
	"os"
	"sort"
	"strings"
	"text/template/parse"

	"golang.org/x/tools/go/ssa"

	"verif/internal/an"
	"verif/internal/pipeline"
)

func init() {
	register(&Property{
		ID:      "C18",
		NeedGen: true,
		Runtime: []string{"./api", "./codegen/...", "./plugin/...", "./internal/...", "."},
		Run:     runC18,
		Explanation: "No map-iteration order and no goroutine scheduling can reach generated output: (map-order) every `range` over a map in the generator packages (api, codegen, codegen/config, codegen/templates, plugin/*, " +
			"internal/*) is classified — (A) order-insensitive body (only writes to maps/sets, deletes, existence tests, returns of a constant), (B) values appended to slices that are sorted before the function " +
			"returns them or reads them, or (C) a reviewed table entry keyed by (function, ranged expression) with a reason; a new unclassified site, or a (B) site whose sort disappears, is a violation; " +
			"(unordered-sources) slices obtained from Template.Templates(), reflect MapKeys or maps.Keys/Values are sorted before use; (accessor-name-agreement) the resolver generator looks up the root accessor of the previous run under a name computed by a helper of the same reviewed class as the one the template uses to emit it (necessary for a second run on an unedited tree to be a no-op); (sequential) the generator packages contain no go statement. (sorted-before-read) side condition of the reviewed modelgen entry: the slices filled in map order are not read, and the ModelBuild is not handed on, before each is sorted.",
		NotDecided:  "idempotence of regeneration on an already generated tree beyond the accessor-name agreement, and independence of the start directory (dynamic; one idempotence defect in the single-file resolver layout is described in DESIGN.md F13 and is not claimed by this check)",
		Assumptions: []string{"go/packages returns order-normalised results; text/template ranges over maps in key order; gofmt/imports sorting is deterministic"},
	})
}

func isGeneratorPkg(p string) bool {
	if !pipeline.InModule(p) || strings.Contains(p, "/testdata") || strings.Contains(p, "/testserver") || strings.Contains(p, "verif_fixtures") || strings.Contains(p, "/_examples") {
		return false
	}
	rel := strings.TrimPrefix(strings.TrimPrefix(p, pipeline.Module), "/")
	switch {
	case rel == "" || rel == "api" || strings.HasPrefix(rel, "codegen") || strings.HasPrefix(rel, "plugin") || strings.HasPrefix(rel, "internal"):
		return true
	}
	return false
}

// c18AllowedCalls: the per-element calls that were read when the entry in c18Reviewed was written.
var c18AllowedCalls = map[string][]string{
	"codegen.BuildData|b.Schema.Types":                                        {"(*codegen.builder).buildInterface", "(*codegen.builder).buildObject"},
	"codegen.*builder.buildDirectives|b.Schema.Directives":                    {"(*codegen/config.Binder).TypeReference"},
	"codegen.generatePerSchema|builds":                                        {"codegen/templates.Render"},
	"codegen.addInterfaces|data.Interfaces":                                   {"codegen.addBuild"},
	"codegen.addReferencedTypes|data.ReferencedTypes":                         {"codegen.addBuild"},
	"codegen/config.*Config.injectTypesFromSchema|c.Schema.Types":             {"(codegen/config.TypeMap).Add", "(codegen/config.TypeMap).ForceGenerate"},
	"codegen/config.TypeMap.ReferencedPackages|tm":                            {"internal/code.QualifyPackagePath"},
	"codegen/config.*Config.autobind|c.Schema.Types":                          {"(*codegen/config.Config).lookupAutobindType", "(codegen/config.TypeMap).Add"},
	"internal/imports.Prune|unused":                                           {"golang.org/x/tools/go/ast/astutil.DeleteNamedImport"},
	"plugin/federation.*Federation.buildEntities|schema.Types":                {"(*plugin/federation.Federation).buildEntity"},
	"plugin/federation.*Federation.generateExplicitRequires|requiresEntities": {"(*internal/rewrite.Rewriter).GetMethodBody", "(*internal/rewrite.Rewriter).GetMethodComment"},
	"plugin/modelgen.*Plugin.MutateConfig|cfg.Schema.Types":                   {"(*plugin/modelgen.Plugin).generateFields"},
	"plugin/modelgen.getExtraFields|modelcfg.ExtraFields":                     {"the function value makeExtraField"},
	"plugin/resolvergen.*Plugin.generatePerSchema|files":                      {"(*internal/rewrite.Rewriter).ExistingImports", "(*internal/rewrite.Rewriter).RemainingSource", "codegen/templates.Render", "plugin/resolvergen.fileExists"},
}

// reviewed class-C sites: "<function>|<ranged expression>" -> reason.
var c18Reviewed = map[string]string{
	"codegen.BuildData|b.Schema.Types":                                        "Objects and Inputs are sorted after the loop, Interfaces is a map keyed by the element; the per-element builders otherwise only extend the Binder's reference list, which buildTypes folds into a map keyed by UniquenessKey (equal keys are built from the same schema/Go type pair and are interchangeable; differing GQL types panic)",
	"codegen.*builder.buildDirectives|b.Schema.Directives":                    "map -> map keyed by the directive name; Binder.TypeReference only extends the reference list (see BuildData)",
	"codegen/config.TypeMap.ReferencedPackages|tm":                            "pkgs is sorted before it is returned; QualifyPackagePath only reads the working directory",
	"plugin/federation.*Federation.buildEntities|schema.Types":                "entities is sorted after the loop; buildEntity only prints warnings besides building the element's own entity",
	"plugin/federation.*Federation.generateExplicitRequires|requiresEntities": "populators is sorted after the loop; the rewriter getters only mark the element's own declaration in a set",
	"plugin/modelgen.getExtraFields|modelcfg.ExtraFields":                     "extraFields is sorted after the loop; makeExtraField is a local closure that builds a value from the element alone",
	"codegen.generatePerSchema|builds":                                        "one output file per key; templates.Render resets its import state per file and carries nothing across files (side condition checked below: no codegen template uses the first-come goModelName registry)",
	"codegen.addInterfaces|data.Interfaces":                                   "map -> map keyed by the element's own key; addBuild creates the per-file Data once per file name from data common to all elements of that file; text/template ranges maps in key order",
	"codegen.addReferencedTypes|data.ReferencedTypes":                         "map -> map keyed by the element's own key (same as addInterfaces)",
	"codegen/config.*Config.injectTypesFromSchema|c.Schema.Types":             "only calls Models.Add / ForceGenerate keyed by the element's own type name (TypeMap is a map)",
	"codegen/config.*Config.autobind|c.Schema.Types":                          "only calls Models.Add keyed by the element's own type name; the inner loop is over a slice in configuration order",
	"codegen/config.*Config.autobind|c.Models":                                "rewrites c.Models[i].Model[j] for the element's own key i",
	"internal/code.*Packages.CleanupUserPackages|p.packages":                  "unsorted-ok: collects keys only to delete them all: a set difference",
	"internal/code.*Packages.Errors|p.packages":                               "unsorted-ok: the list is only used to report a failed generation (no file is written in that case)",
	"internal/imports.Prune|unused":                                           "deletes a set of imports from the AST; the result is re-printed and import-sorted by imports.Process",
	"plugin/federation.*Federation.generateExplicitRequires|requiresImports":  "unsorted-ok: import list of one file: order is normalised by the import sorting of imports.Process in templates.Render; an alias collision aborts generation in any order",
	"plugin/modelgen.*Plugin.MutateConfig|cfg.Schema.Types":                   "unsorted-ok: Enums, Models and Interfaces are sorted right after the loop; Scalars is only used for map-keyed Models.Add and is not rendered by the model template",
	"plugin/resolvergen.*Plugin.generatePerSchema|files":                      "per-file attributes are set on the element itself",
	"plugin/resolvergen.*Plugin.generatePerSchema|files#2":                    "one output file per key, rendered independently (templates.Render keeps no state across files)",
}

func runC18(c *Ctx) {
	c.R.Rule("map-order", "every range over a map in the generator packages has an order-insensitive body, or feeds only slices that are sorted before they are returned/read, or is a reviewed table entry", 20)
	type site struct {
		fn   *ssa.Function
		rng  *ast.RangeStmt
		key  string
		expr string
	}
	var sites []site
	for _, path := range c.W.ModulePackages() {
		if !isGeneratorPkg(path) {
			continue
		}
		tp := c.W.TPkg(path)
		for _, f := range tp.Syntax {
			var stack []ast.Node
			ast.Inspect(f, func(n ast.Node) bool {
				if n == nil {
					stack = stack[:len(stack)-1]
					return true
				}
				stack = append(stack, n)
				rs, ok := n.(*ast.RangeStmt)
				if !ok {
					return true
				}
				tv, ok := tp.TypesInfo.Types[rs.X]
				if !ok {
					return true
				}
				if _, isMap := tv.Type.Underlying().(*types.Map); !isMap {
					return true
				}
				fname := "?"
				for i := len(stack) - 1; i >= 0; i-- {
					if fd, ok := stack[i].(*ast.FuncDecl); ok {
						fname = fd.Name.Name
						if fd.Recv != nil && len(fd.Recv.List) > 0 {
							fname = types.ExprString(fd.Recv.List[0].Type) + "." + fname
						}
						break
					}
				}
				rel := strings.TrimPrefix(strings.TrimPrefix(path, pipeline.Module), "/")
				if rel == "" {
					rel = "main"
				}
				expr := types.ExprString(rs.X)
				key := rel + "." + fname + "|" + expr
				cls, why := c.classifyMapRange(tp.TypesInfo, rs, stack)
				pos := c.pos(rs.Pos())
				effs := ""
				if i := strings.Index(why, "\x01"); i >= 0 {
					why, effs = why[:i], why[i+1:]
				}
				if reason, ok := c18Reviewed[key]; ok && cls == "" {
					// a reviewed entry excuses the per-element calls it names; an unsorted append is excused only when the entry says so
					if strings.HasPrefix(why, "UNSORTED:") && !strings.HasPrefix(reason, "unsorted-ok: ") {
						c.R.Bad(key, pos, "map iteration order can reach the generated output: "+strings.TrimPrefix(why, "UNSORTED:"))
						return true
					}
					var extra []string
					if strings.HasPrefix(effs, "EFFECTS:") {
						for _, e := range strings.Split(strings.TrimPrefix(effs, "EFFECTS:"), "\x00") {
							callee := e
							if i := strings.Index(e, " per element"); i > 0 {
								callee = strings.TrimPrefix(e[:i], "calls ")
							}
							allowed := false
							for _, a := range c18AllowedCalls[key] {
								if a == callee {
									allowed = true
								}
							}
							if !allowed {
								extra = append(extra, e)
							}
						}
					}
					if len(extra) > 0 {
						c.R.Bad(key, pos, "this reviewed map range now makes a per-element call that was not part of the review: "+strings.Join(extra, "; ")+" — map iteration order can reach generated output through it")
						return true
					}
					c.R.OK(key, pos, "class C (reviewed): "+strings.TrimPrefix(reason, "unsorted-ok: "))
					return true
				}
				if why == "" && effs != "" {
					why = strings.ReplaceAll(strings.TrimPrefix(effs, "EFFECTS:"), "\x00", "; ")
				}
				why = strings.TrimPrefix(why, "UNSORTED:")
				switch cls {
				case "A":
					c.R.OK(key, pos, "class A: "+why)
				case "B":
					c.R.OK(key, pos, "class B: "+why)
				default:
					c.R.Bad(key, pos, "map iteration order can reach the generated output: "+why)
				}
				return true
			})
		}
	}
	_ = sites

	// side condition of the reviewed entry for codegen.generatePerSchema
	bad := ""
	ntpl := 0
	if tp := c.W.TPkg(modPath("codegen")); tp != nil && len(tp.GoFiles) > 0 {
		dir := tp.GoFiles[0][:strings.LastIndex(tp.GoFiles[0], "/")]
		ents, _ := os.ReadDir(dir)
		for _, e := range ents {
			if !strings.HasSuffix(e.Name(), ".gotpl") {
				continue
			}
			ntpl++
			b, _ := os.ReadFile(dir + "/" + e.Name())
			tr := parse.New(e.Name())
			tr.Mode = parse.SkipFuncCheck
			trees := map[string]*parse.Tree{}
			if _, err := tr.Parse(string(b), "{{", "}}", trees); err != nil {
				bad = e.Name() + " does not parse: " + err.Error()
				continue
			}
			for _, t := range trees {
				if t.Root != nil && usesFunc(t.Root, "goModelName", "goPrivateModelName") {
					bad = e.Name() + " calls the first-come goModelName registry while files are rendered in map order"
				}
			}
		}
	}
	c.R.Check(bad == "" && ntpl > 5, "codegen.generatePerSchema|builds/side-condition", "codegen/*.gotpl", sprintf("%d templates parsed, none uses the order-dependent model-name registry", ntpl), bad)

	c.R.Rule("unordered-sources", "slices obtained from (*template.Template).Templates(), reflect.Value.MapKeys or maps.Keys/Values in the generator packages are sorted (sort.* / slices.Sort*) before they are ranged over or returned", 1)
	n := 0
	for _, fn := range c.W.FuncsIn(isGeneratorPkg) {
		for _, call := range an.CallsIn(fn, func(_ ssa.CallInstruction, ci an.CalleeInfo) bool {
			nm := ci.FullName()
			return nm == "(*text/template.Template).Templates" || nm == "(reflect.Value).MapKeys" || strings.HasPrefix(nm, "maps.Keys") || strings.HasPrefix(nm, "maps.Values")
		}) {
			n++
			vc, _ := call.(*ssa.Call)
			key := shortFn(topFn(fn)) + "→" + an.CalleeOf(call).FullName()
			// the result (or a slice built by ranging over it) must reach a sort call before any other range/return
			sorted := false
			for _, b := range fn.Blocks {
				for _, in := range b.Instrs {
					sc, ok := in.(ssa.CallInstruction)
					if !ok || !isSortCall(an.CalleeOf(sc).FullName()) {
						continue
					}
					if an.CanReach(call, sc) {
						sorted = true
					}
				}
			}
			_ = vc
			c.R.Check(sorted, key, c.ipos(call), "followed by a sort before use", "an unordered collection is used without sorting: output order depends on map iteration order")
		}
	}
	if n == 0 {
		c.R.Fail("unordered-sources found no site (templates.Render collects roots from Templates())")
	}

	c18AccessorNameAgreement(c)
	c18SortedBeforeRead(c)
	c18Comparators(c)
	c18Idempotence(c)
	c18EmittedDeclsMarked(c)
	c19CopiedWriters(c)
	c17Materialise(c)
	structNameAgreement(c)

	c.R.Rule("sequential", "the generator packages contain no go statement (scheduling and GOMAXPROCS cannot influence gqlgen's own generator code)", 1)
	ngo := 0
	for _, fn := range c.W.FuncsIn(isGeneratorPkg) {
		for _, b := range fn.Blocks {
			for _, in := range b.Instrs {
				if g, ok := in.(*ssa.Go); ok {
					ngo++
					c.R.Bad(shortFn(topFn(fn))+"/go", c.ipos(g), "the generator starts a goroutine: its output can depend on scheduling")
				}
			}
		}
	}
	// positive fixture
	nfx := 0
	for _, fn := range c.W.FuncsIn(func(p string) bool { return p == modPath("verif_fixtures/gostmt") }) {
		for _, b := range fn.Blocks {
			for _, in := range b.Instrs {
				if _, ok := in.(*ssa.Go); ok {
					nfx++
				}
			}
		}
	}
	c.R.Check(nfx == 1, "fixture:gostmt", "verif_fixtures/gostmt", "positive example seen by the same scan", "the positive fixture's go statement was not seen: the scan has gone blind")
	c.R.OK("generator/scan", "-", sprintf("%d go statements in generator packages", ngo))
}

func isSortCall(n string) bool {
	return strings.HasPrefix(n, "sort.") || strings.HasPrefix(n, "slices.Sort") || strings.HasPrefix(n, "(sort.")
}

// classifyMapRange: "A" order-insensitive, "B" appends to slices sorted later in the enclosing function, "" unknown.
func (c *Ctx) classifyMapRange(info *types.Info, rs *ast.RangeStmt, stack []ast.Node) (string, string) {
	var appended []types.Object // slices appended to in the body
	insensitive := true
	why := ""
	var visit func(n ast.Node) bool
	visit = func(n ast.Node) bool {
		switch x := n.(type) {
		case *ast.AssignStmt:
			for i, lhs := range x.Lhs {
				switch l := lhs.(type) {
				case *ast.IndexExpr:
					// m[k] = v on a map: order-insensitive (keyed by the element) — slices indexed are not
					if tv, ok := info.Types[l.X]; ok {
						if _, isMap := tv.Type.Underlying().(*types.Map); isMap {
							continue
						}
					}
					insensitive, why = false, "indexed store into a non-map"
				case *ast.Ident:
					if l.Name == "_" {
						continue
					}
					obj := info.ObjectOf(l)
					// x = append(x, ...)
					if i < len(x.Rhs) {
						if call, ok := x.Rhs[i].(*ast.CallExpr); ok {
							if id, ok := call.Fun.(*ast.Ident); ok && id.Name == "append" {
								if !declaredInside(info, obj, rs) {
									appended = append(appended, obj)
								}
								continue
							}
						}
					}
					if x.Tok == token.DEFINE {
						continue // a new local per iteration
					}
					if obj != nil && an.IsErrorType(obj.Type()) {
						continue // error plumbing: which element's error aborts generation does not reach any output
					}
					// assignment to an outer variable: last-writer-wins depends on order, unless it is a boolean/flag set to a constant
					if len(x.Rhs) > i {
						if isConstExpr(info, x.Rhs[i]) {
							continue
						}
					}
					if declaredInside(info, obj, rs) {
						continue
					}
					insensitive, why = false, "assigns outer variable "+l.Name+" from the iteration"
				case *ast.SelectorExpr:
					// field store: depends on order only if the target is outside the loop
					if root := rootIdent(l); root != nil && declaredInside(info, info.ObjectOf(root), rs) {
						continue
					}
					if i < len(x.Rhs) {
						if call, ok := x.Rhs[i].(*ast.CallExpr); ok {
							if id, ok := call.Fun.(*ast.Ident); ok && id.Name == "append" {
								if sel := info.ObjectOf(l.Sel); sel != nil {
									appended = append(appended, sel)
									continue
								}
							}
						}
						if isConstExpr(info, x.Rhs[i]) {
							continue
						}
					}
					insensitive, why = false, "stores into field "+types.ExprString(l)+" from the iteration"
				}
			}
		case *ast.ReturnStmt:
			// returning from inside the loop picks "the first" element: order-sensitive unless constants only
			for _, r := range x.Results {
				if !isConstExpr(info, r) {
					// returning an error built from the element is order-sensitive only in which error is reported; accepted as
					// insensitive for generated output when the function returns an error value (generation aborts)
					if tv, ok := info.Types[r]; ok && an.IsErrorType(tv.Type) {
						continue
					}
					insensitive, why = false, "returns a value taken from the iteration"
				}
			}
		case *ast.ExprStmt:
			if call, ok := x.X.(*ast.CallExpr); ok {
				if id, ok := call.Fun.(*ast.Ident); ok && (id.Name == "delete" || id.Name == "panic") {
					return true
				}
				// method call with side effects: order-sensitive unless the receiver is a map-like registry (Add keyed by element)
				insensitive, why = false, "calls "+types.ExprString(call.Fun)+" per element"
			}
		case *ast.SendStmt, *ast.GoStmt:
			insensitive, why = false, "sends/starts goroutines per element"
		}
		return true
	}
	ast.Inspect(rs.Body, visit)
	// every call in the body (also on the right-hand side of assignments and in conditions) must be read-only
	var effects []string
	ast.Inspect(rs.Body, func(n ast.Node) bool {
		call, ok := n.(*ast.CallExpr)
		if !ok {
			return true
		}
		if why2 := c.callEffect(info, call); why2 != "" {
			effects = append(effects, why2)
		}
		return true
	})
	effectsStr := ""
	if len(effects) > 0 {
		sort.Strings(effects)
		insensitive = false
		effectsStr = "EFFECTS:" + strings.Join(effects, "\x00")
	}
	defer func() { _ = effectsStr }()
	if len(appended) == 0 && insensitive {
		return "A", "body only writes maps/locals"
	}
	if len(appended) > 0 {
		// each appended slice must be sorted later in the enclosing function
		var fnBody *ast.BlockStmt
		for i := len(stack) - 1; i >= 0; i-- {
			switch f := stack[i].(type) {
			case *ast.FuncDecl:
				fnBody = f.Body
			case *ast.FuncLit:
				if fnBody == nil {
					fnBody = f.Body
				}
			}
			if fnBody != nil {
				break
			}
		}
		allSorted := true
		var names []string
		for _, obj := range appended {
			sorted := false
			if fnBody != nil && obj != nil {
				ast.Inspect(fnBody, func(n ast.Node) bool {
					call, ok := n.(*ast.CallExpr)
					if !ok || call.Pos() < rs.End() {
						return true
					}
					fun := types.ExprString(call.Fun)
					if !(strings.HasPrefix(fun, "sort.") || strings.HasPrefix(fun, "slices.Sort")) {
						return true
					}
					for _, a := range call.Args {
						ast.Inspect(a, func(m ast.Node) bool {
							if id, ok := m.(*ast.Ident); ok && info.ObjectOf(id) == obj {
								sorted = true
							}
							return true
						})
					}
					return true
				})
			}
			if obj != nil {
				names = append(names, obj.Name())
			}
			if !sorted {
				allSorted = false
				why = "UNSORTED:slice " + obj.Name() + " is filled in map order and not sorted afterwards"
			}
		}
		if allSorted && (insensitive || why == "") {
			sort.Strings(names)
			return "B", "appends to " + strings.Join(names, ",") + ", sorted afterwards"
		}
		if allSorted && !insensitive {
			return "", why + "\x01" + effectsStr
		}
		return "", why + "\x01" + effectsStr
	}
	return "", why + "\x01" + effectsStr
}

func isConstExpr(info *types.Info, e ast.Expr) bool {
	tv, ok := info.Types[e]
	if ok && tv.Value != nil {
		return true
	}
	if id, ok := e.(*ast.Ident); ok && (id.Name == "true" || id.Name == "false" || id.Name == "nil") {
		return true
	}
	return false
}

func rootIdent(e ast.Expr) *ast.Ident {
	for {
		switch x := e.(type) {
		case *ast.Ident:
			return x
		case *ast.SelectorExpr:
			e = x.X
		case *ast.IndexExpr:
			e = x.X
		case *ast.StarExpr:
			e = x.X
		case *ast.ParenExpr:
			e = x.X
		default:
			return nil
		}
	}
}

func declaredInside(info *types.Info, obj types.Object, rs *ast.RangeStmt) bool {
	return obj != nil && obj.Pos() >= rs.Pos() && obj.Pos() < rs.End()
}

func usesFunc(n parse.Node, names ...string) bool {
	found := false
	var walk func(n parse.Node)
	walk = func(n parse.Node) {
		if n == nil || found {
			return
		}
		switch x := n.(type) {
		case *parse.ListNode:
			if x == nil {
				return
			}
			for _, c := range x.Nodes {
				walk(c)
			}
		case *parse.ActionNode:
			walk(x.Pipe)
		case *parse.PipeNode:
			if x == nil {
				return
			}
			for _, c := range x.Cmds {
				walk(c)
			}
		case *parse.CommandNode:
			for _, a := range x.Args {
				walk(a)
			}
		case *parse.IdentifierNode:
			for _, nm := range names {
				if x.Ident == nm {
					found = true
				}
			}
		case *parse.IfNode:
			walk(x.Pipe)
			walk(x.List)
			walk(x.ElseList)
		case *parse.RangeNode:
			walk(x.Pipe)
			walk(x.List)
			walk(x.ElseList)
		case *parse.WithNode:
			walk(x.Pipe)
			walk(x.List)
			walk(x.ElseList)
		case *parse.TemplateNode:
			walk(x.Pipe)
		}
	}
	walk(n)
	return found
}

var pureExternal = []string{"strings.", "fmt.Sprint", "fmt.Errorf", "errors.", "strconv.", "path/filepath.", "path.", "unicode.", "unicode/utf8.", "bytes.", "regexp.", "(*regexp.Regexp).", "go/types.", "(*go/types.", "(go/types.", "reflect.", "(reflect.", "sort.Strings", "sort.Slice", "slices.", "maps.", "(*github.com/vektah/gqlparser/v2/ast.", "(github.com/vektah/gqlparser/v2/ast.", "github.com/vektah/gqlparser/v2/ast.", "go/token.", "(*go/ast.", "go/ast.", "(*strings.Builder).", "(*golang.org/x/tools/go/packages.", "time.Now", "golang.org/x/text"}

var readOnlyCache = map[*ssa.Function]string{}

// readOnly returns "" if fn (and its static module callees) writes no memory that outlives the call and performs no I/O.
func (c *Ctx) readOnly(fn *ssa.Function, depth int) string {
	if v, ok := readOnlyCache[fn]; ok {
		return v
	}
	readOnlyCache[fn] = "" // cycles: assume ok, decided by the other members
	res := c.readOnly1(fn, depth)
	readOnlyCache[fn] = res
	return res
}

// reviewed pure functions of the module that the ownership scan cannot see through (they fill a caller-owned buffer through a pointer)
var pureModuleFuncs = map[string]bool{
	"github.com/99designs/gqlgen/codegen/templates.ToGo":        true,
	"github.com/99designs/gqlgen/codegen/templates.ToGoPrivate": true,
}

func (c *Ctx) readOnly1(fn *ssa.Function, depth int) string {
	if pureModuleFuncs[fn.String()] {
		return ""
	}
	if len(fn.Blocks) == 0 {
		n := fn.String()
		for _, p := range pureExternal {
			if strings.HasPrefix(n, p) {
				return ""
			}
		}
		return "calls " + n + " (no source)"
	}
	if !pipeline.InModule(pipeline.FuncPkgPath(fn)) {
		n := fn.String()
		for _, p := range pureExternal {
			if strings.HasPrefix(n, p) {
				return ""
			}
		}
		return "calls " + n
	}
	if depth > 6 {
		return "call chain too deep to classify"
	}
	for _, f := range an.WithClosures(fn) {
		for _, b := range f.Blocks {
			for _, in := range b.Instrs {
				switch x := in.(type) {
				case *ssa.Store:
					if !storesToOwnMemory(x.Addr, fn) {
						return shortFn(fn) + " writes memory it does not own"
					}
				case *ssa.MapUpdate:
					if !ownValue(x.Map, fn) {
						return shortFn(fn) + " updates a map it does not own"
					}
				case *ssa.Send, *ssa.Go:
					return shortFn(fn) + " sends/spawns"
				case ssa.CallInstruction:
					cc := x.Common()
					if _, isB := cc.Value.(*ssa.Builtin); isB {
						if cc.Value.Name() == "delete" && !ownValue(cc.Args[0], fn) {
							return shortFn(fn) + " deletes from a map it does not own"
						}
						continue
					}
					if callee := cc.StaticCallee(); callee != nil {
						if callee.Parent() != nil {
							continue // its own closure, scanned above
						}
						if why := c.readOnly(callee, depth+1); why != "" {
							return why
						}
						continue
					}
					if cc.IsInvoke() {
						switch cc.Method.Name() {
						case "Error", "String", "Name", "Pos", "Type", "Underlying", "Pkg", "Path", "Obj", "Kind", "Len", "At", "Elem", "Exported", "Id":
							continue
						}
						// interface methods of go/types and gqlparser are getters
						if pk := cc.Method.Pkg(); pk != nil && (pk.Path() == "go/types" || strings.HasPrefix(pk.Path(), "github.com/vektah/gqlparser")) {
							continue
						}
						return shortFn(fn) + " calls interface method " + cc.Method.FullName()
					}
					// dynamic call of a function value
					return shortFn(fn) + " calls a function value"
				}
			}
		}
	}
	return ""
}

func ownValue(v ssa.Value, fn *ssa.Function) bool {
	for _, d := range an.Defs(v) {
		switch x := d.(type) {
		case *ssa.MakeMap, *ssa.MakeSlice, *ssa.Alloc:
			if !definedIn(x.(ssa.Value), fn) {
				return false
			}
		default:
			return false
		}
	}
	return true
}

func storesToOwnMemory(addr ssa.Value, fn *ssa.Function) bool {
	for i := 0; i < 12; i++ {
		switch x := addr.(type) {
		case *ssa.Alloc:
			return definedIn(x, fn)
		case *ssa.FieldAddr:
			addr = x.X
		case *ssa.IndexAddr:
			addr = x.X
		case *ssa.UnOp:
			if x.Op == token.MUL {
				if an.IsLocalCell(x.X) {
					// pointer held in a local variable: own only if everything stored in it is a fresh allocation of fn
					root := an.RootAlloc(x.X)
					if !definedIn(root, fn) {
						return false
					}
					for _, st := range an.CellStores(x.X) {
						if !ownValue(st.Val, fn) {
							return false
						}
					}
					return true
				}
				addr = x.X
				continue
			}
			return false
		case *ssa.MakeSlice:
			return definedIn(x, fn)
		case *ssa.FreeVar:
			return definedIn(an.RootAlloc(x), fn)
		default:
			return false
		}
	}
	return false
}

// callEffect: "" if the call expression is to a read-only function (or a builtin / conversion); otherwise what it does.
func (c *Ctx) callEffect(info *types.Info, call *ast.CallExpr) string {
	if tv, ok := info.Types[call.Fun]; ok && tv.IsType() {
		return "" // conversion
	}
	var obj types.Object
	switch f := call.Fun.(type) {
	case *ast.Ident:
		obj = info.Uses[f]
	case *ast.SelectorExpr:
		obj = info.Uses[f.Sel]
	}
	switch o := obj.(type) {
	case *types.Builtin:
		return ""
	case *types.Func:
		fn := c.W.Prog.FuncValue(o)
		if fn == nil {
			// interface method
			if o.Pkg() != nil && (o.Pkg().Path() == "go/types" || strings.HasPrefix(o.Pkg().Path(), "github.com/vektah/gqlparser")) {
				return ""
			}
			switch o.Name() {
			case "Error", "String", "Name":
				return ""
			}
			return "calls interface method " + o.FullName() + " per element"
		}
		if why := c.readOnly(fn, 0); why != "" {
			return "calls " + shortFn(fn) + " per element, which is not read-only (" + why + ")"
		}
		return ""
	case *types.Var:
		// a function-typed parameter of the enclosing function: read-only if every static caller hands in a read-only function
		if why, decided := c.paramFuncEffect(o); decided {
			if why == "" {
				return ""
			}
			return "calls the function value " + o.Name() + " per element, and a caller passes a function that is not read-only (" + why + ")"
		}
		return "calls the function value " + o.Name() + " per element"
	}
	return "calls an unresolved function per element"
}

// paramFuncEffect: o is a func-typed parameter of some generator function F; decided=true when every static call site of F in
// the generator packages passes a function literal or named function for it — why is "" when all of them are read-only.
func (c *Ctx) paramFuncEffect(o *types.Var) (why string, decided bool) {
	var owner *ssa.Function
	idx := -1
	for _, fn := range c.W.FuncsIn(isGeneratorPkg) {
		for i, p := range fn.Params {
			if p.Object() == types.Object(o) {
				owner, idx = fn, i
			}
		}
	}
	if owner == nil {
		return "", false
	}
	n := 0
	for _, fn := range c.W.FuncsIn(isGeneratorPkg) {
		for _, call := range an.CallsIn(fn, func(_ ssa.CallInstruction, ci an.CalleeInfo) bool { return ci.Static == owner }) {
			n++
			args := call.Common().Args
			if idx >= len(args) {
				return "", false
			}
			var target *ssa.Function
			switch x := an.Strip(args[idx]).(type) {
			case *ssa.MakeClosure:
				target, _ = x.Fn.(*ssa.Function)
			case *ssa.Function:
				target = x
			}
			if target == nil {
				return "", false
			}
			if w := c.readOnly(target, 0); w != "" {
				return shortFn(target) + ": " + w, true
			}
		}
	}
	if n == 0 {
		return "", false
	}
	return "", true
}
