package rules

import (
	"go/token"
	"go/types"
	"strings"

	"golang.org/x/tools/go/ssa"

	"verif/internal/an"
)

// Generic discipline rules written after the fourth small-slip round (eight properties).

// unconditionalSelfRecursion: a function that calls itself on every path from its entry never returns.
func unconditionalSelfRecursion(c *Ctx, rule string, pkgs ...string) {
	c.R.Rule(rule, "no function of "+strings.Join(shortPkgs(pkgs), ", ")+" calls itself (same receiver and arguments handed through) in a block that dominates every return: such a call recurses until the stack overflows", 0)
	n := 0
	for _, fn := range c.moduleFuncs(inPkgs(pkgs)) {
		if len(fn.Blocks) == 0 || fn.Synthetic != "" {
			continue
		}
		n++
		for _, b := range fn.Blocks {
			for _, in := range b.Instrs {
				call, ok := in.(ssa.CallInstruction)
				if !ok {
					continue
				}
				self := call.Common().StaticCallee() == fn
				if !self && call.Common().IsInvoke() && fn.Signature.Recv() != nil && call.Common().Method.Name() == fn.Name() {
					// an interface method invoked on the receiver itself
					if len(fn.Params) > 0 && an.Strip(call.Common().Value) == ssa.Value(fn.Params[0]) {
						self = true
					}
					if mi, ok := call.Common().Value.(*ssa.MakeInterface); ok && len(fn.Params) > 0 && an.Strip(mi.X) == ssa.Value(fn.Params[0]) {
						self = true
					}
				}
				if !self {
					continue
				}
				if _, isGo := in.(*ssa.Go); isGo {
					continue
				}
				all := true
				for _, r := range an.Returns(fn) {
					if !(b == r.Block() || b.Dominates(r.Block())) {
						all = false
					}
				}
				if all && len(an.Returns(fn)) > 0 {
					c.R.Bad(c.fnKey(fn)+"/self-call", c.ipos(in), "the function calls itself on every path before it can return: the first call never comes back (stack overflow kills the process)")
				}
			}
		}
	}
	c.R.Note(rule+"/examined", "-", sprintf("%d functions examined", n))
}

// jsonUnmarshalNeedsPointer: the target handed to a JSON decoder is a pointer.
func jsonUnmarshalNeedsPointer(c *Ctx, rule string, pkgs ...string) {
	c.R.Rule(rule, "every encoding/json.Unmarshal / (*Decoder).Decode in "+strings.Join(shortPkgs(pkgs), ", ")+" is handed a pointer (a value of pointer, map or interface-of-unknown type), never a plain value boxed into an interface", 3)
	n := 0
	for _, fn := range c.moduleFuncs(inPkgs(pkgs)) {
		for _, call := range an.CallsIn(fn, func(_ ssa.CallInstruction, ci an.CalleeInfo) bool {
			f := ci.FullName()
			return f == "encoding/json.Unmarshal" || f == "(*encoding/json.Decoder).Decode"
		}) {
			args := call.Common().Args
			tgt := args[len(args)-1]
			mi, ok := tgt.(*ssa.MakeInterface)
			if !ok {
				n++
				c.R.OK(c.fnKey(fn)+"/json-target", c.ipos(call), "an interface value handed through")
				continue
			}
			n++
			good := false
			switch mi.X.Type().Underlying().(type) {
			case *types.Pointer, *types.Map, *types.Interface:
				good = true
			}
			if tp, ok := mi.X.Type().(*types.TypeParam); ok {
				_ = tp
				good = true // decided by the instantiation
			}
			c.R.Check(good, c.fnKey(fn)+"/json-target", c.ipos(call), "a pointer", "the JSON decoder is handed a plain "+mi.X.Type().String()+" value instead of a pointer to it: decoding fails with `json: Unmarshal(non-pointer …)` and the value is never set")
		}
	}
	if n < 3 {
		c.R.Fail("%s: only %d JSON decode calls found", rule, n)
	}
}

// recoverComparedWithNil: a recover handler acts on every recovered value, not only on values of one type.
func recoverComparedWithNil(c *Ctx, rule string, gen bool, pkgs ...string) {
	c.R.Rule(rule, "every recover() whose result decides whether the handler runs is compared with nil; it is not gated by a type assertion (panic(\"text\") would be swallowed)", 3)
	n := 0
	for _, fn := range c.scopeFuncs(pkgs, gen) {
		for _, b := range fn.Blocks {
			for _, in := range b.Instrs {
				call, ok := in.(*ssa.Call)
				if !ok {
					continue
				}
				bi, ok := call.Call.Value.(*ssa.Builtin)
				if !ok || bi.Name() != "recover" {
					continue
				}
				n++
				cmpNil, assertGate := false, false
				for _, r := range an.Referrers(call) {
					switch x := r.(type) {
					case *ssa.BinOp:
						if (x.Op == token.NEQ || x.Op == token.EQL) && (an.IsNilConst(x.X) || an.IsNilConst(x.Y)) {
							cmpNil = true
						}
					case *ssa.TypeAssert:
						if x.CommaOk {
							for _, r2 := range an.Referrers(x) {
								if ex, ok := r2.(*ssa.Extract); ok && ex.Index == 1 {
									for _, r3 := range an.Referrers(ex) {
										if _, isIf := r3.(*ssa.If); isIf {
											assertGate = true
										}
									}
								}
							}
						}
					}
				}
				if len(an.Referrers(call)) == 0 {
					continue // `recover()` alone: swallow everything
				}
				c.R.Check(cmpNil || !assertGate, c.fnKey(topFn(fn))+"/recover", c.ipos(in), "compared with nil", "the handler runs only when the recovered value has one particular type: a panic with any other value (panic(\"BOOM\")) is swallowed — the recover hook is never called and the client gets no error")
			}
		}
	}
	if n < 3 {
		c.R.Fail("%s: only %d recover() calls found", rule, n)
	}
}

// loopOuterStateEscapes: inside a loop, the address of a variable declared outside the loop (and assigned in the loop), or a
// slice that accumulates across iterations, is not stored into an object built per iteration: every element would share it.
func loopOuterStateEscapes(c *Ctx, rule string, pkgs ...string) {
	c.R.Rule(rule, "in "+strings.Join(shortPkgs(pkgs), ", ")+": a struct built inside a loop does not keep (a) the address of a variable that lives outside the loop and is assigned inside it, or (b) a slice that is appended to across iterations (a declaration hoisted out of the loop): all elements would share the last / the accumulated value", 1)
	n := 0
	for _, fn := range c.moduleFuncs(inPkgs(pkgs)) {
		if ls := an.Loops(fn); len(ls) > 0 {
			c.R.OK(c.fnKey(fn)+"/loops", c.pos(fn.Pos()), sprintf("%d loops examined", len(ls))) // a violation found below is reported next to it
		}
		for _, l := range an.Loops(fn) {
			n++
			// (a) addresses of outer cells assigned in the loop
			for b := range l.Blocks {
				for _, in := range b.Instrs {
					st, ok := in.(*ssa.Store)
					if !ok {
						continue
					}
					fa, ok := st.Addr.(*ssa.FieldAddr)
					if !ok {
						continue
					}
					// the object is built in the loop
					obj, ok := an.RootAlloc(fa.X).(*ssa.Alloc)
					if !ok || !l.Blocks[obj.Block()] {
						continue
					}
					if cell, ok := an.Strip(st.Val).(*ssa.Alloc); ok && !l.Blocks[cell.Block()] && cell.Parent() == fn {
						assigned := false
						for _, s2 := range an.CellStores(cell) {
							if l.Blocks[s2.Block()] {
								assigned = true
							}
						}
						if assigned {
							c.R.Bad(c.fnKey(fn)+"/outer-address:"+cell.Comment, c.ipos(in), "an object built per iteration keeps the address of "+cell.Comment+", which lives outside the loop and is overwritten in every iteration: every object ends up seeing the last iteration's value")
						}
					}
					// (b) an accumulating slice
					if phi := headerPhiOf(l, st.Val); phi != nil {
						if _, isSl := phi.Type().Underlying().(*types.Slice); isSl && accumulates(l, phi) {
							c.R.Bad(c.fnKey(fn)+"/accumulated:"+phi.Comment, c.ipos(in), "an object built per iteration is handed the slice "+phi.Comment+", which keeps growing across iterations (it is declared outside the loop): each element also carries the entries of all elements before it")
						}
					}
				}
			}
		}
	}
	if n == 0 {
		c.R.Fail("%s: no loop found", rule)
	}
}

// headerPhiOf: v is (derived by append from) a phi at the header of l or of a loop enclosing the store.
func headerPhiOf(l *an.Loop, v ssa.Value) *ssa.Phi {
	seen := map[ssa.Value]bool{}
	var find func(v ssa.Value, d int) *ssa.Phi
	find = func(v ssa.Value, d int) *ssa.Phi {
		if v == nil || d > 4 || seen[v] {
			return nil
		}
		seen[v] = true
		switch x := v.(type) {
		case *ssa.Phi:
			if x.Block() == l.Header {
				return x
			}
			for _, e := range x.Edges {
				if p := find(e, d+1); p != nil {
					return p
				}
			}
		case *ssa.Call:
			if bi, ok := x.Call.Value.(*ssa.Builtin); ok && bi.Name() == "append" {
				return find(x.Call.Args[0], d+1)
			}
		}
		return nil
	}
	return find(v, 0)
}

// accumulates: a back-edge value of the header phi is reached from the phi itself through at least one append
// (possibly through the header phi of an inner loop).
func accumulates(l *an.Loop, phi *ssa.Phi) bool {
	for i, e := range phi.Edges {
		if !l.Blocks[phi.Block().Preds[i]] {
			continue
		}
		type key struct {
			v ssa.Value
			a bool
		}
		seen := map[key]bool{}
		var dep func(v ssa.Value, appended bool, d int) bool
		dep = func(v ssa.Value, appended bool, d int) bool {
			if v == nil || d > 8 {
				return false
			}
			if v == ssa.Value(phi) {
				return appended
			}
			if seen[key{v, appended}] {
				return false
			}
			seen[key{v, appended}] = true
			switch x := v.(type) {
			case *ssa.Phi:
				for _, e2 := range x.Edges {
					if dep(e2, appended, d+1) {
						return true
					}
				}
			case *ssa.Call:
				if bi, ok := x.Call.Value.(*ssa.Builtin); ok && bi.Name() == "append" {
					return dep(x.Call.Args[0], true, d+1)
				}
			}
			return false
		}
		if dep(e, false, 0) {
			return true
		}
	}
	return false
}

// loopInvariantFilter: a test that decides whether a loop element is skipped looks at the element.
func loopInvariantFilter(c *Ctx, rule string, pkgs ...string) {
	c.R.Rule(rule, "in "+strings.Join(shortPkgs(pkgs), ", ")+": inside a range loop, a directive lookup (…Directives.ForName) that decides a `continue` is made on the loop's element, not on something that is the same for every element", 1)
	n := 0
	for _, fn := range c.moduleFuncs(inPkgs(pkgs)) {
		for _, l := range an.Loops(fn) {
			for b := range l.Blocks {
				for _, in := range b.Instrs {
					call, ok := in.(*ssa.Call)
					if !ok || !strings.HasSuffix(an.CalleeOf(call).FullName(), "DirectiveList).ForName") {
						continue
					}
					// does its result decide a branch of the loop?
					decides := false
					for _, r := range an.Referrers(call) {
						if bo, ok := r.(*ssa.BinOp); ok {
							for _, r2 := range an.Referrers(bo) {
								switch r2.(type) {
								case *ssa.If, *ssa.Phi:
									decides = true
								}
							}
						}
					}
					if !decides {
						continue
					}
					n++
					variant := dependsOnLoop(call.Call.Args[0], l, 0, map[ssa.Value]bool{})
					c.R.Check(variant, c.fnKey(fn)+"/filter@"+loopKey(l), c.ipos(in), "looks at the loop's element", "the directive that decides whether an element is skipped is looked up on a value that is the same for every element (the enclosing definition, not the element): either every element is filtered or none")
				}
			}
		}
	}
	if n == 0 {
		c.R.Fail("%s: no directive lookup deciding a loop branch found", rule)
	}
}

func dependsOnLoop(v ssa.Value, l *an.Loop, d int, seen map[ssa.Value]bool) bool {
	if v == nil || d > 8 || seen[v] {
		return false
	}
	seen[v] = true
	if in, ok := v.(ssa.Instruction); ok {
		if !l.Blocks[in.Block()] {
			return false
		}
		switch x := v.(type) {
		case *ssa.Phi:
			if x.Block() == l.Header {
				return true
			}
		case *ssa.Next, *ssa.Extract:
			if ex, ok := v.(*ssa.Extract); ok {
				if _, isNext := ex.Tuple.(*ssa.Next); isNext {
					return true
				}
				return dependsOnLoop(ex.Tuple, l, d+1, seen)
			}
			return true
		}
		for _, op := range in.Operands(nil) {
			if op != nil && *op != nil && dependsOnLoop(*op, l, d+1, seen) {
				return true
			}
		}
	}
	return false
}

// failedAssertIsZero: on the edge where a comma-ok assertion or lookup failed the value half is the zero value; comparing it
// with nil there decides nothing.
func failedAssertIsZero(c *Ctx, rule string, pkgs ...string) {
	c.R.Rule(rule, "in "+strings.Join(shortPkgs(pkgs), ", ")+": the value half of a comma-ok type assertion is not compared with nil on the edge where ok is false (it is the zero value there: the test is always true and lets every mismatch through)", 0)
	n := 0
	for _, fn := range c.moduleFuncs(inPkgs(pkgs)) {
		for _, b := range fn.Blocks {
			for _, in := range b.Instrs {
				bo, ok := in.(*ssa.BinOp)
				if !ok || (bo.Op != token.EQL && bo.Op != token.NEQ) {
					continue
				}
				var x ssa.Value
				if an.IsNilConst(bo.Y) {
					x = bo.X
				} else if an.IsNilConst(bo.X) {
					x = bo.Y
				} else {
					continue
				}
				ex, ok := an.Strip(x).(*ssa.Extract)
				if !ok || ex.Index != 0 {
					continue
				}
				ta, ok := ex.Tuple.(*ssa.TypeAssert)
				if !ok || !ta.CommaOk {
					continue
				}
				n++
				for _, f := range an.Facts(in) {
					if f.Op != token.ILLEGAL || !f.Neg {
						continue
					}
					if e2, ok := an.Strip(f.X).(*ssa.Extract); ok && e2.Tuple == ssa.Value(ta) && e2.Index == 1 {
						c.R.Bad(c.fnKey(fn)+"/nil-after-failed-assert", c.ipos(in), "the asserted value is compared with nil where the assertion has just failed: it is always nil there, so the branch accepts every value of the wrong type without an error")
					}
				}
			}
		}
	}
	c.R.Note(rule+"/examined", "-", sprintf("%d comparisons of an asserted value with nil examined", n))
}

// errorTestedBeforeValue: after a (value, error) call, a nil test of the value must not give up before the error was looked at:
// `if v == nil { return … }` standing before `if err != nil` drops the error of a callee that answered (nil, err).
func errorTestedBeforeValue(c *Ctx, rule string, gen bool, pkgs ...string) {
	c.R.Rule(rule, "where the value half of a (value, error) call is compared with nil before the error half has been tested, the edge on which the value is nil does not reach a return without looking at the error", 1)
	n := 0
	for _, fn := range c.scopeFuncs(pkgs, gen) {
		for _, b := range fn.Blocks {
			if len(b.Instrs) == 0 {
				continue
			}
			ifi, ok := b.Instrs[len(b.Instrs)-1].(*ssa.If)
			if !ok {
				continue
			}
			bo, ok := ifi.Cond.(*ssa.BinOp)
			if !ok || (bo.Op != token.EQL && bo.Op != token.NEQ) {
				continue
			}
			var x ssa.Value
			if an.IsNilConst(bo.Y) {
				x = bo.X
			} else if an.IsNilConst(bo.X) {
				x = bo.Y
			} else {
				continue
			}
			ex, ok := an.Strip(x).(*ssa.Extract)
			if !ok || ex.Index != 0 {
				continue
			}
			call, ok := ex.Tuple.(*ssa.Call)
			if !ok {
				continue
			}
			res := call.Call.Signature().Results()
			if res.Len() != 2 || !an.IsErrorType(res.At(1).Type()) {
				continue
			}
			var errV ssa.Value
			for _, r := range an.Referrers(call) {
				if e2, ok := r.(*ssa.Extract); ok && e2.Index == 1 {
					errV = e2
				}
			}
			if errV == nil {
				continue
			}
			n++
			// has the error been tested on a dominating edge?
			tested := false
			for _, f := range an.Facts(ifi) {
				if _, k := an.EmptinessFact(f, func(v ssa.Value) bool { return an.Strip(v) == errV }); k {
					tested = true
				}
			}
			key := c.fnKey(fn) + "/value-nil-test-of-" + lastSeg(an.CalleeOf(call).FullName())
			if tested {
				c.R.OK(key, c.ipos(ifi), "the error was tested first")
				continue
			}
			nilSucc := b.Succs[0]
			if bo.Op == token.NEQ {
				nilSucc = b.Succs[1]
			}
			// from the nil edge: a return reached without any use of the error
			var bad ssa.Instruction
			seen := map[*ssa.BasicBlock]bool{}
			var walk func(bb *ssa.BasicBlock)
			walk = func(bb *ssa.BasicBlock) {
				if seen[bb] || bad != nil {
					return
				}
				seen[bb] = true
				for _, in := range bb.Instrs {
					for _, op := range in.Operands(nil) {
						if op != nil && *op != nil && an.Strip(*op) == errV {
							return // the error is looked at on this path
						}
					}
					if r, ok := in.(*ssa.Return); ok {
						bad = r
						return
					}
				}
				for _, s := range bb.Succs {
					walk(s)
				}
			}
			walk(nilSucc)
			if bad != nil {
				c.R.Bad(key, c.ipos(ifi), "the value is tested for nil before the error, and the nil edge returns without ever looking at the error: a callee that answers (nil, err) has its error swallowed")
			} else {
				c.R.OK(key, c.ipos(ifi), "the nil edge still looks at the error")
			}
		}
	}
	if n == 0 {
		c.R.Fail("%s: no nil test of a (value, error) result found", rule)
	}
}

// noReentrantLock: a method that holds its receiver's mutex does not call another method of the same receiver that takes it
// again (sync.Mutex is not re-entrant: the second Lock blocks for ever).
func noReentrantLock(c *Ctx, rule string, pkgs ...string) {
	c.R.Rule(rule, "in "+strings.Join(shortPkgs(pkgs), ", ")+": while a function holds x.mu (a deferred unlock keeps it to the end) it does not call a method on the same x that locks x.mu again", 1)
	// methods that lock a mutex field of their receiver: function -> field name
	locksOwn := map[*ssa.Function]string{}
	fns := c.moduleFuncs(inPkgs(pkgs))
	for _, fn := range fns {
		if fn.Signature.Recv() == nil || len(fn.Params) == 0 {
			continue
		}
		for _, b := range fn.Blocks {
			for _, in := range b.Instrs {
				if addr, lock, _, deferred := an.LockOp(in); addr != nil && lock && !deferred {
					if fa, ok := addr.(*ssa.FieldAddr); ok && an.Strip(fa.X) == ssa.Value(fn.Params[0]) {
						locksOwn[fn] = fieldNameOf(fa)
					}
				}
			}
		}
	}
	n := 0
	for _, fn := range fns {
		if fn.Signature.Recv() == nil || len(fn.Params) == 0 {
			continue
		}
		recv := fn.Params[0]
		// is the receiver's mutex held to the end (deferred unlock) or at a call?
		ls := an.Locksets(fn)
		for _, b := range fn.Blocks {
			for _, in := range b.Instrs {
				call, ok := in.(*ssa.Call)
				if !ok {
					continue
				}
				sc := call.Call.StaticCallee()
				fld, locks := locksOwn[sc]
				if sc == nil || !locks || len(call.Call.Args) == 0 || an.Strip(call.Call.Args[0]) != ssa.Value(recv) {
					continue
				}
				n++
				held := false
				for k := range ls[in] {
					if strings.HasSuffix(k, "."+fld) {
						held = true
					}
				}
				c.R.Check(!held, c.fnKey(fn)+"→"+sc.Name()+"/"+fld, c.ipos(in), "the mutex is not held at this call", "the function still holds "+fld+" (its unlock is deferred) when it calls "+sc.Name()+", which locks the same mutex of the same receiver: sync.Mutex is not re-entrant, the call blocks for ever")
			}
		}
	}
	if n == 0 {
		c.R.Note(rule+"/examined", "-", "no call from a locking method to another locking method of the same receiver")
		c.R.SetFloor(0)
	}
}

// oneShotIsOneShot: graphql.OneShot's handler answers once.
func oneShotIsOneShot(c *Ctx) {
	c.R.Rule("oneshot-is-oneshot", "graphql.OneShot: the flag that makes the handler answer nil from the second call on is a variable of OneShot itself (shared by all calls of the handler), and the handler sets it to true on the path that returns the response", 1)
	fn := c.fn(pkgGraphql, "OneShot")
	if fn == nil {
		return
	}
	ok := false
	for _, cl := range fn.AnonFuncs {
		for _, b := range cl.Blocks {
			for _, in := range b.Instrs {
				st, isS := in.(*ssa.Store)
				if !isS {
					continue
				}
				k, isC := st.Val.(*ssa.Const)
				if !isC || k.Value == nil || k.Value.String() != "true" {
					continue
				}
				if _, isFV := st.Addr.(*ssa.FreeVar); isFV {
					ok = true // a variable of the enclosing function
				}
			}
		}
	}
	c.R.Check(ok, "OneShot/flag", c.pos(fn.Pos()), "the handler sets a flag of OneShot", "the handler never records, in a variable that survives the call, that it has answered: it hands out the same response on every call — transports loop on it for ever (an error raised while a subscription is set up is streamed endlessly)")
}

// addCountsSpawnedLoop: WaitGroup.Add(len(X)) before a loop that starts one goroutine per element ranges over that same X.
func addCountsSpawnedLoop(c *Ctx, rule string, gen bool, pkgs ...string) {
	c.R.Rule(rule, "where a WaitGroup is Add-ed len(X) before a loop that starts a goroutine per iteration, the loop ranges over that same X (Add(len(other)) makes Wait hang or return early)", 1)
	n := 0
	for _, fn := range c.scopeFuncs(pkgs, gen) {
		for _, call := range an.CallsIn(fn, func(_ ssa.CallInstruction, ci an.CalleeInfo) bool { return ci.FullName() == "(*sync.WaitGroup).Add" }) {
			if call.Parent() != fn {
				continue
			}
			lenCall, ok := an.Strip(call.Common().Args[1]).(*ssa.Call)
			if !ok {
				continue
			}
			bi, ok := lenCall.Call.Value.(*ssa.Builtin)
			if !ok || bi.Name() != "len" {
				continue
			}
			counted := lenCall.Call.Args[0]
			// the loop after the Add that contains a go statement
			for _, l := range an.Loops(fn) {
				spawns := false
				for b := range l.Blocks {
					for _, in := range b.Instrs {
						if _, isGo := in.(*ssa.Go); isGo {
							spawns = true
						}
					}
				}
				if !spawns || !an.CanReach(call, l.Header.Instrs[0]) || l.Blocks[call.Block()] {
					continue
				}
				var ranged ssa.Value
				for b := range l.Blocks {
					for _, in := range b.Instrs {
						if nx, ok := in.(*ssa.Next); ok {
							if rg, ok := nx.Iter.(*ssa.Range); ok {
								ranged = rg.X
							}
						}
					}
				}
				if ir, ok := an.LoopIndexRange(l); ok && ranged == nil {
					ranged = ir.Of
				}
				if ranged == nil {
					continue
				}
				n++
				c.R.Check(sameAccess(ranged, counted, 0), c.fnKey(fn)+"/add-counts-loop", c.ipos(call), "Add counts the collection the spawning loop walks", "the WaitGroup is Add-ed the length of one collection while the loop that starts the goroutines walks another: when the two lengths differ Wait never returns (or returns before the goroutines finished)")
			}
		}
	}
	if n == 0 {
		c.R.Fail("%s: no Add(len(X)) before a spawning loop found", rule)
	}
}
