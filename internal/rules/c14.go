package rules

import (
	"go/token"
	"go/types"
	"strings"

	"golang.org/x/tools/go/ssa"

	"verif/internal/an"
)

func init() {
	register(&Property{
		ID:      "C14",
		NeedGen: true,
		Runtime: append(append([]string{}, RuntimeCore...), "./handler"),
		Run:     runC14,
		Explanation: "Structure of the complexity gate: (limit-gate) in ComplexityLimit.MutateOperationContext the edge on which complexity.Calculate's result exceeds Func's result only reaches non-nil error returns and the " +
			"other edge only nil returns (with C03/fail-closed: over-limit ⇒ no dispatch); (saturating-only) in package complexity integer arithmetic on complexities happens only inside safeAdd, whose raw sum is " +
			"returned only on the no-wrap edge and only for non-negative operands; selectionSetComplexity's type switch covers every ast.Selection implementation; fieldComplexity accepts a custom value only when " +
			"ok && custom >= child; (gate-sees-coerced-variables) in CreateOperationContext the operation-context mutators (the complexity gate is one) run only after opCtx.Variables was assigned the result of validator.VariableValues, and ComplexityLimit hands those variables to Calculate; (switch-complete) every materialised executor's Complexity switch has a case for each Type.field of its schema with a complexity root and returns (0,false) when argument coercion fails.",
		NotDecided:  "safeAdd's arithmetic for all ints (value-level), monotonicity, interface max semantics beyond the comparison structure",
		Assumptions: []string{"the materialised configuration set stands for 'all schemas' only as far as it goes (see coverage.materialised)"},
	})
}

// cmpFact normalises a comparison fact to "a > b" (gt=true) or "a <= b" (gt=false) for given matchers.
func cmpGT(f an.Fact, isA, isB func(ssa.Value) bool) (gt, ok bool) {
	if f.X == nil || f.Y == nil {
		return false, false
	}
	x, y, op := f.X, f.Y, f.Op
	if isB(x) && isA(y) { // mirror so that x=a, y=b
		x, y = y, x
		switch op {
		case token.LSS:
			op = token.GTR
		case token.GTR:
			op = token.LSS
		case token.LEQ:
			op = token.GEQ
		case token.GEQ:
			op = token.LEQ
		}
	}
	if !isA(x) || !isB(y) {
		return false, false
	}
	switch op {
	case token.GTR:
		return true, true
	case token.LEQ:
		return false, true
	}
	return false, false
}

func isNilReturn(r *ssa.Return, idx int) bool {
	if idx >= len(r.Results) {
		return false
	}
	for _, d := range an.Defs(r.Results[idx]) {
		if !an.IsNilConst(d) {
			return false
		}
	}
	return true
}

func runC14(c *Ctx) {
	// ---- limit-gate ---------------------------------------------------------------------
	c.R.Rule("limit-gate", "in ComplexityLimit.MutateOperationContext: with c = complexity.Calculate(...) and l = the configured Func(...), the c > l edge only reaches non-nil error returns and the c <= l edge only nil returns", 2)
	if fn := c.fn(pkgExtension, "ComplexityLimit.MutateOperationContext"); fn != nil {
		isC := func(v ssa.Value) bool {
			cc := an.AllExtractOf(v, 0)
			return cc != nil && an.CalleeOf(cc).FullName() == pkgComplex+".Calculate"
		}
		isL := func(v ssa.Value) bool {
			for _, d := range an.Defs(v) {
				call, ok := d.(*ssa.Call)
				if !ok || call.Call.StaticCallee() != nil || call.Call.IsInvoke() {
					return false
				}
				fa, ok := loadAddr(call.Call.Value).(*ssa.FieldAddr)
				if !ok || fieldNameOf(fa) != "Func" {
					return false
				}
			}
			return true
		}
		var over, under *an.CondEdge
		gate := fn
		find := func(f *ssa.Function, pc, pl func(ssa.Value) bool) {
			for _, e := range an.CondEdges(f) {
				e := e
				if gt, ok := cmpGT(e.Fact, pc, pl); ok {
					if gt {
						over = &e
					} else {
						under = &e
					}
				}
			}
		}
		find(fn, isC, isL)
		if over == nil || under == nil {
			// the two numbers are parked in fields of a struct of the package and compared by a helper whose result is returned
			fieldOf := func(pred func(ssa.Value) bool) (string, bool) {
				for _, b := range fn.Blocks {
					for _, in := range b.Instrs {
						if st, ok := in.(*ssa.Store); ok {
							if fa, ok := st.Addr.(*ssa.FieldAddr); ok && pred(st.Val) {
								return fa.X.Type().String() + "." + fieldNameOf(fa), true
							}
						}
					}
				}
				return "", false
			}
			fc, okc := fieldOf(isC)
			fl, okl := fieldOf(isL)
			if okc && okl {
				viaField := func(key string) func(ssa.Value) bool {
					return func(v ssa.Value) bool {
						fa, ok := loadAddr(an.Strip(v)).(*ssa.FieldAddr)
						return ok && fa.X.Type().String()+"."+fieldNameOf(fa) == key
					}
				}
				for _, r := range an.Returns(fn) {
					if len(r.Results) != 1 {
						continue
					}
					if call, ok := an.Strip(an.ReturnedValue(r, 0)).(*ssa.Call); ok {
						if h := call.Call.StaticCallee(); h != nil && h.Pkg == fn.Pkg && len(h.Blocks) > 0 {
							find(h, viaField(fc), viaField(fl))
							if over != nil && under != nil {
								gate = h
							}
						}
					}
				}
			}
		}
		if over == nil || under == nil {
			c.R.Bad("ComplexityLimit/compare", c.pos(fn.Pos()), "no comparison `Calculate(...) > Func(...)` found: the limit is not enforced")
		} else {
			ok, why := c.edgeOnlyErrReturns(over.To, 0)
			c.R.Check(ok, "ComplexityLimit/over-limit-edge", c.ipos(over.If), "complexity > limit only reaches non-nil error returns", "an operation over the complexity limit "+why)
			okU := true
			whyU := ""
			for b := range an.Reach(under.To, nil) {
				for _, in := range b.Instrs {
					if r, isRet := in.(*ssa.Return); isRet && !isNilReturn(r, 0) {
						okU, whyU = false, "the return at "+c.ipos(r)+" may reject an operation at or below the limit"
					}
				}
			}
			c.R.Check(okU, "ComplexityLimit/within-limit-edge", c.ipos(under.If), "complexity <= limit only reaches nil returns", whyU)
			// and nothing but that edge lets an operation through: every nil return lies behind the comparison
			okN, whyN := true, ""
			for _, r := range an.Returns(gate) {
				if !isNilReturn(r, 0) {
					continue
				}
				behind := under.To.Dominates(r.Block()) || under.To == r.Block()
				for _, p := range under.To.Preds {
					if p != under.If.Block() {
						behind = false
					}
				}
				if !behind {
					okN, whyN = false, "the success return at "+c.ipos(r)+" can be reached without the comparison having found the complexity within the limit (another condition lets the operation through)"
				}
			}
			c.R.Check(okN, "ComplexityLimit/only-within-limit-passes", c.ipos(under.If), "every nil return lies behind complexity <= limit", whyN)
		}
		// the operation whose complexity is computed is the selected one
		for _, call := range an.CallsIn(fn, func(_ ssa.CallInstruction, ci an.CalleeInfo) bool { return ci.FullName() == pkgComplex+".Calculate" }) {
			op := call.Common().Args[2]
			ok, why := c.isSelectedOperation(op, fn.Params[len(fn.Params)-1])
			c.R.Check(ok, "ComplexityLimit/operation", c.ipos(call), "complexity is computed for "+why, "complexity is computed for an operation other than the one that will run: "+why)
		}
	}

	c14GateSeesCoercedVariables(c)
	c14Definition(c)
	c14Walker(c)
	layoutAgreement(c)

	// ---- saturating-only ------------------------------------------------------------------
	c.R.Rule("saturating-only", "package complexity: integer +,-,*,<< on int values only inside the saturating adder; the adder returns its raw sum only on the no-wrap edge with both operands tested non-negative; the selection type switch covers every ast.Selection implementation; a custom complexity is used only on the `ok && custom >= child` edge; every selection kind reaches the adder on every path of its case (only introspection __Schema fields may be skipped)", 7)
	adder := c.fn(pkgComplex, "safeAdd")
	for _, fn := range c.moduleFuncs(func(p string) bool { return p == pkgComplex }) {
		for _, b := range fn.Blocks {
			for _, in := range b.Instrs {
				bo, ok := in.(*ssa.BinOp)
				if !ok {
					continue
				}
				switch bo.Op {
				case token.ADD, token.SUB, token.MUL, token.SHL:
				default:
					continue
				}
				if bt, ok := bo.Type().Underlying().(*types.Basic); !ok || bt.Info()&types.IsInteger == 0 {
					continue
				}
				if _, isC := bo.X.(*ssa.Const); isC {
					if _, isC2 := bo.Y.(*ssa.Const); isC2 {
						continue
					}
				}
				if fn == adder {
					continue
				}
				// loop counters of `for range` (i+1 on the rangeindex) are not complexities
				if isLoopCounter(bo) {
					continue
				}
				c.R.Bad(shortFn(fn)+"/raw-arith", c.ipos(bo), "integer "+bo.Op.String()+" on a complexity value outside the saturating adder: a crafted query can overflow the total below the limit")
			}
		}
	}
	if adder != nil {
		c.checkSafeAdd(adder)
	}
	if sel := c.fn(pkgComplex, "complexityWalker.selectionSetComplexity"); sel != nil {
		c.selectionSwitch(sel)
	}
	// by role, not by name: whichever function of the package returns ExecutableSchema.Complexity's first result
	nGuard := 0
	for _, fn := range c.moduleFuncs(func(p string) bool { return p == pkgComplex }) {
		nGuard += c.customGuard(fn)
	}
	if nGuard == 0 {
		c.R.Bad("fieldComplexity/custom-guard", "complexity/", "no function of package complexity returns the schema's custom complexity")
	}
	if sel := c.W.Func(pkgComplex, "complexityWalker.selectionSetComplexity"); sel != nil {
		c.everySelectionCounted(sel)
	}

	// ---- switch-complete (generated) -----------------------------------------------------
	c14SwitchComplete(c)
}

func isLoopCounter(bo *ssa.BinOp) bool {
	if n, ok := an.ConstInt(bo.Y); !ok || n != 1 {
		return false
	}
	phi, ok := bo.X.(*ssa.Phi)
	if !ok {
		return false
	}
	for _, e := range phi.Edges {
		if e == ssa.Value(bo) {
			return phi.Comment == "rangeindex"
		}
	}
	return false
}

func (c *Ctx) checkSafeAdd(fn *ssa.Function) {
	a, b := ssa.Value(fn.Params[0]), ssa.Value(fn.Params[1])
	var sum *ssa.BinOp
	for _, blk := range fn.Blocks {
		for _, in := range blk.Instrs {
			if bo, ok := in.(*ssa.BinOp); ok && bo.Op == token.ADD {
				sum = bo
			}
		}
	}
	if sum == nil {
		c.R.Bad("safeAdd/sum", c.pos(fn.Pos()), "no addition found in the saturating adder")
		return
	}
	// operands tested non-negative at the sum
	nonneg := map[ssa.Value]bool{}
	for _, f := range an.Facts(sum) {
		for _, p := range []ssa.Value{a, b} {
			if n, ok := an.ConstInt(f.Y); ok && n == 0 && f.X == p && f.Op == token.GEQ {
				nonneg[p] = true
			}
			if n, ok := an.ConstInt(f.X); ok && n == 0 && f.Y == p && f.Op == token.LEQ {
				nonneg[p] = true
			}
		}
	}
	c.R.Check(nonneg[a] && nonneg[b], "safeAdd/operands-nonnegative", c.ipos(sum), "a >= 0 and b >= 0 dominate a + b", "the sum is computed for possibly negative operands: a negative custom complexity lowers the total")
	// the raw sum reaches a return only via the edge on which sum >= operand (no wrap)
	ok := true
	why := ""
	noWrap := func(gs []an.Guard) bool {
		for _, g := range gs {
			f := an.FactOf(g)
			if f.X == ssa.Value(sum) && (f.Y == a || f.Y == b) && f.Op == token.GEQ {
				return true
			}
			if f.Y == ssa.Value(sum) && (f.X == a || f.X == b) && f.Op == token.LEQ {
				return true
			}
			// headroom form: `b <= max - a` (tested before adding, for operands already known to be non-negative)
			isHeadroom := func(v, other ssa.Value) bool {
				bo, ok := v.(*ssa.BinOp)
				if !ok || bo.Op != token.SUB || bo.Y != other {
					return false
				}
				if _, isC := bo.X.(*ssa.Const); isC {
					return true
				}
				_, isG := loadGlobal(bo.X)
				return isG
			}
			if (f.X == b && isHeadroom(f.Y, a) || f.X == a && isHeadroom(f.Y, b)) && f.Op == token.LEQ {
				return true
			}
			if (f.Y == b && isHeadroom(f.X, a) || f.Y == a && isHeadroom(f.X, b)) && f.Op == token.GEQ {
				return true
			}
		}
		return false
	}
	var visit func(v ssa.Value, from *ssa.BasicBlock, seen map[ssa.Value]bool)
	visit = func(v ssa.Value, from *ssa.BasicBlock, seen map[ssa.Value]bool) {
		if seen[v] {
			return
		}
		seen[v] = true
		switch x := v.(type) {
		case *ssa.Phi:
			for i, e := range x.Edges {
				if e == ssa.Value(sum) {
					pred := x.Block().Preds[i]
					good := false
					// the edge pred -> phi block must carry sum >= a (or b)
					gs := an.BlockGuards(pred)
					if len(pred.Succs) == 2 {
						if iff, isIf := pred.Instrs[len(pred.Instrs)-1].(*ssa.If); isIf {
							gs = append(gs, an.Guard{Cond: iff.Cond, Branch: pred.Succs[0] == x.Block(), If: iff})
						}
					}
					good = noWrap(gs)
					if !good {
						ok, why = false, "the raw sum flows to a return without passing the `sum >= operand` (no overflow) edge"
					}
				} else {
					visit(e, nil, seen)
				}
			}
		case *ssa.BinOp:
			// `return sum` itself: fine when the return sits on the no-overflow edge
			if x == sum && (from == nil || !noWrap(an.BlockGuards(from))) {
				ok, why = false, "the raw sum is returned directly, without an overflow test"
			}
		}
	}
	for _, r := range an.Returns(fn) {
		visit(r.Results[0], r.Block(), map[ssa.Value]bool{})
	}
	c.R.Check(ok, "safeAdd/no-wrap-edge", c.ipos(sum), "raw sum only returned on the sum >= operand edge, otherwise the saturation constant", why)
}

func (c *Ctx) selectionSwitch(fn *ssa.Function) {
	// implementations of ast.Selection
	astPkg := c.W.TPkg(pkgAST)
	if astPkg == nil {
		c.R.Fail("unresolved anchor: gqlparser ast package")
		return
	}
	selObj := astPkg.Types.Scope().Lookup("Selection")
	if selObj == nil {
		c.R.Fail("unresolved anchor: ast.Selection")
		return
	}
	iface := selObj.Type().Underlying().(*types.Interface)
	impls := map[string]bool{}
	for _, name := range astPkg.Types.Scope().Names() {
		tn, ok := astPkg.Types.Scope().Lookup(name).(*types.TypeName)
		if !ok || tn.IsAlias() {
			continue
		}
		if _, isIface := tn.Type().Underlying().(*types.Interface); isIface {
			continue
		}
		pt := types.NewPointer(tn.Type())
		if types.Implements(pt, iface) || types.Implements(tn.Type(), iface) {
			impls[tn.Name()] = true
		}
	}
	handled := map[string]bool{}
	for _, b := range fn.Blocks {
		for _, in := range b.Instrs {
			if ta, ok := in.(*ssa.TypeAssert); ok && ta.CommaOk {
				t := ta.AssertedType
				if p, ok := t.(*types.Pointer); ok {
					t = p.Elem()
				}
				if n, ok := t.(*types.Named); ok && n.Obj().Pkg() != nil && n.Obj().Pkg().Path() == pkgAST {
					handled[n.Obj().Name()] = true
				}
			}
		}
	}
	var missing []string
	for n := range impls {
		if !handled[n] {
			missing = append(missing, n)
		}
	}
	c.R.Check(len(missing) == 0 && len(impls) >= 3, "selectionSetComplexity/type-switch", c.pos(fn.Pos()), sprintf("%d ast.Selection implementations, all handled", len(impls)),
		"selection kinds without a case in the complexity walker (their cost is not counted): "+strings.Join(missing, ","))
}

func (c *Ctx) customGuard(fn *ssa.Function) int {
	// the return of the custom value must be guarded by ok==true and custom >= child, child being the value handed to
	// ExecutableSchema.Complexity as childComplexity
	found := 0
	for _, r := range an.Returns(fn) {
		if len(r.Results) == 0 {
			continue
		}
		e, isExt := r.Results[0].(*ssa.Extract)
		if !isExt || e.Index != 0 {
			continue
		}
		call, isCall := e.Tuple.(*ssa.Call)
		if !isCall || !strings.HasSuffix(an.CalleeOf(call).FullName(), "ExecutableSchema).Complexity") || len(call.Call.Args) < 4 {
			continue
		}
		child := call.Call.Args[3]
		found++
		okFact, geFact := false, false
		for _, f := range an.Facts(r) {
			if f.Op == token.ILLEGAL && !f.Neg {
				if e2, ok := f.X.(*ssa.Extract); ok && e2.Tuple == e.Tuple && e2.Index == 1 {
					okFact = true
				}
			}
			if f.Op == token.GEQ && f.X == ssa.Value(e) && (f.Y == child || an.SameVar(f.Y, child)) {
				geFact = true
			}
			if f.Op == token.LEQ && f.Y == ssa.Value(e) && (f.X == child || an.SameVar(f.X, child)) {
				geFact = true
			}
		}
		c.R.Check(okFact && geFact, "fieldComplexity/custom-guard", c.ipos(r), "custom complexity returned only when ok && custom >= childComplexity",
			sprintf("a custom complexity is returned without the guard (ok tested: %v, >= child tested: %v): a custom function can hide its children's cost", okFact, geFact))
	}
	return found
}

func c14SwitchComplete(c *Ctx) {
	c.R.Rule("switch-complete", "every materialised executor (without the documented opt-out omit_complexity) has, in executableSchema.Complexity, an equality case for each `Type.field` of every non-reserved object type of its embedded schema, and the argument-coercion error edge of a case returns (0,false)", 100)
	total := 0
	for _, g := range c.Gen {
		if c.cfgBool(g, "omit_complexity") {
			c.R.Note("gen:"+g.Name+"/Complexity", g.Spec.Dir, "skipped: configuration sets the documented opt-out omit_complexity: true")
			continue
		}
		sch := c.schema(g)
		fn := c.genFunc(g, "Complexity")
		if sch == nil || fn == nil {
			c.R.Fail("gen:%s: Complexity function or schema not found", g.Name)
			continue
		}
		cases := switchCases(fn, func(v ssa.Value) bool {
			bo, ok := v.(*ssa.BinOp)
			return ok && bo.Op == token.ADD
		})
		// nested form: `switch typeName { case "T": switch field { case "f": … } }`
		var strParams []ssa.Value
		for _, p := range fn.Params {
			if bt, ok := p.Type().Underlying().(*types.Basic); ok && bt.Kind() == types.String {
				strParams = append(strParams, p)
			}
		}
		if len(strParams) >= 2 {
			edges := an.CondEdges(fn)
			for _, e1 := range edges {
				tname, ok1 := an.ConstString(e1.Fact.Y)
				if e1.Fact.Op != token.EQL || !ok1 || an.Strip(e1.Fact.X) != strParams[0] {
					continue
				}
				for _, e2 := range edges {
					fname, ok2 := an.ConstString(e2.Fact.Y)
					if e2.Fact.Op != token.EQL || !ok2 || an.Strip(e2.Fact.X) != strParams[1] {
						continue
					}
					if e1.To == e2.If.Block() || e1.To.Dominates(e2.If.Block()) {
						if _, dup := cases[tname+"."+fname]; !dup {
							cases[tname+"."+fname] = e2.To
						}
					}
				}
			}
		}
		var names []string
		for n := range sch.Types {
			names = append(names, n)
		}
		sortStrings(names)
		for _, tn := range names {
			def := sch.Types[tn]
			if def.Kind != "OBJECT" || isReservedName(tn) {
				continue
			}
			for _, f := range def.Fields {
				if isReservedName(f.Name) {
					continue
				}
				total++
				key := "gen:" + g.Name + "/Complexity/case:" + tn + "." + f.Name
				blk, ok := cases[tn+"."+f.Name]
				if !ok {
					c.R.Bad(key, c.pos(fn.Pos()), "no case for this field in the generated Complexity switch: its custom complexity function is never consulted")
					continue
				}
				// argument coercion failure returns (0,false)
				bad := ""
				for b := range an.Reach(blk, func(b *ssa.BasicBlock) bool { return b != blk && isCaseHead(b, cases) }) {
					for _, in := range b.Instrs {
						call, isCall := in.(*ssa.Call)
						if !isCall || call.Call.Signature().Results().Len() != 2 || !an.IsErrorType(call.Call.Signature().Results().At(1).Type()) {
							continue
						}
						for _, e := range an.CondEdges(fn) {
							if empty, k := an.EmptinessFact(e.Fact, func(v ssa.Value) bool {
								cc := an.AllExtractOf(v, 1)
								return cc != nil && cc == ssa.CallInstruction(call)
							}); k && !empty {
								for rb := range an.Reach(e.To, nil) {
									for _, rin := range rb.Instrs {
										if r, isRet := rin.(*ssa.Return); isRet {
											if cv, isC := r.Results[1].(*ssa.Const); !isC || cv.Value == nil || cv.Value.ExactString() != "false" {
												bad = "argument coercion error does not return (0,false) at " + c.ipos(r)
											}
										}
									}
								}
							}
						}
					}
				}
				if len(f.Arguments) == 0 {
					c.R.OKTrivial(key, c.pos(fn.Pos()), "case present (no arguments)")
				} else {
					c.R.Check(bad == "", key, c.pos(fn.Pos()), "case present; coercion error returns (0,false)", bad)
				}
			}
		}
	}
	c.R.SetFloor(total)
	if total < 100 {
		c.R.Fail("switch-complete examined only %d fields", total)
	}
}

func isCaseHead(b *ssa.BasicBlock, cases map[string]*ssa.BasicBlock) bool {
	for _, x := range cases {
		if x == b {
			return true
		}
	}
	return false
}

// everySelectionCounted: in the walker's loop, each type-switch case (Field, FragmentSpread, InlineFragment) reaches a call of the
// saturating adder on every path back to the loop header; the only accepted skip is the Field case's test of the field's type name.
// isIntrospectionNameTest: the fact compares a definition's Name with a string constant (the accepted skip of introspection types).
func isIntrospectionNameTest(f an.Fact) bool {
	if f.Op != token.EQL {
		return false
	}
	if _, isStr := an.ConstString(f.Y); !isStr {
		return false
	}
	fa, ok := loadAddr(f.X).(*ssa.FieldAddr)
	return ok && fieldNameOf(fa) == "Name"
}

// falseOnlyForIntrospection: function h (package complexity) returns false as its idx-th result only from returns dominated by
// the introspection name test; every other return yields the constant true there.
func falseOnlyForIntrospection(h *ssa.Function, idx int) bool {
	if h.Pkg == nil || h.Pkg.Pkg.Path() != pkgComplex || len(h.Blocks) == 0 {
		return false
	}
	n := 0
	for _, r := range an.Returns(h) {
		if h.Recover != nil && r.Block() == h.Recover {
			continue
		}
		if idx >= len(r.Results) {
			return false
		}
		n++
		k, isC := an.ReturnedValue(r, idx).(*ssa.Const)
		if !isC || k.Value == nil {
			return false
		}
		if k.Value.String() == "true" {
			continue
		}
		ok := false
		for _, f := range an.Facts(r) {
			if isIntrospectionNameTest(f) {
				ok = true
			}
		}
		if !ok {
			return false
		}
	}
	return n > 0
}

func (c *Ctx) everySelectionCounted(fn *ssa.Function) {
	adder := c.W.Func(pkgComplex, "safeAdd")
	if adder == nil {
		return
	}
	var header *ssa.BasicBlock
	for _, b := range fn.Blocks {
		if isLoopHeader(b) {
			header = b
		}
	}
	if header == nil {
		c.R.Bad("selectionSetComplexity/every-selection-counted", c.pos(fn.Pos()), "no loop over the selection set")
		return
	}
	for _, b := range fn.Blocks {
		for _, in := range b.Instrs {
			ta, ok := in.(*ssa.TypeAssert)
			if !ok || !ta.CommaOk {
				continue
			}
			t := ta.AssertedType
			if p, ok := t.(*types.Pointer); ok {
				t = p.Elem()
			}
			named, ok := t.(*types.Named)
			if !ok || named.Obj().Pkg() == nil || named.Obj().Pkg().Path() != pkgAST {
				continue
			}
			kind := named.Obj().Name()
			// the case block: successor on ok == true
			var caseBlk *ssa.BasicBlock
			for _, r := range an.Referrers(ta) {
				if ex, ok := r.(*ssa.Extract); ok && ex.Index == 1 {
					for _, u := range an.Referrers(ex) {
						if iff, ok := u.(*ssa.If); ok {
							caseBlk = iff.Block().Succs[0]
						}
					}
				}
			}
			if caseBlk == nil {
				continue
			}
			// DFS: paths from caseBlk to header that avoid a safeAdd call
			bad := ""
			seen := map[*ssa.BasicBlock]bool{}
			var walk func(b *ssa.BasicBlock, trail []string)
			walk = func(b *ssa.BasicBlock, trail []string) {
				if bad != "" || seen[b] {
					return
				}
				seen[b] = true
				for _, x := range b.Instrs {
					if call, ok := x.(*ssa.Call); ok && call.Call.StaticCallee() == adder {
						return
					}
				}
				for _, s := range b.Succs {
					tr := trail
					if len(b.Succs) == 2 {
						if iff, ok := b.Instrs[len(b.Instrs)-1].(*ssa.If); ok {
							tr = append(append([]string{}, trail...), c.condText(iff, b.Succs[0] == s))
							// accepted skip: the Field case's comparison of a definition's Name with a string constant (introspection types)
							f := an.FactOf(an.Guard{Cond: iff.Cond, Branch: b.Succs[0] == s})
							if kind == "Field" && isIntrospectionNameTest(f) {
								continue
							}
							// the same skip decided inside a same-package helper that reports it through a boolean result
							if kind == "Field" && f.Op == token.ILLEGAL && f.Neg {
								if ex, ok := f.X.(*ssa.Extract); ok {
									if hc, ok := ex.Tuple.(*ssa.Call); ok && hc.Call.StaticCallee() != nil && falseOnlyForIntrospection(hc.Call.StaticCallee(), ex.Index) {
										continue
									}
								}
							}
						}
					}
					if s == header {
						bad = "a " + kind + " selection can be skipped without adding its cost (path: " + strings.Join(tr, " → ") + "): the computed complexity is below the definition and an over-limit operation passes the gate"
						return
					}
					if header.Dominates(s) {
						walk(s, tr)
					}
				}
			}
			walk(caseBlk, nil)
			c.R.Check(bad == "", "selectionSetComplexity/counts:"+kind, c.ipos(ta), "every path of the case reaches safeAdd", bad)
		}
	}
}

// c14GateSeesCoercedVariables: the complexity gate is an OperationContextMutator; it evaluates argument values (custom complexity
// functions receive them) from OperationContext.Variables.  Those must be the coerced variables — with operation-level defaults
// filled in — that execution will use, otherwise an argument bound to an omitted variable with a large default is costed as if
// absent and an over-limit operation passes the gate.  Checked in Executor.CreateOperationContext: every call of
// MutateOperationContext is dominated by the store of validator.VariableValues' result into opCtx.Variables and no other store
// to that field lies between that store and the call; Calculate receives exactly opCtx.Variables.
func c14GateSeesCoercedVariables(c *Ctx) {
	c.R.Rule("gate-sees-coerced-variables", "in Executor.CreateOperationContext every MutateOperationContext call (the complexity gate is one) is dominated by `opCtx.Variables = validator.VariableValues(...)` with no later store to that field before the call; ComplexityLimit passes the operation context's Variables to complexity.Calculate", 2)
	create := c.fn(pkgExecutor, "*Executor.CreateOperationContext")
	if create == nil {
		return
	}
	// the mutators may be called by CreateOperationContext itself or by a helper of the package it hands the operation context to
	// (`return opCtx, e.bindOperation(ctx, opCtx, params)`): each such function is examined the same way
	fns := []*ssa.Function{create}
	for _, cl := range an.WithClosures(create) {
		if cl != create {
			fns = append(fns, cl) // a literal of CreateOperationContext that is handed to a helper (applyMutators(list, func(m) …))
		}
	}
	for _, call := range an.CallsIn(create, func(_ ssa.CallInstruction, ci an.CalleeInfo) bool {
		return ci.Static != nil && ci.Static.Pkg != nil && ci.Static.Pkg.Pkg.Path() == pkgExecutor && len(ci.Static.Blocks) > 0
	}) {
		if call.Parent() == create {
			fns = append(fns, call.Common().StaticCallee())
		}
	}
	n := 0
	var createCoerced []ssa.Instruction
	for _, fn := range fns {
		var coerced []*ssa.Store
		var others []*ssa.Store
		for _, b := range fn.Blocks {
			for _, in := range b.Instrs {
				st, ok := in.(*ssa.Store)
				if !ok {
					continue
				}
				fa, ok := st.Addr.(*ssa.FieldAddr)
				if !ok || fieldNameOf(fa) != "Variables" || !an.NamedIs(fa.X.Type().Underlying().(*types.Pointer).Elem(), pkgGraphql, "OperationContext") {
					continue
				}
				if cc := an.AllExtractOf(st.Val, 0); cc != nil && an.CalleeOf(cc).FullName() == pkgValidator+".VariableValues" {
					coerced = append(coerced, st)
				} else {
					others = append(others, st)
				}
			}
		}
		// the coercion may live in a same-package helper that receives the operation context: a call of a function that
		// (transitively, depth 2) stores VariableValues' result into its OperationContext parameter's Variables counts as that store
		var helperCalls []ssa.Instruction
		for _, call := range an.CallsIn(fn, func(_ ssa.CallInstruction, ci an.CalleeInfo) bool {
			return ci.Static != nil && ci.Static.Pkg != nil && ci.Static.Pkg.Pkg.Path() == pkgExecutor && len(ci.Static.Blocks) > 0
		}) {
			h := call.Common().StaticCallee()
			for i, p := range h.Params {
				if !an.NamedIs(p.Type(), pkgGraphql, "OperationContext") || i >= len(call.Common().Args) {
					continue
				}
				if storesCoercedVariables(h, p, 0) {
					if _, isCall := call.(*ssa.Call); isCall {
						helperCalls = append(helperCalls, call)
					}
				}
			}
		}
		if fn == create {
			for _, st := range coerced {
				createCoerced = append(createCoerced, st)
			}
			createCoerced = append(createCoerced, helperCalls...)
		}
		for _, call := range an.CallsIn(fn, func(_ ssa.CallInstruction, ci an.CalleeInfo) bool {
			return ci.FullName() == "("+pkgGraphql+".OperationContextMutator).MutateOperationContext"
		}) {
			n++
			var dom ssa.Instruction
			for _, st := range coerced {
				if an.Before(st, call) {
					dom = st
				}
			}
			for _, hc := range helperCalls {
				if an.Before(hc, call) {
					dom = hc
				}
			}
			bad := ""
			if dom == nil && fn != create {
				// the loop over the mutators lives in a helper that does no coercion itself: what counts is where
				// CreateOperationContext calls the helper
				sites := an.CallsIn(create, func(ci ssa.CallInstruction, _ an.CalleeInfo) bool { return ci.Common().StaticCallee() == fn })
				if fn.Parent() == create {
					for _, p := range mutatorCallPoints(create, "MutateOperationContext") {
						if ci, ok := p.(ssa.CallInstruction); ok {
							sites = append(sites, ci)
						}
					}
				}
				for _, site := range sites {
					if site.Parent() != create {
						continue
					}
					for _, st := range createCoerced {
						if an.Before(st, site) {
							dom = st
						}
					}
				}
			}
			if dom == nil {
				bad = "the operation-context mutators (complexity limit among them) run before the variables were coerced: arguments bound to omitted variables with defaults are costed as absent, and an over-limit operation passes the gate"
			} else {
				for _, st := range others {
					if an.CanReach(dom, st) && an.CanReach(st, call) {
						bad = "opCtx.Variables is overwritten at " + c.ipos(st) + " between coercion and the mutators"
					}
				}
			}
			c.R.Check(bad == "", fn.Name()+"/mutators-after-coercion", c.ipos(call), "dominated by opCtx.Variables = VariableValues(...)", bad)
		}
	}
	if n == 0 {
		c.R.Fail("unresolved anchor: CreateOperationContext does not call MutateOperationContext")
	}
	if lim := c.fn(pkgExtension, "ComplexityLimit.MutateOperationContext"); lim != nil {
		for _, call := range an.CallsIn(lim, func(_ ssa.CallInstruction, ci an.CalleeInfo) bool { return ci.FullName() == pkgComplex+".Calculate" }) {
			args := call.Common().Args
			vars := args[len(args)-1]
			ok := false
			if fa, isFA := loadAddr(vars).(*ssa.FieldAddr); isFA && fieldNameOf(fa) == "Variables" && an.SameVar(fa.X, lim.Params[len(lim.Params)-1]) {
				ok = true
			}
			c.R.Check(ok, "ComplexityLimit/variables", c.ipos(call), "Calculate receives opCtx.Variables", "complexity is computed with variables other than the operation context's coerced variables")
		}
	}
}

// storesCoercedVariables: on every path to a return with an empty error list... kept simple: h contains a store of
// validator.VariableValues' first result into the Variables field of its parameter p, and no other store to that field.
func storesCoercedVariables(h *ssa.Function, p *ssa.Parameter, depth int) bool {
	found, other := false, false
	for _, b := range h.Blocks {
		for _, in := range b.Instrs {
			st, ok := in.(*ssa.Store)
			if !ok {
				continue
			}
			fa, ok := st.Addr.(*ssa.FieldAddr)
			if !ok || fieldNameOf(fa) != "Variables" || !an.SameVar(fa.X, p) {
				continue
			}
			if cc := an.AllExtractOf(st.Val, 0); cc != nil && an.CalleeOf(cc).FullName() == pkgValidator+".VariableValues" {
				// the store must dominate every return (the helper always coerces)
				dom := true
				for _, r := range an.Returns(h) {
					if h.Recover != nil && r.Block() == h.Recover {
						continue
					}
					// failing returns (a list that is non-empty by construction) make the caller stop; only the
					// returns the caller continues after need the coercion
					if n := len(r.Results); n > 0 {
						if ne, _ := nonEmptyList(r, r.Results[n-1]); ne {
							continue
						}
					}
					if !an.Before(st, r) {
						dom = false
					}
				}
				if dom {
					found = true
				}
			} else {
				other = true
			}
		}
	}
	return found && !other
}
