package rules

import (
	"go/token"
	"os"
	"strings"
	"text/template/parse"

	"golang.org/x/tools/go/ssa"

	"verif/internal/an"
)

// structNameAgreement: the per-object resolver struct is emitted by resolver.gotpl as
// `type {{H1 $object.Name}}{{H2 $.ResolverType}} struct` and `func (r *{{H1 …}}{{H2 …}})`; every place in the resolver
// generator that asks the rewriter about that struct (MarkStructCopied, GetMethodBody, GetMethodComment, GetPrevDecl) builds its
// name as G1(o.Name) + G2(Resolver.Type) with helpers of the same classes.  A different helper finds nothing for the names on
// which the two differ (`HTTPThing`, an unexported resolver type): every regeneration turns the bodies into panics, or moves
// the struct into the left-over block.
func structNameAgreement(c *Ctx) {
	c.R.Rule("struct-name-agreement", "plugin/resolvergen: every struct name built as helper(o.Name)+helper(Resolver.Type) and handed to the Rewriter uses the same two helper classes as the template's `type {{…}}{{…}} struct`", 3)
	tp := c.W.TPkg(pkgResolvergen)
	if tp == nil || len(tp.GoFiles) == 0 {
		c.R.Fail("unresolved anchor: package plugin/resolvergen")
		return
	}
	dir := tp.GoFiles[0][:strings.LastIndex(tp.GoFiles[0], "/")]
	b, err := os.ReadFile(dir + "/resolver.gotpl")
	if err != nil {
		c.R.Note("resolver.gotpl", "-", "template not found; not judged")
		return
	}
	tr := parse.New("resolver.gotpl")
	tr.Mode = parse.SkipFuncCheck
	trees := map[string]*parse.Tree{}
	if _, err := tr.Parse(string(b), "{{", "}}", trees); err != nil {
		c.R.Bad("resolver.gotpl", "plugin/resolvergen/resolver.gotpl", "template does not parse: "+err.Error())
		return
	}
	helperOf := func(a *parse.ActionNode) string {
		if a.Pipe == nil || len(a.Pipe.Cmds) != 1 {
			return "?"
		}
		cmd := a.Pipe.Cmds[0]
		if len(cmd.Args) == 2 {
			if id, ok := cmd.Args[0].(*parse.IdentifierNode); ok {
				return id.Ident
			}
		}
		if len(cmd.Args) == 1 {
			return ""
		}
		return "?"
	}
	var t1, t2 string
	found := false
	var walk func(n parse.Node)
	walk = func(n parse.Node) {
		switch x := n.(type) {
		case *parse.ListNode:
			if x == nil {
				return
			}
			for i := 0; i+3 < len(x.Nodes); i++ {
				tx0, ok0 := x.Nodes[i].(*parse.TextNode)
				a1, ok1 := x.Nodes[i+1].(*parse.ActionNode)
				a2, ok2 := x.Nodes[i+2].(*parse.ActionNode)
				tx3, ok3 := x.Nodes[i+3].(*parse.TextNode)
				if ok0 && ok1 && ok2 && ok3 && strings.HasSuffix(strings.TrimRight(string(tx0.Text), " "), "type") && strings.HasPrefix(strings.TrimLeft(string(tx3.Text), " "), "struct") {
					t1, t2, found = helperOf(a1), helperOf(a2), true
				}
			}
			for _, y := range x.Nodes {
				walk(y)
			}
		case *parse.IfNode:
			walk(x.List)
			walk(x.ElseList)
		case *parse.RangeNode:
			walk(x.List)
			walk(x.ElseList)
		case *parse.WithNode:
			walk(x.List)
			walk(x.ElseList)
		}
	}
	for _, t := range trees {
		if t.Root != nil {
			walk(t.Root)
		}
	}
	if !found || t1 == "?" || t2 == "?" {
		c.R.Note("resolver.gotpl/object-struct", "plugin/resolvergen/resolver.gotpl", "the place where the template declares the per-object resolver struct was not recognised; not judged")
		return
	}
	cls := func(goFn string) string {
		if goFn == "" {
			return "the name itself"
		}
		if k, ok := nameClass[goFn]; ok {
			return k
		}
		return "the helper " + goFn
	}
	tcls := func(tplFn string) string {
		if tplFn == "" {
			return "the name itself"
		}
		return cls(c.funcMapTarget(tplFn))
	}
	n := 0
	for _, fn := range c.W.FuncsIn(func(p string) bool { return p == pkgResolvergen }) {
		seen := map[ssa.Value]bool{}
		for _, call := range an.CallsIn(fn, func(_ ssa.CallInstruction, ci an.CalleeInfo) bool {
			if ci.Static == nil {
				return false
			}
			switch ci.Static.Name() {
			case "MarkStructCopied", "GetMethodBody", "GetMethodComment", "GetPrevDecl":
				return ci.Static.Pkg != nil && ci.Static.Pkg.Pkg.Path() == pkgRewrite
			}
			return false
		}) {
			args := call.Common().Args
			if len(args) < 2 {
				continue
			}
			name := an.Strip(args[1])
			if seen[name] {
				continue
			}
			bo, ok := name.(*ssa.BinOp)
			if !ok || bo.Op != token.ADD {
				continue
			}
			seen[name] = true
			n++
			g1, g2 := nameHelperOf(bo.X), nameHelperOf(bo.Y)
			key := topFn(fn).Name() + "/struct-name@" + call.Common().StaticCallee().Name()
			if g1 == "?" || g2 == "?" {
				c.R.Note(key, c.ipos(call), "the struct name is not helper(name)+helper(type); not judged")
				continue
			}
			c.R.Check(cls(g1) == tcls(t1) && cls(g2) == tcls(t2), key, c.ipos(call), "built as "+cls(g1)+" + "+cls(g2)+", like the template",
				"the resolver struct is looked up under a name built as ("+cls(g1)+") + ("+cls(g2)+") but the template declares it as ("+tcls(t1)+") + ("+tcls(t2)+"): for names on which they differ the previous output is not recognised — bodies become panics, or the struct lands in the left-over block on every run")
		}
	}
	if n < 3 {
		c.R.Fail("struct-name-agreement: %d struct-name expressions found", n)
	}
}

// c19Round2: further conditions of "regeneration keeps what the user wrote".
func c19Round2(c *Ctx) {
	c.R.Rule("implementation-guard", "plugin/resolvergen: a Resolver that carries the previous implementation is built on the edge where that implementation is non-empty (not on a test of the comment)", 1)
	n := 0
	for _, fn := range c.W.FuncsIn(func(p string) bool { return p == pkgResolvergen }) {
		for _, call := range an.CallsIn(fn, func(_ ssa.CallInstruction, ci an.CalleeInfo) bool {
			return ci.Static != nil && ci.Static.Name() == "GetMethodBody" && ci.Static.Pkg != nil && ci.Static.Pkg.Pkg.Path() == pkgRewrite
		}) {
			body, ok := call.(*ssa.Call)
			if !ok || call.Parent() != fn {
				continue
			}
			// the trimmed implementation value
			var impl ssa.Value = body
			for _, r := range an.Referrers(body) {
				if tc, ok := r.(*ssa.Call); ok && an.CalleeOf(tc).FullName() == "strings.TrimSpace" {
					impl = tc
				}
			}
			// conditional edges that test a string against "" and lead to different Resolver literals
			for _, e := range an.CondEdges(fn) {
				if e.Fact.Op != token.NEQ && e.Fact.Op != token.EQL {
					continue
				}
				s, isS := an.ConstString(e.Fact.Y)
				if !isS || s != "" {
					continue
				}
				// does the block behind this edge store `impl` into a Resolver literal?
				stores := false
				for blk := range an.Reach(e.To, func(b *ssa.BasicBlock) bool { return len(b.Preds) > 1 }) {
					for _, in := range blk.Instrs {
						if st, ok := in.(*ssa.Store); ok && (st.Val == impl || an.SameVar(st.Val, impl)) {
							if fa, ok := st.Addr.(*ssa.FieldAddr); ok && strings.HasPrefix(fieldNameOf(fa), "Implementation") {
								stores = true
							}
						}
					}
				}
				if !stores || e.Fact.Op != token.NEQ {
					continue
				}
				n++
				c.R.Check(e.Fact.X == impl || an.SameVar(e.Fact.X, impl), topFn(fn).Name()+"/keeps-implementation-when-present", c.ipos(e.If), "decided by the implementation being non-empty",
					"whether the previous implementation is carried over is decided by a test of something other than the implementation (its comment): an implemented resolver without a doc comment is replaced by the panic stub and its body is gone")
			}
		}
	}
	if n == 0 {
		c.R.Note("implementation-guard", "-", "no edge that selects between the kept implementation and the stub was recognised; not decided")
	}

	c.R.Rule("remaining-source-exact", "Rewriter.RemainingSource copies each left-over declaration from exactly d.Pos() to d.End()", 1)
	if fn := c.fn(pkgRewrite, "*Rewriter.RemainingSource"); fn != nil {
		n := 0
		for _, call := range an.CallsIn(fn, func(_ ssa.CallInstruction, ci an.CalleeInfo) bool {
			return ci.Static != nil && ci.Static.Name() == "getSource"
		}) {
			args := call.Common().Args
			if len(args) < 3 {
				continue
			}
			n++
			isCallOf := func(v ssa.Value, m string) bool {
				cc, ok := an.Strip(v).(*ssa.Call)
				if !ok {
					return false
				}
				if cc.Call.IsInvoke() {
					return cc.Call.Method.Name() == m
				}
				return cc.Call.StaticCallee() != nil && cc.Call.StaticCallee().Name() == m
			}
			c.R.Check(isCallOf(args[1], "Pos") && isCallOf(args[2], "End"), "RemainingSource/range", c.ipos(call), "d.Pos() … d.End()",
				"the left-over declaration is copied from a range other than exactly Pos()…End(): every kept declaration loses (or gains) bytes at its edge — `var retries = 10` comes back as `var retries = 1`, closing braces go missing")
		}
		if n == 0 {
			c.R.Note("RemainingSource/range", c.pos(fn.Pos()), "no getSource call in RemainingSource; not decided")
		}
	}

	c.R.Rule("implementation-line-kept", "resolver.gotpl: the text that follows the action emitting the preserved implementation begins with a line break (no right-trim on that action: a body ending in a // comment must not swallow the closing brace)", 1)
	if tp := c.W.TPkg(pkgResolvergen); tp != nil && len(tp.GoFiles) > 0 {
		dir := tp.GoFiles[0][:strings.LastIndex(tp.GoFiles[0], "/")]
		if b, err := os.ReadFile(dir + "/resolver.gotpl"); err == nil {
			tr := parse.New("resolver.gotpl")
			tr.Mode = parse.SkipFuncCheck
			trees := map[string]*parse.Tree{}
			if _, err := tr.Parse(string(b), "{{", "}}", trees); err == nil {
				n := 0
				var walk func(nd parse.Node)
				walk = func(nd parse.Node) {
					switch x := nd.(type) {
					case *parse.ListNode:
						if x == nil {
							return
						}
						for i, y := range x.Nodes {
							if a, ok := y.(*parse.ActionNode); ok && strings.Contains(a.String(), ".Implementation") && i+1 < len(x.Nodes) {
								if tx, ok := x.Nodes[i+1].(*parse.TextNode); ok {
									n++
									c.R.Check(strings.HasPrefix(string(tx.Text), "\n") || strings.HasPrefix(string(tx.Text), "\r\n"), "resolver.gotpl/after-implementation", "plugin/resolvergen/resolver.gotpl", "a line break follows the body",
										"the preserved body is joined to the following text without a line break (a trim marker was added): a body that ends in a line comment comments out the closing brace, the file no longer parses and the next regeneration loses the body")
								}
							}
							walk(y)
						}
					case *parse.IfNode:
						walk(x.List)
						walk(x.ElseList)
					case *parse.RangeNode:
						walk(x.List)
						walk(x.ElseList)
					case *parse.WithNode:
						walk(x.List)
						walk(x.ElseList)
					}
				}
				for _, t := range trees {
					if t.Root != nil {
						walk(t.Root)
					}
				}
				if n == 0 {
					c.R.Note("resolver.gotpl/after-implementation", "plugin/resolvergen/resolver.gotpl", "the implementation action is not directly followed by text; not decided")
				}
			}
		}
	}
}

// c20Round2: `_entities` always answers with the list it allocated; an error inside the batch path ends the batch.
func c20Round2(c *Ctx, feds []*GenPkg) {
	c.R.Rule("entities-returns-list", "per federation executor: every return of __resolve_entities returns the list made with len(representations)", len(feds))
	for _, g := range feds {
		fn := c.genFunc(g, "__resolve_entities")
		if fn == nil {
			continue
		}
		var list ssa.Value
		for _, b := range fn.Blocks {
			for _, in := range b.Instrs {
				if ms, ok := in.(*ssa.MakeSlice); ok {
					list = ms
				}
			}
		}
		ok := list != nil
		var at ssa.Instruction
		for _, r := range an.Returns(fn) {
			if len(r.Results) != 1 {
				continue
			}
			v := an.ReturnedValue(r, 0)
			if v == nil || !(an.Strip(v) == list || an.SameVar(v, list)) {
				ok, at = false, r
			}
		}
		pos := c.pos(fn.Pos())
		if at != nil {
			pos = c.ipos(at)
		}
		c.R.Check(ok, "gen:"+g.Name+"/__resolve_entities/returns-list", pos, "always the list of len(representations)",
			"__resolve_entities can return something other than the list it allocated (nil): when no representation is usable the result has length 0 instead of one null per representation")
	}
	c.R.Rule("entity-error-edges-return", "per federation executor: in resolveEntity / resolveManyEntities every `err != nil` edge of a call leads straight to a return (no continue past a failed @requires or key unmarshal)", 2*len(feds))
	for _, g := range feds {
		for _, name := range []string{"resolveEntity", "resolveManyEntities"} {
			fn := c.genFunc(g, name)
			if fn == nil {
				continue
			}
			n := 0
			var bad ssa.Instruction
			// the function and the per-entity helpers of the package it hands the representation to
			bodies := []*ssa.Function{fn}
			for _, call := range an.CallsIn(fn, func(_ ssa.CallInstruction, ci an.CalleeInfo) bool {
				return ci.Static != nil && ci.Static.Pkg == g.SSA && strings.HasPrefix(ci.Static.Name(), name) && ci.Static != fn
			}) {
				bodies = append(bodies, call.Common().StaticCallee())
			}
			var edges []an.CondEdge
			for _, body := range bodies {
				edges = append(edges, an.CondEdges(body)...)
			}
			for _, e := range edges {
				empty, ok := an.EmptinessFact(e.Fact, func(v ssa.Value) bool { return an.IsErrorType(v.Type()) })
				if !ok || empty {
					continue
				}
				n++
				// the block entered on err != nil must end in a return
				blk := e.To
				for len(blk.Instrs) > 0 {
					if _, isJ := blk.Instrs[len(blk.Instrs)-1].(*ssa.Jump); isJ && len(blk.Succs) == 1 && len(blk.Succs[0].Preds) == 1 {
						blk = blk.Succs[0]
						continue
					}
					break
				}
				term := blk.Instrs[len(blk.Instrs)-1]
				switch term.(type) {
				case *ssa.Return, *ssa.Panic:
				default:
					// a jump to the function's single epilogue (named results + defer) also counts: it must reach a Return without passing a loop header
					reachesLoop := false
					for b2 := range an.Reach(blk, nil) {
						for _, p := range b2.Preds {
							if b2.Dominates(p) {
								reachesLoop = true
							}
						}
					}
					if reachesLoop {
						bad = e.If
					}
				}
			}
			pos := c.pos(fn.Pos())
			if bad != nil {
				pos = c.ipos(bad)
			}
			c.R.Check(bad == nil && n > 0, "gen:"+g.Name+"/"+name+"/error-edges-return", pos, sprintf("%d error edges, each ends the function", n),
				"after a failed call the function goes on with the loop (continue) instead of returning the error: the representation is answered null without any error, or with a half-populated entity")
		}
	}
}
