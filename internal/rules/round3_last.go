package rules

import (
	"go/token"
	"go/types"
	"strings"

	"golang.org/x/tools/go/ssa"

	"verif/internal/an"
)

// valueReceiverCopiesSync: a method with a value receiver works on a copy of its receiver.  For a struct that holds a
// sync.Mutex / WaitGroup, or a field that the package updates through sync/atomic, locking or counting on the copy protects
// and counts nothing.
func valueReceiverCopiesSync(c *Ctx, rule string, gen bool, pkgs ...string) {
	c.R.Rule(rule, "no method with a value receiver on a struct that contains a sync.Mutex/RWMutex/WaitGroup or a field the package updates through sync/atomic, if the method locks, waits or updates through that receiver (it would act on a copy)", 1)
	fns := c.scopeFuncs(pkgs, gen)
	// fields updated through sync/atomic: struct type -> field index
	atomicField := map[*types.Struct]map[int]bool{}
	for _, fn := range fns {
		for _, call := range an.CallsIn(fn, func(_ ssa.CallInstruction, ci an.CalleeInfo) bool {
			return strings.HasPrefix(ci.FullName(), "sync/atomic.")
		}) {
			if len(call.Common().Args) == 0 {
				continue
			}
			if fa, ok := call.Common().Args[0].(*ssa.FieldAddr); ok {
				if st, ok := fa.X.Type().Underlying().(*types.Pointer).Elem().Underlying().(*types.Struct); ok {
					if atomicField[st] == nil {
						atomicField[st] = map[int]bool{}
					}
					atomicField[st][fa.Field] = true
				}
			}
		}
	}
	n := 0
	for _, fn := range fns {
		recv := fn.Signature.Recv()
		if recv == nil || fn.Parent() != nil || len(fn.Params) == 0 || len(fn.Blocks) == 0 || fn.Synthetic != "" {
			continue
		}
		if _, isPtr := recv.Type().Underlying().(*types.Pointer); isPtr {
			continue
		}
		st, ok := recv.Type().Underlying().(*types.Struct)
		if !ok {
			continue
		}
		syncIdx := map[int]string{}
		for i := 0; i < st.NumFields(); i++ {
			t := st.Field(i).Type()
			if an.NamedIs(t, "sync", "Mutex") || an.NamedIs(t, "sync", "RWMutex") || an.NamedIs(t, "sync", "WaitGroup") {
				syncIdx[i] = st.Field(i).Name()
			}
			if atomicField[st][i] {
				syncIdx[i] = st.Field(i).Name()
			}
		}
		if len(syncIdx) == 0 {
			continue
		}
		n++
		// does the method touch one of them through its (copied) receiver?
		var bad ssa.Instruction
		what := ""
		for _, body := range an.WithClosures(fn) {
			for _, b := range body.Blocks {
				for _, in := range b.Instrs {
					fa, ok := in.(*ssa.FieldAddr)
					if !ok {
						continue
					}
					if name, isSync := syncIdx[fa.Field]; isSync && fa.X.Type().Underlying().(*types.Pointer).Elem().Underlying() == types.Type(st) {
						if a, ok := an.RootAlloc(fa.X).(*ssa.Alloc); ok && a.Parent() == fn {
							bad, what = in, name
						}
					}
				}
			}
		}
		key := c.fnKey(fn) + "/value-receiver"
		if bad != nil {
			c.R.Bad(key, c.ipos(bad), "the method has a value receiver and uses ."+what+" of it: it locks / counts on a private copy, so the write it is meant to protect races with the other goroutine and the count it keeps is lost")
		} else {
			c.R.OK(key, c.pos(fn.Pos()), "does not touch the synchronisation fields through the copy")
		}
	}
	c.R.Note(rule+"/examined", "-", sprintf("%d value-receiver methods on structs with synchronisation fields", n))
	c.R.SetFloor(0)
}

// decidedConditions: a branch condition that compares a value with a constant while a dominating edge has already fixed that
// value to another constant is decided before it is evaluated: `k != A || k != B` is always true, `k == A && k == B` never.
func decidedConditions(c *Ctx, rule string, pkgs ...string) {
	c.R.Rule(rule, "no branch compares a value with a constant on an edge where a dominating test has already fixed that value to a constant (x != A || x != B is always true; x == A && x == B is never)", 0)
	n := 0
	for _, fn := range c.moduleFuncs(inPkgs(pkgs)) {
		for _, b := range fn.Blocks {
			if len(b.Instrs) == 0 {
				continue
			}
			ifi, ok := b.Instrs[len(b.Instrs)-1].(*ssa.If)
			if !ok {
				continue
			}
			bo, ok := ifi.Cond.(*ssa.BinOp)
			if !ok || (bo.Op != token.EQL && bo.Op != token.NEQ) {
				continue
			}
			var x ssa.Value
			var k *ssa.Const
			if kc, ok := bo.Y.(*ssa.Const); ok && kc.Value != nil {
				x, k = bo.X, kc
			} else if kc, ok := bo.X.(*ssa.Const); ok && kc.Value != nil {
				x, k = bo.Y, kc
			} else {
				continue
			}
			n++
			for _, f := range an.Facts(ifi) {
				if f.Op != token.EQL {
					continue
				}
				var fx ssa.Value
				var fk *ssa.Const
				if kc, ok := f.Y.(*ssa.Const); ok && kc.Value != nil {
					fx, fk = f.X, kc
				} else if kc, ok := f.X.(*ssa.Const); ok && kc.Value != nil {
					fx, fk = f.Y, kc
				} else {
					continue
				}
				if !sameAccess(fx, x, 0) || fk.Value.ExactString() == k.Value.ExactString() {
					continue
				}
				c.R.Bad(c.fnKey(fn)+"/decided:"+k.Value.ExactString(), c.ipos(ifi), "this comparison with "+k.Value.ExactString()+" is made where the value is already known to equal "+fk.Value.ExactString()+": the condition is always the same (a `!= A || != B` that is always true, or `== A && == B` that never is), one branch is dead")
			}
		}
	}
	c.R.Note(rule+"/examined", "-", sprintf("%d comparisons with a constant examined", n))
}

// independentTests: tests that the code makes one after the other, each for its own sake, stay independent — the second is not
// skipped because the first held (an `else if` where two `if`s were meant).
func independentTests(c *Ctx) {
	c.R.Rule("independent-tests", "processExtensions: each interface assertion on a registered extension is made whatever the others answered; GET.Do: each URL parameter is read whatever the others contained", 4)
	check := func(fn *ssa.Function, what string, isTest func(in ssa.Instruction) (string, ssa.Value)) int {
		type t struct {
			name string
			in   ssa.Instruction
			v    ssa.Value
		}
		var tests []t
		for _, body := range an.WithClosures(fn) {
			if body != fn {
				continue
			}
			for _, b := range body.Blocks {
				for _, in := range b.Instrs {
					if name, v := isTest(in); name != "" {
						tests = append(tests, t{name, in, v})
					}
				}
			}
		}
		loops := an.Loops(fn)
		for _, a := range tests {
			dep := ""
			// every branch decided by another test must lead to this one from both of its sides (or from neither)
			for _, b := range fn.Blocks {
				iff, ok := b.Instrs[len(b.Instrs)-1].(*ssa.If)
				if !ok {
					continue
				}
				for _, o := range tests {
					if o.in == a.in || o.name == a.name || !dependsOnValue(iff.Cond, o.v, 0) {
						continue
					}
					// within one iteration: do not follow the back edge of the loop the branch stands in
					stop := func(x *ssa.BasicBlock) bool {
						for _, l := range loops {
							if l.Blocks[b] && x == l.Header {
								return true
							}
						}
						return false
					}
					r0 := b.Succs[0] == a.in.Block() || (!stop(b.Succs[0]) && an.Reach(b.Succs[0], stop)[a.in.Block()])
					r1 := b.Succs[1] == a.in.Block() || (!stop(b.Succs[1]) && an.Reach(b.Succs[1], stop)[a.in.Block()])
					if r0 != r1 {
						dep = o.name
					}
				}
			}
			c.R.Check(dep == "", c.fnKey(fn)+"/"+what+":"+a.name, c.ipos(a.in), "made whatever the other tests answered", a.name+" is only looked at depending on the outcome for "+dep+": when both apply, one of them is silently ignored")
		}
		return len(tests)
	}
	n := 0
	if fn := c.W.Func(pkgExecutor, "processExtensions"); fn != nil {
		n += check(fn, "assert", func(in ssa.Instruction) (string, ssa.Value) {
			ta, ok := in.(*ssa.TypeAssert)
			if !ok || !ta.CommaOk {
				return "", nil
			}
			if _, isI := ta.AssertedType.Underlying().(*types.Interface); !isI {
				return "", nil
			}
			return types.TypeString(ta.AssertedType, func(p *types.Package) string { return p.Name() }), ta
		})
	}
	if fn := c.W.Func(pkgTransport, "GET.Do"); fn != nil {
		n += check(fn, "param", func(in ssa.Instruction) (string, ssa.Value) {
			call, ok := in.(*ssa.Call)
			if !ok || an.CalleeOf(call).FullName() != "(net/url.Values).Get" || len(call.Call.Args) < 2 {
				return "", nil
			}
			s, ok := an.ConstString(call.Call.Args[1])
			if !ok {
				return "", nil
			}
			return s, call
		})
	}
	if n < 4 {
		c.R.Fail("independent-tests: only %d tests found in processExtensions / GET.Do", n)
	}
}

func dependsOnValue(v, target ssa.Value, depth int) bool {
	if v == nil || depth > 6 {
		return false
	}
	if v == target {
		return true
	}
	switch x := v.(type) {
	case *ssa.BinOp:
		return dependsOnValue(x.X, target, depth+1) || dependsOnValue(x.Y, target, depth+1)
	case *ssa.UnOp:
		return dependsOnValue(x.X, target, depth+1)
	case *ssa.Extract:
		return dependsOnValue(x.Tuple, target, depth+1)
	case *ssa.Phi:
		for _, e := range x.Edges {
			if dependsOnValue(e, target, depth+1) {
				return true
			}
		}
	case *ssa.Call:
		for _, a := range x.Call.Args {
			if dependsOnValue(a, target, depth+1) {
				return true
			}
		}
	case *ssa.Convert:
		return dependsOnValue(x.X, target, depth+1)
	case *ssa.ChangeType:
		return dependsOnValue(x.X, target, depth+1)
	}
	return false
}

// ctxParamUsed: a function that is handed a context.Context under a name uses it.  A goroutine body that waits on some other
// context than the one it was started with outlives what it was started for.
func ctxParamUsed(c *Ctx, rule string, pkgs ...string) {
	c.R.Rule(rule, "every named context.Context parameter of a function in "+strings.Join(shortPkgs(pkgs), ", ")+" is used by that function (a goroutine body that ignores its context waits on the wrong one)", 10)
	n := 0
	for _, fn := range c.moduleFuncs(inPkgs(pkgs)) {
		if len(fn.Blocks) == 0 || fn.Synthetic != "" {
			continue
		}
		for _, p := range fn.Params {
			if p.Type().String() != "context.Context" || p.Name() == "_" || p.Name() == "" {
				continue
			}
			n++
			used := false
			for _, r := range an.Referrers(p) {
				if _, isDbg := r.(*ssa.DebugRef); !isDbg {
					used = true
				}
			}
			c.R.Check(used, c.fnKey(fn)+"/param:"+p.Name(), c.pos(fn.Pos()), "used", "the context parameter "+p.Name()+" is never used: the function waits on (or derives from) some other context, so it does not end when the context it was given ends")
		}
	}
	if n < 10 {
		c.R.Fail("%s: only %d context parameters found", rule, n)
	}
}

// errorListLenZeroOnly: the length of an error list is compared with zero and nothing else.
func errorListLenZeroOnly(c *Ctx, rule string, gen bool, pkgs ...string) {
	c.R.Rule(rule, "len() of a gqlerror.List / []error / []*gqlerror.Error is compared with 0 only (`> 1` loses the single error)", 3)
	n := 0
	for _, fn := range c.scopeFuncs(pkgs, gen) {
		for _, b := range fn.Blocks {
			for _, in := range b.Instrs {
				bo, ok := in.(*ssa.BinOp)
				if !ok {
					continue
				}
				switch bo.Op {
				case token.EQL, token.NEQ, token.GTR, token.LSS, token.GEQ, token.LEQ:
				default:
					continue
				}
				for _, pr := range [][2]ssa.Value{{bo.X, bo.Y}, {bo.Y, bo.X}} {
					call, ok := pr[0].(*ssa.Call)
					if !ok {
						continue
					}
					bi, ok := call.Call.Value.(*ssa.Builtin)
					if !ok || bi.Name() != "len" {
						continue
					}
					ts := call.Call.Args[0].Type().String()
					if !(strings.HasSuffix(ts, "gqlerror.List") || ts == "[]error" || strings.HasSuffix(ts, "[]*github.com/vektah/gqlparser/v2/gqlerror.Error")) {
						continue
					}
					k, isC := an.ConstInt(pr[1])
					if !isC {
						continue
					}
					n++
					// `len(x) > 0`, `!= 0`, `== 0`, `>= 1`, `< 1`
					ok0 := k == 0 || (k == 1 && (bo.Op == token.GEQ || bo.Op == token.LSS) && pr[0] == bo.X)
					c.R.Check(ok0, c.fnKey(fn)+"/len-errors", c.ipos(in), "compared with 0", sprintf("the number of errors is compared with %d: a single error is treated like none (the client gets `complete` or data instead of the error)", k))
				}
			}
		}
	}
	if n < 3 {
		c.R.Fail("%s: only %d comparisons of an error list's length found", rule, n)
	}
}

// valueHalfOnErrorEdge: on the edge where the error of a (value, error) call is non-nil the value half is not sent on a channel
// or returned as a success; on the edge where it is nil the error is not sent as a failure.
func valueHalfOnErrorEdge(c *Ctx, rule string, pkgs ...string) {
	c.R.Rule(rule, "in "+strings.Join(shortPkgs(pkgs), ", ")+": the value half of a (value, error) call is not sent on a channel on the edge where the error is non-nil, and the error is not sent on the edge where it is nil (a flipped test)", 1)
	n := 0
	for _, fn := range c.moduleFuncs(inPkgs(pkgs)) {
		for _, b := range fn.Blocks {
			for _, in := range b.Instrs {
				snd, ok := in.(*ssa.Send)
				if !ok {
					continue
				}
				ex, ok := an.Strip(snd.X).(*ssa.Extract)
				if !ok {
					continue
				}
				call, ok := ex.Tuple.(*ssa.Call)
				if !ok {
					continue
				}
				res := call.Call.Signature().Results()
				if res.Len() != 2 || !an.IsErrorType(res.At(1).Type()) {
					continue
				}
				n++
				errNonNil, errNil := false, false
				for _, f := range an.Facts(in) {
					if empty, k := an.EmptinessFact(f, func(x ssa.Value) bool {
						e2, ok := an.Strip(x).(*ssa.Extract)
						return ok && e2.Tuple == ssa.Value(call) && e2.Index == 1
					}); k {
						if empty {
							errNil = true
						} else {
							errNonNil = true
						}
					}
				}
				bad := (ex.Index == 0 && errNonNil) || (ex.Index == 1 && errNil)
				c.R.Check(!bad, c.fnKey(topFn(fn))+"/send-"+lastSeg(an.CalleeOf(call).FullName()), c.ipos(in), "sent on the matching edge", "the halves of "+lastSeg(an.CalleeOf(call).FullName())+"'s result are sent on the wrong edges: the zero value goes out as a message when the call failed (and a nil error when it succeeded)")
			}
		}
	}
	c.R.Note(rule+"/examined", "-", sprintf("%d sends of a (value, error) half examined", n))
	c.R.SetFloor(0)
}

// staleLoopCarried: a variable that is assigned afresh in some iterations only, and read in every iteration, carries the
// previous iteration's value into the iterations that do not assign it (a declaration hoisted out of the loop).
func staleLoopCarried(c *Ctx, rule string, pkgs ...string) {
	c.R.Rule(rule, "in "+strings.Join(shortPkgs(pkgs), ", ")+": a loop variable whose new value never depends on its old one (not an accumulator) is not carried unchanged into a later iteration and handed to a call there", 1)
	n := 0
	for _, fn := range c.moduleFuncs(inPkgs(pkgs)) {
		for _, l := range an.Loops(fn) {
			for _, in := range l.Header.Instrs {
				phi, ok := in.(*ssa.Phi)
				if !ok {
					break
				}
				if phi.Comment == "rangeindex" {
					continue
				}
				// values arriving over back edges
				var back []ssa.Value
				for i, e := range phi.Edges {
					if l.Blocks[l.Header.Preds[i]] {
						back = append(back, e)
					}
				}
				if len(back) == 0 {
					continue
				}
				// expand inner phis
				carriesSelf, fresh, accum := false, false, false
				seen := map[ssa.Value]bool{}
				var expand func(v ssa.Value, d int)
				expand = func(v ssa.Value, d int) {
					if d > 6 || seen[v] {
						return
					}
					seen[v] = true
					if v == ssa.Value(phi) {
						carriesSelf = true
						return
					}
					if p2, ok := v.(*ssa.Phi); ok && l.Blocks[p2.Block()] {
						for _, e := range p2.Edges {
							expand(e, d+1)
						}
						return
					}
					if dependsOnValue(v, phi, 0) {
						accum = true
					} else {
						fresh = true
					}
				}
				for _, v := range back {
					expand(v, 0)
				}
				if !(carriesSelf && fresh) || accum {
					continue
				}
				// the carried value is handed to a call inside the loop
				var use ssa.Instruction
				var visit func(v ssa.Value, d int)
				vs := map[ssa.Value]bool{}
				visit = func(v ssa.Value, d int) {
					if d > 3 || vs[v] {
						return
					}
					vs[v] = true
					for _, r := range an.Referrers(v) {
						if !l.Blocks[r.Block()] {
							continue
						}
						switch x := r.(type) {
						case *ssa.Call:
							if _, isB := x.Call.Value.(*ssa.Builtin); !isB {
								use = r
							}
						case *ssa.Phi:
							visit(x, d+1)
						}
					}
				}
				visit(phi, 0)
				if use == nil {
					continue
				}
				// only variables of basic numeric type (flags and cursors are left alone)
				if bt, ok := phi.Type().Underlying().(*types.Basic); !ok || bt.Info()&types.IsNumeric == 0 {
					continue
				}
				n++
				c.R.Bad(c.fnKey(fn)+"/carried:"+phi.Comment, c.ipos(use), "the variable "+phi.Comment+" is assigned in some iterations only but handed to this call in every iteration: an iteration that does not assign it uses the value a previous element left behind (a per-element variable declared outside the loop)")
			}
		}
	}
	c.R.Note(rule+"/examined", "-", sprintf("%d stale loop-carried variables", n))
	c.R.SetFloor(0)
}

// dispatchCtxCarriesOperation (sibling cross-check): every transport hands the executor a context that carries the operation
// context it just created.
func dispatchCtxCarriesOperation(c *Ctx) {
	c.R.Rule("dispatch-ctx-carries-operation", "package transport: wherever a function obtained an operation context from CreateOperationContext, the context it passes to DispatchError afterwards (DispatchOperation binds it itself) derives from graphql.WithOperationContext(ctx, that operation context)", 6)
	n := 0
	for _, fn := range transportFuncs(c) {
		var create []ssa.CallInstruction
		for _, body := range []*ssa.Function{fn} {
			create = an.CallsIn(body, func(_ ssa.CallInstruction, ci an.CalleeInfo) bool {
				return ci.Method != nil && ci.Method.Name() == "CreateOperationContext"
			})
		}
		if len(create) == 0 {
			continue
		}
		for _, call := range an.CallsIn(fn, func(_ ssa.CallInstruction, ci an.CalleeInfo) bool {
			return ci.Method != nil && ci.Method.Name() == "DispatchError" // DispatchOperation binds the operation context itself
		}) {
			if call.Parent() != fn {
				continue
			}
			after := false
			for _, cr := range create {
				if cr.Parent() == fn && an.CanReach(cr, call) {
					after = true
				}
			}
			if !after {
				continue
			}
			n++
			ctxArg := call.Common().Args[0]
			ok := ctxFromWithOperationContext(ctxArg, call, 0, map[ssa.Value]bool{})
			c.R.Check(ok, c.fnKey(topFn(fn))+"/"+call.Common().Method.Name(), c.ipos(call), "the context carries the operation context", "the executor is handed a context without the operation context this transport created: hooks that read it (APQ statistics, tracing) panic or answer `internal system error` on this transport only")
		}
	}
	if n < 6 {
		c.R.Fail("dispatch-ctx-carries-operation: only %d dispatch calls after CreateOperationContext found", n)
	}
}

var ctxWanted = "WithOperationContext"

// ctxFromWith: like ctxFromWithOperationContext for another context constructor of package graphql.
func ctxFromWith(name string, v ssa.Value, at ssa.Instruction) bool {
	old := ctxWanted
	ctxWanted = name
	defer func() { ctxWanted = old }()
	return ctxFromWithOperationContext(v, at, 0, map[ssa.Value]bool{})
}

func ctxFromWithOperationContext(v ssa.Value, at ssa.Instruction, depth int, seen map[ssa.Value]bool) bool {
	if v == nil || depth > 6 || seen[v] {
		return false
	}
	seen[v] = true
	v = an.Strip(v)
	switch x := v.(type) {
	case *ssa.Call:
		name := an.CalleeOf(x).FullName()
		if name == pkgGraphql+"."+ctxWanted {
			return true
		}
		// derived contexts (WithCancel, WithValue, withSubscriptionErrorContext …): look at the parent context argument
		if len(x.Call.Args) > 0 && x.Call.Args[0].Type().String() == "context.Context" {
			return ctxFromWithOperationContext(x.Call.Args[0], at, depth+1, seen)
		}
	case *ssa.Extract:
		return ctxFromWithOperationContext(x.Tuple, at, depth+1, seen)
	case *ssa.Phi:
		for _, e := range x.Edges {
			if !ctxFromWithOperationContext(e, at, depth+1, seen) {
				return false
			}
		}
		return len(x.Edges) > 0
	case *ssa.UnOp:
		if x.Op == token.MUL {
			// a variable captured by a function literal: what the enclosing function stored into it before the literal was made
			if fv, ok := x.X.(*ssa.FreeVar); ok {
				cl := fv.Parent()
				idx := -1
				for i, f := range cl.FreeVars {
					if f == fv {
						idx = i
					}
				}
				if par := cl.Parent(); par != nil && idx >= 0 {
					for _, b := range par.Blocks {
						for _, in := range b.Instrs {
							mc, ok := in.(*ssa.MakeClosure)
							if !ok || mc.Fn != ssa.Value(cl) || idx >= len(mc.Bindings) {
								continue
							}
							any := false
							for _, st := range an.CellStores(mc.Bindings[idx]) {
								if st.Parent() == par && an.CanReach(st, mc) && ctxFromWithOperationContext(st.Val, mc, depth+1, seen) {
									any = true
								}
							}
							return any
						}
					}
				}
				return false
			}
			any := false
			for _, st := range an.CellStores(x.X) {
				if an.CanReach(st, at) && ctxFromWithOperationContext(st.Val, at, depth+1, seen) {
					any = true
				}
			}
			return any
		}
	}
	return false
}
