package rules

import (
	"go/token"
	"go/types"

	"golang.org/x/tools/go/ssa"

	"verif/internal/an"
)

// c17ErrorResultFieldChecked: "generation never panics".  A generator function that fills a field of the struct it is handed
// from the value half of a (value, error) call *without* looking at the error first, and hands that error on, may return
// with the field nil.  A caller that keeps going after such an error (the generator logs many binding errors and falls back
// to a resolver) must not select through that field before it has tested it.  The pairs are discovered from the program:
//
//	callee  F(…, p *S, …):  p.fld = v  with (v, err) := g(…), the store not guarded by err == nil, in F or a deferred literal of F
//	caller  err := F(…, x, …): on the edge err != nil, x.fld is not dereferenced before a test of x.fld against nil
func c17ErrorResultFieldChecked(c *Ctx) {
	c.R.Rule("error-result-field-checked", "generator packages (codegen, codegen/config, plugin/*): when a function stores the value half of a (value, error) call into a field of a struct parameter without testing the error, its callers do not select through that field on the edge where the function reported an error, unless they tested the field first", 1)
	in := func(p string) bool {
		return p == modPath("codegen") || p == modPath("codegen/config") || p == modPath("codegen/templates") ||
			(len(p) > len(modPath("plugin/")) && p[:len(modPath("plugin/"))] == modPath("plugin/"))
	}
	type leak struct {
		fn    *ssa.Function
		param int
		field int
		via   string
	}
	var leaks []leak
	for _, fn := range c.moduleFuncs(in) {
		if fn.Parent() != nil {
			continue
		}
		res := fn.Signature.Results()
		if res.Len() == 0 || !an.IsErrorType(res.At(res.Len()-1).Type()) {
			continue
		}
		for _, body := range an.WithClosures(fn) {
			for _, b := range body.Blocks {
				for _, i := range b.Instrs {
					st, ok := i.(*ssa.Store)
					if !ok {
						continue
					}
					fa, ok := st.Addr.(*ssa.FieldAddr)
					if !ok {
						continue
					}
					pi := paramIndexOf(fn, fa.X)
					if pi < 0 {
						continue
					}
					ex, ok := an.Strip(st.Val).(*ssa.Extract)
					if !ok || ex.Index != 0 {
						continue
					}
					call, ok := ex.Tuple.(*ssa.Call)
					if !ok {
						continue
					}
					rs := call.Call.Signature().Results()
					if rs.Len() != 2 || !an.IsErrorType(rs.At(1).Type()) {
						continue
					}
					if _, isPtr := ex.Type().Underlying().(*types.Pointer); !isPtr {
						continue
					}
					guarded := false
					for _, f := range an.Facts(i) {
						if empty, k := an.EmptinessFact(f, func(x ssa.Value) bool {
							e2, ok := an.Strip(x).(*ssa.Extract)
							return ok && e2.Tuple == ssa.Value(call) && e2.Index == 1
						}); k && empty {
							guarded = true
						}
					}
					if guarded {
						continue
					}
					leaks = append(leaks, leak{fn, pi, fa.Field, lastSeg(an.CalleeOf(call).FullName())})
				}
			}
		}
	}
	seen := map[string]bool{}
	n := 0
	for _, lk := range leaks {
		for _, caller := range c.moduleFuncs(in) {
			for _, b := range caller.Blocks {
				for _, i := range b.Instrs {
					call, ok := i.(*ssa.Call)
					if !ok || call.Call.StaticCallee() != lk.fn {
						continue
					}
					args := call.Call.Args
					ai := lk.param
					if ai >= len(args) {
						continue
					}
					obj := args[ai]
					key := shortFn(caller) + "→" + lk.fn.Name() + "/" + fieldNameOfStruct(obj.Type(), lk.field)
					if seen[key] {
						continue
					}
					seen[key] = true
					n++
					bad := derefOnErrorEdge(call, obj, lk.field)
					if bad != nil {
						c.R.Bad(key, c.ipos(bad), "after "+lk.fn.Name()+" reported an error the field may be nil ("+lk.fn.Name()+" stores the value half of "+lk.via+" without testing its error), and this selects through it without a test: the generator dies with a nil pointer dereference instead of reporting the error")
					} else {
						c.R.OK(key, c.ipos(call), "on the error edge the field is tested against nil (or not used) before any selection through it")
					}
				}
			}
		}
	}
	if len(leaks) == 0 {
		c.R.Fail("error-result-field-checked: no function storing an unchecked (value, error) result into a parameter's field found (bindField expected)")
	}
}

// paramIndexOf: v is (a load of) parameter #i of fn, directly or through the cell a literal of fn captured.
func paramIndexOf(fn *ssa.Function, v ssa.Value) int {
	v = an.Strip(v)
	for depth := 0; depth < 4; depth++ {
		switch x := v.(type) {
		case *ssa.Parameter:
			for i, p := range fn.Params {
				if p == x {
					return i
				}
			}
			return -1
		case *ssa.UnOp:
			if x.Op != token.MUL {
				return -1
			}
			v = x.X
		case *ssa.FreeVar:
			cl := x.Parent()
			idx := -1
			for i, fv := range cl.FreeVars {
				if fv == x {
					idx = i
				}
			}
			par := cl.Parent()
			if par == nil || idx < 0 {
				return -1
			}
			var bound ssa.Value
			for _, b := range par.Blocks {
				for _, in := range b.Instrs {
					if mc, ok := in.(*ssa.MakeClosure); ok && mc.Fn == ssa.Value(cl) && idx < len(mc.Bindings) {
						bound = mc.Bindings[idx]
					}
				}
			}
			if bound == nil {
				return -1
			}
			v = bound
		case *ssa.Alloc:
			sts := an.CellStores(x)
			if len(sts) != 1 {
				return -1
			}
			v = an.Strip(sts[0].Val)
		default:
			return -1
		}
	}
	return -1
}

func fieldNameOfStruct(t types.Type, idx int) string {
	if p, ok := t.Underlying().(*types.Pointer); ok {
		t = p.Elem()
	}
	if s, ok := t.Underlying().(*types.Struct); ok && idx < s.NumFields() {
		return s.Field(idx).Name()
	}
	return "field#" + sprintf("%d", idx)
}

// derefOnErrorEdge walks from the edges on which the error returned by call is non-nil and returns the first selection through
// obj.field that is reached before a nil test of that field.
func derefOnErrorEdge(call *ssa.Call, obj ssa.Value, field int) ssa.Instruction {
	fn := call.Parent()
	isFieldLoad := func(v ssa.Value) bool {
		u, ok := an.Strip(v).(*ssa.UnOp)
		if !ok || u.Op != token.MUL {
			return false
		}
		fa, ok := u.X.(*ssa.FieldAddr)
		return ok && fa.Field == field && an.SameValue(fa.X, obj)
	}
	isErr := func(v ssa.Value) bool {
		v = an.Strip(v)
		if v == ssa.Value(call) {
			return true
		}
		if ex, ok := v.(*ssa.Extract); ok && ex.Tuple == ssa.Value(call) {
			return an.IsErrorType(ex.Type())
		}
		// err kept in a cell (named result or captured variable)
		if u, ok := v.(*ssa.UnOp); ok && u.Op == token.MUL {
			for _, st := range an.CellStores(u.X) {
				if st.Block() == call.Block() && isErrVal(st.Val, call) {
					return true
				}
			}
		}
		return false
	}
	// starting blocks: successors on which "err != nil" holds
	var starts []*ssa.BasicBlock
	for _, b := range fn.Blocks {
		if len(b.Instrs) == 0 {
			continue
		}
		ifi, ok := b.Instrs[len(b.Instrs)-1].(*ssa.If)
		if !ok {
			continue
		}
		bin, ok := ifi.Cond.(*ssa.BinOp)
		if !ok || !(bin.Op == token.NEQ || bin.Op == token.EQL) {
			continue
		}
		var other ssa.Value
		if an.IsNilConst(bin.Y) {
			other = bin.X
		} else if an.IsNilConst(bin.X) {
			other = bin.Y
		} else {
			continue
		}
		if !isErr(other) || !an.CanReach(call, ifi) {
			continue
		}
		if bin.Op == token.NEQ {
			starts = append(starts, b.Succs[0])
		} else {
			starts = append(starts, b.Succs[1])
		}
	}
	seen := map[*ssa.BasicBlock]bool{}
	var bad ssa.Instruction
	var walk func(b *ssa.BasicBlock)
	walk = func(b *ssa.BasicBlock) {
		if seen[b] || bad != nil {
			return
		}
		seen[b] = true
		for _, i := range b.Instrs {
			switch x := i.(type) {
			case *ssa.Store:
				if fa, ok := x.Addr.(*ssa.FieldAddr); ok && fa.Field == field && an.SameValue(fa.X, obj) {
					return // re-assigned: what follows is about the new value
				}
			case ssa.CallInstruction:
				cc := x.Common()
				if cc.IsInvoke() && isFieldLoad(cc.Value) {
					bad = i
					return
				}
				if sc := cc.StaticCallee(); sc != nil && sc.Signature.Recv() != nil && len(cc.Args) > 0 && isFieldLoad(cc.Args[0]) {
					bad = i
					return
				}
			case *ssa.FieldAddr:
				if isFieldLoad(x.X) {
					bad = i
					return
				}
			case *ssa.If:
				if bin, ok := x.Cond.(*ssa.BinOp); ok && (bin.Op == token.NEQ || bin.Op == token.EQL) {
					var other ssa.Value
					if an.IsNilConst(bin.Y) {
						other = bin.X
					} else if an.IsNilConst(bin.X) {
						other = bin.Y
					}
					if other != nil && isFieldLoad(other) {
						// only the edge on which the field is nil stays interesting
						if bin.Op == token.EQL {
							walk(b.Succs[0])
						} else {
							walk(b.Succs[1])
						}
						return
					}
				}
			}
		}
		for _, s := range b.Succs {
			walk(s)
		}
	}
	for _, s := range starts {
		walk(s)
	}
	return bad
}

func isErrVal(v ssa.Value, call *ssa.Call) bool {
	v = an.Strip(v)
	if v == ssa.Value(call) {
		return true
	}
	if ex, ok := v.(*ssa.Extract); ok && ex.Tuple == ssa.Value(call) {
		return an.IsErrorType(ex.Type())
	}
	return false
}
