package rules

import (
	"go/constant"
	"go/token"
	"go/types"
	"sort"
	"strings"

	"golang.org/x/tools/go/ssa"

	"verif/internal/an"
)

// syntaxAgreement: the sibling cross-check of layout.go between a probe and its function-syntax overlay.
func syntaxAgreement(c *Ctx, an1, bn1 string) {
	var a, b *GenPkg
	for _, g := range c.Gen {
		switch g.Name {
		case an1:
			a = g
		case bn1:
			b = g
		}
	}
	c.R.Rule("syntax-siblings-agree", "every generated field, object and (un)marshal function present in a probe and in its function-syntax overlay (same SDL, same options otherwise) has the same effect fingerprint in both", 50)
	if a == nil || b == nil {
		c.R.Note("syntax-siblings-agree/"+an1, "-", "the two configurations are not both materialised in this tier")
		c.R.SetFloor(0)
		return
	}
	norm := func(s string) string {
		s = strings.ReplaceAll(s, bn1[len("probe-"):], "·")
		s = strings.ReplaceAll(s, an1[len("probe-"):], "·")
		return strings.ReplaceAll(s, "*executionContext.", "")
	}
	index := func(g *GenPkg) map[string]*ssa.Function {
		m := map[string]*ssa.Function{}
		for _, fn := range c.genFuncs(g) {
			if fn.Parent() != nil {
				continue
			}
			name := fn.Name()
			if fn.Signature.Recv() != nil {
				name = types.TypeString(fn.Signature.Recv().Type(), func(*types.Package) string { return "" }) + "." + name
			}
			m[norm(name)] = fn
		}
		return m
	}
	ia, ib := index(a), index(b)
	var names []string
	for n := range ia {
		if ib[n] != nil {
			names = append(names, n)
		}
	}
	sort.Strings(names)
	{
		var keep []string
		for _, n := range names {
			base := n
			if i := strings.LastIndex(base, "."); i >= 0 {
				base = base[i+1:]
			}
			if strings.HasPrefix(base, "_") || strings.HasPrefix(base, "marshal") || strings.HasPrefix(base, "unmarshal") || strings.HasPrefix(base, "field_") || strings.HasPrefix(base, "fieldContext_") {
				keep = append(keep, n)
			}
		}
		names = keep
	}
	fp := func(g *GenPkg, other map[string]*ssa.Function, root *ssa.Function) map[string]int {
		out := map[string]int{}
		seen := map[*ssa.Function]bool{}
		var walk func(fn *ssa.Function, depth int)
		walk = func(fn *ssa.Function, depth int) {
			if seen[fn] || depth > 3 {
				return
			}
			seen[fn] = true
			for _, f := range an.WithClosures(fn) {
				for _, blk := range f.Blocks {
					for _, in := range blk.Instrs {
						switch x := in.(type) {
						case ssa.CallInstruction:
							cc := x.Common()
							if cc.IsInvoke() {
								out["invoke:"+cc.Method.Name()]++
								break
							}
							sc := cc.StaticCallee()
							if sc == nil {
								if bi, ok := cc.Value.(*ssa.Builtin); ok {
									out["builtin:"+bi.Name()]++
								}
								break
							}
							if sc.Pkg == g.SSA && sc.Parent() == nil {
								nm := sc.Name()
								if sc.Signature.Recv() != nil {
									nm = types.TypeString(sc.Signature.Recv().Type(), func(*types.Package) string { return "" }) + "." + nm
								}
								if other[norm(nm)] == nil {
									walk(sc, depth+1) // a helper only this layout has: its effects count as the caller's
								} else {
									out["gen:"+norm(nm)]++
								}
								break
							}
							if sc.Parent() == nil {
								out["call:"+norm(an.CalleeOf(x).FullName())]++
							}
						case *ssa.MakeClosure:
							// a method value `ec.helper` stored where the other layout stores a literal that calls helper(ctx, ec, …):
							// a reference to the same generated function
							if w, ok := x.Fn.(*ssa.Function); ok && strings.HasPrefix(w.Synthetic, "bound method wrapper") {
								if obj, ok := w.Object().(*types.Func); ok {
									if sc := c.W.Prog.FuncValue(obj); sc != nil && sc.Pkg == g.SSA {
										nm := sc.Name()
										if sc.Signature.Recv() != nil {
											nm = types.TypeString(sc.Signature.Recv().Type(), func(*types.Package) string { return "" }) + "." + nm
										}
										if other[norm(nm)] == nil {
											walk(sc, depth+1)
										} else {
											out["gen:"+norm(nm)]++
										}
									}
								}
							}
						case *ssa.FieldAddr:
							out["field:"+fieldNameOf(x)]++
						case *ssa.Field:
							if st, ok := x.X.Type().Underlying().(*types.Struct); ok {
								out["field:"+st.Field(x.Field).Name()]++
							}
						case *ssa.BinOp:
							switch x.Op {
							case token.EQL, token.NEQ, token.LSS, token.GTR, token.LEQ, token.GEQ:
								for _, v := range []ssa.Value{x.X, x.Y} {
									if k, ok := v.(*ssa.Const); ok && k.Value != nil && k.Value.Kind() == constant.Int {
										out["cmp:"+k.Value.ExactString()]++
									}
								}
							}
						}
						for _, op := range in.Operands(nil) {
							if k, ok := (*op).(*ssa.Const); ok && k.Value != nil && k.Value.Kind() == constant.String {
								s := constant.StringVal(k.Value)
								if len(s) > 60 {
									s = s[:60]
								}
								out["str:"+norm(s)]++
							}
						}
					}
				}
			}
		}
		walk(root, 0)
		return out
	}
	n := 0
	for _, name := range names {
		fa, fb := ia[name], ib[name]
		pa, pb := fp(a, ib, fa), fp(b, ia, fb)
		var diff []string
		keys := map[string]bool{}
		for k := range pa {
			keys[k] = true
		}
		for k := range pb {
			keys[k] = true
		}
		for k := range keys {
			if pa[k] != pb[k] {
				diff = append(diff, sprintf("%s ×%d/×%d", k, pa[k], pb[k]))
			}
		}
		n++
		if len(diff) == 0 {
			c.R.OK("gen:"+an1+"~fn/"+name, c.pos(fa.Pos()), "same effect fingerprint in both layouts")
			continue
		}
		sort.Strings(diff)
		if len(diff) > 6 {
			diff = append(diff[:6], sprintf("… %d more", len(diff)-6))
		}
		c.R.Bad("gen:"+an1+"~fn/"+name, c.pos(fa.Pos()), "the method-syntax and function-syntax executors of the same schema differ in effect here (method/function counts): "+strings.Join(diff, "; ")+" — one branch of a template's `if $useFunctionSyntaxForExecutionContext` was changed without the other")
	}
	c.R.SetFloor(n)
	if n < 50 {
		c.R.Fail("syntax-siblings-agree: only %d functions exist in both executors", n)
	}
}
