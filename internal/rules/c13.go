package rules

import (
	"go/token"
	"go/types"
	"strings"

	"golang.org/x/tools/go/ssa"

	"verif/internal/an"
)

func init() {
	register(&Property{
		ID:      "C13",
		NeedGen: true,
		Runtime: RuntimeCore,
		Run:     runC13,
		Explanation: "Exactly-once accounting of deferred groups in every materialised executor: (accounting) processDeferredGroup increments pendingDeferred before it starts the group's goroutine; that goroutine offers exactly one " +
			"DeferredResult on every path, built from a context made by WithFreshResponseContext(dg.Context), dispatched on that context and carrying GetErrors of that same context; the response closure receives only " +
			"under pendingDeferred > 0 and decrements once per received result; every object function adds len(deferred) to the deferred counter before the loop that starts exactly the groups of that map, and only " +
			"after the Invalids test of the object itself; hasNext is read from pendingDeferred after the payload was marshalled; (deferred-slot) a field routed to a deferred set gets graphql.Null in the parent's " +
			"slot and is not also scheduled on the parent set; a deferred set's Invalids nulls only that group's result; (defer-noninterference) in graphql.collectFields and the same-package functions it calls, the " +
			"outcome of deferrable() and the Deferrable mark of a collected field influence nothing but the Deferrable mark: no store into a CollectedField, the grouped-field slice, a selection set or the visited map is " +
			"control dependent on, or computed from, such a value (information-flow analysis over SSA with control dependence and call-site propagation), so the selections collected for every field are the same with and without @defer. (pending-queue, shared with C12) the multipart/mixed aggregator removes exactly what it wrote from its queue, under the lock that covered reading it: a payload added while a batch is being written is neither lost nor sent twice.",
		NotDecided:  "equality of the merged payloads with the plain result, ordering of nested groups (schedule-level), evaluation of @defer's if/label arguments inside deferrable() (value-level)",
		Assumptions: []string{"atomic counters and channel semantics"},
	})
}

func isAtomicOn(in ssa.Instruction, fn, field string) (*ssa.Call, bool) {
	call, ok := in.(*ssa.Call)
	if !ok || an.CalleeOf(call).FullName() != "sync/atomic."+fn {
		return nil, false
	}
	fa, ok := call.Call.Args[0].(*ssa.FieldAddr)
	if !ok || fieldNameOf(fa) != field {
		return nil, false
	}
	return call, true
}

func runC13(c *Ctx) {
	c13Accounting(c)
	c13Rest(c)
}

// c13Accounting: the `accounting` rule (shared with C12: hasNext decides where the closing boundary goes).
func c13Accounting(c *Ctx) {
	c.R.Rule("accounting", "per materialised executor: pending++ before go; one result offered per group from a fresh response context whose errors it carries; receive only when pending > 0 with one decrement; deferred += len(map) before starting exactly that map's groups and after the object's Invalids test; hasNext read after marshalling", 6*len(c.Gen))
	for _, g := range c.Gen {
		pfx := "gen:" + g.Name + "/"
		pdg := c.genFunc(g, "processDeferredGroup")
		exec := c.genFunc(g, "Exec")
		if pdg == nil || exec == nil {
			c.R.Fail("gen:%s: processDeferredGroup or Exec not found", g.Name)
			continue
		}
		// (a) pending++ before go
		var inc *ssa.Call
		var goI *ssa.Go
		for _, b := range pdg.Blocks {
			for _, in := range b.Instrs {
				if call, ok := isAtomicOn(in, "AddInt32", "pendingDeferred"); ok {
					if n, isC := an.ConstInt(call.Call.Args[1]); isC && n == 1 {
						inc = call
					}
				}
				if gi, ok := in.(*ssa.Go); ok {
					goI = gi
				}
			}
		}
		c.R.Check(inc != nil && goI != nil && an.Before(inc, goI), pfx+"processDeferredGroup/pending-before-go", c.pos(pdg.Pos()), "pendingDeferred incremented before the goroutine starts",
			"pendingDeferred is not incremented before the group's goroutine starts: the response closure can see 0 pending groups and end the stream while a group is still running")
		// (b)+(c) goroutine body
		if goI != nil {
			var body *ssa.Function
			if mc, ok := goI.Call.Value.(*ssa.MakeClosure); ok {
				body = mc.Fn.(*ssa.Function)
			} else if sc := goI.Call.StaticCallee(); sc != nil && len(sc.Blocks) > 0 {
				body = sc // `go ec.method(dg)`
			}
			if body == nil {
				c.R.Bad(pfx+"processDeferredGroup$go/one-result", c.ipos(goI), "goroutine body not found")
			} else {
				c.deferredBody(pfx, body)
			}
		}
		// (d) response closures
		nrecv := 0
		recvIn := map[*ssa.Function]bool{}
		// the receive sits in the response closure or in a method it calls (`ec.nextDeferredResult(ctx)`)
		recvFuncs := an.WithClosures(exec)
		inExec := map[*ssa.Function]bool{}
		for _, f := range recvFuncs {
			inExec[f] = true
		}
		for _, f := range c.genFuncs(g) {
			if !inExec[f] && f.Parent() == nil && f.Signature.Recv() != nil {
				recvFuncs = append(recvFuncs, f)
			}
		}
		for _, fn := range recvFuncs {
			for _, b := range fn.Blocks {
				for _, in := range b.Instrs {
					var at ssa.Instruction
					switch x := in.(type) {
					case *ssa.UnOp:
						if x.Op == token.ARROW && isFieldChan(x.X, "deferredResults") {
							at = x
						}
					case *ssa.Select:
						for _, st := range x.States {
							if st.Dir == types.RecvOnly && isFieldChan(st.Chan, "deferredResults") {
								at = x
							}
						}
					}
					if at == nil {
						continue
					}
					nrecv++
					recvIn[fn] = true
					guard := false
					for _, f := range an.Facts(at) {
						if call, ok := f.X.(*ssa.Call); ok {
							if _, isLoad := isAtomicOn(call, "LoadInt32", "pendingDeferred"); isLoad {
								if n, isC := an.ConstInt(f.Y); isC && n == 0 && f.Op == token.GTR {
									guard = true
								}
							}
						}
					}
					// exactly one decrement reachable from the receive before the function returns, none elsewhere
					ndec := 0
					decAfter := false
					for _, b2 := range fn.Blocks {
						for _, in2 := range b2.Instrs {
							if call, ok := isAtomicOn(in2, "AddInt32", "pendingDeferred"); ok {
								if n, isC := an.ConstInt(call.Call.Args[1]); isC && n == -1 {
									ndec++
									if an.CanReach(at, in2) && !an.CanReach(in2, in2) {
										decAfter = true
									}
								}
							}
						}
					}
					c.R.Check(guard && ndec == 1 && decAfter, pfx+"Exec/receive-accounted", c.ipos(at), "receive under pending > 0, one decrement after it",
						sprintf("deferred results are received without matching accounting (guard pending>0: %v, decrements: %d, after receive: %v): the stream ends early or the handler blocks forever", guard, ndec, decAfter))
				}
			}
		}
		// (f) hasNext after marshal: in the response closure that marshals the payload
		for _, fn := range an.WithClosures(exec) {
			var marshal, hasNext ssa.Instruction
			for _, b2 := range fn.Blocks {
				for _, in2 := range b2.Instrs {
					if call, ok := in2.(ssa.CallInstruction); ok && call.Common().IsInvoke() && call.Common().Method.Name() == "MarshalGQL" {
						marshal = in2
					}
					if call, ok := isAtomicOn(in2, "LoadInt32", "pendingDeferred"); ok && marshal != nil && an.CanReach(marshal, call) {
						hasNext = call
					}
				}
			}
			// only the closure that delivers deferred results computes hasNext: it receives itself or calls the method that does
			delivers := recvIn[fn]
			for _, call := range an.CallsIn(fn, func(_ ssa.CallInstruction, ci an.CalleeInfo) bool { return ci.Static != nil && recvIn[ci.Static] }) {
				if call.Parent() == fn {
					delivers = true
				}
			}
			if marshal == nil || !delivers {
				continue
			}
			c.R.Check(hasNext != nil && an.Before(marshal, hasNext), pfx+"Exec/hasNext-after-marshal", c.pos(fn.Pos()), "pendingDeferred read for hasNext after data.MarshalGQL",
				"hasNext is computed before the payload is marshalled: groups started while marshalling (nested @defer) are not counted and the client stops reading too early")
		}
		if nrecv == 0 {
			c.R.Bad(pfx+"Exec/receive-accounted", c.pos(exec.Pos()), "the response handler never receives deferred results")
		}
		// (e) object functions
		nobj := 0
		okObj := true
		why := ""
		for _, fn := range c.genFuncs(g) {
			if fn.Parent() != nil {
				continue
			}
			var calls []ssa.CallInstruction
			for _, call := range an.CallsIn(fn, func(_ ssa.CallInstruction, ci an.CalleeInfo) bool { return ci.Static != nil && ci.Static == pdg }) {
				calls = append(calls, call)
			}
			if len(calls) == 0 {
				continue
			}
			nobj++
			for _, call := range calls {
				// ranged map
				var rng *ssa.Range
				for h := call.Block(); h != nil && rng == nil; h = h.Idom() {
					for _, in := range h.Instrs {
						if r, ok := in.(*ssa.Range); ok {
							rng = r
						}
					}
				}
				var add *ssa.Call
				for _, b := range fn.Blocks {
					for _, in := range b.Instrs {
						if cc, ok := isAtomicOn(in, "AddInt32", "deferred"); ok {
							add = cc
						}
					}
				}
				switch {
				case rng == nil:
					okObj, why = false, fn.Name()+": processDeferredGroup is not called from a range loop"
				case add == nil || !an.Before(add, rng):
					okObj, why = false, fn.Name()+": the deferred counter is not increased before the groups are started"
				default:
					// add's delta is len(<same map as ranged>)
					same := false
					for _, d := range an.Defs(add.Call.Args[1]) {
						if cv, ok := d.(*ssa.Convert); ok {
							if lc, ok := cv.X.(*ssa.Call); ok {
								if bi, ok := lc.Call.Value.(*ssa.Builtin); ok && bi.Name() == "len" && an.SameVar(lc.Call.Args[0], rng.X) {
									same = true
								}
							}
						}
					}
					if !same {
						okObj, why = false, fn.Name()+": the deferred counter is not increased by len() of the map whose groups are started"
					}
					// after the object's own Invalids test: the range is on the Invalids == 0 edge
					inval := false
					for _, f := range an.Facts(rng) {
						if fa, ok := loadAddr(f.X).(*ssa.FieldAddr); ok && fieldNameOf(fa) == "Invalids" {
							if n, isC := an.ConstInt(f.Y); isC && n == 0 && (f.Op == token.LEQ || f.Op == token.EQL) {
								inval = true
							}
						}
					}
					if !inval {
						okObj, why = false, fn.Name()+": deferred groups are started although the object itself is invalid (must return null first)"
					}
				}
			}
		}
		c.R.Check(okObj && nobj > 0, pfx+"objects/deferred-counted", g.Spec.Dir, sprintf("%d object functions start their groups after deferred += len(map) and the Invalids test", nobj), why)
	}

}

func c13Rest(c *Ctx) {
	c.R.Rule("deferred-slot", "in every object function: on the field.Deferrable != nil edge the parent's slot is set to graphql.Null and the parent set's Concurrently is not reachable in that iteration; processDeferredGroup's goroutine replaces only its own result by Null when the group's set is invalid", len(c.Gen))
	nslots := 0
	for _, g := range c.Gen {
		pfx := "gen:" + g.Name + "/"
		n, bad := 0, ""
		for _, fn := range c.genFuncs(g) {
			if fn.Parent() != nil {
				continue
			}
			// Concurrently call sites in this object function, grouped by receiver role: deferred set (dfs) vs parent (out)
			var conc []ssa.CallInstruction
			for _, call := range an.CallsIn(fn, func(_ ssa.CallInstruction, ci an.CalleeInfo) bool {
				return strings.HasSuffix(ci.FullName(), "graphql.FieldSet).Concurrently")
			}) {
				conc = append(conc, call)
			}
			for _, call := range conc {
				deferredEdge := false
				for _, f := range an.Facts(call) {
					if empty, ok := an.EmptinessFact(f, func(v ssa.Value) bool {
						fa, ok := loadAddr(v).(*ssa.FieldAddr)
						return ok && fieldNameOf(fa) == "Deferrable"
					}); ok && !empty {
						deferredEdge = true
					}
				}
				if !deferredEdge {
					continue
				}
				n++
				// slot nulled in the same iteration
				nulled := false
				for _, b := range fn.Blocks {
					for _, in := range b.Instrs {
						st, ok := in.(*ssa.Store)
						if !ok {
							continue
						}
						if _, isIdx := st.Addr.(*ssa.IndexAddr); !isIdx {
							continue
						}
						if g2, ok := loadGlobal(an.Strip(st.Val)); ok && g2.Name() == "Null" && an.CanReach(call, st) && sameIteration(call, st) {
							nulled = true
						}
					}
				}
				if !nulled {
					bad = fn.Name() + ": a deferred field's slot in the parent is not set to null"
				}
				for _, other := range conc {
					if other != call && !factsHaveDeferrable(other) && sameIteration(call, other) {
						bad = fn.Name() + ": a deferred field is also scheduled on the parent set (delivered twice)"
					}
				}
			}
		}
		if n == 0 && bad == "" {
			c.R.OKTrivial(pfx+"objects/deferred-slot", g.Spec.Dir, "no concurrently resolved (deferrable) field in this schema")
			continue
		}
		nslots += n
		c.R.Check(bad == "", pfx+"objects/deferred-slot", g.Spec.Dir, sprintf("%d deferred-capable fields: slot nulled, not scheduled on the parent", n), bad)
	}
	if nslots < 20 {
		c.R.Fail("deferred-slot examined only %d deferred-capable fields", nslots)
	}

	c13DeferNonInterference(c)
	// delivery of every incremental payload exactly once over multipart/mixed (same rule as C12/pending-queue)
	c12PendingQueue(c)
	valueWithVariables(c)
	fieldSetParallel(c)
	funcFieldsSet(c, pkgGraphql)
	batchHasNextFromLast(c)
	hasNextAbsentIsFalse(c)
	deferredCounterCompared(c)
	layoutAgreement(c)
	genRound2(c)
	directiveArgAssertChecked(c)
	fieldSetAgreement(c)
}

func factsHaveDeferrable(call ssa.CallInstruction) bool {
	for _, f := range an.Facts(call) {
		if _, ok := an.EmptinessFact(f, func(v ssa.Value) bool {
			fa, ok := loadAddr(v).(*ssa.FieldAddr)
			return ok && fieldNameOf(fa) == "Deferrable"
		}); ok {
			if empty, _ := an.EmptinessFact(f, func(v ssa.Value) bool {
				fa, ok := loadAddr(v).(*ssa.FieldAddr)
				return ok && fieldNameOf(fa) == "Deferrable"
			}); !empty {
				return true
			}
		}
	}
	return false
}

// sameIteration: b is reachable from a without passing through the loop header that dominates a.
func sameIteration(a, b ssa.Instruction) bool {
	var header *ssa.BasicBlock
	for h := a.Block(); h != nil; h = h.Idom() {
		for _, p := range h.Preds {
			if h.Dominates(p) {
				header = h
			}
		}
		if header != nil {
			break
		}
	}
	if header == nil {
		return an.CanReach(a, b)
	}
	if a.Block() == b.Block() {
		return an.InstrIndex(a) < an.InstrIndex(b)
	}
	seen := an.Reach(a.Block(), func(x *ssa.BasicBlock) bool { return x == header && x != a.Block() })
	if !seen[b.Block()] {
		return false
	}
	// reachable; make sure not only through the header
	for _, s := range a.Block().Succs {
		r := an.Reach(s, func(x *ssa.BasicBlock) bool { return x == header })
		if r[b.Block()] && b.Block() != header {
			return true
		}
	}
	return false
}

func isFieldChan(v ssa.Value, field string) bool {
	fa, ok := loadAddr(v).(*ssa.FieldAddr)
	return ok && fieldNameOf(fa) == field
}

func (c *Ctx) deferredBody(pfx string, body *ssa.Function) {
	// offers of the result: Send or Select with a send state on deferredResults
	var offers []ssa.Instruction
	var sentVal ssa.Value
	for _, b := range body.Blocks {
		for _, in := range b.Instrs {
			switch x := in.(type) {
			case *ssa.Send:
				if isFieldChan(x.Chan, "deferredResults") {
					offers = append(offers, in)
					sentVal = x.X
				}
			case *ssa.Select:
				for _, st := range x.States {
					if st.Dir == types.SendOnly && isFieldChan(st.Chan, "deferredResults") {
						offers = append(offers, in)
						sentVal = st.Send
					}
				}
			}
		}
	}
	bad := ""
	if len(offers) != 1 {
		bad = sprintf("expected exactly one offer of the DeferredResult, found %d", len(offers))
	} else {
		if an.CanReach(offers[0], offers[0]) {
			bad = "the result is offered in a loop"
		}
		for _, r := range an.Returns(body) {
			if !mustPassThrough(body, r, func(in ssa.Instruction) bool { return in == offers[0] }) {
				bad = "the goroutine can end without offering its result: the response closure waits forever for it"
			}
		}
	}
	c.R.Check(bad == "", pfx+"processDeferredGroup$go/one-result", c.pos(body.Pos()), "exactly one offer on every path", bad)

	// fresh context, dispatched on it, errors of it
	var fresh *ssa.Call
	for _, call := range an.CallsIn(body, func(_ ssa.CallInstruction, ci an.CalleeInfo) bool {
		return ci.FullName() == pkgGraphql+".WithFreshResponseContext"
	}) {
		fresh, _ = call.(*ssa.Call)
	}
	okFresh := fresh != nil
	if okFresh {
		fa, isF := loadAddr(fresh.Call.Args[0]).(*ssa.FieldAddr)
		okFresh = isF && fieldNameOf(fa) == "Context"
	}
	okDispatch, okErrors := false, false
	if fresh != nil {
		for _, call := range an.CallsIn(body, func(_ ssa.CallInstruction, ci an.CalleeInfo) bool {
			return strings.HasSuffix(ci.FullName(), "graphql.FieldSet).Dispatch")
		}) {
			if an.SameVar(call.Common().Args[1], fresh) {
				okDispatch = true
			}
		}
		// the Errors field of the sent struct is GetErrors(fresh)
		if sentVal != nil {
			if a := loadAddr(sentVal); a != nil {
				for _, ref := range an.CellRefs(a) {
					fa, ok := ref.(*ssa.FieldAddr)
					if !ok || fieldNameOf(fa) != "Errors" {
						continue
					}
					for _, r2 := range an.Referrers(fa) {
						if st, ok := r2.(*ssa.Store); ok {
							if cc, ok := st.Val.(*ssa.Call); ok && an.CalleeOf(cc).FullName() == pkgGraphql+".GetErrors" && an.SameVar(cc.Call.Args[0], fresh) {
								okErrors = true
							}
						}
					}
				}
			}
		}
	}
	c.R.Check(okFresh && okDispatch && okErrors, pfx+"processDeferredGroup$go/own-errors", c.pos(body.Pos()), "fresh response context of dg.Context; dispatched on it; its errors are delivered",
		sprintf("the deferred group does not isolate its errors (fresh context of dg.Context: %v, dispatched on it: %v, delivers GetErrors of it: %v): its errors leak into / are taken from another payload", okFresh, okDispatch, okErrors))

	// Invalids of the group nulls only this result
	okNull := false
	for _, b := range body.Blocks {
		for _, in := range b.Instrs {
			st, ok := in.(*ssa.Store)
			if !ok {
				continue
			}
			fa, ok := st.Addr.(*ssa.FieldAddr)
			if !ok || fieldNameOf(fa) != "Result" {
				continue
			}
			invalidFact := func(fs []an.Fact) bool {
				for _, f := range fs {
					if fa2, ok := loadAddr(f.X).(*ssa.FieldAddr); ok && fieldNameOf(fa2) == "Invalids" && f.Op == token.GTR {
						return true
					}
				}
				return false
			}
			isNull := func(v ssa.Value) bool {
				g2, ok := loadGlobal(an.Strip(v))
				return ok && g2.Name() == "Null"
			}
			if isNull(st.Val) && invalidFact(an.Facts(st)) {
				okNull = true
			}
			// the value was chosen before the struct is built: a phi edge or a store into the local, of Null, under Invalids > 0
			for _, ve := range valueEdges(st.Val, st.Block()) {
				if isNull(ve.val) && invalidFact(factsOn(ve)) {
					okNull = true
				}
				if ld, isLd := ve.val.(*ssa.UnOp); isLd && an.IsLocalCell(ld.X) {
					for _, cs := range an.CellStores(ld.X) {
						if isNull(cs.Val) && invalidFact(an.Facts(cs)) {
							okNull = true
						}
					}
				}
			}
		}
	}
	c.R.Check(okNull, pfx+"processDeferredGroup$go/invalid-group-null", c.pos(body.Pos()), "Result = Null only when the group's own set is invalid",
		"a deferred group with a failed non-null field does not deliver null for the group (or nulls something else)")
}
