package rules

import (
	"go/ast"
	"os"
	"strconv"
	"strings"
	"text/template/parse"

	"golang.org/x/tools/go/ssa"

	"verif/internal/an"
)

// nameClass: reviewed equivalence classes of the naming helpers that appear on the two sides of the resolver generator.  Two
// helpers in one class produce the same string for every GraphQL name ([_A-Za-z][_0-9A-Za-z]*, one Unicode word).
var nameClass = map[string]string{
	"github.com/99designs/gqlgen/codegen/templates.UcFirst": "first rune upper-cased",
	// cases.Title(language.English, cases.NoLower).String: upper-cases the first rune of each word and leaves the rest alone;
	// a GraphQL name is a single word (underscore and digits join words), so this is UcFirst on such names
	"x/text/cases.Title(NoLower).String":                    "first rune upper-cased",
	"github.com/99designs/gqlgen/codegen/templates.LcFirst": "first rune lower-cased",
}

// c18AccessorNameAgreement: regeneration recognises the root accessor it wrote itself (`func (r *Resolver) Query() …`) by
// name: the resolver generator looks it up with Rewriter.GetMethodBody(resolverType, NAME) so that it is not copied into the
// "left over" block, while the template writes the method as {{FUNC $object.Name}}.  NAME and FUNC have to compute the same
// string for every object name, otherwise the second run on an unedited tree duplicates the accessor (not idempotent) and
// treats generated code as user code.  Both sides are resolved to Go functions (the template side through the FuncMap) and
// compared by reviewed equivalence class; a helper outside the table is compared by identity.
func c18AccessorNameAgreement(c *Ctx) {
	c.R.Rule("accessor-name-agreement", "plugin/resolvergen: the method name under which the root accessor is looked up in the previous output (second argument of the result-discarding Rewriter.GetMethodBody calls) is computed by a helper of the same reviewed class as the helper the template applies to $object.Name where it emits that method", 0)
	// template side
	tp := c.W.TPkg(pkgResolvergen)
	if tp == nil || len(tp.GoFiles) == 0 {
		c.R.Fail("unresolved anchor: package plugin/resolvergen")
		return
	}
	dir := tp.GoFiles[0][:strings.LastIndex(tp.GoFiles[0], "/")]
	b, err := os.ReadFile(dir + "/resolver.gotpl")
	if err != nil {
		c.R.Note("resolver.gotpl", "-", "template not found; not judged")
		return
	}
	tr := parse.New("resolver.gotpl")
	tr.Mode = parse.SkipFuncCheck
	trees := map[string]*parse.Tree{}
	if _, err := tr.Parse(string(b), "{{", "}}", trees); err != nil {
		c.R.Bad("resolver.gotpl", "plugin/resolvergen/resolver.gotpl", "template does not parse: "+err.Error())
		return
	}
	var tplFuncs []string
	// template variables declared once with a single command
	tplVars := map[string]*parse.CommandNode{}
	var collect func(n parse.Node)
	collect = func(n parse.Node) {
		switch x := n.(type) {
		case *parse.ListNode:
			if x == nil {
				return
			}
			for _, y := range x.Nodes {
				collect(y)
			}
		case *parse.ActionNode:
			if x.Pipe != nil && len(x.Pipe.Decl) == 1 && len(x.Pipe.Cmds) == 1 && !x.Pipe.IsAssign {
				name := x.Pipe.Decl[0].Ident[0]
				if _, dup := tplVars[name]; dup {
					tplVars[name] = nil
				} else {
					tplVars[name] = x.Pipe.Cmds[0]
				}
			}
		case *parse.IfNode:
			collect(x.List)
			collect(x.ElseList)
		case *parse.RangeNode:
			collect(x.List)
			collect(x.ElseList)
		case *parse.WithNode:
			collect(x.List)
			collect(x.ElseList)
		}
	}
	for _, t := range trees {
		if t.Root != nil {
			collect(t.Root)
		}
	}
	var walk func(n parse.Node)
	walk = func(n parse.Node) {
		switch x := n.(type) {
		case *parse.ListNode:
			if x == nil {
				return
			}
			for i := 0; i+4 < len(x.Nodes); i++ {
				t0, ok0 := x.Nodes[i].(*parse.TextNode)
				_, ok1 := x.Nodes[i+1].(*parse.ActionNode)
				t2, ok2 := x.Nodes[i+2].(*parse.TextNode)
				a3, ok3 := x.Nodes[i+3].(*parse.ActionNode)
				t4, ok4 := x.Nodes[i+4].(*parse.TextNode)
				if !(ok0 && ok1 && ok2 && ok3 && ok4) {
					continue
				}
				if !strings.HasSuffix(strings.TrimRight(string(t0.Text), " "), "func (r *") || strings.TrimSpace(string(t2.Text)) != ")" || !strings.HasPrefix(strings.TrimLeft(string(t4.Text), " "), "()") {
					continue
				}
				if a3.Pipe == nil || len(a3.Pipe.Cmds) != 1 {
					tplFuncs = append(tplFuncs, "?")
					continue
				}
				cmd := a3.Pipe.Cmds[0]
				// `{{ $accessor := ucFirst $object.Name }} … {{ $accessor }}`: read the variable's definition
				if len(cmd.Args) == 1 {
					if v, ok := cmd.Args[0].(*parse.VariableNode); ok && len(v.Ident) == 1 && tplVars[v.Ident[0]] != nil {
						cmd = tplVars[v.Ident[0]]
					}
				}
				if len(cmd.Args) == 2 {
					if id, ok := cmd.Args[0].(*parse.IdentifierNode); ok {
						tplFuncs = append(tplFuncs, id.Ident)
						continue
					}
				}
				if len(cmd.Args) == 1 {
					tplFuncs = append(tplFuncs, "") // the bare name
					continue
				}
				tplFuncs = append(tplFuncs, "?")
			}
			for _, y := range x.Nodes {
				walk(y)
			}
		case *parse.IfNode:
			walk(x.List)
			walk(x.ElseList)
		case *parse.RangeNode:
			walk(x.List)
			walk(x.ElseList)
		case *parse.WithNode:
			walk(x.List)
			walk(x.ElseList)
		}
	}
	for _, t := range trees {
		if t.Root != nil {
			walk(t.Root)
		}
	}
	if len(tplFuncs) != 1 || tplFuncs[0] == "?" {
		c.R.Note("resolver.gotpl/root-accessor", "plugin/resolvergen/resolver.gotpl", sprintf("the place where the template emits the root accessor method was not recognised (%d candidates); not judged", len(tplFuncs)))
		return
	}
	tplGo := ""
	if tplFuncs[0] != "" {
		tplGo = c.funcMapTarget(tplFuncs[0])
		if tplGo == "" {
			c.R.Note("resolver.gotpl/root-accessor", "plugin/resolvergen/resolver.gotpl", "template function "+tplFuncs[0]+" not found in templates.Funcs(); not judged")
			return
		}
	}
	// Go side
	n := 0
	for _, fn := range c.W.FuncsIn(func(p string) bool { return p == pkgResolvergen }) {
		for _, b := range fn.Blocks {
			for _, in := range b.Instrs {
				body := rewriterCall(in, "GetMethodBody")
				if body == nil {
					continue
				}
				used := false
				for _, r := range an.Referrers(body) {
					if _, isDbg := r.(*ssa.DebugRef); !isDbg {
						used = true
					}
				}
				if used || len(body.Call.Args) < 3 {
					continue
				}
				n++
				goFn := nameHelperOf(body.Call.Args[2])
				key := topFn(fn).Name() + "/root-accessor-name"
				if goFn == "?" {
					c.R.Note(key, c.ipos(body), "the looked-up method name is not a single helper applied to the object name; not judged")
					continue
				}
				cls := func(f string) string {
					if f == "" {
						return "the name itself"
					}
					if k, ok := nameClass[f]; ok {
						return k
					}
					return "the helper " + f
				}
				c.R.Check(cls(goFn) == cls(tplGo), key, c.ipos(body), "looked up as "+cls(goFn)+", emitted as "+cls(tplGo),
					"the root accessor is looked up under a name computed by "+cls(goFn)+" but the template emits it under "+cls(tplGo)+": for object names on which the two differ the accessor written by the previous run is not recognised, so a second run on an unedited tree moves it into the left-over block and emits it again (regeneration is not idempotent)")
			}
		}
	}
	if n == 0 {
		c.R.Note("root-accessor-name", "-", "no result-discarding GetMethodBody call found; not judged")
	}
}

// nameHelperOf: v is helper(objectName): returns the helper's identity ("" when v is the name itself, "?" when not recognised).
func nameHelperOf(v ssa.Value) string {
	ds := an.Defs(v)
	if len(ds) != 1 {
		return "?"
	}
	switch x := ds[0].(type) {
	case *ssa.Call:
		if x.Call.IsInvoke() {
			return "?"
		}
		callee := x.Call.StaticCallee()
		if callee == nil {
			return "?"
		}
		full := callee.String()
		if strings.HasSuffix(full, "golang.org/x/text/cases.Caser).String") && len(x.Call.Args) == 2 {
			// the caser must come from cases.Title(<lang>, cases.NoLower)
			for _, d := range an.Defs(x.Call.Args[0]) {
				if mk, ok := d.(*ssa.Call); ok && mk.Call.StaticCallee() != nil && mk.Call.StaticCallee().String() == "golang.org/x/text/cases.Title" {
					noLower := false
					for _, a := range mk.Call.Args[1:] {
						for _, d2 := range an.Defs(a) {
							if sl, ok := d2.(*ssa.Slice); ok {
								if al, ok := sl.X.(*ssa.Alloc); ok {
									for _, r := range an.Referrers(al) {
										if ia, ok := r.(*ssa.IndexAddr); ok {
											for _, r2 := range an.Referrers(ia) {
												if st, ok := r2.(*ssa.Store); ok {
													if g, ok := loadGlobal(an.Strip(st.Val)); ok && g.Name() == "NoLower" {
														noLower = true
													}
												}
											}
										}
									}
								}
							}
						}
					}
					if noLower {
						return "x/text/cases.Title(NoLower).String"
					}
					return "x/text/cases.Title.String"
				}
			}
			return "?"
		}
		if len(x.Call.Args) == 1 {
			return strings.TrimPrefix(full, "")
		}
		return "?"
	case *ssa.UnOp, *ssa.FieldAddr, *ssa.Field:
		return ""
	}
	return "?"
}

// funcMapTarget resolves a template function name to the Go function registered under it in templates.Funcs().
func (c *Ctx) funcMapTarget(name string) string {
	tp := c.W.TPkg(modPath("codegen/templates"))
	if tp == nil {
		return ""
	}
	out := ""
	for _, f := range tp.Syntax {
		ast.Inspect(f, func(n ast.Node) bool {
			kv, ok := n.(*ast.KeyValueExpr)
			if !ok {
				return true
			}
			bl, ok := kv.Key.(*ast.BasicLit)
			if !ok {
				return true
			}
			if s, err := strconv.Unquote(bl.Value); err != nil || s != name {
				return true
			}
			if id, ok := kv.Value.(*ast.Ident); ok {
				if obj := tp.TypesInfo.Uses[id]; obj != nil && obj.Pkg() != nil {
					out = obj.Pkg().Path() + "." + obj.Name()
				}
			}
			return true
		})
	}
	return out
}
