package rules

import (
	"go/token"
	"go/types"
	"strings"

	"golang.org/x/tools/go/ssa"

	"verif/internal/an"
)

// Structural necessary conditions of C20 that came out of the small-slip round; per materialised federation configuration.
func c20Small(c *Ctx, feds []*GenPkg) {
	// (1) every representation is grouped
	c.R.Rule("all-representations-grouped", "buildRepresentationGroups: the loop over the representations is left only from its header — no break and no return inside it: a representation that cannot be grouped is skipped, not the rest of the list", len(feds))
	for _, g := range feds {
		fn := c.genFunc(g, "buildRepresentationGroups")
		if fn == nil {
			c.R.Fail("gen:%s: buildRepresentationGroups not found", g.Name)
			continue
		}
		loops := an.Loops(fn)
		ok, n := true, 0
		var at ssa.Instruction
		for _, l := range loops {
			n++
			for _, e := range l.Exits {
				if e.From != l.Header {
					ok = false
					at = e.From.Instrs[len(e.From.Instrs)-1]
				}
			}
		}
		pos := c.pos(fn.Pos())
		if at != nil {
			pos = c.ipos(at)
		}
		c.R.Check(ok && n >= 1, "gen:"+g.Name+"/buildRepresentationGroups/loop-total", pos, "the loop visits every representation",
			"the loop over the representations can be left early: the representations after one without a usable __typename are never grouped, their elements stay null without an error of their own")
	}

	// (2) positional reads of reps inside loops
	c.R.Rule("requires-from-own-representation", "resolveManyEntities: inside a loop, reps is indexed only by that loop's range index (reps[0] is used outside loops to choose the resolver): the @requires fields of entity i are read from representation i", 0)
	nIdx := 0
	for _, g := range feds {
		fn := c.genFunc(g, "resolveManyEntities")
		if fn == nil {
			continue
		}
		var reps ssa.Value
		for _, p := range fn.Params {
			if strings.HasSuffix(p.Type().String(), "[]"+g.Path+".EntityWithIndex") {
				reps = p
			}
		}
		if reps == nil {
			continue
		}
		inLoop := map[*ssa.BasicBlock]bool{}
		for _, l := range an.Loops(fn) {
			for b := range l.Blocks {
				inLoop[b] = true
			}
		}
		bad := map[string]ssa.Instruction{}
		seen := map[string]bool{}
		for _, b := range fn.Blocks {
			if !inLoop[b] {
				continue
			}
			for _, in := range b.Instrs {
				ia, ok := in.(*ssa.IndexAddr)
				if !ok || !an.SameVar(ia.X, reps) && an.Strip(ia.X) != reps {
					continue
				}
				nIdx++
				key := "gen:" + g.Name + "/resolveManyEntities/reps-index"
				seen[key] = true
				isRangeIdx := false
				for _, d := range an.Defs(ia.Index) {
					if bo, ok := d.(*ssa.BinOp); ok {
						if p, ok := bo.X.(*ssa.Phi); ok && p.Comment == "rangeindex" {
							isRangeIdx = true
						}
					}
					if p, ok := d.(*ssa.Phi); ok && p.Comment == "rangeindex" {
						isRangeIdx = true
					}
				}
				if !isRangeIdx && bad[key] == nil {
					bad[key] = in
				}
			}
		}
		for key := range seen {
			if at := bad[key]; at != nil {
				c.R.Bad(key, c.ipos(at), "inside the loop over the resolved entities reps is read at a fixed index: every entity of the batch gets the @requires fields (or the slot) of one representation instead of its own")
			} else {
				c.R.OK(key, c.pos(fn.Pos()), "reps is indexed by the loop index inside loops")
			}
		}
	}
	if nIdx == 0 {
		c.R.Note("resolveManyEntities/reps-index", "-", "no materialised federation configuration reads reps inside a loop; nothing to judge")
	}

	// (3) allNull is the conjunction over all key fields
	c.R.Rule("all-null-conjunction", "entityResolverNameFor*: every condition computed from `val == nil` comparisons depends (through the phi chain of `if allNull { allNull = val == nil }`) on every such comparison that dominates it: a resolver is skipped only when ALL its key fields are null", 3*len(feds))
	nAll := 0
	for _, g := range feds {
		for _, fn := range c.genFuncs(g) {
			// the key tests may sit in the function itself or in a function literal of it
			if !strings.HasPrefix(topFn(fn).Name(), "entityResolverNameFor") {
				continue
			}
			isNilCmp := func(v ssa.Value) bool {
				bo, ok := v.(*ssa.BinOp)
				if !ok || bo.Op != token.EQL {
					return false
				}
				_, isIface := bo.X.Type().Underlying().(*types.Interface)
				return isIface && an.IsNilConst(bo.Y)
			}
			var cmps []*ssa.BinOp
			for _, b := range fn.Blocks {
				for _, in := range b.Instrs {
					if bo, ok := in.(*ssa.BinOp); ok && isNilCmp(bo) {
						cmps = append(cmps, bo)
					}
				}
			}
			if len(cmps) == 0 {
				continue
			}
			okFn := true
			var at ssa.Instruction
			nIf := 0
			for _, b := range fn.Blocks {
				if len(b.Instrs) == 0 {
					continue
				}
				iff, ok := b.Instrs[len(b.Instrs)-1].(*ssa.If)
				if !ok {
					continue
				}
				reach := map[ssa.Value]bool{}
				var walk func(v ssa.Value, d int)
				walk = func(v ssa.Value, d int) {
					if reach[v] || d > 40 {
						return
					}
					reach[v] = true
					if p, ok := v.(*ssa.Phi); ok {
						for _, e := range p.Edges {
							walk(e, d+1)
						}
					}
				}
				walk(iff.Cond, 0)
				any := false
				for _, cm := range cmps {
					if reach[cm] {
						any = true
					}
				}
				if !any {
					continue
				}
				nIf++
				for _, cm := range cmps {
					if cm.Block() != b && cm.Block().Dominates(b) && !reach[cm] {
						okFn = false
						at = iff
					}
				}
			}
			if nIf == 0 {
				continue
			}
			nAll++
			pos := c.pos(fn.Pos())
			if at != nil {
				pos = c.ipos(at)
			}
			c.R.Check(okFn, "gen:"+g.Name+"/"+strings.ReplaceAll(fn.Name(), "$", "·")+"/all-null", pos, sprintf("%d key-field comparisons, each decision depends on all that precede it", len(cmps)),
				"this all-null decision ignores an earlier key field's comparison: a representation whose last key field is null (but not all of them) is not matched by its resolver, and its element is answered with an error or by another resolver")
		}
	}
	c.R.SetFloor(nAll)
	if nAll < 3*len(feds) {
		c.R.Fail("all-null-conjunction: %d resolver-name functions examined", nAll)
	}

	// (4) errors returned inside the entity functions are not dropped
	c.R.Rule("entity-errors-kept", "resolveEntity / resolveManyEntities: no call whose last result is an error has that result discarded (a failed populator or unmarshal must fail its representation)", 2*len(feds))
	for _, g := range feds {
		for _, name := range []string{"resolveEntity", "resolveManyEntities"} {
			fn := c.genFunc(g, name)
			if fn == nil {
				c.R.Fail("gen:%s: %s not found", g.Name, name)
				continue
			}
			var bad ssa.Instruction
			n := 0
			for _, f := range an.WithClosures(fn) {
				for _, b := range f.Blocks {
					for _, in := range b.Instrs {
						call, ok := in.(*ssa.Call)
						if !ok {
							continue
						}
						res := call.Call.Signature().Results()
						if res.Len() == 0 || !an.IsErrorType(res.At(res.Len()-1).Type()) {
							continue
						}
						if bi, isB := call.Call.Value.(*ssa.Builtin); isB && bi != nil {
							continue
						}
						n++
						used := false
						if res.Len() == 1 {
							used = len(an.Referrers(call)) > 0
						} else {
							for _, r := range an.Referrers(call) {
								if ex, ok := r.(*ssa.Extract); ok && ex.Index == res.Len()-1 && len(an.Referrers(ex)) > 0 {
									used = true
								}
							}
						}
						if !used && bad == nil {
							bad = in
						}
					}
				}
			}
			pos := c.pos(fn.Pos())
			if bad != nil {
				pos = c.ipos(bad)
			}
			c.R.Check(bad == nil && n > 0, "gen:"+g.Name+"/"+name+"/errors-kept", pos, sprintf("%d error-returning calls, none discarded", n),
				"the error returned by this call is discarded: when it fails (a populator that cannot fill the required fields, an unmarshal of a bad key) the representation is still answered with a half-built entity instead of null and an error")
		}
	}

	// (5) Done is the last thing a group goroutine does
	doneIsLast(c, "group-done-last", feds)

	// (6) the previous body of a populator is looked up under the name it is emitted under
	c.R.Rule("populator-readback-name", "federation.generateExplicitRequires: GetMethodBody/GetMethodComment are asked for the same name that is stored in Populator.FuncName (the name the template emits the function under)", 2)
	{
		n := 0
		for _, fn := range c.W.FuncsIn(func(p string) bool { return p == modPath("plugin/federation") }) {
			calls := an.CallsIn(fn, func(_ ssa.CallInstruction, ci an.CalleeInfo) bool {
				return ci.Static != nil && (ci.Static.Name() == "GetMethodBody" || ci.Static.Name() == "GetMethodComment")
			})
			if len(calls) == 0 {
				continue
			}
			// the name the populator is emitted under: what this function stores into a FuncName field
			var nameVals []ssa.Value
			for _, b := range fn.Blocks {
				for _, in := range b.Instrs {
					if fa, ok := in.(*ssa.FieldAddr); ok && fieldNameOf(fa) == "FuncName" {
						for _, r := range an.Referrers(fa) {
							if st, ok := r.(*ssa.Store); ok && st.Addr == ssa.Value(fa) {
								nameVals = append(nameVals, st.Val)
							}
						}
					}
				}
			}
			for _, call := range calls {
				if call.Parent() != fn {
					continue
				}
				args := call.Common().Args
				arg := an.Strip(args[len(args)-1])
				n++
				ok := false
				for _, v := range nameVals {
					if v == arg || an.SameExpr(v, arg) {
						ok = true
					}
				}
				if fa, isF := loadAddr(arg).(*ssa.FieldAddr); isF && fieldNameOf(fa) == "FuncName" {
					ok = true
				}
				c.R.Check(ok && len(nameVals) > 0, shortFn(topFn(fn))+"/"+call.Common().StaticCallee().Name(), c.ipos(call), "asked for Populator.FuncName",
					"the previous implementation is looked up under a name other than the one the populator is emitted under: it is never found, so regenerating replaces every hand-written populator by the panic stub and @requires fields are no longer populated")
			}
		}
		if n < 2 {
			c.R.Fail("populator-readback-name: %d read-back calls", n)
		}
	}

	// (7) an entity is resolvable unless @key says resolvable: false
	c.R.Rule("resolvable-default", "federation.(*Entity).isResolvable: every return taken because the @key directive or its `resolvable` argument is absent returns true", 1)
	if fn := c.W.Func(modPath("plugin/federation"), "*Entity.isResolvable"); fn == nil {
		c.R.Fail("unresolved anchor: federation.(*Entity).isResolvable")
	} else {
		n := 0
		for _, r := range an.Returns(fn) {
			if len(r.Results) != 1 {
				continue
			}
			// the returned value is looked at per incoming edge, so that `return a == nil || b == nil || …` is read like the
			// chain of early returns
			for _, ve := range returnValueEdges(r, 0) {
				absent := false
				for _, f := range factsOn(ve) {
					if empty, ok := an.EmptinessFact(f, func(v ssa.Value) bool {
						// the @key directive or its argument, looked up directly (ForName) or through a helper that returns one
						call, isCall := v.(*ssa.Call)
						if !isCall {
							return false
						}
						t := call.Type().String()
						return strings.HasSuffix(t, "gqlparser/v2/ast.Directive") || strings.HasSuffix(t, "gqlparser/v2/ast.Argument")
					}); ok && empty {
						absent = true
					}
				}
				if !absent {
					continue
				}
				n++
				k, isC := ve.val.(*ssa.Const)
				isTrue := isC && k.Value != nil && k.Value.String() == "true"
				c.R.Check(isTrue, sprintf("isResolvable/absent-return#%d", n), c.ipos(r), "absent means resolvable",
					"an entity whose @key has no `resolvable` argument is treated as not resolvable: under federation 2 its key fields become implicitly external and entities made only of key fields lose their resolver — valid representations are answered with null and 'unknown type'")
			}
		}
		if n < 1 {
			c.R.Fail("resolvable-default: %d absent-returns found", n)
		}
	}
}

// doneIsLast: in the goroutines started by __resolve_entities and resolveEntityGroup, a direct (not deferred) call of
// WaitGroup.Done is the last effect: no call follows it.  Done before the work lets Wait return while elements are still
// being written.
func doneIsLast(c *Ctx, rule string, gens []*GenPkg) {
	c.R.Rule(rule, "goroutines of __resolve_entities / resolveEntityGroup: a direct call of (*sync.WaitGroup).Done is followed by no other call on any path", 2*len(gens))
	for _, g := range gens {
		for _, name := range []string{"__resolve_entities", "resolveEntityGroup"} {
			fn := c.genFunc(g, name)
			if fn == nil {
				c.R.Fail("gen:%s: %s not found", g.Name, name)
				continue
			}
			n := 0
			var bad ssa.Instruction
			for _, b := range fn.Blocks {
				for _, in := range b.Instrs {
					gi, ok := in.(*ssa.Go)
					if !ok {
						continue
					}
					var body *ssa.Function
					if mc, ok := gi.Call.Value.(*ssa.MakeClosure); ok {
						body = mc.Fn.(*ssa.Function)
					} else if sc := gi.Call.StaticCallee(); sc != nil {
						body = sc
					}
					if body == nil {
						continue
					}
					for _, bb := range body.Blocks {
						for i, in2 := range bb.Instrs {
							call, ok := in2.(*ssa.Call)
							if !ok || an.CalleeOf(call).FullName() != "(*sync.WaitGroup).Done" {
								continue
							}
							n++
							// any call reachable after it
							after := func(x ssa.Instruction) bool {
								ci, ok := x.(ssa.CallInstruction)
								if !ok {
									return false
								}
								if _, isB := ci.Common().Value.(*ssa.Builtin); isB {
									return false
								}
								return true
							}
							_ = i
							for _, ob := range body.Blocks {
								for _, x := range ob.Instrs {
									if after(x) && an.CanReach(in2, x) {
										bad = x
									}
								}
							}
						}
					}
				}
			}
			if n == 0 {
				// deferred Done (or none): covered by the `joined` rule
				c.R.OK("gen:"+g.Name+"/"+name+"/done-last", c.pos(fn.Pos()), "no direct Done in a goroutine of this function")
				continue
			}
			pos := c.pos(fn.Pos())
			if bad != nil {
				pos = c.ipos(bad)
			}
			c.R.Check(bad == nil, "gen:"+g.Name+"/"+name+"/done-last", pos, "Done is the goroutine's last effect",
				"work follows the goroutine's Done: Wait returns, and the _entities list is handed to the marshaller, while this goroutine is still resolving and writing elements — which elements are filled depends on scheduling")
		}
	}
}
