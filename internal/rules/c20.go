package rules

import (
	"go/token"
	"go/types"
	"strings"

	"golang.org/x/tools/go/ssa"

	"verif/internal/an"
)

func init() {
	register(&Property{
		ID:      "C20",
		NeedGen: true,
		Runtime: append(append([]string{}, RuntimeCore...), "./plugin/federation"),
		Run:     runC20,
		Explanation: "Index provenance and containment of federation entity resolution in every materialised federation executor: (index-provenance) every store into the _entities result list is indexed by the `index` field of an " +
			"EntityWithIndex (rep.index, or reps[i].index with i ranging over the batch resolver's result), the single-entity store happens only on the err == nil edge of that representation's own resolveEntity call, " +
			"and EntityWithIndex.index is written only by buildRepresentationGroups from the range index of the representations it ranges over together with that iteration's representation; (contained) every call of " +
			"an Entity resolver method lies in a function that registered its own deferred recover first (resolveEntity / resolveManyEntities run on spawned goroutines), the recovered error reaches the caller " +
			"through the named error result, and each goroutine reports a failed representation exactly once; (joined) both go statements are accounted by a WaitGroup (C05/wg-accounting is re-run on the federation " +
			"functions); (slot-ownership) the goroutines write only list[<private index>]; (requires-own-representation) under computed_requires the representation handed to a @requires resolver is read from the `representations` argument at the entity's own FieldContext Index only. (batch-positional) the batch handed to a multi entity resolver is make(len(reps)) written only at the range index over reps.",
		NotDecided:  "which resolver is selected among several keys, that a batch resolver returns one entity per representation in order (positional zip), population of @requires fields under explicit_requires — value-level",
		Assumptions: []string{"the materialised federation configurations (entityresolver incl. multi resolvers, explicit_requires, computed_requires; thorough adds function syntax)"},
	})
}

func runC20(c *Ctx) {
	var feds []*GenPkg
	for _, g := range c.Gen {
		if g.Fed {
			feds = append(feds, g)
		}
	}
	if len(feds) == 0 {
		c.R.Fail("no federation configuration was materialised")
		return
	}
	c20IndexProvenance(c, feds)
	c.R.Rule("contained", "every call of an Entity resolver method is in a function that registered its own deferred recover first; that handler hands ec.Recover's error to the caller through the named error result; the goroutine that called resolveEntity / resolveManyEntities reports a non-nil error exactly once (ec.Error on the err != nil edge)", 2*len(feds))
	for _, g := range feds {
		pfx := "gen:" + g.Name + "/"
		n := 0
		for _, fn := range c.genFuncs(g) {
			for _, b := range fn.Blocks {
				for _, in := range b.Instrs {
					call, ok := in.(ssa.CallInstruction)
					if !ok || userCallKind(g, call) != "resolver" {
						continue
					}
					if !strings.HasSuffix(call.Common().Value.Type().String(), "EntityResolver") {
						continue
					}
					top := topFn(fn)
					if strings.HasPrefix(top.Name(), "_") {
						continue // the Entity type's ordinary field functions: contained like every field (C04/contained), not run on the _entities goroutines
					}
					n++
					d := recoverDeferBefore(top, in)
					if fn != top {
						d = recoverDeferBefore(fn, in)
					}
					covered := d != nil
					if !covered && fn == top {
						// a per-entity helper (`resolveEntity_Hello`): every synchronous static call site of it lies in a
						// function that registered its own recover first, and it is never started with go/defer
						sites := 0
						covered = true
						for _, caller := range c.genFuncs(g) {
							for _, cb := range caller.Blocks {
								for _, ci := range cb.Instrs {
									cc, isCall := ci.(ssa.CallInstruction)
									if !isCall || cc.Common().StaticCallee() != top {
										continue
									}
									sites++
									if _, sync := ci.(*ssa.Call); !sync || recoverDeferBefore(caller, ci) == nil {
										covered = false
									}
								}
							}
						}
						if sites == 0 {
							covered = false
						}
					}
					c.R.Check(covered, pfx+top.Name()+"/entity-resolver-call", c.ipos(in), "own recover registered first", "an entity resolver runs on a spawned goroutine without a recover in its own function: a panic kills the process and the other representations' answers")
				}
			}
		}
		if n == 0 {
			c.R.Bad(pfx+"entity-resolver-call", g.Spec.Dir, "no Entity resolver call found")
		}
		// callers report once
		for _, name := range []string{"resolveEntity", "resolveManyEntities"} {
			target := c.genFunc(g, name)
			if target == nil {
				continue
			}
			for _, fn := range c.genFuncs(g) {
				for _, call := range an.CallsIn(fn, func(_ ssa.CallInstruction, ci an.CalleeInfo) bool { return ci.Static == target }) {
					vc, _ := call.(*ssa.Call)
					if vc == nil {
						continue
					}
					errIdx := vc.Call.Signature().Results().Len() - 1
					nerr := 0
					for _, e := range an.CondEdges(fn) {
						if empty, k := an.EmptinessFact(e.Fact, func(v ssa.Value) bool {
							cc := an.AllExtractOf(v, errIdx)
							return cc != nil && cc == ssa.CallInstruction(vc)
						}); k && !empty {
							for b := range an.Reach(e.To, func(b *ssa.BasicBlock) bool { return len(b.Preds) > 1 }) {
								for _, in := range b.Instrs {
									if c2, ok := in.(*ssa.Call); ok && strings.HasSuffix(an.CalleeOf(c2).FullName(), "graphql.OperationContext).Error") && len(b.Preds) <= 1 {
										nerr++
									}
								}
							}
						}
					}
					c.R.Check(nerr == 1, pfx+topFn(fn).Name()+"→"+name+"/reports-once", c.ipos(call), "ec.Error exactly once on the err != nil edge", sprintf("a failed representation is reported %d times (must be exactly one error per failure)", nerr))
				}
			}
		}
	}

	c20RequiresOwnRepresentation(c, feds)
	c20BatchPositional(c, feds)
	c20Small(c, feds)
	c20Round2(c, feds)

	c.R.Rule("joined", "the goroutines of __resolve_entities and resolveEntityGroup are accounted by their WaitGroups (same analysis as C05/wg-accounting)", 2*len(feds))
	for _, g := range feds {
		for _, name := range []string{"__resolve_entities", "resolveEntityGroup"} {
			fn := c.genFunc(g, name)
			if fn == nil {
				c.R.Bad("gen:"+g.Name+"/"+name, g.Spec.Dir, "function not found")
				continue
			}
			found := false
			for _, b := range fn.Blocks {
				for _, in := range b.Instrs {
					if al, ok := in.(*ssa.Alloc); ok && an.NamedIs(al.Type(), "sync", "WaitGroup") {
						found = true
						ok2, why, shape := c.checkWG(fn, al)
						c.R.Check(ok2, "gen:"+g.Name+"/"+name, c.pos(fn.Pos()), shape, why)
					}
				}
			}
			if !found {
				c.R.Bad("gen:"+g.Name+"/"+name, c.pos(fn.Pos()), "spawns goroutines without a WaitGroup")
			}
		}
	}
}

// c20RequiresOwnRepresentation: under computed_requires the built-in @populateFromRepresentations directive hands a @requires
// field resolver the representation of the entity being resolved.  The entity's position is FieldContext.Parent.Index — the
// raw position in the `representations` argument (the result list is never compacted).  In every materialised federation
// executor: a function that reads the `representations` argument from a field context and indexes it does so only at
// *fc…Index (a load of a FieldContext's Index field), and neither ranges over nor re-slices the list.
func c20RequiresOwnRepresentation(c *Ctx, feds []*GenPkg) {
	c.R.Rule("requires-own-representation", "every element read of the `representations` argument taken from a field context (populateFromRepresentations) is at the index stored in a FieldContext's Index field; the list is not ranged over, re-sliced or filtered first", 1)
	n := 0
	for _, g := range feds {
		for _, fn := range c.genFuncs(g) {
			for _, b := range fn.Blocks {
				for _, in := range b.Instrs {
					lk, ok := in.(*ssa.Lookup)
					if !ok {
						continue
					}
					if k, isC := an.ConstString(lk.Index); !isC || k != "representations" {
						continue
					}
					// the type-asserted list
					var lists []ssa.Value
					for _, r := range an.Referrers(lk) {
						if ta, isTA := r.(*ssa.TypeAssert); isTA {
							lists = append(lists, ta)
							for _, r2 := range an.Referrers(ta) {
								if ex, isEx := r2.(*ssa.Extract); isEx && ex.Index == 0 {
									lists = append(lists, ex)
								}
							}
						}
					}
					// derived: through local cells and phis
					derived := map[ssa.Value]bool{}
					for _, l := range lists {
						derived[l] = true
					}
					for changed := true; changed; {
						changed = false
						for v := range derived {
							for _, r := range an.Referrers(v) {
								switch x := r.(type) {
								case *ssa.Phi:
									if !derived[x] {
										derived[x], changed = true, true
									}
								case *ssa.Store:
									if x.Val == v && an.IsLocalCell(x.Addr) {
										for _, ld := range an.CellLoads(x.Addr) {
											if !derived[ld] {
												derived[ld], changed = true, true
											}
										}
									}
								}
							}
						}
					}
					for v := range derived {
						for _, r := range an.Referrers(v) {
							bad, isRead := "", false
							switch x := r.(type) {
							case *ssa.IndexAddr:
								isRead = true
								okIdx := false
								for _, d := range an.Defs(x.Index) {
									if ld, isLd := d.(*ssa.UnOp); isLd && ld.Op == token.MUL {
										for _, d2 := range an.Defs(ld.X) {
											if fa, isFA := loadAddr(d2).(*ssa.FieldAddr); isFA && fieldNameOf(fa) == "Index" && strings.HasSuffix(fa.X.Type().String(), "graphql.FieldContext") {
												okIdx = true
											}
										}
									}
								}
								if !okIdx {
									bad = "the representations list is read at an index that is not the entity's FieldContext Index"
								}
							case *ssa.Range:
								isRead, bad = true, "the representations list is ranged over (entities are matched to representations by something other than the entity's own index)"
							case *ssa.Slice:
								isRead, bad = true, "the representations list is re-sliced before the lookup"
							}
							if !isRead {
								continue
							}
							n++
							c.R.Check(bad == "", "gen:"+g.Name+"/"+shortFn(topFn(fn))+"/representation-read", c.ipos(r), "representations[*fc.Parent.Index]", bad+": a @requires resolver can receive the required fields of a different representation than the one its entity's key came from")
						}
					}
				}
			}
		}
	}
	if n == 0 {
		c.R.Note("populateFromRepresentations", "-", "no materialised configuration uses computed_requires; nothing to judge")
	}
}

// c20BatchPositional: the batch path zips the user's findMany result with the representations by position
// (list[reps[i].index] = entities[i]), so the batch handed to the user resolver has to hold exactly one element per
// representation of the group, in order: it is make([]T, len(reps)) and is only ever written at typedReps[<range index over
// reps>].  An append-built (compacted, filtered or re-ordered) batch shifts every later entity into another representation's slot.
func c20BatchPositional(c *Ctx, feds []*GenPkg) {
	c.R.Rule("batch-positional", "in resolveManyEntities the slice handed to a multi entity resolver is make(len(reps)) and is written only at the range index over reps (never built with append)", 0)
	n := 0
	for _, g := range feds {
		fn := c.genFunc(g, "resolveManyEntities")
		if fn == nil {
			continue
		}
		var reps ssa.Value
		for _, p := range fn.Params {
			if strings.HasSuffix(p.Type().String(), "[]"+g.Path+".EntityWithIndex") {
				reps = p
			}
		}
		for _, f := range an.WithClosures(fn) {
			for _, b := range f.Blocks {
				for _, in := range b.Instrs {
					call, ok := in.(ssa.CallInstruction)
					if !ok || userCallKind(g, call) != "resolver" || !strings.HasSuffix(call.Common().Value.Type().String(), "EntityResolver") {
						continue
					}
					args := call.Common().Args
					if len(args) < 2 {
						continue
					}
					batch := args[len(args)-1]
					if _, isSlice := batch.Type().Underlying().(*types.Slice); !isSlice {
						continue
					}
					n++
					key := "gen:" + g.Name + "/resolveManyEntities/batch:" + call.Common().Method.Name()
					bad := ""
					for _, d := range an.Defs(batch) {
						switch x := d.(type) {
						case *ssa.MakeSlice:
							okLen := false
							if lc, isCall := x.Len.(*ssa.Call); isCall {
								if bi, isB := lc.Call.Value.(*ssa.Builtin); isB && bi.Name() == "len" && reps != nil && an.SameVar(lc.Call.Args[0], reps) {
									okLen = true
								}
							}
							if !okLen {
								bad = "the batch is not allocated with one slot per representation (len(reps))"
							}
							for _, r := range an.Referrers(x) {
								ia, isIA := r.(*ssa.IndexAddr)
								if !isIA {
									continue
								}
								isRangeIdx := false
								for _, d2 := range an.Defs(ia.Index) {
									if bo, ok := d2.(*ssa.BinOp); ok {
										if p, ok := bo.X.(*ssa.Phi); ok && p.Comment == "rangeindex" {
											isRangeIdx = true
										}
									}
									if p, ok := d2.(*ssa.Phi); ok && p.Comment == "rangeindex" {
										isRangeIdx = true
									}
								}
								if !isRangeIdx {
									bad = "the batch is written at an index that is not the position of the representation in the group"
								}
							}
						case *ssa.Call:
							if bi, isB := x.Call.Value.(*ssa.Builtin); isB && bi.Name() == "append" {
								bad = "the batch is built with append: a skipped or re-ordered representation shifts every later entity of the group into another representation's slot (the result is zipped back by position)"
							} else {
								bad = "the batch comes from a call and cannot be related to the representations by position"
							}
						default:
							if !an.IsNilConst(d) {
								bad = "the batch is not a slice made with one slot per representation"
							}
						}
					}
					c.R.Check(bad == "", key, c.ipos(in), "make(len(reps)), written at the range index", bad)
				}
			}
		}
	}
	if n == 0 {
		c.R.Note("resolveManyEntities/batch", "-", "no materialised federation configuration has a multi entity resolver; nothing to judge")
	}
}

// goArgOf: fn is a function literal started by a go statement of its parent; returns the argument bound to parameter p and,
// when that argument is a field of a slice element (reps[i].f), the element's address.
func goArgOf(fn *ssa.Function, p *ssa.Parameter) (ssa.Value, ssa.Value) {
	k := -1
	for i, q := range fn.Params {
		if q == p {
			k = i
		}
	}
	if k < 0 || fn.Parent() == nil {
		return nil, nil
	}
	for _, b := range fn.Parent().Blocks {
		for _, in := range b.Instrs {
			g, ok := in.(*ssa.Go)
			if !ok {
				continue
			}
			mc, ok := g.Call.Value.(*ssa.MakeClosure)
			if !ok || mc.Fn != fn || k >= len(g.Call.Args) {
				continue
			}
			arg := g.Call.Args[k]
			var elem ssa.Value
			if fa, ok := loadAddr(an.Strip(arg)).(*ssa.FieldAddr); ok {
				elem = fa.X
			}
			if fld, ok := an.Strip(arg).(*ssa.Field); ok {
				if u, ok := fld.X.(*ssa.UnOp); ok {
					elem = u.X
				}
			}
			return arg, elem
		}
	}
	return nil, nil
}

func sameElemAddr(a, b ssa.Value) bool {
	if a == b {
		return true
	}
	ia, ok1 := a.(*ssa.IndexAddr)
	ib, ok2 := b.(*ssa.IndexAddr)
	return ok1 && ok2 && (ia.X == ib.X || an.SameVar(ia.X, ib.X)) && (ia.Index == ib.Index || an.SameExpr(ia.Index, ib.Index))
}

// c20IndexProvenance: shared with C06 (a result written at the wrong index is also a slot written by two goroutines).
func c20IndexProvenance(c *Ctx, feds []*GenPkg) {
	c.R.Rule("index-provenance", "stores into the entity result list are indexed by EntityWithIndex.index of the representation being answered, single-entity stores only on that representation's success edge; index is assigned only in buildRepresentationGroups from the range index", 3*len(feds))
	for _, g := range feds {
		pfx := "gen:" + g.Name + "/"
		nst := 0
		for _, fn := range c.genFuncs(g) {
			top := topFn(fn)
			if top.Name() != "resolveEntityGroup" && top.Name() != "resolveManyEntities" && top.Name() != "__resolve_entities" {
				continue
			}
			for _, b := range fn.Blocks {
				for _, in := range b.Instrs {
					st, ok := in.(*ssa.Store)
					if !ok {
						continue
					}
					ia, ok := st.Addr.(*ssa.IndexAddr)
					if !ok || !strings.HasSuffix(ia.X.Type().String(), "fedruntime.Entity") {
						continue
					}
					nst++
					how := ""
					// the index may be a parameter of the goroutine's function literal: `go func(rep R, slot int){…}(reps[i].entity, reps[i].index)`
					idx := ia.Index
					if prm, isP := an.Strip(idx).(*ssa.Parameter); isP && fn.Parent() != nil {
						if arg, elem := goArgOf(fn, prm); arg != nil {
							// the representation handed to the same goroutine must come from the same element
							same := false
							for _, other := range fn.Params {
								if other == prm {
									continue
								}
								if _, e2 := goArgOf(fn, other); e2 != nil && elem != nil && sameElemAddr(e2, elem) {
									same = true
								}
							}
							if same {
								idx = arg
							}
						}
					}
					// rep.index (value field or field address load)
					if fld, ok := idx.(*ssa.Field); ok && fieldName2(fld) == "index" {
						how = "rep.index"
						// `rep := reps[i]` hoisted inside the loop over the batch result: still the positional form
						if ld, ok := fld.X.(*ssa.UnOp); ok {
							if ia2, ok := ld.X.(*ssa.IndexAddr); ok {
								for _, d2 := range an.Defs(ia2.Index) {
									if bo, ok := d2.(*ssa.BinOp); ok {
										if p, ok := bo.X.(*ssa.Phi); ok && p.Comment == "rangeindex" {
											how = "reps[i].index (positional zip with the batch result)"
										}
									}
									if p, ok := d2.(*ssa.Phi); ok && (p.Comment == "rangeindex" || an.CanReach(p, p)) {
										how = "reps[i].index (positional zip with the batch result)"
									}
								}
							}
						}
					}
					if fa, ok := loadAddr(idx).(*ssa.FieldAddr); ok && fieldNameOf(fa) == "index" && idx != ia.Index {
						how = "rep.index"
					} else if fa, ok := loadAddr(ia.Index).(*ssa.FieldAddr); ok && fieldNameOf(fa) == "index" {
						how = "rep.index"
						// `rep := reps[i]` kept in a local cell inside the loop over the batch result
						if cell, ok := fa.X.(*ssa.Alloc); ok {
							if sts := an.CellStores(cell); len(sts) == 1 {
								if ld, ok := sts[0].Val.(*ssa.UnOp); ok {
									if ia3, ok := ld.X.(*ssa.IndexAddr); ok {
										for _, d3 := range an.Defs(ia3.Index) {
											if bo, ok := d3.(*ssa.BinOp); ok {
												if p, ok := bo.X.(*ssa.Phi); ok && p.Comment == "rangeindex" {
													how = "reps[i].index (positional zip with the batch result)"
												}
											}
											if p, ok := d3.(*ssa.Phi); ok && p.Comment == "rangeindex" {
												how = "reps[i].index (positional zip with the batch result)"
											}
										}
									}
								}
							}
						}
						if ia2, ok := fa.X.(*ssa.IndexAddr); ok {
							// reps[i].index with i the range index over the resolver result
							if phi, ok := ia2.Index.(*ssa.BinOp); ok {
								if p, ok := phi.X.(*ssa.Phi); ok && p.Comment == "rangeindex" {
									how = "reps[i].index (positional zip with the batch result)"
								}
							}
							if p, ok := ia2.Index.(*ssa.Phi); ok && p.Comment == "rangeindex" {
								how = "reps[i].index (positional zip with the batch result)"
							}
						}
					}
					key := pfx + top.Name() + "/store:list"
					if how == "" {
						c.R.Bad(key, c.ipos(st), "the entity result list is stored at an index that is not EntityWithIndex.index: the entity is answered at another representation's position")
						continue
					}
					// single-entity form: success edge of the resolveEntity call whose result is stored
					if how == "rep.index" {
						okEdge := false
						for _, d := range an.Defs(st.Val) {
							if ex, isE := d.(*ssa.Extract); isE && ex.Index == 0 {
								if call, isC := ex.Tuple.(*ssa.Call); isC {
									for _, f := range an.Facts(st) {
										if empty, k := an.EmptinessFact(f, func(v ssa.Value) bool {
											cc := an.AllExtractOf(v, 1)
											return cc != nil && cc == ssa.CallInstruction(call)
										}); k && empty {
											okEdge = true
										}
									}
								}
							}
						}
						c.R.Check(okEdge, key, c.ipos(st), "list[rep.index] = entity on the err == nil edge of its own resolveEntity call", "the entity is stored although (or regardless of whether) its resolution failed")
					} else {
						c.R.OK(key, c.ipos(st), how)
					}
				}
			}
		}
		if nst == 0 {
			c.R.Bad(pfx+"entities/store:list", g.Spec.Dir, "no store into the _entities result list found")
		}
		// writers of EntityWithIndex.index
		nw := 0
		for _, fn := range c.genFuncs(g) {
			for _, b := range fn.Blocks {
				for _, in := range b.Instrs {
					st, ok := in.(*ssa.Store)
					if !ok {
						continue
					}
					fa, ok := st.Addr.(*ssa.FieldAddr)
					if !ok || fieldNameOf(fa) != "index" || !an.NamedIs(fa.X.Type(), g.Path, "EntityWithIndex") {
						continue
					}
					nw++
					okW := topFn(fn).Name() == "buildRepresentationGroups"
					// value is the range index
					isRangeIdx := false
					for _, d := range an.Defs(st.Val) {
						if bo, ok := d.(*ssa.BinOp); ok && bo.Op == token.ADD {
							if p, ok := bo.X.(*ssa.Phi); ok && p.Comment == "rangeindex" {
								isRangeIdx = true
							}
						}
						if p, ok := d.(*ssa.Phi); ok && p.Comment == "rangeindex" {
							isRangeIdx = true
						}
					}
					// the entity stored into the same literal is the element at that same index
					sameRep := false
					for _, r := range an.Referrers(fa.X) {
						fa2, ok := r.(*ssa.FieldAddr)
						if !ok || fieldNameOf(fa2) != "entity" {
							continue
						}
						for _, r2 := range an.Referrers(fa2) {
							st2, ok := r2.(*ssa.Store)
							if !ok {
								continue
							}
							for _, d := range an.Defs(st2.Val) {
								// rep := representations[i]
								v := an.Strip(d)
								if cv, ok := v.(*ssa.ChangeType); ok {
									v = cv.X
								}
								if ld, ok := v.(*ssa.UnOp); ok && ld.Op == token.MUL {
									if ia, ok := ld.X.(*ssa.IndexAddr); ok && an.SameVar(ia.Index, st.Val) {
										sameRep = true
									}
								}
							}
						}
					}
					c.R.Check(okW && isRangeIdx && sameRep, pfx+topFn(fn).Name()+"/store:EntityWithIndex.index", c.ipos(st), "index = range index of the representation stored beside it",
						sprintf("EntityWithIndex.index is not the position of its representation (writer is buildRepresentationGroups: %v, value is the range index: %v, entity is the element at that index: %v)", okW, isRangeIdx, sameRep))
				}
			}
		}
		if nw == 0 {
			c.R.Bad(pfx+"buildRepresentationGroups/store:EntityWithIndex.index", g.Spec.Dir, "EntityWithIndex.index is never assigned")
		}
	}

}
