package rules

import (
	"go/ast"
	"go/token"
	"go/types"
	"sort"
	"strings"

	"golang.org/x/tools/go/ssa"

	"verif/internal/an"
)

// Rules added after the second half of the fourth small-slip round.  Each states a shape the code has today and that the
// behaviour needs; none names a line or a literal text.

func isCtxT(t types.Type) bool { return t != nil && t.String() == "context.Context" }

// bindingOf: what the enclosing function bound to this free variable when it made the closure.
func bindingOf(fv *ssa.FreeVar) ssa.Value {
	cl := fv.Parent()
	if cl == nil || cl.Parent() == nil {
		return nil
	}
	for i, f := range cl.FreeVars {
		if f != fv {
			continue
		}
		for _, b := range cl.Parent().Blocks {
			for _, in := range b.Instrs {
				if mc, ok := in.(*ssa.MakeClosure); ok && mc.Fn == ssa.Value(cl) && i < len(mc.Bindings) {
					return mc.Bindings[i]
				}
			}
		}
	}
	return nil
}

// callbackUsesOwnContext: the next-callback of a middleware call goes on with the context the middleware hands it.
func callbackUsesOwnContext(c *Ctx, rule string, gen bool, pkgs ...string) {
	c.R.Rule(rule, "a function literal handed to a call together with a context (the next-callback of an interceptor chain: RootResolverMiddleware, ResolverMiddleware, responseMiddleware, …) and taking a context itself passes that parameter, or what it derives from it, to the functions of its own package and to resolvers — never a context it captured from the enclosing function and did not itself assign: the interceptors' context is the one that carries what they set up", 5)
	n := 0
	for _, outer := range c.scopeFuncs(pkgs, gen) {
		for _, ob := range outer.Blocks {
			for _, oin := range ob.Instrs {
				oc, ok := oin.(ssa.CallInstruction)
				if !ok {
					continue
				}
				hasCtx := false
				var lits []*ssa.Function
				for _, a := range oc.Common().Args {
					if isCtxT(a.Type()) {
						hasCtx = true
					}
					if mc, ok := an.Strip(a).(*ssa.MakeClosure); ok {
						if f := mc.Fn.(*ssa.Function); len(f.Params) > 0 && isCtxT(f.Params[0].Type()) {
							lits = append(lits, f)
						}
					}
				}
				if !hasCtx {
					continue
				}
				for _, fn := range lits {
					assigned := map[ssa.Value]bool{}
					for _, b := range fn.Blocks {
						for _, in := range b.Instrs {
							if st, ok := in.(*ssa.Store); ok {
								assigned[st.Addr] = true
							}
						}
					}
					for _, b := range fn.Blocks {
						for _, in := range b.Instrs {
							ci, ok := in.(ssa.CallInstruction)
							if !ok {
								continue
							}
							samePkg := ci.Common().IsInvoke()
							if sc := ci.Common().StaticCallee(); sc != nil && sc.Pkg == fn.Pkg {
								samePkg = true
							}
							if !samePkg {
								continue
							}
							for _, a := range ci.Common().Args {
								if !isCtxT(a.Type()) {
									continue
								}
								n++
								captured := false
								switch x := an.Strip(a).(type) {
								case *ssa.FreeVar:
									captured = true
								case *ssa.UnOp:
									if fv, isFV := x.X.(*ssa.FreeVar); isFV && x.Op == token.MUL && !assigned[fv] {
										captured = true
									}
								}
								c.R.Check(!captured, c.fnKey(fn)+"/ctx-arg", c.ipos(in), "the literal hands on its own context", "the next-callback has a context parameter of its own but hands the context captured from the enclosing function on to the field function / resolver: what the interceptors around it put into the context (the root-field interceptors' values) never reaches the field interceptors and the resolver")
							}
						}
					}
				}
			}
		}
	}
	if n < 5 {
		c.R.Fail("%s: only %d context arguments inside next-callbacks examined", rule, n)
	}
}

// rootsOf resolves a value to the values it can come from, through cells (only the stores that can be the last one before
// the load), captured variables, phis and context.With…-style derivations (first argument and result both a context).
func rootsOf(v ssa.Value, at ssa.Instruction, depth int, seen map[ssa.Value]bool) []ssa.Value {
	v = an.Strip(v)
	if v == nil || depth > 8 || seen[v] {
		return nil
	}
	seen[v] = true
	cellRoots := func(cell ssa.Value, at ssa.Instruction) []ssa.Value {
		sts := an.CellStores(cell)
		// the latest store that dominates the load, when there is one in the same function, hides the earlier ones
		var dom *ssa.Store
		if at != nil {
			for _, st := range sts {
				if st.Parent() == at.Parent() && instrDominates(st, at) && (dom == nil || instrDominates(dom, st)) {
					dom = st
				}
			}
		}
		var out []ssa.Value
		for _, st := range sts {
			if dom != nil && st != dom && st.Parent() == dom.Parent() && !an.CanReach(dom, st) {
				continue
			}
			if dom != nil && st.Parent() != dom.Parent() && st.Parent() == topFn(dom.Parent()) && dom.Parent() != topFn(dom.Parent()) {
				// a store in the enclosing function, made before the literal ran: hidden by the literal's own dominating store
				continue
			}
			out = append(out, rootsOf(st.Val, st, depth+1, seen)...)
		}
		return out
	}
	switch x := v.(type) {
	case *ssa.Phi:
		var out []ssa.Value
		for _, e := range x.Edges {
			out = append(out, rootsOf(e, at, depth+1, seen)...)
		}
		return out
	case *ssa.UnOp:
		if x.Op == token.MUL {
			switch a := x.X.(type) {
			case *ssa.Alloc:
				return cellRoots(a, x)
			case *ssa.FreeVar:
				if b := bindingOf(a); b != nil {
					if _, isAlloc := b.(*ssa.Alloc); isAlloc {
						return cellRoots(b, x)
					}
				}
			}
		}
	case *ssa.FreeVar:
		if b := bindingOf(x); b != nil {
			return rootsOf(b, nil, depth+1, seen)
		}
	case *ssa.Call:
		if len(x.Call.Args) > 0 && isCtxT(x.Type()) && !x.Call.IsInvoke() && isCtxT(x.Call.Args[0].Type()) {
			return rootsOf(x.Call.Args[0], x, depth+1, seen)
		}
	case *ssa.Extract:
		if call, ok := x.Tuple.(*ssa.Call); ok && x.Index == 0 && len(call.Call.Args) > 0 && isCtxT(x.Type()) && !call.Call.IsInvoke() && isCtxT(call.Call.Args[0].Type()) {
			// ctx, cancel := context.WithCancel(ctx)
			return rootsOf(call.Call.Args[0], call, depth+1, seen)
		}
	}
	return []ssa.Value{v}
}

// responseHandlerGetsDispatchContext: the response handler DispatchOperation returns is called with the context it returned.
func responseHandlerGetsDispatchContext(c *Ctx, rule string) {
	c.R.Rule(rule, "wherever DispatchOperation's two results are taken, every call of the first (the response handler) passes a context that comes from the second (the context the operation interceptors produced), not from the context that went in", 5)
	n := 0
	for _, fn := range c.moduleFuncs(func(p string) bool { return !strings.Contains(p, "/_examples") }) {
		for _, b := range fn.Blocks {
			for _, in := range b.Instrs {
				call, ok := in.(*ssa.Call)
				if !ok {
					continue
				}
				name := ""
				if call.Call.IsInvoke() {
					name = call.Call.Method.Name()
				} else if sc := call.Call.StaticCallee(); sc != nil {
					name = sc.Name()
				}
				tup, isT := call.Type().(*types.Tuple)
				if name != "DispatchOperation" || !isT || tup.Len() != 2 || !isCtxT(tup.At(1).Type()) {
					continue
				}
				var handler, outCtx ssa.Value
				for _, r := range an.Referrers(call) {
					if ex, ok := r.(*ssa.Extract); ok {
						if ex.Index == 0 {
							handler = ex
						} else {
							outCtx = ex
						}
					}
				}
				if handler == nil {
					continue
				}
				// calls of the handler, in this function and the literals inside it
				for _, f2 := range an.WithClosures(topFn(fn)) {
					for _, b2 := range f2.Blocks {
						for _, in2 := range b2.Instrs {
							hc, ok := in2.(ssa.CallInstruction)
							if !ok || hc.Common().IsInvoke() || len(hc.Common().Args) != 1 || !isCtxT(hc.Common().Args[0].Type()) {
								continue
							}
							isHandler := false
							for _, r := range rootsOf(hc.Common().Value, in2, 0, map[ssa.Value]bool{}) {
								if r == handler {
									isHandler = true
								}
							}
							if !isHandler {
								continue
							}
							n++
							roots := rootsOf(hc.Common().Args[0], in2, 0, map[ssa.Value]bool{})
							good := outCtx != nil && len(roots) > 0
							for _, r := range roots {
								if r != outCtx {
									good = false
								}
							}
							c.R.Check(good, c.fnKey(topFn(fn))+"/handler-call", c.ipos(in2), "the response handler is called with the context DispatchOperation returned", "the response handler is called with a context that does not come from DispatchOperation's second result: what the operation interceptors put into the context never reaches the response interceptors, field interceptors and resolvers")
						}
					}
				}
			}
		}
	}
	if n < 5 {
		c.R.Fail("%s: only %d calls of a dispatched response handler found", rule, n)
	}
}

// testedErrorIsUsed: an error a generated function tests against nil is used for something besides the test.
func testedErrorIsUsed(c *Ctx, rule string) {
	c.R.Rule(rule, "in the generated executors an error that a resolver, a directive or a next-callback returned (a call through an interface or a function value) and that is compared with nil is also used (reported, returned, wrapped): an error that is only tested is dropped on the path that found it", 20)
	n := 0
	for _, g := range c.Gen {
		for _, fn := range c.genFuncs(g) {
			done := map[ssa.Value]bool{}
			for _, b := range fn.Blocks {
				iff, ok := b.Instrs[len(b.Instrs)-1].(*ssa.If)
				if !ok || !isErrTest(iff.Cond) {
					continue
				}
				bo := iff.Cond.(*ssa.BinOp)
				x := bo.X
				if an.IsNilConst(x) {
					x = bo.Y
				}
				if done[x] {
					continue
				}
				done[x] = true
				onlyTests := func(v ssa.Value) (only, any bool) {
					only = true
					for _, r := range an.Referrers(v) {
						if _, isDbg := r.(*ssa.DebugRef); isDbg {
							continue
						}
						any = true
						if rb, ok := r.(*ssa.BinOp); ok && (an.IsNilConst(rb.X) || an.IsNilConst(rb.Y)) {
							continue
						}
						only = false
					}
					return
				}
				var used, decided bool
				switch v := x.(type) {
				case *ssa.Extract:
					if call, isCall := v.Tuple.(*ssa.Call); isCall && call.Call.StaticCallee() == nil {
						o, _ := onlyTests(v)
						used, decided = !o, true
					}
				case *ssa.Call:
					if v.Call.StaticCallee() == nil {
						o, _ := onlyTests(v)
						used, decided = !o, true
					}
				case *ssa.UnOp:
					if cell, isA := v.X.(*ssa.Alloc); isA && v.Op == token.MUL {
						for _, st := range an.CellStores(cell) {
							switch sv := an.Strip(st.Val).(type) {
							case *ssa.Extract:
								if call, isCall := sv.Tuple.(*ssa.Call); isCall && call.Call.StaticCallee() == nil {
									decided = true
								}
							case *ssa.Call:
								if sv.Call.StaticCallee() == nil {
									decided = true
								}
							}
						}
						if !decided {
							break
						}
						for _, r := range an.Referrers(cell) {
							switch l := r.(type) {
							case *ssa.UnOp:
								if o, _ := onlyTests(l); !o {
									used = true
								}
							case *ssa.Store:
							default:
								used = true // captured by a literal, address taken
							}
						}
					}
				}
				if rs := fn.Signature.Results(); rs.Len() > 0 {
					if bt, ok := rs.At(rs.Len() - 1).Type().Underlying().(*types.Basic); ok && bt.Kind() == types.Bool {
						decided = false // an ok-style function: the failure is what its false result says
					}
				}
				if !decided {
					continue
				}
				n++
				c.R.Check(used, c.fnKeyIn(g, fn)+"/tested-error:"+x.Name(), c.ipos(iff), "the tested error is used", "this error is compared with nil and used for nothing else: on the path that found it the function goes on (returns nil, returns a stub) without reporting or returning it — the failure disappears from the response")
			}
		}
	}
	if n < 20 {
		c.R.Fail("%s: only %d tested errors examined", rule, n)
	}
}

// nameSwappedForwarding: parameters handed on to a callee that has parameters of the same names (or, for a forwarding
// method of the same name and parameter types, the same positions) are handed on in place.
func nameSwappedForwarding(c *Ctx, rule string, pkgs ...string) {
	c.R.Rule(rule, "in "+strings.Join(shortPkgs(pkgs), ", ")+": where a function passes two of its own parameters a, b to a callee whose parameters at those positions are named b, a (same types), or where a method forwards to a method of the same name and parameter types with two parameters exchanged, the arguments are swapped", 1)
	n := 0
	for _, fn := range c.moduleFuncs(inPkgs(pkgs)) {
		if fn.Synthetic != "" {
			continue
		}
		own := map[ssa.Value]int{}
		off := 0
		if fn.Signature.Recv() != nil {
			off = 1
		}
		for i, p := range fn.Params {
			if i >= off {
				own[p] = i - off
			}
		}
		for _, b := range fn.Blocks {
			for _, in := range b.Instrs {
				ci, ok := in.(ssa.CallInstruction)
				if !ok {
					continue
				}
				cc := ci.Common()
				var sig *types.Signature
				args := cc.Args
				calleeName := ""
				if cc.IsInvoke() {
					sig, _ = cc.Method.Type().(*types.Signature)
					calleeName = cc.Method.Name()
				} else if sc := cc.StaticCallee(); sc != nil {
					sig = sc.Signature
					calleeName = sc.Name()
					if sig.Recv() != nil && len(args) > 0 {
						args = args[1:]
					}
				}
				if sig == nil || sig.Params().Len() != len(args) || sig.Variadic() {
					continue
				}
				forwarder := calleeName == fn.Name() && fn.Signature.Params().Len() == sig.Params().Len()
				if forwarder {
					for k := 0; k < sig.Params().Len(); k++ {
						if !types.Identical(sig.Params().At(k).Type(), fn.Signature.Params().At(k).Type()) {
							forwarder = false
						}
					}
				}
				for i := 0; i < len(args); i++ {
					pi, oki := own[an.Strip(args[i])]
					if !oki {
						continue
					}
					for j := i + 1; j < len(args); j++ {
						pj, okj := own[an.Strip(args[j])]
						if !okj || !types.Identical(args[i].Type(), args[j].Type()) {
							continue
						}
						n++
						ni, nj := fn.Signature.Params().At(pi).Name(), fn.Signature.Params().At(pj).Name()
						ci_, cj_ := sig.Params().At(i).Name(), sig.Params().At(j).Name()
						byName := ni != "" && nj != "" && ni != nj && ni == cj_ && nj == ci_
						byPos := forwarder && pi == j && pj == i
						c.R.Check(!byName && !byPos, c.fnKey(fn)+"→"+calleeName+"/args", c.ipos(in), "parameters are handed on in place", "the parameters "+ni+" and "+nj+" are handed to "+calleeName+" exchanged (its parameters there are "+ci_+", "+cj_+"): the callee looks up, stores or reports under the wrong one of the two")
					}
				}
			}
		}
	}
	if n == 0 {
		c.R.Note(rule+"/examined", "-", "no call passes two same-typed parameters on")
		c.R.SetFloor(0)
	}
}

// constHaystack: strings.Contains/HasPrefix/HasSuffix/Index search in the varying string for the fixed one.
func constHaystack(c *Ctx, rule string, pkgs ...string) {
	c.R.Rule(rule, "in "+strings.Join(shortPkgs(pkgs), ", ")+": strings.Contains, HasPrefix, HasSuffix, Index, TrimPrefix and TrimSuffix are not called with a constant first argument and a varying second one (the request's value would be looked for inside the fixed text instead of the other way round)", 5)
	n := 0
	for _, fn := range c.moduleFuncs(inPkgs(pkgs)) {
		for _, call := range an.CallsIn(fn, func(_ ssa.CallInstruction, ci an.CalleeInfo) bool {
			switch ci.FullName() {
			case "strings.Contains", "strings.HasPrefix", "strings.HasSuffix", "strings.Index", "strings.TrimPrefix", "strings.TrimSuffix":
				return true
			}
			return false
		}) {
			if call.Parent() != fn {
				continue
			}
			n++
			_, c0 := call.Common().Args[0].(*ssa.Const)
			_, c1 := call.Common().Args[1].(*ssa.Const)
			c.R.Check(!(c0 && !c1), c.fnKey(fn)+"/"+an.CalleeOf(call).FullName(), c.ipos(call), "the varying string is the one searched", "the fixed text is searched for the varying value: the test is true exactly when the value is a fragment of the fixed text (the empty string included) and false for every real value that merely contains it")
		}
	}
	if n < 5 {
		c.R.Fail("%s: only %d calls examined", rule, n)
	}
}

// noSelfComparison: no comparison has the same expression on both sides.
func noSelfComparison(c *Ctx, rule string, pkgs ...string) {
	c.R.Rule(rule, "in "+strings.Join(shortPkgs(pkgs), ", ")+": no ==, !=, <, <=, >, >= has textually the same non-constant expression on both sides (a comparison of a value with itself decides nothing; one side was meant to be the other operand)", 50)
	n := 0
	for _, p := range pkgs {
		tp := c.W.TPkg(p)
		if tp == nil {
			continue
		}
		for _, f := range tp.Syntax {
			if strings.HasSuffix(c.W.PosFile(f.Pos()), "_test.go") {
				continue
			}
			ast.Inspect(f, func(nd ast.Node) bool {
				be, ok := nd.(*ast.BinaryExpr)
				if !ok {
					return true
				}
				switch be.Op {
				case token.EQL, token.NEQ, token.LSS, token.LEQ, token.GTR, token.GEQ:
				default:
					return true
				}
				n++
				if tv, ok := tp.TypesInfo.Types[be.X]; ok && tv.Value != nil {
					return true
				}
				same := types.ExprString(be.X) == types.ExprString(be.Y)
				if same {
					if bt, ok := tp.TypesInfo.TypeOf(be.X).Underlying().(*types.Basic); ok && bt.Info()&types.IsFloat != 0 {
						same = false // x != x is the NaN test
					}
				}
				c.R.Check(!same, shortPkgPath(p)+"/"+c.W.Pos(be.Pos()), c.W.Pos(be.Pos()), "the two sides differ", "both sides of the comparison are the same expression `"+types.ExprString(be.X)+"`: the test is constant, the other operand is never looked at")
				return true
			})
		}
	}
	if n < 50 {
		c.R.Fail("%s: only %d comparisons examined", rule, n)
	}
}

// panicUnderLock: no explicit panic while a mutex is held without a deferred unlock.
func panicUnderLock(c *Ctx, rule string, pkgs ...string) {
	c.R.Rule(rule, "in "+strings.Join(shortPkgs(pkgs), ", ")+": a function that can reach one of its own panic statements with a mutex it locked still held has registered the unlock with defer (an explicit unlock after the panic never runs; the recovered request leaves the mutex locked for everything that shares it)", 1)
	n := 0
	for _, fn := range c.moduleFuncs(inPkgs(pkgs)) {
		var panics []ssa.Instruction
		var locks []ssa.Instruction
		for _, b := range fn.Blocks {
			for _, in := range b.Instrs {
				if _, ok := in.(*ssa.Panic); ok {
					panics = append(panics, in)
				}
				if addr, lock, _, deferred := an.LockOp(in); addr != nil && lock && !deferred {
					locks = append(locks, in)
				}
			}
		}
		if len(panics) == 0 || len(locks) == 0 {
			continue
		}
		ls := an.Locksets(fn)
		for _, p := range panics {
			for key := range ls[p] {
				n++
				covered := false
				for _, b := range fn.Blocks {
					for _, in := range b.Instrs {
						if _, isD := in.(*ssa.Defer); !isD {
							continue
						}
						if addr, _, unlock, _ := an.LockOp(in); addr != nil && unlock && (an.LockKey(addr) == key || lastSeg(an.LockKey(addr)) == lastSeg(key)) && an.CanReach(in, p) {
							covered = true
						}
					}
				}
				c.R.Check(covered, c.fnKey(fn)+"/"+lastSeg(key)+"/panic", c.ipos(p), "the unlock is deferred", "the function panics with "+key+" held and no deferred unlock: the panic is recovered further up and the request answered, but the mutex stays locked — the next user of the same response context blocks for ever")
			}
		}
	}
	if n == 0 {
		c.R.Note(rule+"/examined", "-", "no panic statement under a held mutex")
		c.R.SetFloor(0)
	}
}

// countedLoopHasNoEarlyExit: the loop that consumes an up-front WaitGroup.Add(len(X)) is left only when X is exhausted.
func countedLoopHasNoEarlyExit(c *Ctx, rule string, gen bool, pkgs ...string) {
	c.R.Rule(rule, "where a WaitGroup is Add-ed len(X) up front and a loop over X accounts for one unit per iteration (a goroutine that calls Done, or Done itself), the loop is left only through its header: a break or return inside leaves units nobody will ever mark done and Wait blocks", 1)
	n := 0
	for _, fn := range c.scopeFuncs(pkgs, gen) {
		for _, call := range an.CallsIn(fn, func(_ ssa.CallInstruction, ci an.CalleeInfo) bool { return ci.FullName() == "(*sync.WaitGroup).Add" }) {
			if call.Parent() != fn {
				continue
			}
			lenCall, ok := an.Strip(call.Common().Args[1]).(*ssa.Call)
			if !ok {
				continue
			}
			if bi, ok := lenCall.Call.Value.(*ssa.Builtin); !ok || bi.Name() != "len" {
				continue
			}
			for _, l := range an.Loops(fn) {
				if l.Blocks[call.Block()] || !an.CanReach(call, l.Header.Instrs[0]) {
					continue
				}
				spawns := false
				for b := range l.Blocks {
					for _, in := range b.Instrs {
						if _, isGo := in.(*ssa.Go); isGo {
							spawns = true
						}
					}
				}
				if !spawns {
					continue
				}
				n++
				for b := range l.Blocks {
					if b == l.Header {
						continue
					}
					for _, s := range b.Succs {
						if !l.Blocks[s] {
							c.R.Bad(c.fnKey(fn)+"/counted-loop-exit", c.ipos(b.Instrs[len(b.Instrs)-1]), "the loop whose iterations were all counted into the WaitGroup before it started is left from inside: the iterations that did not run were counted but will never call Done, Wait never returns")
						}
					}
					if _, isRet := b.Instrs[len(b.Instrs)-1].(*ssa.Return); isRet {
						c.R.Bad(c.fnKey(fn)+"/counted-loop-exit", c.ipos(b.Instrs[len(b.Instrs)-1]), "the function returns from inside the loop whose iterations were all counted into the WaitGroup up front")
					}
				}
				c.R.OK(c.fnKey(fn)+"/counted-loop", c.ipos(call), "the counted loop is left only through its header")
			}
		}
	}
	if n == 0 {
		c.R.Fail("%s: no up-front Add(len(X)) with a spawning loop found", rule)
	}
}

// instrDominates: a is executed before b on every path to b (same function).
func instrDominates(a, b ssa.Instruction) bool {
	if a.Block() == b.Block() {
		for _, in := range a.Block().Instrs {
			if in == a {
				return true
			}
			if in == b {
				return false
			}
		}
	}
	return a.Block().Dominates(b.Block())
}

// liveStores: the stores into a cell that a load at `at` can observe, judged within one function: the latest store that
// dominates the load hides the ones before it.
func liveStores(cell ssa.Value, at ssa.Instruction) []*ssa.Store {
	sts := an.CellStores(cell)
	var dom *ssa.Store
	if at != nil {
		for _, st := range sts {
			if st.Parent() == at.Parent() && instrDominates(st, at) && (dom == nil || instrDominates(dom, st)) {
				dom = st
			}
		}
	}
	if dom == nil {
		return sts
	}
	var out []*ssa.Store
	for _, st := range sts {
		if st == dom || st.Parent() == dom.Parent() && an.CanReach(dom, st) {
			out = append(out, st)
		}
	}
	return out
}

// throughCall: on every way v can have got its value it passed through a call pred accepts.
func throughCall(v ssa.Value, at ssa.Instruction, pred func(*ssa.Call) bool, depth int, seen map[ssa.Value]bool) bool {
	v = an.Strip(v)
	if v == nil || depth > 8 || seen[v] {
		return false
	}
	seen[v] = true
	switch x := v.(type) {
	case *ssa.Call:
		if pred(x) {
			return true
		}
		if len(x.Call.Args) > 0 && isCtxT(x.Type()) && !x.Call.IsInvoke() && isCtxT(x.Call.Args[0].Type()) {
			return throughCall(x.Call.Args[0], x, pred, depth+1, seen)
		}
	case *ssa.Phi:
		for _, e := range x.Edges {
			if !throughCall(e, at, pred, depth+1, seen) {
				return false
			}
		}
		return len(x.Edges) > 0
	case *ssa.UnOp:
		if x.Op != token.MUL {
			return false
		}
		var cell ssa.Value
		switch a := x.X.(type) {
		case *ssa.Alloc:
			cell = a
		case *ssa.FreeVar:
			if b, ok := bindingOf(a).(*ssa.Alloc); ok {
				cell = b
			}
		}
		if cell == nil {
			return false
		}
		sts := liveStores(cell, x)
		for _, st := range sts {
			if !throughCall(st.Val, st, pred, depth+1, seen) {
				return false
			}
		}
		return len(sts) > 0
	case *ssa.FreeVar:
		if b := bindingOf(x); b != nil {
			return throughCall(b, nil, pred, depth+1, seen)
		}
	}
	return false
}

// responseContextPerResponse: every response of an operation gets an error context of its own.
func responseContextPerResponse(c *Ctx) {
	c.R.Rule("response-context-per-response", "graphql/executor: the function that produces one response (it takes a context, returns a *graphql.Response and hands a context plus a response producer to the response interceptors) passes them a context that comes from a graphql.WithResponseContext call made in that same function (the head of the chain: at least one must exist) or the context it was itself given (a link of the chain) — never a captured one: a fresh error and extension store per response, not the one the operation was set up with", 1)
	n := 0
	for _, lit := range c.moduleFuncs(func(p string) bool { return p == pkgExecutor }) {
		if lit.Signature.Params().Len() != 1 || !isCtxT(lit.Signature.Params().At(0).Type()) || lit.Signature.Results().Len() != 1 || !strings.HasSuffix(lit.Signature.Results().At(0).Type().String(), "graphql.Response") {
			continue
		}
		for _, b := range lit.Blocks {
			for _, in := range b.Instrs {
				call, ok := in.(*ssa.Call)
				if !ok || len(call.Call.Args) != 2 || !isCtxT(call.Call.Args[0].Type()) || call.Call.StaticCallee() != nil || call.Call.IsInvoke() {
					continue
				}
				// the second argument is a response producer: func(context.Context) *graphql.Response
				sig, isSig := call.Call.Args[1].Type().Underlying().(*types.Signature)
				if !isSig || sig.Params().Len() != 1 || !isCtxT(sig.Params().At(0).Type()) || sig.Results().Len() != 1 || !strings.HasSuffix(sig.Results().At(0).Type().String(), "graphql.Response") {
					continue
				}
				// either this is where the response's own context is made (WithResponseContext called here), or it is a link
				// of the chain and passes on the context it was given; a captured context is neither
				made := throughCall(call.Call.Args[0], call, func(k *ssa.Call) bool {
					return k.Parent() == lit && an.CalleeOf(k).FullName() == pkgGraphql+".WithResponseContext"
				}, 0, map[ssa.Value]bool{})
				given := false
				if !made && len(lit.Params) > 0 {
					roots := rootsOf(call.Call.Args[0], call, 0, map[ssa.Value]bool{})
					given = len(roots) > 0
					for _, r := range roots {
						if r != ssa.Value(lit.Params[len(lit.Params)-1]) {
							given = false
						}
					}
				}
				if made {
					n++
				}
				c.R.Check(made || given, c.fnKey(lit)+"/response-producer", c.ipos(call), "the context of this response comes from WithResponseContext called here, or is the one handed in", "the function that produces one response hands the response interceptors a context it captured instead of one made for this response: every response of a subscription or deferred operation then records its errors and extensions into one shared store, and event k carries the errors of events 1..k")
			}
		}
	}
	if n == 0 {
		c.R.Fail("response-context-per-response: no function in graphql/executor hands a context and a response producer to the response interceptors")
	}
}

// freshResponseContextIsFresh: WithFreshResponseContext puts a new responseContext into the context.
func freshResponseContextIsFresh(c *Ctx) {
	c.R.Rule("fresh-response-context-is-fresh", "graphql.WithFreshResponseContext (and the graphql constructor it may delegate to): the value stored in the context is a responseContext allocated in the storing function, under the key getResponseContext reads — not the one read from the incoming context", 1)
	fn := c.fn(pkgGraphql, "WithFreshResponseContext")
	if fn == nil {
		return
	}
	n := 0
	// the function itself and the graphql functions it builds the context with (WithResponseContext, a shared constructor)
	scope := []*ssa.Function{fn}
	for _, b := range fn.Blocks {
		for _, in := range b.Instrs {
			if ci, ok := in.(ssa.CallInstruction); ok {
				if sc := ci.Common().StaticCallee(); sc != nil && sc.Pkg != nil && sc.Pkg.Pkg.Path() == pkgGraphql && sc.Name() != "getResponseContext" && len(sc.Blocks) > 0 && sc.Signature.Results().Len() > 0 && isCtxT(sc.Signature.Results().At(0).Type()) {
					scope = append(scope, sc)
				}
			}
		}
	}
	var sites []ssa.CallInstruction
	for _, f := range scope {
		sites = append(sites, an.CallsIn(f, func(_ ssa.CallInstruction, ci an.CalleeInfo) bool { return ci.FullName() == "context.WithValue" })...)
	}
	for _, call := range sites {
		fn := call.Parent()
		n++
		al, ok := an.Strip(call.Common().Args[2]).(*ssa.Alloc)
		// the key is the one getResponseContext reads with
		if get := c.W.Func(pkgGraphql, "getResponseContext"); get != nil {
			for _, b := range get.Blocks {
				for _, in := range b.Instrs {
					if vc, isCall := in.(*ssa.Call); isCall && vc.Call.IsInvoke() && vc.Call.Method.Name() == "Value" {
						want, _ := an.Strip(vc.Call.Args[0]).(*ssa.Const)
						have, _ := an.Strip(call.Common().Args[1]).(*ssa.Const)
						same := want != nil && have != nil && want.Value != nil && have.Value != nil && want.Value.ExactString() == have.Value.ExactString() && types.Identical(want.Type(), have.Type())
						c.R.Check(same, "WithFreshResponseContext/key", c.ipos(call), "stored under the key getResponseContext reads", "the new responseContext is stored under another key than the one getResponseContext looks up: the 'fresh' context still resolves to the enclosing payload's response context (and whatever lived under the other key is hidden)")
					}
				}
			}
		}
		c.R.Check(ok && al.Parent() == fn, "WithFreshResponseContext/value", c.ipos(call), "a responseContext allocated here", "the context gets the responseContext of the incoming context back instead of a new one: deferred groups running side by side record their errors into one shared list, each payload reports whatever the others had recorded by then")
	}
	if n == 0 {
		c.R.Fail("fresh-response-context-is-fresh: no context.WithValue call in WithFreshResponseContext")
	}
}

// getErrorsCopies: GetErrors hands out copies of the recorded errors.
func getErrorsCopies(c *Ctx) {
	c.R.Rule("get-errors-copies", "graphql.GetErrors (its literals and the graphql helpers it calls included): every element put into a list of *gqlerror.Error there is the address of a copy made in the same function, not a stored *gqlerror.Error itself (callers decorate the errors they get)", 1)
	fn := c.fn(pkgGraphql, "GetErrors")
	if fn == nil {
		return
	}
	scope := map[*ssa.Function]bool{}
	var add func(f *ssa.Function, d int)
	add = func(f *ssa.Function, d int) {
		if f == nil || scope[f] || d > 2 || len(f.Blocks) == 0 {
			return
		}
		scope[f] = true
		for _, cl := range f.AnonFuncs {
			add(cl, d)
		}
		for _, b := range f.Blocks {
			for _, in := range b.Instrs {
				if ci, ok := in.(ssa.CallInstruction); ok {
					if sc := ci.Common().StaticCallee(); sc != nil && sc.Pkg != nil && sc.Pkg.Pkg.Path() == pkgGraphql && sc.Name() != "getResponseContext" {
						add(sc, d+1)
					}
				}
			}
		}
	}
	add(fn, 0)
	n := 0
	for f := range scope {
		for _, b := range f.Blocks {
			for _, in := range b.Instrs {
				st, ok := in.(*ssa.Store)
				if !ok {
					continue
				}
				if _, isIdx := st.Addr.(*ssa.IndexAddr); !isIdx || !strings.HasSuffix(st.Val.Type().String(), "gqlerror.Error") {
					continue
				}
				n++
				al, isAlloc := an.Strip(st.Val).(*ssa.Alloc)
				c.R.Check(isAlloc && al.Parent() == f, "GetErrors/element", c.ipos(in), "the element is a copy made here", "GetErrors hands out the stored error objects themselves: a response interceptor that decorates the errors it reads changes the stored ones (and, for an error value a resolver returns on every request, the one every later request will return)")
			}
		}
	}
	if n == 0 {
		c.R.Note("get-errors-copies/examined", "-", "no indexed store of a *gqlerror.Error in GetErrors, its literals or helpers (the list is built another way)")
		c.R.SetFloor(0)
	}
}

// deferredErrorsAfterDispatch: a deferred group's errors are read after its fields ran.
func deferredErrorsAfterDispatch(c *Ctx) {
	c.R.Rule("deferred-errors-read-after-dispatch", "generated executors: in a function that both dispatches a field set and reads graphql.GetErrors (the goroutine of processDeferredGroup, whatever form it takes), every GetErrors call is made after a Dispatch (a snapshot taken before the fields ran is always empty)", 1)
	n := 0
	for _, g := range c.Gen {
		for _, lit := range c.genFuncs(g) {
			var dispatches, reads []ssa.Instruction
			for _, b := range lit.Blocks {
				for _, in := range b.Instrs {
					ci, ok := in.(ssa.CallInstruction)
					if !ok {
						continue
					}
					switch an.CalleeOf(ci).FullName() {
					case "(*" + pkgGraphql + ".FieldSet).Dispatch":
						dispatches = append(dispatches, in)
					case pkgGraphql + ".GetErrors":
						reads = append(reads, in)
					}
				}
			}
			if len(dispatches) == 0 {
				continue
			}
			for _, r := range reads {
				n++
				ok := false
				for _, d := range dispatches {
					if instrDominates(d, r) {
						ok = true
					}
				}
				c.R.Check(ok, c.fnKeyIn(g, lit)+"/GetErrors", c.ipos(r), "read after Dispatch", "the group's errors are read before its fields were dispatched: the payload never carries the errors of its own fields — a nulled group arrives without the error that nulled it")
			}
		}
	}
	if n == 0 {
		c.R.Fail("deferred-errors-read-after-dispatch: no generated function both dispatches a field set and reads GetErrors")
	}
}

// lruGetPromotes: the cache's Get is a use.
func lruGetPromotes(c *Ctx) {
	pkg := modPath("graphql/handler/lru")
	c.R.Rule("lru-get-is-a-use", "graphql/handler/lru: LRU.Get reads through the underlying cache's Get (which marks the entry recently used), not through a method that leaves the recency order alone", 1)
	n := 0
	var fns []*ssa.Function
	if tp := c.W.TPkg(pkg); tp != nil && tp.Types != nil {
		if tn, ok := tp.Types.Scope().Lookup("LRU").(*types.TypeName); ok {
			if named, ok := tn.Type().(*types.Named); ok {
				for i := 0; i < named.NumMethods(); i++ {
					if m := named.Method(i); m.Name() == "Get" {
						if f := c.W.Prog.FuncValue(m); f != nil && len(f.Blocks) > 0 {
							fns = append(fns, f)
						}
					}
				}
			}
		}
	}
	for _, fn := range fns {
		for _, b := range fn.Blocks {
			for _, in := range b.Instrs {
				ci, ok := in.(ssa.CallInstruction)
				if !ok {
					continue
				}
				name := ci.Common().Value.Name()
				if ci.Common().IsInvoke() {
					name = ci.Common().Method.Name()
				} else if sc := ci.Common().StaticCallee(); sc != nil {
					name = sc.Name()
				}
				if _, isB := ci.Common().Value.(*ssa.Builtin); isB {
					continue
				}
				n++
				if i := strings.IndexByte(name, '['); i > 0 {
					name = name[:i] // Get[string T]: the method of the instantiated cache type
				}
				c.R.Check(name == "Get", "lru.Get/read", c.ipos(in), "reads through Get", "LRU.Get reads the entry with "+name+", which does not mark it recently used: the cache evicts in insertion order, a persisted query that is used all the time is dropped as soon as enough others were registered after it")
			}
		}
	}
	if n == 0 {
		c.R.Fail("lru-get-is-a-use: LRU.Get makes no call")
	}
}

// eventStreamLabelAfterRefusals: once the response is labelled text/event-stream no JSON refusal is written any more.
func eventStreamLabelAfterRefusals(c *Ctx) {
	c.R.Rule("event-stream-label-after-refusals", "transport: from a Header().Set(\"Content-Type\", \"text/event-stream\") no writeJson/writeJsonError/writeJsonErrorf/writeJsonGraphqlError call can be reached in the same function: the refusals written as plain JSON all come before the stream's label is set", 1)
	n := 0
	for _, fn := range c.moduleFuncs(func(p string) bool { return p == pkgTransport }) {
		var sets, writes []ssa.Instruction
		for _, b := range fn.Blocks {
			for _, in := range b.Instrs {
				ci, ok := in.(ssa.CallInstruction)
				if !ok {
					continue
				}
				switch an.CalleeOf(ci).FullName() {
				case "(net/http.Header).Set":
					k, _ := an.ConstString(ci.Common().Args[1])
					v, _ := an.ConstString(ci.Common().Args[2])
					if strings.EqualFold(k, "Content-Type") && strings.HasPrefix(v, "text/event-stream") {
						sets = append(sets, in)
					}
				case pkgTransport + ".writeJson", pkgTransport + ".writeJsonError", pkgTransport + ".writeJsonErrorf", pkgTransport + ".writeJsonGraphqlError":
					writes = append(writes, in)
				}
			}
		}
		for _, s := range sets {
			n++
			bad := ""
			for _, w := range writes {
				if an.CanReach(s, w) {
					bad = c.ipos(w)
				}
			}
			c.R.Check(bad == "", c.fnKey(fn)+"/event-stream-label", c.ipos(s), "no JSON refusal after the label", "a plain-JSON answer ("+bad+") can be written after the response was labelled text/event-stream: the refusal of a bad request reaches the client as an event stream that contains no event")
		}
	}
	if n == 0 {
		c.R.Fail("event-stream-label-after-refusals: no Content-Type: text/event-stream header set in the transport package")
	}
}

// cleanupBodyOrder: the application/graphql body is tested for URL encoding after the query= prefix is gone.
func cleanupBodyOrder(c *Ctx) {
	c.R.Rule("body-prefix-stripped-before-escape-test", "transport.cleanupBody: where it strips the query= prefix off its parameter, the string tested for the %-encoded opening brace is not the parameter as it came in (a body with both would otherwise never be unescaped)", 1)
	fn := c.fn(pkgTransport, "cleanupBody")
	if fn == nil {
		return
	}
	n := 0
	for _, call := range an.CallsIn(fn, func(_ ssa.CallInstruction, ci an.CalleeInfo) bool { return ci.FullName() == "strings.HasPrefix" }) {
		if k, ok := an.ConstString(call.Common().Args[1]); !ok || !strings.HasPrefix(k, "%") {
			continue
		}
		// the function strips a fixed prefix somewhere (TrimPrefix, CutPrefix): the test must not look at the parameter as it
		// came in
		strips := false
		for _, k := range an.CallsIn(fn, func(_ ssa.CallInstruction, ci an.CalleeInfo) bool {
			return ci.FullName() == "strings.TrimPrefix" || ci.FullName() == "strings.CutPrefix"
		}) {
			if _, isK := k.Common().Args[1].(*ssa.Const); isK {
				strips = true // wherever in the function: stripping after the test is the slip
			}
		}
		if !strips {
			continue
		}
		n++
		_, raw := an.Strip(call.Common().Args[0]).(*ssa.Parameter)
		c.R.Check(!raw, "cleanupBody/escape-test", c.ipos(call), "tests the stripped body", "the test for a URL-encoded body looks at the body before the query= prefix was removed: `query=%7B…` does not start with %7B, stays encoded, and is answered as a parse error although it names a valid operation")
	}
	if n == 0 {
		c.R.Note("body-prefix-stripped-before-escape-test/examined", "-", "cleanupBody has no test for a %-encoded prefix")
		c.R.SetFloor(0)
	}
}

// graphqlResponseStatusOnlyWhenNegotiated: the status table of application/graphql-response+json is used only where the media type was negotiated.
func graphqlResponseStatusOnlyWhenNegotiated(c *Ctx) {
	c.R.Rule("graphql-response-status-only-when-negotiated", "transport: a function that takes a status from statusForGraphQLResponse also calls determineResponseContentType (it negotiated the media type the status table belongs to); transports that always answer application/json use statusFor", 1)
	n := 0
	for _, fn := range c.moduleFuncs(func(p string) bool { return p == pkgTransport }) {
		if fn.Parent() != nil {
			continue
		}
		var uses []ssa.Instruction
		negotiates := false
		for _, f2 := range an.WithClosures(fn) {
			for _, b := range f2.Blocks {
				for _, in := range b.Instrs {
					ci, ok := in.(ssa.CallInstruction)
					if !ok {
						continue
					}
					switch an.CalleeOf(ci).FullName() {
					case pkgTransport + ".statusForGraphQLResponse":
						uses = append(uses, in)
					case pkgTransport + ".determineResponseContentType":
						negotiates = true
					}
				}
			}
		}
		for _, u := range uses {
			n++
			c.R.Check(negotiates, c.fnKey(fn)+"/statusForGraphQLResponse", c.ipos(u), "the function negotiated the media type", "the status of application/graphql-response+json is used by a transport that never negotiates that media type and labels its answers application/json: a request that fails validation is answered 422 or 400 under the wrong protocol")
		}
	}
	if n == 0 {
		c.R.Fail("graphql-response-status-only-when-negotiated: statusForGraphQLResponse is not called")
	}
}

// pruneKeepsComments: the formatter that every rendered file passes through is told to keep comments.
func pruneKeepsComments(c *Ctx) {
	pkg := modPath("internal/imports")
	c.R.Rule("prune-keeps-comments", "internal/imports.Prune: the imports.Options it hands to imports.Process has Comments set to true (the source is re-parsed there; without it every comment, the preserved doc comments of resolvers included, is dropped)", 1)
	fn := c.fn(pkg, "Prune")
	if fn == nil {
		return
	}
	n := 0
	for _, b := range fn.Blocks {
		for _, in := range b.Instrs {
			al, ok := in.(*ssa.Alloc)
			if !ok || !strings.HasSuffix(al.Type().String(), "imports.Options") {
				continue
			}
			n++
			set := false
			for _, r := range an.Referrers(al) {
				if fa, ok := r.(*ssa.FieldAddr); ok && fieldNameOf(fa) == "Comments" {
					for _, r2 := range an.Referrers(fa) {
						if st, ok := r2.(*ssa.Store); ok {
							if k, ok := st.Val.(*ssa.Const); ok && k.Value != nil && k.Value.String() == "true" {
								set = true
							}
						}
					}
				}
			}
			c.R.Check(set, "Prune/options", c.ipos(in), "Comments: true", "the formatting options do not ask for comments to be kept: every file written through templates.Render loses all its comments on the way out, the doc comments resolvergen preserved among them")
		}
	}
	if n == 0 {
		c.R.Fail("prune-keeps-comments: no imports.Options value built in Prune")
	}
}

// typeReferenceUnaliases: the bind target is looked at with aliases resolved.
func typeReferenceUnaliases(c *Ctx) {
	c.R.Rule("bind-target-unaliased", "Binder.TypeReference: the bind target it examines (unwrapOmittable and everything after) has been passed through code.Unalias whenever it is not nil", 1)
	fn := c.fn(modPath("codegen/config"), "*Binder.TypeReference")
	if fn == nil || len(fn.Params) < 3 {
		return
	}
	param := fn.Params[2]
	n := 0
	for _, call := range an.CallsIn(fn, func(_ ssa.CallInstruction, ci an.CalleeInfo) bool {
		return ci.FullName() == modPath("codegen/config")+".unwrapOmittable"
	}) {
		if call.Parent() != fn {
			continue
		}
		n++
		arg := an.Strip(call.Common().Args[0])
		ok := false
		var walk func(v ssa.Value, d int) bool
		walk = func(v ssa.Value, d int) bool {
			v = an.Strip(v)
			if d > 4 {
				return false
			}
			switch x := v.(type) {
			case *ssa.Call:
				return an.CalleeOf(x).FullName() == modPath("internal/code")+".Unalias"
			case *ssa.Phi:
				// nil stays nil; every other edge went through Unalias
				any := false
				for i, e := range x.Edges {
					if walk(e, d+1) {
						any = true
						continue
					}
					// the edge that carries the untouched parameter must be the one on which it is nil
					if an.Strip(e) == ssa.Value(param) {
						pred := x.Block().Preds[i]
						if iff, ok := pred.Instrs[len(pred.Instrs)-1].(*ssa.If); ok {
							if bo, ok := iff.Cond.(*ssa.BinOp); ok && (an.IsNilConst(bo.X) || an.IsNilConst(bo.Y)) {
								continue
							}
						}
					}
					return false
				}
				return any
			}
			return false
		}
		ok = walk(arg, 0)
		c.R.Check(ok, "TypeReference/bind-target", c.ipos(call), "examined after Unalias", "the bind target is examined as written: a struct field declared with an alias type is bound under the alias instead of the type it stands for, and what is generated for it depends on how go/types happened to materialise the alias")
	}
	if n == 0 {
		c.R.Fail("bind-target-unaliased: unwrapOmittable is not called in Binder.TypeReference")
	}
}

// cleanupKeepsCachedPrefix: the package cache drops what is outside the cached prefix.
func cleanupKeepsCachedPrefix(c *Ctx) {
	pkg := modPath("internal/code")
	c.R.Rule("cleanup-keeps-cached-prefix", "internal/code.Packages.CleanupUserPackages: a key is put on the removal list only where strings.HasPrefix(key, cached prefix) was found false (the user's packages are the ones that must be reloaded)", 1)
	fn := c.fn(pkg, "*Packages.CleanupUserPackages")
	if fn == nil {
		return
	}
	n := 0
	for _, b := range fn.Blocks {
		for _, in := range b.Instrs {
			call, ok := in.(*ssa.Call)
			if !ok {
				continue
			}
			if bi, ok := call.Call.Value.(*ssa.Builtin); !ok || bi.Name() != "append" {
				continue
			}
			n++
			good := false
			for _, f := range an.Facts(call) {
				if k, ok := f.X.(*ssa.Call); ok && f.Op == token.ILLEGAL && an.CalleeOf(k).FullName() == "strings.HasPrefix" && f.Neg {
					good = true
				}
			}
			c.R.Check(good, "CleanupUserPackages/append", c.ipos(call), "appended where HasPrefix is false", "the removal list collects the packages inside the cached prefix (or all of them): the user's own packages stay cached across generation steps, the models written by one step are not seen by the next and binding fails or binds stale types")
		}
	}
	if n == 0 {
		c.R.Note("cleanup-keeps-cached-prefix/examined", "-", "no removal list built with append in CleanupUserPackages")
		c.R.SetFloor(0)
	}
}

// incrementalHasNextOnlyFromBatch: the hasNext written with a batch of incremental results is decided by that batch alone.
func incrementalHasNextOnlyFromBatch(c *Ctx) {
	c.R.Rule("incremental-hasnext-only-from-batch", "multipartResponseAggregator.flush: the hasNext handed to writeIncrementalJson is computed from the aggregator's deferResponses alone — every value it is built from is a constant or read through that field — not from what the initial response said", 1)
	n := 0
	for _, fn := range aggregatorMethods(c) {
		for _, call := range an.CallsIn(fn, func(_ ssa.CallInstruction, ci an.CalleeInfo) bool {
			return ci.FullName() == pkgTransport+".writeIncrementalJson"
		}) {
			if call.Parent() != fn || len(call.Common().Args) < 3 {
				continue
			}
			n++
			seen := map[ssa.Value]bool{}
			bad := ""
			var walk func(v ssa.Value, d int)
			viaBatch := func(v ssa.Value) bool {
				for d := 0; v != nil && d < 10; d++ {
					switch x := v.(type) {
					case *ssa.FieldAddr:
						if fieldNameOf(x) == "deferResponses" {
							return true
						}
						v = x.X
					case *ssa.IndexAddr:
						v = x.X
					case *ssa.UnOp:
						v = x.X
					default:
						return false
					}
				}
				return false
			}
			walk = func(v ssa.Value, d int) {
				v = an.Strip(v)
				if v == nil || seen[v] || d > 10 {
					return
				}
				seen[v] = true
				switch x := v.(type) {
				case *ssa.Const:
				case *ssa.Phi:
					for i, e := range x.Edges {
						walk(e, d+1)
						// a && b is phi[false, b]: a decides through the branch of the block the edge comes from
						if pred := x.Block().Preds[i]; len(pred.Instrs) > 0 {
							if iff, ok := pred.Instrs[len(pred.Instrs)-1].(*ssa.If); ok {
								walk(iff.Cond, d+1)
							}
						}
					}
				case *ssa.BinOp:
					walk(x.X, d+1)
					walk(x.Y, d+1)
				case *ssa.UnOp:
					if x.Op == token.MUL {
						if !viaBatch(x.X) {
							bad = c.ipos(x)
						}
						return
					}
					walk(x.X, d+1)
				default:
					bad = c.ipos(call)
				}
			}
			walk(call.Common().Args[2], 0)
			c.R.Check(bad == "", c.fnKey(fn)+"/incremental-hasNext", c.ipos(call), "decided by the batch", "the hasNext written with a batch of incremental results also depends on a value read elsewhere ("+bad+"): in a flush that carries only incremental results it is whatever that other value happens to be — the closing boundary is sent while results are still to come, or never")
		}
	}
	if n == 0 {
		c.R.Fail("incremental-hasnext-only-from-batch: no writeIncrementalJson call in the aggregator's methods")
	}
}

// filledCollectionIsRead: a slice that is made and filled with copy is read afterwards.
func filledCollectionIsRead(c *Ctx, rule string, pkgs ...string) {
	c.R.Rule(rule, "in "+strings.Join(shortPkgs(pkgs), ", ")+": a slice created with make and filled through copy is read afterwards (ranged over, indexed, passed on, stored): a collection that is only filled was meant to be the one walked, and the loop walks one of its parts instead", 1)
	n := 0
	for _, fn := range c.moduleFuncs(inPkgs(pkgs)) {
		for _, b := range fn.Blocks {
			for _, in := range b.Instrs {
				mk, ok := in.(*ssa.MakeSlice)
				if !ok {
					continue
				}
				isCopyDst := func(v ssa.Value, r ssa.Instruction) bool {
					call, ok := r.(*ssa.Call)
					if !ok {
						return false
					}
					bi, ok := call.Call.Value.(*ssa.Builtin)
					return ok && bi.Name() == "copy" && call.Call.Args[0] == v && call.Call.Args[1] != v
				}
				filled, read := false, false
				for _, r := range an.Referrers(mk) {
					switch x := r.(type) {
					case *ssa.DebugRef:
					case *ssa.Slice:
						onlyDst := true
						for _, r2 := range an.Referrers(x) {
							if isCopyDst(x, r2) {
								filled = true
							} else if _, isDbg := r2.(*ssa.DebugRef); !isDbg {
								onlyDst = false
							}
						}
						if !onlyDst {
							read = true
						}
					default:
						if isCopyDst(mk, r) {
							filled = true
						} else if call, isCall := r.(*ssa.Call); isCall {
							if bi, isB := call.Call.Value.(*ssa.Builtin); isB && (bi.Name() == "len" || bi.Name() == "cap") {
								continue
							}
							read = true
						} else {
							read = true
						}
					}
				}
				if !filled {
					continue
				}
				n++
				c.R.Check(read, c.fnKey(fn)+"/filled-slice", c.ipos(mk), "the filled slice is read", "this slice is made and filled with copy and then never read: the loop that was meant to walk the combined collection walks only one of the parts it was copied from, the other part's elements are never visited")
			}
		}
	}
	if n == 0 {
		c.R.Note(rule+"/examined", "-", "no slice is filled with copy in these packages")
		c.R.SetFloor(0)
	}
}

// emptinessTestCoversFilled: an all-empty test over the collections of one struct covers every collection the function fills.
func emptinessTestCoversFilled(c *Ctx, rule string, pkgs ...string) {
	c.R.Rule(rule, "in "+strings.Join(shortPkgs(pkgs), ", ")+": where a function tests three or more slice fields of one struct value for len == 0 (the nothing-to-do test), every slice field of that value the function itself stores into is among the tested ones: a collection that is filled but not tested is skipped when it is the only one with content", 1)
	n := 0
	baseOf := func(v ssa.Value) string {
		if ld, ok := v.(*ssa.UnOp); ok && ld.Op == token.MUL {
			return "*" + ld.X.Name()
		}
		return v.Name()
	}
	for _, fn := range c.moduleFuncs(inPkgs(pkgs)) {
		tested := map[string]map[string]bool{}
		stored := map[string]map[string]ssa.Instruction{}
		for _, b := range fn.Blocks {
			for _, in := range b.Instrs {
				switch x := in.(type) {
				case *ssa.BinOp:
					if x.Op != token.EQL {
						continue
					}
					k, isC := an.ConstInt(x.Y)
					call, isCall := x.X.(*ssa.Call)
					if !isC || k != 0 || !isCall {
						continue
					}
					if bi, ok := call.Call.Value.(*ssa.Builtin); !ok || bi.Name() != "len" {
						continue
					}
					ld, ok := call.Call.Args[0].(*ssa.UnOp)
					if !ok {
						continue
					}
					fa, ok := ld.X.(*ssa.FieldAddr)
					if !ok {
						continue
					}
					if _, isSlice := ld.Type().Underlying().(*types.Slice); !isSlice {
						continue
					}
					base := baseOf(fa.X)
					if tested[base] == nil {
						tested[base] = map[string]bool{}
					}
					tested[base][fieldNameOf(fa)] = true
				case *ssa.Store:
					fa, ok := x.Addr.(*ssa.FieldAddr)
					if !ok {
						continue
					}
					if _, isSlice := x.Val.Type().Underlying().(*types.Slice); !isSlice {
						continue
					}
					base := baseOf(fa.X)
					if stored[base] == nil {
						stored[base] = map[string]ssa.Instruction{}
					}
					stored[base][fieldNameOf(fa)] = in
				}
			}
		}
		for base, ts := range tested {
			if len(ts) < 3 {
				continue
			}
			for f, at := range stored[base] {
				n++
				c.R.Check(ts[f], c.fnKey(fn)+"/"+f, c.ipos(at), "filled and tested", "the function fills "+f+" of the same value whose other collections it tests for emptiness before returning early, but does not test "+f+": when "+f+" is the only collection with content the function returns as if there were nothing to do — after it has already registered what it meant to generate")
			}
		}
	}
	if n == 0 {
		c.R.Note(rule+"/examined", "-", "no three-field emptiness test found")
		c.R.SetFloor(0)
	}
}

// mismatchContinuesSearch: a search over declarations goes on to the next candidate when a name does not match.
func mismatchContinuesSearch(c *Ctx, rule string, pkgs ...string) {
	c.R.Rule(rule, "in "+strings.Join(shortPkgs(pkgs), ", ")+": inside a loop, the branch taken when a candidate's name differs from the name looked for (a string compared with a string parameter by !=) stays in that loop — it moves on to the next candidate; leaving the loop there ends the search at the first declaration that is not the wanted one", 1)
	n := 0
	for _, fn := range c.moduleFuncs(inPkgs(pkgs)) {
		loops := an.Loops(fn)
		if len(loops) == 0 {
			continue
		}
		isStrParam := func(v ssa.Value) bool {
			p, ok := an.Strip(v).(*ssa.Parameter)
			if !ok {
				return false
			}
			bt, ok := p.Type().Underlying().(*types.Basic)
			return ok && bt.Kind() == types.String
		}
		for _, b := range fn.Blocks {
			iff, ok := b.Instrs[len(b.Instrs)-1].(*ssa.If)
			if !ok {
				continue
			}
			bo, ok := iff.Cond.(*ssa.BinOp)
			if !ok || bo.Op != token.NEQ || !(isStrParam(bo.X) != isStrParam(bo.Y)) {
				continue
			}
			var inner *an.Loop
			for _, l := range loops {
				if l.Blocks[b] && (inner == nil || len(l.Blocks) < len(inner.Blocks)) {
					inner = l
				}
			}
			if inner == nil {
				continue
			}
			n++
			c.R.Check(inner.Blocks[b.Succs[0]], c.fnKey(fn)+"/name-mismatch", c.ipos(iff), "a mismatch moves on to the next candidate", "when the candidate's name differs the loop is left instead of continued: the search stops at the first declaration that is not the one looked for, whatever stands after it is never found (never marked as copied, so it is written out a second time)")
		}
	}
	if n < 1 {
		c.R.Fail("%s: no name test inside a loop found", rule)
	}
}

// deferredLiteralUsesDeliveredContext: what a deferred group runs later runs under the context it is dispatched with.
func deferredLiteralUsesDeliveredContext(c *Ctx) {
	c.R.Rule("deferred-literal-uses-delivered-context", "generated object functions: a literal handed to Concurrently on a field set the function does not dispatch itself (a deferred group: it is dispatched later, by processDeferredGroup, under a fresh response context) passes on the context it is called with, not the object function's captured one", 2)
	n := 0
	for _, g := range c.Gen {
		for _, fn := range c.genFuncs(g) {
			if fn.Parent() != nil || !isObjectFunc(fn) {
				continue
			}
			own := map[ssa.Value]bool{}
			for _, f2 := range an.WithClosures(fn) {
				for _, call := range an.CallsIn(f2, func(_ ssa.CallInstruction, ci an.CalleeInfo) bool {
					return ci.FullName() == "(*"+pkgGraphql+".FieldSet).Dispatch"
				}) {
					for _, r := range rootsOf(call.Common().Args[0], call, 0, map[ssa.Value]bool{}) {
						own[r] = true
					}
				}
			}
			if len(own) == 0 {
				continue
			}
			for _, call := range an.CallsIn(fn, func(_ ssa.CallInstruction, ci an.CalleeInfo) bool {
				return ci.FullName() == "(*"+pkgGraphql+".FieldSet).Concurrently"
			}) {
				if call.Parent() != fn || len(call.Common().Args) < 3 {
					continue
				}
				mine := false
				for _, r := range rootsOf(call.Common().Args[0], call, 0, map[ssa.Value]bool{}) {
					if own[r] {
						mine = true
					}
				}
				mc, ok := an.Strip(call.Common().Args[2]).(*ssa.MakeClosure)
				if mine || !ok {
					continue
				}
				lit := mc.Fn.(*ssa.Function)
				n++
				bad := ""
				for _, b := range lit.Blocks {
					for _, in := range b.Instrs {
						ci, ok := in.(ssa.CallInstruction)
						if !ok {
							continue
						}
						for _, a := range ci.Common().Args {
							if !isCtxT(a.Type()) {
								continue
							}
							switch x := an.Strip(a).(type) {
							case *ssa.FreeVar:
								bad = c.ipos(in)
							case *ssa.UnOp:
								if _, isFV := x.X.(*ssa.FreeVar); isFV && x.Op == token.MUL {
									bad = c.ipos(in)
								}
							}
						}
					}
				}
				c.R.Check(bad == "", c.fnKeyIn(g, fn)+"/deferred-literal", c.ipos(call), "the literal passes on the context it is called with", "the literal of a deferred group goes on with the object function's captured context ("+bad+"): the group's fields run under the response context of the payload the object was marshalled in, their errors are recorded there — after that payload has been sent — and the group's own payload arrives without them")
			}
		}
	}
	if n < 2 {
		c.R.Fail("deferred-literal-uses-delivered-context: only %d deferred Concurrently calls found", n)
	}
}

// optionFieldsDistinct: two different option constructors do not plainly assign the same configuration field.
func optionFieldsDistinct(c *Ctx, rule string, pkgs ...string) {
	c.R.Rule(rule, "in "+strings.Join(shortPkgs(pkgs), ", ")+": among the exported functions that return a func(*Config)-style option whose literal plainly stores a parameter into a field of its argument, no two store into the same field (an option that writes its neighbour's field leaves its own setting at zero: a limit that is never enforced)", 5)
	type site struct {
		fn *ssa.Function
		at ssa.Instruction
	}
	byField := map[string][]site{}
	for _, fn := range c.moduleFuncs(inPkgs(pkgs)) {
		if fn.Parent() != nil || fn.Signature.Recv() != nil || !ast.IsExported(fn.Name()) || fn.Signature.Results().Len() != 1 {
			continue
		}
		if _, isFn := fn.Signature.Results().At(0).Type().Underlying().(*types.Signature); !isFn {
			continue
		}
		for _, lit := range fn.AnonFuncs {
			if len(lit.Params) != 1 {
				continue
			}
			for _, b := range lit.Blocks {
				for _, in := range b.Instrs {
					st, ok := in.(*ssa.Store)
					if !ok {
						continue
					}
					fa, ok := st.Addr.(*ssa.FieldAddr)
					if !ok || an.Strip(fa.X) != ssa.Value(lit.Params[0]) {
						continue
					}
					// a plain store of something captured from the constructor (its parameter or a value computed from it): not an append to the field
					if call, isCall := an.Strip(st.Val).(*ssa.Call); isCall {
						if bi, isB := call.Call.Value.(*ssa.Builtin); isB && bi.Name() == "append" {
							continue
						}
					}
					key := types.TypeString(fa.X.Type(), func(*types.Package) string { return "" }) + "." + fieldNameOf(fa)
					byField[key] = append(byField[key], site{fn, in})
				}
			}
		}
	}
	n := 0
	for key, ss := range byField {
		n++
		distinct := map[*ssa.Function]bool{}
		for _, s := range ss {
			distinct[s.fn] = true
		}
		if len(distinct) == 1 {
			c.R.OK(key, c.ipos(ss[0].at), "assigned by one option")
			continue
		}
		var names []string
		for f := range distinct {
			names = append(names, f.Name())
		}
		sort.Strings(names)
		c.R.Bad(key, c.ipos(ss[len(ss)-1].at), "the options "+strings.Join(names, " and ")+" both assign "+key+": one of them writes its neighbour's field, its own setting is never stored (a complexity limit given through it is not enforced)")
	}
	if n < 5 {
		c.R.Fail("%s: only %d option fields found", rule, n)
	}
}

// validateTestsOwnFields: an extension's Validate refuses a missing setting of its own.
func validateTestsOwnFields(c *Ctx, rule string, pkgs ...string) {
	c.R.Rule(rule, "in "+strings.Join(shortPkgs(pkgs), ", ")+": in a Validate(schema) method, a comparison with nil whose nil outcome returns an error looks at the receiver's own settings, not at the schema handed in (the check is there to refuse a misconfigured extension at start-up)", 1)
	n := 0
	for _, fn := range c.moduleFuncs(inPkgs(pkgs)) {
		if fn.Name() != "Validate" || fn.Signature.Recv() == nil || len(fn.Params) != 2 || fn.Synthetic != "" {
			continue
		}
		for _, b := range fn.Blocks {
			iff, ok := b.Instrs[len(b.Instrs)-1].(*ssa.If)
			if !ok {
				continue
			}
			bo, ok := iff.Cond.(*ssa.BinOp)
			if !ok || !(an.IsNilConst(bo.X) || an.IsNilConst(bo.Y)) {
				continue
			}
			v := bo.X
			if an.IsNilConst(v) {
				v = bo.Y
			}
			if an.IsErrorType(v.Type()) {
				continue
			}
			n++
			c.R.Check(an.Strip(v) != ssa.Value(fn.Params[1]), c.fnKey(fn)+"/nil-test", c.ipos(iff), "tests a setting of the extension", "Validate compares the schema it is handed with nil instead of the extension's own setting: an extension configured without it (no cache, no limit function) is accepted at start-up and fails on the first request that needs it")
		}
	}
	if n == 0 {
		c.R.Fail("%s: no nil test in a Validate method", rule)
	}
}
