package rules

import (
	"go/ast"
	"go/constant"
	"go/token"
	"go/types"
	"sort"
	"strings"

	"golang.org/x/tools/go/ssa"

	"verif/internal/an"
)

func init() {
	register(&Property{
		ID:      "C09",
		Runtime: append(append([]string{}, RuntimeCore...), "./handler"),
		Run:     runC09,
		Explanation: "HTTP outcome structure on every path of the seven HTTP transports: (get-query-only) GET's DispatchOperation is edge-dominated by `Operation == ast.Query` of the operation selected by the request's own " +
			"operation name; (status-vs-dispatch) no path holds both a non-2xx WriteHeader and a DispatchOperation, and no WriteHeader follows a body write; (status-tables) statusFor/statusForGraphQLResponse map " +
			"KindProtocol to a 4xx constant and everything else to 200, errcode's table maps the parse and validation codes to KindProtocol, and every parse/validation failure return of the executor is preceded " +
			"by errcode.Set with such a code; (content-type) every body write is preceded by a Content-Type header write, and POST/GET choose the status table by the same value they put in the header.",
		NotDecided:  "that each body is a well-formed GraphQL response; header negotiation values; transport selection order beyond first-Supports (Server.getTransport is a plain loop, not checked)",
		Assumptions: []string{"net/http semantics of Header/WriteHeader/Write"},
	})
}

var httpTransports = []string{"POST", "GET", "GRAPHQL", "UrlEncodedForm", "MultipartForm", "SSE", "MultipartMixed"}

// wUse classifies a use of the ResponseWriter parameter.
type wUse struct {
	in   ssa.Instruction
	kind string // header | status | body
	code ssa.Value
	// failEdge: the use happens inside a helper that reports it through a false result ("the error response has been written"):
	// what can follow the use is what is reachable from the edge on which that result is false (nil: ordinary use at `in`)
	failEdge *ssa.BasicBlock
}

// reaches: target can execute after the use.
func (u wUse) reaches(target ssa.Instruction) bool {
	if u.failEdge == nil {
		return an.CanReach(u.in, target)
	}
	return target.Parent() == u.in.Parent() && an.Reach(u.failEdge, nil)[target.Block()]
}

// guardedWriterHelper: a same-package helper that receives the ResponseWriter, returns one bool, and writes to it only on paths
// that end in `return false` (its true result means "nothing written, go on").  Returns the writer parameter index and the
// uses inside the helper, or -1.
func (c *Ctx) guardedWriterHelper(h *ssa.Function) (int, []wUse) {
	if h == nil || h.Pkg == nil || h.Pkg.Pkg.Path() != pkgTransport || len(h.Blocks) == 0 {
		return -1, nil
	}
	res := h.Signature.Results()
	if res.Len() != 1 {
		return -1, nil
	}
	if bt, ok := res.At(0).Type().Underlying().(*types.Basic); !ok || bt.Kind() != types.Bool {
		return -1, nil
	}
	wi := -1
	for i, p := range h.Params {
		if strings.HasSuffix(p.Type().String(), "net/http.ResponseWriter") {
			wi = i
		}
	}
	if wi < 0 {
		return -1, nil
	}
	uses := c.rwUsesOf(h, h.Params[wi], 1)
	for _, u := range uses {
		if u.kind == "header" {
			continue
		}
		if u.in.Parent() != h {
			return -1, nil
		}
		for _, r := range an.Returns(h) {
			if h.Recover != nil && r.Block() == h.Recover {
				continue
			}
			if !u.reaches(r) {
				continue
			}
			k, isC := an.ReturnedValue(r, 0).(*ssa.Const)
			if !isC || k.Value == nil || k.Value.String() != "false" {
				return -1, nil
			}
		}
	}
	return wi, uses
}

// isRW: v is (derived from) the http.ResponseWriter parameter w of fn's top-level function.
func isRW(v ssa.Value, w ssa.Value) bool {
	for i := 0; i < 8; i++ {
		v = an.Strip(v)
		if v == w {
			return true
		}
		if u, ok := v.(*ssa.UnOp); ok && u.Op == token.MUL {
			if d := an.SoleDef(v); d != nil && d != v {
				v = d
				continue
			}
		}
		if ta, ok := v.(*ssa.TypeAssert); ok { // w.(http.Flusher)
			v = ta.X
			continue
		}
		if e, ok := v.(*ssa.Extract); ok {
			v = e.Tuple
			continue
		}
		break
	}
	return false
}

var statusHelperCache = map[*ssa.Function]int{}

// statusHelper: module function that calls WriteHeader on its first parameter with another parameter; returns that parameter's index or -1.
func statusHelper(fn *ssa.Function) int {
	if v, ok := statusHelperCache[fn]; ok {
		return v
	}
	statusHelperCache[fn] = -1
	if len(fn.Params) < 2 || fn.Pkg == nil {
		return -1
	}
	for _, b := range fn.Blocks {
		for _, in := range b.Instrs {
			if call, ok := in.(ssa.CallInstruction); ok && strings.HasSuffix(an.CalleeOf(call).FullName(), "ResponseWriter).WriteHeader") {
				for i, p := range fn.Params {
					if ssa.Value(p) == call.Common().Args[0] {
						statusHelperCache[fn] = i
					}
				}
			}
		}
	}
	return statusHelperCache[fn]
}

func (c *Ctx) rwUses(do *ssa.Function) []wUse {
	w := ssa.Value(do.Params[len(do.Params)-3]) // (recv, w, r, exec)
	if !strings.Contains(w.Type().String(), "ResponseWriter") {
		for _, p := range do.Params {
			if strings.HasSuffix(p.Type().String(), "net/http.ResponseWriter") {
				w = p
			}
		}
	}
	return c.rwUsesOf(do, w, 0)
}

func (c *Ctx) rwUsesOf(do *ssa.Function, w ssa.Value, depth int) []wUse {
	var out []wUse
	for _, fn := range an.WithClosures(do) {
		for _, b := range fn.Blocks {
			for _, in := range b.Instrs {
				call, ok := in.(ssa.CallInstruction)
				if !ok {
					continue
				}
				if _, isDefer := in.(*ssa.Defer); isDefer {
					continue // runs at function exit, after everything ordered here
				}
				if writerLacksCapability(in, w) {
					continue // reviewed: path taken only when the server's ResponseWriter is not an http.Flusher (an environment fault the property does not quantify over)
				}
				cc := call.Common()
				ci := an.CalleeOf(call)
				n := ci.FullName()
				if cc.IsInvoke() && isRW(cc.Value, w) {
					switch cc.Method.Name() {
					case "Header":
						out = append(out, wUse{in: in, kind: "header"})
					case "WriteHeader":
						out = append(out, wUse{in: in, kind: "status", code: cc.Args[0]})
					case "Flush":
						out = append(out, wUse{in: in, kind: "body"})
					default:
						out = append(out, wUse{in: in, kind: "body"})
					}
					continue
				}
				uses := false
				for _, a := range cc.Args {
					if isRW(a, w) {
						uses = true
					}
				}
				if !uses {
					continue
				}
				switch {
				case n == pkgTransport+".writeHeaders":
					out = append(out, wUse{in: in, kind: "header"})
				case n == "net/http.MaxBytesReader":
					// wraps the request body; writes nothing (reviewed)
				case ci.Static != nil && statusHelper(ci.Static) >= 0:
					out = append(out, wUse{in: in, kind: "status", code: cc.Args[statusHelper(ci.Static)]})
					out = append(out, wUse{in: in, kind: "body"})
				default:
					if depth == 0 {
						if wi, inner := c.guardedWriterHelper(ci.Static); wi >= 0 && wi < len(cc.Args) && isRW(cc.Args[wi], w) {
							// the helper's writes happen on the edge on which its result is false
							var fe *ssa.BasicBlock
							if v, isV := in.(ssa.Value); isV {
								for _, e := range an.CondEdges(fn) {
									if e.Fact.Op == token.ILLEGAL && e.Fact.X == v && e.Fact.Neg {
										fe = e.To
									}
								}
							}
							if fe != nil {
								for _, iu := range inner {
									if iu.kind == "header" {
										out = append(out, wUse{in: in, kind: "header"})
										continue
									}
									out = append(out, wUse{in: in, kind: iu.kind, code: iu.code, failEdge: fe})
								}
								continue
							}
						}
					}
					out = append(out, wUse{in: in, kind: "body"})
				}
			}
		}
	}
	return out
}

func is2xxConst(v ssa.Value) bool {
	n, ok := an.ConstInt(v)
	return ok && n >= 200 && n <= 299
}

func runC09(c *Ctx) {
	var dos []*ssa.Function
	for _, t := range httpTransports {
		if f := c.fn(pkgTransport, t+".Do"); f != nil {
			dos = append(dos, f)
		}
	}

	// ---------------------------------------------------------------------------------------
	c.R.Rule("get-query-only", "in GET.Do, DispatchOperation is edge-dominated by `op.Operation == ast.Query` where op is the operation the executor selected for this request (opCtx.Operation, or Doc.Operations.ForName(opCtx.OperationName) of the same opCtx)", 1)
	if get := c.W.Func(pkgTransport, "GET.Do"); get != nil {
		for _, fn := range an.WithClosures(get) {
			for _, call := range an.CallsIn(fn, func(_ ssa.CallInstruction, ci an.CalleeInfo) bool { return ci.FullName() == mDispatchOp }) {
				opctx := call.Common().Args[len(call.Common().Args)-1]
				w := ""
				why := "no dominating test of the selected operation's kind"
				for _, f := range an.Facts(call) {
					if f.Op != token.EQL {
						continue
					}
					for _, pr := range [][2]ssa.Value{{f.X, f.Y}, {f.Y, f.X}} {
						s, ok := an.ConstString(pr[1])
						if !ok || s != "query" {
							continue
						}
						fa, ok := loadAddr(pr[0]).(*ssa.FieldAddr)
						if !ok || fieldNameOf(fa) != "Operation" || !an.NamedIs(fa.X.Type(), pkgAST, "OperationDefinition") {
							continue
						}
						if okSel, whySel := c.isSelectedOperation(fa.X, opctx); okSel {
							w = "guard: selected operation's kind == ast.Query (" + whySel + ")"
						} else {
							why = "the tested operation is not the one the request selects: " + whySel
						}
					}
				}
				c.R.Check(w != "", "GET.Do→DispatchOperation", c.ipos(call), w, "a GET request can reach DispatchOperation for a non-query operation: "+why)
			}
		}
	}

	// ---------------------------------------------------------------------------------------
	c.R.Rule("method-gate", "every HTTP transport other than GET (none of which restricts the operation kind) accepts a request in Supports only on the r.Method == \"POST\" edge, and GET only on r.Method == \"GET\": with first-match transport selection no GET request can reach a transport that executes mutations", 7)
	for _, t := range httpTransports {
		sup := c.fn(pkgTransport, t+".Supports")
		if sup == nil {
			continue
		}
		want := "POST"
		if t == "GET" {
			want = "GET"
		}
		bad := ""
		n := 0
		for _, r := range an.Returns(sup) {
			for _, ve := range returnValueEdges(r, 0) {
				if cv, ok := ve.val.(*ssa.Const); ok && cv.Value != nil && cv.Value.ExactString() == "false" {
					continue
				}
				n++
				gated := false
				gs := an.BlockGuards(ve.from)
				if ve.edgeIf != nil {
					gs = append(gs, *ve.edgeIf)
				}
				for _, g := range gs {
					f := an.FactOf(g)
					if f.Op != token.EQL {
						continue
					}
					for _, pr := range [][2]ssa.Value{{f.X, f.Y}, {f.Y, f.X}} {
						if m, ok := an.ConstString(pr[1]); ok && m == want {
							if fa, ok := loadAddr(pr[0]).(*ssa.FieldAddr); ok && fieldNameOf(fa) == "Method" {
								gated = true
							}
						}
					}
				}
				// `return r.Method == "POST"` as the value itself
				if bo, ok := ve.val.(*ssa.BinOp); ok && bo.Op == token.EQL {
					for _, pr := range [][2]ssa.Value{{bo.X, bo.Y}, {bo.Y, bo.X}} {
						if m, ok := an.ConstString(pr[1]); ok && m == want {
							if fa, ok := loadAddr(pr[0]).(*ssa.FieldAddr); ok && fieldNameOf(fa) == "Method" {
								gated = true
							}
						}
					}
				}
				if !gated {
					bad = "Supports can return true at " + c.ipos(r) + " without having tested r.Method == \"" + want + "\""
				}
			}
		}
		if n == 0 {
			bad = "Supports never returns true"
		}
		c.R.Check(bad == "", t+".Supports/method", c.pos(sup.Pos()), "accepts only "+want+" requests", bad+": a GET request with a matching Content-Type is routed to a transport that executes any operation kind")
	}

	// ---------------------------------------------------------------------------------------
	c09StatusVsDispatch(c, dos)
	acceptScanTotal(c)
	defaultHeadersWhenEmpty(c)
	firstTransportWins(c)
	c15AddGuardedRule(c)
	c09Round2(c)

	// ---------------------------------------------------------------------------------------
	c.R.Rule("status-tables", "statusFor*/errcode tables: KindProtocol→4xx constant, otherwise 200; parse and validation codes are KindProtocol; executor failure returns for parse/validation gates are preceded by errcode.Set with such a code", 8)
	kindProtocol := c.constOf(pkgErrcode, "KindProtocol")
	for _, name := range []string{"statusFor", "statusForGraphQLResponse"} {
		fn := c.fn(pkgTransport, name)
		if fn == nil || kindProtocol == nil {
			continue
		}
		okP, okU, bad := false, false, ""
		for _, r := range an.Returns(fn) {
			code, isConst := an.ConstInt(r.Results[0])
			if !isConst {
				bad = "non-constant status at " + c.ipos(r)
				continue
			}
			proto := 0 // 1: kind==protocol, -1: kind != protocol
			for _, f := range an.Facts(r) {
				for _, pr := range [][2]ssa.Value{{f.X, f.Y}, {f.Y, f.X}} {
					if pr[0] == nil || pr[1] == nil {
						continue
					}
					cv, isC := pr[1].(*ssa.Const)
					call, isCall := pr[0].(*ssa.Call)
					if !isC || !isCall || cv.Value == nil || an.CalleeOf(call).FullName() != pkgErrcode+".GetErrorKind" {
						continue
					}
					if call.Call.Args[0] != ssa.Value(fn.Params[0]) {
						bad = "GetErrorKind is not applied to the function's argument"
					}
					if constant.Compare(cv.Value, token.EQL, kindProtocol) {
						if f.Op == token.EQL {
							proto = 1
						} else if f.Op == token.NEQ {
							proto = -1
						}
					}
				}
			}
			switch {
			case proto == 1 && name == "statusForGraphQLResponse" && code != 400:
				bad = sprintf("a parse/validation failure is answered %d for application/graphql-response+json; GraphQL over HTTP defines 400 for that media type", code)
			case proto == 1 && code >= 400 && code <= 499:
				okP = true
			case proto == -1 && code == 200:
				okU = true
			default:
				bad = sprintf("return %d at %s under kind-is-protocol=%d", code, c.ipos(r), proto)
			}
		}
		c.R.Check(okP && okU && bad == "", name+"/table", c.pos(fn.Pos()), "KindProtocol→4xx, otherwise 200", "status table broken: "+bad)
	}
	c.errcodeTable()
	c.executorCodes()

	// ---------------------------------------------------------------------------------------
	c.R.Rule("content-type", "every body write in an HTTP transport is preceded on all paths by a header write (writeHeaders or Header().Set); POST and GET select the status table by comparing the very value of determineResponseContentType that flows into writeHeaders", 9)
	for _, do := range dos {
		uses := c.rwUses(do)
		key := shortFn(do) + "/header-before-body"
		bad := ""
		nb := 0
		for _, b := range uses {
			if b.kind != "body" {
				continue
			}
			nb++
			ok := false
			for _, h := range uses {
				if h.kind == "header" && h.in.Parent() == b.in.Parent() && an.Before(h.in, b.in) {
					ok = true
				}
				if h.kind == "header" && h.in.Parent() != b.in.Parent() && h.in.Parent() == do {
					// body write in a closure: header write in Do must dominate the closure's creation
					ok = ok || closureCreatedAfter(b.in.Parent(), h.in)
				}
			}
			if !ok {
				bad = "the body write at " + c.ipos(b.in) + " is reachable before any Content-Type header was set: the client gets a sniffed media type instead of the negotiated one"
			}
		}
		c.R.Check(bad == "", key, c.pos(do.Pos()), sprintf("%d body writes, each dominated by a header write", nb), bad)
	}
	for _, name := range []string{"POST.Do", "GET.Do"} {
		do := c.W.Func(pkgTransport, name)
		if do == nil {
			continue
		}
		var ct *ssa.Call
		for _, call := range an.CallsIn(do, func(_ ssa.CallInstruction, ci an.CalleeInfo) bool {
			return ci.FullName() == pkgTransport+".determineResponseContentType"
		}) {
			ct, _ = call.(*ssa.Call)
		}
		key := shortFn(do) + "/same-content-type"
		if ct == nil {
			c.R.Bad(key, c.pos(do.Pos()), "determineResponseContentType is not called")
			continue
		}
		// (a) flows into writeHeaders
		flows := false
		for _, call := range an.CallsIn(do, func(_ ssa.CallInstruction, ci an.CalleeInfo) bool {
			return ci.FullName() == pkgTransport+".writeHeaders"
		}) {
			if flowsTo(ct, call, 0, map[ssa.Value]bool{}) {
				flows = true
			}
		}
		// (b) every use of statusForGraphQLResponse — a call, or the function value selected for a later indirect call — is
		// guarded by ct == "application/graphql-response+json", every use of statusFor by !=
		guardOK, n := true, 0
		guarded := func(fs []an.Fact, want token.Token) bool {
			for _, f := range fs {
				for _, pr := range [][2]ssa.Value{{f.X, f.Y}, {f.Y, f.X}} {
					if pr[0] == nil || pr[1] == nil {
						continue
					}
					if s, ok := an.ConstString(pr[1]); ok && s == "application/graphql-response+json" && an.SameVar(pr[0], ct) && f.Op == want {
						return true
					}
				}
			}
			return false
		}
		wantFor := func(f *ssa.Function) (token.Token, bool) {
			if f == nil || f.Pkg == nil || f.Pkg.Pkg.Path() != pkgTransport || !strings.HasPrefix(f.Name(), "statusFor") {
				return 0, false
			}
			if strings.HasSuffix(f.Name(), "GraphQLResponse") {
				return token.EQL, true
			}
			return token.NEQ, true
		}
		for _, b := range do.Blocks {
			for _, in := range b.Instrs {
				call, isCall := in.(*ssa.Call)
				if !isCall {
					continue
				}
				if want, ok := wantFor(call.Call.StaticCallee()); ok {
					n++
					guardOK = guardOK && guarded(an.Facts(call), want)
					continue
				}
				if call.Call.IsInvoke() || call.Call.StaticCallee() != nil {
					continue
				}
				// indirect call: the callee value is selected among the status tables
				for _, ve := range valueEdges(call.Call.Value, call.Block()) {
					for _, d := range an.Defs(ve.val) {
						f, isF := d.(*ssa.Function)
						want, ok := wantFor(f)
						if !isF || !ok {
							continue
						}
						n++
						fs := factsOn(ve)
						if ve.from == call.Block() && ve.edgeIf == nil {
							fs = an.Facts(call)
						}
						// a local variable assigned in a guarded block: use the guards of the store
						if ld, isLd := ve.val.(*ssa.UnOp); isLd && an.IsLocalCell(ld.X) {
							okAll := true
							for _, st := range an.CellStores(ld.X) {
								if sf, isSF := an.Strip(st.Val).(*ssa.Function); isSF && sf == f {
									if !guarded(an.Facts(st), want) && !(want == token.NEQ && overwrittenUnder(st, ld.X, guarded)) {
										okAll = false
									}
								}
							}
							guardOK = guardOK && okAll
							continue
						}
						guardOK = guardOK && guarded(fs, want)
					}
				}
			}
		}
		c.R.Check(flows && guardOK && n >= 2, key, c.ipos(ct), "negotiated content type flows to writeHeaders and selects the status table", sprintf("negotiated content type: flows to writeHeaders=%v, selects status table=%v (%d status helper calls)", flows, guardOK, n))
	}

	// which operation runs, and with which status it is answered, may not depend on an earlier request: no member of the
	// pooled request object survives (C07/pool-reset) and only validated documents are cached (C03/cache-after-validate)
	c07PoolReset(c)
	c03Cache(c)
}

// closureCreatedAfter: the MakeClosure creating fn (or `go`/defer of it) is dominated by instruction h in the parent.
func closureCreatedAfter(fn *ssa.Function, h ssa.Instruction) bool {
	par := fn.Parent()
	if par == nil || par != h.Parent() {
		return false
	}
	for _, b := range par.Blocks {
		for _, in := range b.Instrs {
			if mc, ok := in.(*ssa.MakeClosure); ok && mc.Fn == fn {
				if !an.Before(h, mc) {
					return false
				}
			}
		}
	}
	return true
}

// flowsTo: value v reaches an argument of call through stores into local cells, slices/maps built from them and pure helper calls.
func flowsTo(v ssa.Value, target ssa.CallInstruction, depth int, seen map[ssa.Value]bool) bool {
	if depth > 10 || seen[v] {
		return false
	}
	seen[v] = true
	for _, r := range an.Referrers(v) {
		if r == target.(ssa.Instruction) {
			return true
		}
		switch x := r.(type) {
		case *ssa.Store:
			if x.Val == v {
				// follow the container: array cell -> slice -> map update ...
				root := x.Addr
				for {
					if ia, ok := root.(*ssa.IndexAddr); ok {
						root = ia.X
						continue
					}
					if fa, ok := root.(*ssa.FieldAddr); ok {
						root = fa.X
						continue
					}
					break
				}
				if flowsTo(root, target, depth+1, seen) {
					return true
				}
			}
		case *ssa.MapUpdate:
			if x.Value == v || x.Key == v {
				if flowsTo(x.Map, target, depth+1, seen) {
					return true
				}
			}
		case ssa.Value:
			switch x.(type) {
			case *ssa.Slice, *ssa.MakeInterface, *ssa.ChangeType, *ssa.Phi, *ssa.Call, *ssa.UnOp, *ssa.Convert:
				if flowsTo(x, target, depth+1, seen) {
					return true
				}
			}
		}
	}
	return false
}

// isSelectedOperation: op (an *ast.OperationDefinition value) is the operation of the request whose context is opctx.
func (c *Ctx) isSelectedOperation(op, opctx ssa.Value) (bool, string) {
	for _, d := range an.Defs(op) {
		switch x := d.(type) {
		case *ssa.Call:
			if an.CalleeOf(x).FullName() != "("+pkgAST+".OperationList).ForName" {
				return false, "selected by " + an.CalleeOf(x).FullName()
			}
			recv, name := x.Call.Args[0], x.Call.Args[1]
			// recv: opCtx.Doc.Operations ; name: opCtx.OperationName (same opCtx)
			okRecv, okName := false, false
			if fa, ok := loadAddr(recv).(*ssa.FieldAddr); ok && fieldNameOf(fa) == "Operations" {
				if fb, ok := loadAddr(fa.X).(*ssa.FieldAddr); ok && fieldNameOf(fb) == "Doc" && an.SameVar(fb.X, opctx) {
					okRecv = true
				}
			}
			if fa, ok := loadAddr(name).(*ssa.FieldAddr); ok && fieldNameOf(fa) == "OperationName" && an.SameVar(fa.X, opctx) {
				okName = true
			}
			if !okRecv {
				return false, "ForName is applied to a document other than opCtx.Doc"
			}
			if !okName {
				return false, "ForName is given a name other than opCtx.OperationName (e.g. a constant or the first operation)"
			}
		case *ssa.UnOp:
			fa, ok := x.X.(*ssa.FieldAddr)
			if !ok || fieldNameOf(fa) != "Operation" || !an.SameVar(fa.X, opctx) {
				return false, "not opCtx.Operation"
			}
		default:
			return false, sprintf("unrecognised source %T", d)
		}
	}
	return true, "ForName(opCtx.OperationName) on opCtx.Doc / opCtx.Operation"
}

func (c *Ctx) constOf(pkg, name string) constant.Value {
	tp := c.W.TPkg(pkg)
	if tp == nil {
		c.R.Fail("unresolved anchor: package %s", pkg)
		return nil
	}
	o, ok := tp.Types.Scope().Lookup(name).(*types.Const)
	if !ok {
		c.R.Fail("unresolved anchor: constant %s.%s", pkg, name)
		return nil
	}
	return o.Val()
}

// errcodeTable: the package-level map read by GetErrorKind maps the ParseFailed and ValidationFailed codes to KindProtocol.
func (c *Ctx) errcodeTable() {
	get := c.fn(pkgErrcode, "GetErrorKind")
	if get == nil {
		return
	}
	var glob *ssa.Global
	for _, b := range get.Blocks {
		for _, in := range b.Instrs {
			for _, op := range in.Operands(nil) {
				if g, ok := (*op).(*ssa.Global); ok {
					if _, isMap := g.Type().(*types.Pointer).Elem().Underlying().(*types.Map); isMap {
						glob = g
					}
				}
			}
		}
	}
	if glob == nil {
		c.R.Fail("unresolved anchor: GetErrorKind does not read a package-level map")
		return
	}
	tp := c.W.TPkg(pkgErrcode)
	have := map[string]string{}
	for _, f := range tp.Syntax {
		ast.Inspect(f, func(n ast.Node) bool {
			vs, ok := n.(*ast.ValueSpec)
			if !ok {
				return true
			}
			for i, nm := range vs.Names {
				if tp.TypesInfo.Defs[nm] != glob.Object() || i >= len(vs.Values) {
					continue
				}
				if cl, ok := vs.Values[i].(*ast.CompositeLit); ok {
					for _, e := range cl.Elts {
						kv, ok := e.(*ast.KeyValueExpr)
						if !ok {
							continue
						}
						k, v := tp.TypesInfo.Types[kv.Key], tp.TypesInfo.Types[kv.Value]
						if k.Value != nil && v.Value != nil {
							have[constant.StringVal(k.Value)] = v.Value.ExactString()
						}
					}
				}
			}
			return true
		})
	}
	kp := c.constOf(pkgErrcode, "KindProtocol")
	for _, code := range []string{"ParseFailed", "ValidationFailed"} {
		cv := c.constOf(pkgErrcode, code)
		if cv == nil || kp == nil {
			continue
		}
		got, ok := have[constant.StringVal(cv)]
		c.R.Check(ok && got == kp.ExactString(), "errcode/"+code, c.pos(glob.Pos()), "maps to KindProtocol", "errcode."+code+" is not mapped to KindProtocol in "+glob.Name()+": parse/validation failures would be answered 200")
	}
}

// executorCodes: failure returns of the parse / has-operations / validate / operation-selected / VariableValues gates are
// preceded by an errcode.Set with the ParseFailed or ValidationFailed constant inside the failure region.
func (c *Ctx) executorCodes() {
	pf, vf := c.constOf(pkgErrcode, "ParseFailed"), c.constOf(pkgErrcode, "ValidationFailed")
	if pf == nil || vf == nil {
		return
	}
	if cr, pq := c.W.Func(pkgExecutor, "*Executor.CreateOperationContext"), c.W.Func(pkgExecutor, "*Executor.parseQuery"); cr != nil && pq != nil {
		c.gqlerrLemma(cr, pq, false) // prune !ok edges exactly as C03 does (the lemma is reported under C03)
	}
	want := map[string]constant.Value{"parse": pf, "has-operations": vf, "validate": vf, "operation-selected": vf, "VariableValues": vf}
	var keys []string
	cr, pq := c.fn(pkgExecutor, "*Executor.CreateOperationContext"), c.fn(pkgExecutor, "*Executor.parseQuery")
	if cr == nil || pq == nil {
		return
	}
	for _, fn := range c.gateFuncs(cr, pq) {
		for _, g := range c.gatesOf(fn) {
			code, ok := want[g.name]
			if !ok {
				continue
			}
			key := "executor/gate:" + g.name + "/code"
			keys = append(keys, key)
			okAll, n := true, 0
			// the gate's own result is returned to the caller (validation helper): every element must get the code in a loop
			// over that result which lies on the way to the return
			for _, r := range an.Returns(fn) {
				nres := len(r.Results)
				if nres == 0 || !g.result(an.ReturnedValue(r, nres-1)) {
					continue
				}
				n++
				found := false
				for _, b2 := range fn.Blocks {
					for _, in2 := range b2.Instrs {
						call, ok := in2.(*ssa.Call)
						if !ok || an.CalleeOf(call).FullName() != pkgErrcode+".Set" {
							continue
						}
						cv, isC := call.Call.Args[1].(*ssa.Const)
						if !isC || cv.Value == nil || !constant.Compare(cv.Value, token.EQL, code) || !an.CanReach(call, r) {
							continue
						}
						// the error handed to Set is an element of a range over the gate's result
						for _, d := range an.Defs(call.Call.Args[0]) {
							if e, isE := d.(*ssa.Extract); isE {
								if nx, isN := e.Tuple.(*ssa.Next); isN {
									if rg, isR := nx.Iter.(*ssa.Range); isR && g.result(rg.X) {
										found = true
									}
								}
							}
							if ld, isL := d.(*ssa.UnOp); isL {
								if ia, isI := ld.X.(*ssa.IndexAddr); isI && g.result(ia.X) {
									found = true
								}
							}
						}
					}
				}
				okAll = okAll && found
			}
			for _, e := range an.CondEdges(fn) {
				if empty, k := an.EmptinessFact(e.Fact, g.result); !k || empty != g.failWhen {
					continue
				}
				region := an.Reach(e.To, nil)
				for b := range region {
					for _, in := range b.Instrs {
						r, isRet := in.(*ssa.Return)
						if !isRet {
							continue
						}
						n++
						found := false
						for b2 := range region {
							for _, in2 := range b2.Instrs {
								call, ok := in2.(*ssa.Call)
								if !ok || an.CalleeOf(call).FullName() != pkgErrcode+".Set" {
									continue
								}
								cv, isC := call.Call.Args[1].(*ssa.Const)
								if isC && cv.Value != nil && constant.Compare(cv.Value, token.EQL, code) && an.CanReach(call, r) {
									found = true
								}
							}
						}
						okAll = okAll && found
					}
				}
			}
			c.R.Check(okAll && n > 0, key, c.ipos(g.call), sprintf("%d failure return(s), each after errcode.Set(%s)", n, code.ExactString()), "a failure return of this gate is not preceded by errcode.Set("+code.ExactString()+"): the transport answers 200 instead of the client-error status")
		}
	}
	sort.Strings(keys)
}

// writerLacksCapability: instr is only reachable on the !ok edge of `w.(SomeInterface)`.
func writerLacksCapability(in ssa.Instruction, w ssa.Value) bool {
	for _, f := range an.Facts(in) {
		if f.Op != token.ILLEGAL || !f.Neg {
			continue
		}
		if e, ok := f.X.(*ssa.Extract); ok && e.Index == 1 {
			if ta, ok := e.Tuple.(*ssa.TypeAssert); ok && ta.CommaOk && isRW(ta.X, w) {
				return true
			}
		}
	}
	return false
}

type valEdge struct {
	val    ssa.Value
	from   *ssa.BasicBlock // block the value flows from (guards of this block hold)
	edgeIf *an.Guard       // the branch taken out of `from`, if it ends in an If
}

// returnValueEdges expands the idx-th result of r through phi nodes into (value, predecessor block) pairs.
func returnValueEdges(r *ssa.Return, idx int) []valEdge {
	return valueEdges(r.Results[idx], r.Block())
}

// valueEdges expands v (as seen in block at) through phi nodes into (value, predecessor block, branch taken) triples.
func valueEdges(v0 ssa.Value, at *ssa.BasicBlock) []valEdge {
	var out []valEdge
	seen := map[ssa.Value]bool{}
	var walk func(v ssa.Value, from *ssa.BasicBlock, eg *an.Guard)
	walk = func(v ssa.Value, from *ssa.BasicBlock, eg *an.Guard) {
		if phi, ok := v.(*ssa.Phi); ok && !seen[v] {
			seen[v] = true
			for i, e := range phi.Edges {
				pred := phi.Block().Preds[i]
				var g *an.Guard
				if len(pred.Succs) == 2 && pred.Succs[0] != pred.Succs[1] {
					if iff, ok := pred.Instrs[len(pred.Instrs)-1].(*ssa.If); ok {
						g = &an.Guard{Cond: iff.Cond, Branch: pred.Succs[0] == phi.Block(), If: iff}
					}
				}
				walk(e, pred, g)
			}
			return
		}
		out = append(out, valEdge{v, from, eg})
	}
	walk(v0, at, nil)
	return out
}

// factsOn: the facts that hold when a value edge is taken.
func factsOn(ve valEdge) []an.Fact {
	var fs []an.Fact
	if ve.from != nil {
		for _, g := range an.BlockGuards(ve.from) {
			fs = append(fs, an.FactOf(g))
		}
	}
	if ve.edgeIf != nil {
		fs = append(fs, an.FactOf(*ve.edgeIf))
	}
	return fs
}

// overwrittenUnder: the default stored by st into cell is replaced by another store on the edge ct == graphql-response+json
// (`f := statusFor; if ct == … { f = statusForGraphQLResponse }`): the default then only survives on the != edge.
func overwrittenUnder(st *ssa.Store, cell ssa.Value, guarded func([]an.Fact, token.Token) bool) bool {
	for _, other := range an.CellStores(cell) {
		if other != st && an.Before(st, other) && guarded(an.Facts(other), token.EQL) {
			return true
		}
	}
	return false
}

// c09StatusVsDispatch: shared with C10 (an error answer ends the request: nothing is executed or appended after it).
func c09StatusVsDispatch(c *Ctx, dos []*ssa.Function) {
	if dos == nil {
		for _, t := range httpTransports {
			if f := c.fn(pkgTransport, t+".Do"); f != nil {
				dos = append(dos, f)
			}
		}
	}
	c.R.Rule("status-vs-dispatch", "in every HTTP transport: a WriteHeader with a status that is not a 2xx constant never shares a path with DispatchOperation; no WriteHeader is reachable from a body write", 7)
	for _, do := range dos {
		uses := c.rwUses(do)
		var disp []ssa.Instruction
		for _, fn := range an.WithClosures(do) {
			for _, call := range an.CallsIn(fn, func(_ ssa.CallInstruction, ci an.CalleeInfo) bool { return ci.FullName() == mDispatchOp }) {
				disp = append(disp, call)
			}
		}
		key := shortFn(do)
		bad := ""
		nstatus := 0
		for _, u := range uses {
			if u.kind != "status" {
				continue
			}
			nstatus++
			if !is2xxConst(u.code) {
				for _, d := range disp {
					if u.reaches(d) || an.CanReach(d, u.in) {
						bad = sprintf("non-2xx WriteHeader at %s shares a path with DispatchOperation at %s: a request answered with an error status may have executed", c.ipos(u.in), c.ipos(d))
					}
				}
			}
			for _, b := range uses {
				if b.kind == "body" && b.in != u.in && b.reaches(u.in) {
					bad = sprintf("WriteHeader at %s is reachable after the body write at %s (the status would be ignored)", c.ipos(u.in), c.ipos(b.in))
				}
			}
		}
		c.R.Check(bad == "", key+"/status", c.pos(do.Pos()), sprintf("%d status writes, %d dispatch sites: disjoint paths; headers precede bodies", nstatus, len(disp)), bad)
	}
}
