package rules

import (
	"go/token"
	"go/types"
	"sort"
	"strings"

	"golang.org/x/tools/go/ssa"

	"verif/internal/an"
	"verif/internal/pipeline"
)

func init() {
	register(&Property{
		ID:      "C06",
		NeedGen: true,
		Runtime: RuntimeCore,
		Run:     runC06,
		Explanation: "Structural conditions for schedule independence: (response-locks) every access to responseContext.errors holds errorsMu and every access to .extensions holds extensionsMu (must-lockset on every path); " +
			"(mutation-serial) in every materialised executor the function run for `case ast.Mutation` contains no FieldSet.Concurrently call and no go statement; (slot-ownership) every function that runs on a spawned " +
			"goroutine or is handed to FieldSet.Concurrently stores only into slots it owns (an element indexed by its own private index) and never into another captured variable; (atomic-invalids) inside such " +
			"functions FieldSet.Invalids is only updated with atomic.AddUint32. (error-scan-total) as in C01: whether a field counts as already failed does not depend on the order in which concurrently resolving siblings recorded their errors.",
		NotDecided:  "equality of results across schedules; absence of all data races (only the enumerated shared state is covered); user resolvers' own synchronisation",
		Assumptions: []string{"sync.Mutex/atomic semantics"},
	})
}

func runC06(c *Ctx) {
	c06ResponseLocks(c)
	c06Gen(c)
	rootOnce(c)
	scanTotal(c)
	// every element goroutine is joined before the list is inspected (C05/wg-accounting)
	c05WG(c)
	dispatchDoneLast(c)
	dispatchOnce(c)
	layoutAgreement(c)
	genRound2(c)
	c13Accounting(c)
	c06FedDoneLast(c)
}

// guardedFields lists struct fields and the mutex field that must be held to touch them.
type guardedField struct{ pkg, typ, field, lock string }

func c06ResponseLocks(c *Ctx) {
	c.R.Rule("response-locks", "every load/store of responseContext.errors executes with responseContext.errorsMu held, every load/store of .extensions with .extensionsMu held (accesses on a struct allocated in the same function before it is shared are exempt)", 10)
	table := []guardedField{{pkgGraphql, "responseContext", "errors", "errorsMu"}, {pkgGraphql, "responseContext", "extensions", "extensionsMu"}}
	c.checkGuardedBy(c.moduleFuncs(func(p string) bool { return p == pkgGraphql }), table, "")
	// the federated-tracing tree builder is written from every concurrently resolving field
	ftv1 := modPath("graphql/handler/apollofederatedtracingv1")
	c.checkGuardedBy(c.moduleFuncs(func(p string) bool { return p == ftv1 }), []guardedField{{ftv1, "TreeBuilder", "nodes", "mu"}}, "ftv1:")
}

// checkGuardedBy emits one obligation per access.
func (c *Ctx) checkGuardedBy(fns []*ssa.Function, table []guardedField, keyPrefix string) {
	for _, fn := range fns {
		var ls map[ssa.Instruction]map[string]bool
		for _, b := range fn.Blocks {
			for _, in := range b.Instrs {
				fa, ok := in.(*ssa.FieldAddr)
				if !ok {
					continue
				}
				for _, g := range table {
					if fieldNameOf(fa) != g.field || !an.NamedIs(fa.X.Type(), g.pkg, g.typ) {
						continue
					}
					if _, own := fa.X.(*ssa.Alloc); own {
						continue // being constructed, not yet shared
					}
					base, _ := an.BasePath(fa)
					for _, use := range an.Referrers(fa) {
						switch u := use.(type) {
						case *ssa.UnOp:
							if u.Op != token.MUL {
								continue
							}
						case *ssa.Store:
							if u.Addr != ssa.Value(fa) {
								continue
							}
						case *ssa.MapUpdate, *ssa.Lookup:
						default:
							if _, isDbg := use.(*ssa.DebugRef); isDbg {
								continue
							}
						}
						if ls == nil {
							ls = an.Locksets(fn)
						}
						held := an.HeldFor(ls[use], base, g.lock) || an.HeldViaWrapper(fn, fa.X, g.lock) || c.heldByCallers(fn, fa.X, g.lock, 0)
						kind := "read"
						if _, isStore := use.(*ssa.Store); isStore {
							kind = "write"
						}
						c.R.Check(held, keyPrefix+shortFn(topFn(fn))+"/"+kind+":"+g.typ+"."+g.field, c.ipos(use), g.lock+" held",
							kind+" of "+g.typ+"."+g.field+" without holding "+g.lock+": races with concurrent resolvers that register errors/extensions on the same response")
						// the live collection must not leave the critical section
						if ld, isLoad := use.(*ssa.UnOp); isLoad {
							if ret := an.FlowsToReturn(ld); ret != nil {
								c.R.Bad(keyPrefix+shortFn(topFn(fn))+"/escape:"+g.typ+"."+g.field, c.ipos(ld), "the live "+g.field+" collection is returned to the caller, who reads it after the lock is released while other goroutines may still write it")
							}
						}
					}
				}
			}
		}
	}
}

var _ = types.Typ

func c06Gen(c *Ctx) {
	c06CollectPrivate(c)
	c06MutationSerial(c)
	c06SlotOwnership(c)
	c06AtomicInvalids(c)
}

func c06MutationSerial(c *Ctx) {
	c.R.Rule("mutation-serial", "in every materialised executor with a mutation root: the function Exec runs under `case ast.Mutation` is the SDL's mutation type's object function, and it (with its closures) contains no FieldSet.Concurrently call and no go statement", 1)
	n := 0
	for _, g := range c.Gen {
		sch := c.schema(g)
		exec := c.genFunc(g, "Exec")
		if sch == nil || exec == nil {
			continue
		}
		if sch.Mutation == nil {
			c.R.Note("gen:"+g.Name+"/mutation-root", g.Spec.Dir, "schema has no mutation type")
			continue
		}
		n++
		want := "_" + sch.Mutation.Name
		// the closure of Exec guarded by Operation == "mutation"
		var root *ssa.Function
		for _, cl := range an.WithClosures(exec) {
			for _, call := range an.CallsIn(cl, func(_ ssa.CallInstruction, ci an.CalleeInfo) bool {
				return ci.Static != nil && ci.Static.Pkg == g.SSA && strings.HasPrefix(ci.Static.Name(), "_") && !strings.HasSuffix(ci.Static.Name(), "Middleware")
			}) {
				isMut := false
				for _, f := range an.Facts(call) {
					if s, ok := an.ConstString(f.Y); ok && s == "mutation" && f.Op == token.EQL {
						isMut = true
					}
				}
				if isMut {
					root = call.Common().StaticCallee()
				}
			}
		}
		key := "gen:" + g.Name + "/mutation-root"
		if root == nil {
			// operation middleware wraps the call: accept the function by name
			root = c.genFunc(g, want)
		}
		if root == nil || root.Name() != want {
			c.R.Bad(key, c.pos(exec.Pos()), "Exec's mutation branch does not run "+want)
			continue
		}
		bad := ""
		for _, f := range an.WithClosures(root) {
			for _, b := range f.Blocks {
				for _, in := range b.Instrs {
					if _, isGo := in.(*ssa.Go); isGo {
						bad = "go statement at " + c.ipos(in)
					}
					if call, ok := in.(ssa.CallInstruction); ok && strings.HasSuffix(an.CalleeOf(call).FullName(), "graphql.FieldSet).Concurrently") {
						bad = "FieldSet.Concurrently at " + c.ipos(in)
					}
				}
			}
		}
		c.R.Check(bad == "", key, c.pos(root.Pos()), want+" assigns every root field inline", "the mutation root schedules fields concurrently ("+bad+"): top-level mutation fields no longer run one after another in document order")
	}
	if n == 0 {
		c.R.Fail("mutation-serial: no materialised schema has a mutation type")
	}
}

// goroutineClosures: closures that are started with go, or handed to FieldSet.Concurrently, with everything nested in them.
func (c *Ctx) goroutineClosures(fns []*ssa.Function) map[*ssa.Function]*ssa.Function {
	out := map[*ssa.Function]*ssa.Function{} // function -> the goroutine entry closure it belongs to
	var add func(f, root *ssa.Function)
	add = func(f, root *ssa.Function) {
		if _, ok := out[f]; ok {
			return
		}
		out[f] = root
		for _, a := range f.AnonFuncs {
			add(a, root)
		}
	}
	for _, fn := range fns {
		for _, b := range fn.Blocks {
			for _, in := range b.Instrs {
				switch x := in.(type) {
				case *ssa.Go:
					var callee *ssa.Function
					switch v := x.Call.Value.(type) {
					case *ssa.MakeClosure:
						callee = v.Fn.(*ssa.Function)
					default:
						for _, d := range an.Defs(x.Call.Value) {
							if mc, ok := d.(*ssa.MakeClosure); ok {
								callee = mc.Fn.(*ssa.Function)
							}
						}
					}
					if callee == nil {
						if sc := x.Call.StaticCallee(); sc != nil && len(sc.Blocks) > 0 && sc.Pkg == fn.Pkg {
							callee = sc // `go ec.method(args)`: parameters are private to the goroutine instance
						}
					}
					if callee != nil {
						add(callee, callee)
						// sibling closures the goroutine entry calls (`worker` calling `marshalElem(i)`): each invocation has
						// its own frame, so its parameters are private to the goroutine instance as well
						for _, b2 := range callee.Blocks {
							for _, in2 := range b2.Instrs {
								c2, ok := in2.(*ssa.Call)
								if !ok {
									continue
								}
								for _, d := range an.Defs(c2.Call.Value) {
									if mc2, ok := d.(*ssa.MakeClosure); ok {
										if f2 := mc2.Fn.(*ssa.Function); f2.Parent() != callee {
											add(f2, f2)
										}
									}
								}
							}
						}
					}
				case ssa.CallInstruction:
					if strings.HasSuffix(an.CalleeOf(x).FullName(), "graphql.FieldSet).Concurrently") {
						args := x.Common().Args
						if mc, ok := args[len(args)-1].(*ssa.MakeClosure); ok {
							f := mc.Fn.(*ssa.Function)
							add(f, f)
							// the innerFunc it calls
							for _, bnd := range mc.Bindings {
								for _, d := range an.Defs(loadOf(bnd)) {
									if mc2, ok := d.(*ssa.MakeClosure); ok {
										// innerFunc: a sibling closure invoked by f; its frame is private to each invocation
										add(mc2.Fn.(*ssa.Function), mc2.Fn.(*ssa.Function))
									}
								}
							}
						}
					}
				}
			}
		}
	}
	return out
}

func loadOf(cell ssa.Value) ssa.Value {
	for _, r := range an.CellRefs(cell) {
		if ld, ok := r.(*ssa.UnOp); ok && ld.Op == token.MUL {
			return ld
		}
	}
	return cell
}

// definedIn: value v is defined inside function `root` or one of its nested closures (i.e. it is private to one goroutine instance).
func definedIn(v ssa.Value, root *ssa.Function) bool {
	f := v.Parent()
	for f != nil {
		if f == root {
			return true
		}
		f = f.Parent()
	}
	return false
}

func c06SlotOwnership(c *Ctx) {
	c.R.Rule("slot-ownership", "in every closure that runs on a spawned goroutine or is handed to FieldSet.Concurrently (package graphql and materialised executors): a store through memory captured from outside the goroutine is an element store whose index is private to that goroutine instance (its parameter or a value defined inside it); no other store to captured variables", 1)
	type scope struct {
		key string
		fns []*ssa.Function
	}
	scopes := []scope{{"graphql", c.moduleFuncs(func(p string) bool { return p == pkgGraphql })}}
	for _, g := range c.Gen {
		scopes = append(scopes, scope{"gen:" + g.Name, c.genFuncs(g)})
	}
	total := 0
	for _, sc := range scopes {
		gcs := c.goroutineClosures(sc.fns)
		var fs []*ssa.Function
		for f := range gcs {
			fs = append(fs, f)
		}
		sort.Slice(fs, func(i, j int) bool { return fs[i].Pos() < fs[j].Pos() })
		for _, f := range fs {
			root := gcs[f]
			for _, b := range f.Blocks {
				for _, in := range b.Instrs {
					st, ok := in.(*ssa.Store)
					if !ok {
						continue
					}
					// walk the address to its root
					addr := st.Addr
					var idx []ssa.Value
					viaElem := false
					for i := 0; i < 12; i++ {
						switch x := addr.(type) {
						case *ssa.IndexAddr:
							idx = append(idx, x.Index)
							viaElem = true
							addr = x.X
							continue
						case *ssa.FieldAddr:
							addr = x.X
							continue
						case *ssa.UnOp:
							if x.Op == token.MUL {
								addr = x.X
								continue
							}
						}
						break
					}
					rootV := an.RootAlloc(addr)
					if definedIn(rootV, root) {
						continue // private memory of this goroutine instance
					}
					if _, isParam := rootV.(*ssa.Parameter); isParam && definedIn(rootV, root) {
						continue
					}
					total++
					key := sc.key + "/" + topFn(f).Name() + "/store"
					if !viaElem {
						c.R.Bad(key, c.ipos(st), "a closure running on its own goroutine assigns the captured variable "+rootV.Name()+": its siblings read and index that variable concurrently (data race; one element's failure changes the others)")
						continue
					}
					priv := true
					for _, ix := range idx {
						okIx := false
						for _, d := range an.Defs(ix) {
							if _, isC := d.(*ssa.Const); isC {
								continue
							}
							if definedIn(d, root) {
								okIx = true
							} else {
								okIx = false
								break
							}
						}
						// field of a private value (d.i, rep.index)
						if !okIx {
							if fld, ok := ix.(*ssa.Field); ok && definedIn(fld.X, root) {
								okIx = true
							}
							if fa, ok := loadAddr(ix).(*ssa.FieldAddr); ok && definedIn(an.RootAlloc(fa.X), root) {
								okIx = true
							}
						}
						priv = priv && okIx
					}
					c.R.Check(priv, key, c.ipos(st), "element store at an index private to the goroutine", "the goroutine stores into a shared slice at an index it does not own (captured loop variable or shared counter): two goroutines can write the same slot")
				}
			}
		}
	}
	c.R.SetFloor(total)
	if total < 50 {
		c.R.Fail("slot-ownership examined only %d stores", total)
	}
}

func c06AtomicInvalids(c *Ctx) {
	c.R.Rule("atomic-invalids", "in materialised executors FieldSet.Invalids is never stored to directly (only sync/atomic.AddUint32 updates it), and every plain read of it in an object function happens after that set's Dispatch", 1)
	total := 0
	for _, g := range c.Gen {
		nAtomic := 0
		for _, fn := range c.genFuncs(g) {
			// objects without concurrently resolved fields run on one goroutine: plain ++ is what the template emits for them
			concurrent := false
			for _, f2 := range an.WithClosures(topFn(fn)) {
				for _, call := range an.CallsIn(f2, func(_ ssa.CallInstruction, ci an.CalleeInfo) bool {
					return strings.HasSuffix(ci.FullName(), "graphql.FieldSet).Concurrently")
				}) {
					_ = call
					concurrent = true
				}
			}
			if !concurrent && topFn(fn).Name() != "processDeferredGroup" {
				continue
			}
			for _, b := range fn.Blocks {
				for _, in := range b.Instrs {
					fa, ok := in.(*ssa.FieldAddr)
					if !ok || fieldNameOf(fa) != "Invalids" || !an.NamedIs(fa.X.Type(), pkgGraphql, "FieldSet") {
						continue
					}
					for _, use := range an.Referrers(fa) {
						switch u := use.(type) {
						case *ssa.Store:
							total++
							c.R.Bad("gen:"+g.Name+"/"+topFn(fn).Name()+"/Invalids-store", c.ipos(u), "FieldSet.Invalids is written with a plain store: concurrent fields update it at the same time (lost null propagation)")
						case *ssa.Call:
							if n := an.CalleeOf(u).FullName(); n == "sync/atomic.AddUint32" {
								nAtomic++
							}
						case *ssa.UnOp:
							if u.Op != token.MUL {
								continue
							}
							total++
							// plain read: a Dispatch call on the same set dominates it (or it is the deferred group's own set after its Dispatch)
							ok := false
							for _, b2 := range fn.Blocks {
								for _, in2 := range b2.Instrs {
									if call, isC := in2.(ssa.CallInstruction); isC && strings.HasSuffix(an.CalleeOf(call).FullName(), "graphql.FieldSet).Dispatch") && an.Before(in2, u) {
										ok = true
									}
								}
							}
							c.R.Check(ok, "gen:"+g.Name+"/"+topFn(fn).Name()+"/Invalids-read", c.ipos(u), "read after Dispatch joined the concurrent fields", "FieldSet.Invalids is read before Dispatch has joined the concurrent fields: a late failure is not propagated")
						}
					}
				}
			}
		}
		_ = nAtomic // a schema whose concurrently resolved fields are all nullable needs no Invalids update at all
	}
	c.R.SetFloor(total)
	if total < 20 {
		c.R.Fail("atomic-invalids examined only %d accesses", total)
	}
}

// c06CollectPrivate: collectFields is called concurrently by the goroutines of a list's elements with the same parsed
// selection set; what it builds must not share mutable storage with the document.
func c06CollectPrivate(c *Ctx) {
	c.R.Rule("collect-private", "in package graphql, CollectedField.Selections is only ever assigned append(<itself or nil>, ...): the merged selection slice never aliases the parsed document's slice, whose spare capacity concurrent element goroutines would otherwise overwrite", 1)
	for _, fn := range c.moduleFuncs(func(p string) bool { return p == pkgGraphql }) {
		for _, b := range fn.Blocks {
			for _, in := range b.Instrs {
				if st, ok := in.(*ssa.Store); ok {
					if ok2, key, why := selectionsStore(c, fn, st); ok2 {
						c.R.Check(why == "", key, c.ipos(st), "extended from itself", why+" — list elements collecting the same selection set on different goroutines then race on (and corrupt) each other's field lists")
					}
				}
			}
		}
	}
}

// heldByCallers: fn is an unexported function or method that touches the guarded field of obj without locking, obj being one of
// its parameters (usually the receiver): accepted when every static call site of fn in its package holds <arg>.<lock> for the
// corresponding argument (directly, through a lock wrapper, or — recursively — through its own callers), fn is never started
// with go/defer and never used as a function value.
func (c *Ctx) heldByCallers(fn *ssa.Function, obj ssa.Value, lock string, depth int) bool {
	if depth > 3 || fn == nil || fn.Parent() != nil || fn.Object() == nil || fn.Object().Exported() {
		return false
	}
	idx := -1
	for i, p := range fn.Params {
		if ssa.Value(p) == obj || an.SameVar(p, obj) {
			idx = i
		}
	}
	if idx < 0 {
		return false
	}
	pkg := pipeline.FuncPkgPath(fn)
	n := 0
	for _, caller := range c.moduleFuncs(func(p string) bool { return p == pkg }) {
		var ls map[ssa.Instruction]map[string]bool
		for _, b := range caller.Blocks {
			for _, in := range b.Instrs {
				// used as a value?
				for _, op := range in.Operands(nil) {
					if *op == ssa.Value(fn) {
						if call, isCall := in.(ssa.CallInstruction); !isCall || call.Common().Value != ssa.Value(fn) {
							return false
						}
					}
				}
				call, ok := in.(ssa.CallInstruction)
				if !ok || call.Common().StaticCallee() != fn {
					continue
				}
				if _, isCall := in.(*ssa.Call); !isCall {
					return false // go / defer
				}
				n++
				if idx >= len(call.Common().Args) {
					return false
				}
				arg := call.Common().Args[idx]
				if ls == nil {
					ls = an.Locksets(caller)
				}
				held := false
				if p := an.Path(arg); p != "" && ls[in][p+"."+lock] {
					held = true
				}
				if !held && an.HeldViaWrapper(caller, arg, lock) {
					held = true
				}
				if !held && c.heldByCallers(topFn(caller), arg, lock, depth+1) && caller.Parent() == nil {
					held = true
				}
				if !held {
					return false
				}
			}
		}
	}
	return n > 0
}
