package rules

import (
	"go/token"
	"go/types"

	"golang.org/x/tools/go/ssa"

	"verif/internal/an"
)

func init() {
	register(&Property{
		ID:      "C06",
		NeedGen: true,
		Runtime: RuntimeCore,
		Run:     runC06,
		Explanation: "Structural conditions for schedule independence: (response-locks) every access to responseContext.errors holds errorsMu and every access to .extensions holds extensionsMu (must-lockset on every path); " +
			"(mutation-serial) in every materialised executor the function run for `case ast.Mutation` contains no FieldSet.Concurrently call and no go statement; (slot-ownership) every function that runs on a spawned " +
			"goroutine or is handed to FieldSet.Concurrently stores only into slots it owns (an element indexed by its own private index) and never into another captured variable; (atomic-invalids) inside such " +
			"functions FieldSet.Invalids is only updated with atomic.AddUint32.",
		NotDecided:  "equality of results across schedules; absence of all data races (only the enumerated shared state is covered); user resolvers' own synchronisation",
		Assumptions: []string{"sync.Mutex/atomic semantics"},
	})
}

func runC06(c *Ctx) {
	c06ResponseLocks(c)
	c06Gen(c)
}

// guardedFields lists struct fields and the mutex field that must be held to touch them.
type guardedField struct{ pkg, typ, field, lock string }

func c06ResponseLocks(c *Ctx) {
	c.R.Rule("response-locks", "every load/store of responseContext.errors executes with responseContext.errorsMu held, every load/store of .extensions with .extensionsMu held (accesses on a struct allocated in the same function before it is shared are exempt)", 10)
	table := []guardedField{{pkgGraphql, "responseContext", "errors", "errorsMu"}, {pkgGraphql, "responseContext", "extensions", "extensionsMu"}}
	c.checkGuardedBy(c.moduleFuncs(func(p string) bool { return p == pkgGraphql }), table, "")
}

// checkGuardedBy emits one obligation per access.
func (c *Ctx) checkGuardedBy(fns []*ssa.Function, table []guardedField, keyPrefix string) {
	for _, fn := range fns {
		var ls map[ssa.Instruction]map[string]bool
		for _, b := range fn.Blocks {
			for _, in := range b.Instrs {
				fa, ok := in.(*ssa.FieldAddr)
				if !ok {
					continue
				}
				for _, g := range table {
					if fieldNameOf(fa) != g.field || !an.NamedIs(fa.X.Type(), g.pkg, g.typ) {
						continue
					}
					if _, own := fa.X.(*ssa.Alloc); own {
						continue // being constructed, not yet shared
					}
					base, _ := an.BasePath(fa)
					for _, use := range an.Referrers(fa) {
						switch u := use.(type) {
						case *ssa.UnOp:
							if u.Op != token.MUL {
								continue
							}
						case *ssa.Store:
							if u.Addr != ssa.Value(fa) {
								continue
							}
						case *ssa.MapUpdate, *ssa.Lookup:
						default:
							if _, isDbg := use.(*ssa.DebugRef); isDbg {
								continue
							}
						}
						if ls == nil {
							ls = an.Locksets(fn)
						}
						held := an.HeldFor(ls[use], base, g.lock)
						kind := "read"
						if _, isStore := use.(*ssa.Store); isStore {
							kind = "write"
						}
						c.R.Check(held, keyPrefix+shortFn(topFn(fn))+"/"+kind+":"+g.typ+"."+g.field, c.ipos(use), g.lock+" held",
							kind+" of "+g.typ+"."+g.field+" without holding "+g.lock+": races with concurrent resolvers that register errors/extensions on the same response")
						// the live collection must not leave the critical section
						if ld, isLoad := use.(*ssa.UnOp); isLoad {
							if ret := an.FlowsToReturn(ld); ret != nil {
								c.R.Bad(keyPrefix+shortFn(topFn(fn))+"/escape:"+g.typ+"."+g.field, c.ipos(ld), "the live "+g.field+" collection is returned to the caller, who reads it after the lock is released while other goroutines may still write it")
							}
						}
					}
				}
			}
		}
	}
}

var _ = types.Typ

func c06Gen(c *Ctx) {}
