package rules

import (
	"go/constant"
	"go/token"
	"go/types"
	"strings"

	"golang.org/x/tools/go/ssa"

	"verif/internal/an"
)

// c14Definition: structural facts of the complexity definition that small slips break.
//
//	(vars-reach-walker)     complexity.Calculate stores its variables parameter into the walker it runs, so that arguments bound to
//	                        variables are costed with the values the operation will execute with;
//	(composite-kinds)       the kinds for which the walker descends into a field's sub-selection include OBJECT, INTERFACE and UNION;
//	(interface-max)         the running maximum over an interface's implementors is compared with itself (x > max ⇒ max = x), or
//	                        computed with the max builtin;
//	(saturation-constant)   the constant safeAdd returns on overflow is the largest int;
//	(schema-gets-functions) every materialised NewExecutableSchema hands cfg.Complexity to the executableSchema it builds.
func c14Definition(c *Ctx) {
	c.R.Rule("definition", "complexity: Calculate's variables reach the walker; sub-selections are costed for OBJECT, INTERFACE and UNION fields; the interface maximum is a true running maximum; safeAdd saturates at the largest int; generated NewExecutableSchema passes cfg.Complexity on", 5)
	// vars-reach-walker
	if fn := c.fn(pkgComplex, "Calculate"); fn != nil {
		var vars *ssa.Parameter
		for _, p := range fn.Params {
			if _, isMap := p.Type().Underlying().(*types.Map); isMap {
				vars = p
			}
		}
		ok := false
		for _, b := range fn.Blocks {
			for _, in := range b.Instrs {
				st, isSt := in.(*ssa.Store)
				if !isSt || vars == nil {
					continue
				}
				if fa, isFA := st.Addr.(*ssa.FieldAddr); isFA && an.NamedIs(fa.X.Type(), pkgComplex, "complexityWalker") && (st.Val == ssa.Value(vars) || an.SameVar(st.Val, vars)) {
					ok = true
				}
			}
		}
		// or passed on as an argument to the walking function
		for _, call := range an.CallsIn(fn, func(_ ssa.CallInstruction, ci an.CalleeInfo) bool {
			return ci.Static != nil && ci.Static.Pkg != nil && ci.Static.Pkg.Pkg.Path() == pkgComplex
		}) {
			for _, a := range call.Common().Args {
				if vars != nil && (a == ssa.Value(vars) || an.SameVar(a, vars)) {
					ok = true
				}
			}
		}
		c.R.Check(ok, "Calculate/vars-reach-walker", c.pos(fn.Pos()), "the variables parameter is stored into the walker", "Calculate does not hand its variables to the walker: arguments bound to variables are costed with their definition defaults, so `list(size: $n)` with a huge $n passes the limit and runs")
	}
	// composite-kinds: constants compared with a Definition.Kind inside the walker
	kinds := map[string]bool{}
	var kindPos string
	for _, fn := range c.moduleFuncs(func(p string) bool { return p == pkgComplex }) {
		callsWalk := false
		for _, call := range an.CallsIn(fn, func(_ ssa.CallInstruction, ci an.CalleeInfo) bool {
			return ci.Static != nil && strings.HasSuffix(ci.Static.Name(), "selectionSetComplexity")
		}) {
			_ = call
			callsWalk = true
		}
		if !callsWalk {
			continue
		}
		for _, b := range fn.Blocks {
			for _, in := range b.Instrs {
				bo, ok := in.(*ssa.BinOp)
				if !ok || bo.Op != token.EQL {
					continue
				}
				for _, pr := range [][2]ssa.Value{{bo.X, bo.Y}, {bo.Y, bo.X}} {
					k, isC := pr[1].(*ssa.Const)
					if !isC || k.Value == nil || k.Value.Kind() != constant.String || !an.NamedIs(k.Type(), pkgAST, "DefinitionKind") {
						continue
					}
					if fa, isFA := loadAddr(pr[0]).(*ssa.FieldAddr); isFA && fieldNameOf(fa) == "Kind" {
						kinds[constant.StringVal(k.Value)] = true
						kindPos = c.ipos(in)
					}
				}
			}
		}
	}
	if len(kinds) == 0 {
		c.R.Note("walker/composite-kinds", "complexity/", "no comparison of a definition's Kind found in the walker; not judged")
	} else {
		missing := ""
		for _, k := range []string{"OBJECT", "INTERFACE", "UNION"} {
			if !kinds[k] {
				missing += " " + k
			}
		}
		c.R.Check(missing == "", "walker/composite-kinds", kindPos, "OBJECT, INTERFACE and UNION fields have their sub-selections costed", "fields of kind"+missing+" are treated as leaves: everything selected below such a field is free, so an arbitrarily expensive operation passes the limit")
	}
	// interface-max
	for _, fn := range c.moduleFuncs(func(p string) bool { return p == pkgComplex }) {
		if len(an.CallsIn(fn, func(_ ssa.CallInstruction, ci an.CalleeInfo) bool {
			return strings.HasSuffix(ci.FullName(), "Schema).GetPossibleTypes")
		})) == 0 {
			continue
		}
		for _, l := range an.Loops(fn) {
			for _, in := range l.Header.Instrs {
				phi, ok := in.(*ssa.Phi)
				if !ok {
					break
				}
				if bt, isB := phi.Type().Underlying().(*types.Basic); !isB || bt.Kind() != types.Int || phi.Comment == "rangeindex" {
					continue
				}
				// the accumulator: updated in the loop from a value x, under a comparison
				key := shortFn(topFn(fn)) + "/interface-max"
				bad := ""
				judged := false
				for i, e := range phi.Edges {
					if !l.Blocks[l.Header.Preds[i]] || e == ssa.Value(phi) {
						continue // initial value, or unchanged in this iteration
					}
					for _, ve := range valueEdges(e, l.Header.Preds[i]) {
						if ve.val == ssa.Value(phi) {
							continue // unchanged
						}
						if call, isCall := ve.val.(*ssa.Call); isCall {
							if bi, isBi := call.Call.Value.(*ssa.Builtin); isBi && bi.Name() == "max" {
								judged = true
								hasAcc := false
								for _, a := range call.Call.Args {
									if a == ssa.Value(phi) {
										hasAcc = true
									}
								}
								if !hasAcc {
									bad = "max(...) does not include the running maximum itself"
								}
								continue
							}
						}
						judged = true
						okCmp := false
						for _, f := range factsOn(ve) {
							if (f.Op == token.GTR || f.Op == token.GEQ) && an.SameVar(f.X, ve.val) && f.Y == ssa.Value(phi) {
								okCmp = true
							}
							if (f.Op == token.LSS || f.Op == token.LEQ) && an.SameVar(f.Y, ve.val) && f.X == ssa.Value(phi) {
								okCmp = true
							}
						}
						if !okCmp {
							bad = "the value assigned to the running maximum is not compared with the running maximum itself: the result is not the most expensive implementor (an expensive implementor can be masked by a cheaper one)"
						}
					}
				}
				if judged {
					c.R.Check(bad == "", key, c.ipos(phi), "x > max ⇒ max = x", bad)
				}
			}
		}
	}
	// saturation-constant
	if fn := c.fn(pkgComplex, "safeAdd"); fn != nil {
		maxI := constant.MakeInt64(1<<63 - 1)
		okConst, seen := false, false
		for _, r := range an.Returns(fn) {
			for _, ve := range valueEdges(r.Results[0], r.Block()) {
				k, isC := ve.val.(*ssa.Const)
				if !isC || k.Value == nil || k.Value.Kind() != constant.Int {
					continue
				}
				if v, exact := constant.Int64Val(k.Value); exact && v > 1 {
					seen = true
					if constant.Compare(k.Value, token.EQL, maxI) {
						okConst = true
					} else {
						okConst = false
						c.R.Bad("safeAdd/saturation-constant", c.ipos(r), "on overflow safeAdd returns "+k.Value.ExactString()+" instead of the largest int: the saturated total is smaller than an operand, so adding selections can make the complexity drop below the limit")
					}
				}
			}
		}
		if seen && okConst {
			c.R.OK("safeAdd/saturation-constant", c.pos(fn.Pos()), "saturates at math.MaxInt")
		} else if !seen {
			c.R.Note("safeAdd/saturation-constant", c.pos(fn.Pos()), "no large constant returned by safeAdd; not judged")
		}
	}
	// schema-gets-functions
	for _, g := range c.Gen {
		if c.cfgBool(g, "omit_complexity") {
			continue
		}
		fn := c.genFunc(g, "NewExecutableSchema")
		if fn == nil {
			continue
		}
		ok := false
		hasField := false
		for _, b := range fn.Blocks {
			for _, in := range b.Instrs {
				st, isSt := in.(*ssa.Store)
				if !isSt {
					continue
				}
				fa, isFA := st.Addr.(*ssa.FieldAddr)
				if !isFA || fieldNameOf(fa) != "complexity" {
					continue
				}
				hasField = true
				for _, d := range an.Defs(st.Val) {
					if f, isF := d.(*ssa.Field); isF && fieldName2(f) == "Complexity" {
						ok = true
					}
					if fa2, isFA2 := loadAddr(d).(*ssa.FieldAddr); isFA2 && fieldNameOf(fa2) == "Complexity" {
						ok = true
					}
					if fa2, isFA2 := loadAddr(st.Val).(*ssa.FieldAddr); isFA2 && fieldNameOf(fa2) == "Complexity" {
						ok = true
					}
				}
			}
		}
		// the struct may simply not be stored field-wise when the literal is built differently; judge only the clear cases
		sp := c.W.TPkg(g.Path)
		declares := false
		if sp != nil {
			if tn, _ := sp.Types.Scope().Lookup("executableSchema").(*types.TypeName); tn != nil {
				if stt, isS := tn.Type().Underlying().(*types.Struct); isS {
					for i := 0; i < stt.NumFields(); i++ {
						if stt.Field(i).Name() == "complexity" {
							declares = true
						}
					}
				}
			}
		}
		if !declares {
			continue
		}
		c.R.Check(ok && hasField, "gen:"+g.Name+"/NewExecutableSchema/complexity", c.pos(fn.Pos()), "complexity: cfg.Complexity", "NewExecutableSchema does not hand cfg.Complexity to the schema it builds: every custom complexity function is ignored, operations are costed by the default rule and expensive ones pass the limit")
	}
}

// c14Walker: further structural conditions of the complexity walker (second small-slip round).
func c14Walker(c *Ctx) {
	c.R.Rule("walker", "package complexity: its loops are left only from their header (every selection / implementor is costed); a parameter is handed on under its own name (childComplexity, args, ctx) when one function of the package calls another; the field-name argument of the cost functions is the selection's Name (not its alias); safeAdd returns the other operand when exactly one is negative", 6)
	fns := c.moduleFuncs(func(p string) bool { return p == pkgComplex })
	nLoop, nPass, nName := 0, 0, 0
	for _, fn := range fns {
		// loops
		for i, l := range an.Loops(fn) {
			nLoop++
			var at ssa.Instruction
			for _, e := range l.Exits {
				if e.From != l.Header {
					at = e.From.Instrs[len(e.From.Instrs)-1]
				}
			}
			pos := c.pos(fn.Pos())
			if at != nil {
				pos = c.ipos(at)
			}
			c.R.Check(at == nil, shortFn(fn)+sprintf("/loop#%d", i+1), pos, "left only from the header",
				"the walk over the selections (or implementors) can stop early: what comes after the element that stops it is not costed, so a query can hide its expensive part behind it and pass the limit")
		}
		// pass-through of same-named parameters
		for _, call := range an.CallsIn(fn, func(_ ssa.CallInstruction, ci an.CalleeInfo) bool {
			return ci.Static != nil && ci.Static.Pkg != nil && ci.Static.Pkg.Pkg.Path() == pkgComplex && len(ci.Static.Blocks) > 0
		}) {
			if call.Parent() != fn {
				continue
			}
			callee := call.Common().StaticCallee()
			for k, cp := range callee.Params {
				if callee == fn {
					break // a recursive call descends: its arguments differ by design
				}
				if k >= len(call.Common().Args) || k == 0 && callee.Signature.Recv() != nil {
					continue
				}
				for _, fp := range fn.Params {
					if fp.Name() != cp.Name() || !types.Identical(fp.Type(), cp.Type()) || fp.Name() == "" || fp.Name() == "_" {
						continue
					}
					nPass++
					arg := an.Strip(call.Common().Args[k])
					c.R.Check(arg == ssa.Value(fp) || an.SameVar(arg, fp), shortFn(fn)+"→"+callee.Name()+"/"+cp.Name(), c.ipos(call), "handed on unchanged",
						"the callee's parameter "+cp.Name()+" does not receive the caller's "+fp.Name()+": the cost of a field's children (or its arguments) is replaced by another number, and the computed complexity is below the definition")
				}
			}
			// the field-name argument
			for k, cp := range callee.Params {
				if cp.Name() != "field" || k >= len(call.Common().Args) {
					continue
				}
				if b, isB := cp.Type().Underlying().(*types.Basic); !isB || b.Kind() != types.String {
					continue // a helper that is handed the selection itself
				}
				arg := an.Strip(call.Common().Args[k])
				if _, isParam := arg.(*ssa.Parameter); isParam {
					continue
				}
				nName++
				fa, ok := loadAddr(arg).(*ssa.FieldAddr)
				c.R.Check(ok && fieldNameOf(fa) == "Name", shortFn(fn)+"→"+callee.Name()+"/field-name", c.ipos(call), "the selection's Name",
					"the cost functions are asked about a field by something other than its schema name (its alias): an aliased selection is costed with the default instead of its custom complexity")
			}
		}
	}
	if nLoop < 2 || nPass < 3 || nName < 1 {
		c.R.Fail("walker: %d loops, %d pass-through arguments, %d field-name arguments examined", nLoop, nPass, nName)
	}
	// safeAdd with exactly one negative operand
	if fn := c.fn(pkgComplex, "safeAdd"); fn != nil && len(fn.Params) == 2 {
		a, b := fn.Params[0], fn.Params[1]
		n := 0
		for _, r := range an.Returns(fn) {
			neg := map[ssa.Value]int{} // 1: < 0, -1: >= 0
			for _, f := range an.Facts(r) {
				k, isC := an.ConstInt(f.Y)
				if !isC || k != 0 {
					continue
				}
				switch f.Op {
				case token.LSS:
					neg[f.X] = 1
				case token.GEQ:
					neg[f.X] = -1
				}
			}
			var want ssa.Value
			switch {
			case neg[a] == 1 && neg[b] == -1:
				want = b
			case neg[a] == -1 && neg[b] == 1:
				want = a
			default:
				continue
			}
			n++
			c.R.Check(len(r.Results) == 1 && an.Strip(r.Results[0]) == want, sprintf("safeAdd/one-negative#%d", n), c.ipos(r), "returns the non-negative operand",
				"with exactly one negative operand safeAdd does not return the other one: a custom complexity that (accidentally) is negative wipes out or distorts the cost accumulated so far")
		}
		if n < 2 {
			c.R.Fail("walker: safeAdd has %d one-negative returns", n)
		}
	}
}
