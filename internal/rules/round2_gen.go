package rules

import (
	"go/token"
	"go/types"
	"strings"

	"golang.org/x/tools/go/ssa"

	"verif/internal/an"
)

// Rules over the materialised executors from the second small-slip round.

// genRound2 runs them all; each declares its own rule.
func genRound2(c *Ctx) {
	type ob struct {
		ok                  bool
		key, pos, good, bad string
	}
	var keyAlias, nilImpl, ctxErr, ctxFresh, mwStops, slotAfterAdd, invalidsZero, mapOverwrite, semRel []ob
	for _, g := range c.Gen {
		pfx := "gen:" + g.Name + "/"
		for _, fn := range c.genFuncs(g) {
			top := topFn(fn)
			for _, b := range fn.Blocks {
				for _, in := range b.Instrs {
					// (a) the response key written for a field is its alias
					if call, ok := in.(*ssa.Call); ok && an.CalleeOf(call).FullName() == pkgGraphql+".MarshalString" && isFieldFuncSig(top) {
						if fa := fieldOfCollected(call.Call.Args[0]); fa != "" {
							keyAlias = append(keyAlias, ob{fa == "Alias", pfx + top.Name() + "/response-key", c.ipos(in), "the field's alias",
								"the object key written for this (subscription) field is the selection's " + fa + ", not its alias: `subscription { x: tick }` is answered under \"tick\""})
						}
					}
					// (g) Invalids is compared with 0 only
					if bo, ok := in.(*ssa.BinOp); ok {
						switch bo.Op {
						case token.GTR, token.LSS, token.GEQ, token.LEQ, token.EQL, token.NEQ:
							if fa, isF := loadAddr(an.Strip(bo.X)).(*ssa.FieldAddr); isF && fieldNameOf(fa) == "Invalids" {
								k, isC := an.ConstInt(bo.Y)
								invalidsZero = append(invalidsZero, ob{isC && k == 0, pfx + top.Name() + "/invalids-compared", c.ipos(in), "compared with 0",
									"the count of invalid non-null fields is compared with a constant other than 0: one failed non-null field no longer nulls its object (or its deferred group)"})
							}
						}
					}
				}
			}
			if fn.Parent() != nil {
				continue
			}
			// (i) a worker slot taken for an element goroutine is given back by that goroutine
			hasSem := false
			for _, call := range an.CallsIn(fn, func(_ ssa.CallInstruction, ci an.CalleeInfo) bool {
				return strings.HasSuffix(ci.FullName(), "semaphore.NewWeighted")
			}) {
				if call.Parent() == fn {
					hasSem = true
				}
			}
			if hasSem {
				for _, gs := range an.GoSites(fn) {
					if gs.Callee == nil {
						continue
					}
					rel := false
					for _, f := range an.WithClosures(gs.Callee) {
						for _, call := range an.CallsIn(f, func(_ ssa.CallInstruction, ci an.CalleeInfo) bool {
							return strings.HasSuffix(ci.FullName(), "semaphore.Weighted).Release")
						}) {
							_ = call
							rel = true
						}
					}
					semRel = append(semRel, ob{rel, pfx + fn.Name() + "/worker-slot-released", c.ipos(gs.Go), "the goroutine releases its slot",
						"an element goroutine started after sm.Acquire never calls sm.Release: with worker_limit 1 the second element waits for a slot forever (the list never completes until the request is cancelled)"})
				}
			}
			// (b) interface/union dispatch: a pointer implementor is tested for nil before its object function is called
			if len(fn.Params) > 0 {
				last := fn.Params[len(fn.Params)-1]
				if _, isIface := last.Type().Underlying().(*types.Interface); isIface && strings.HasPrefix(fn.Name(), "_") && !strings.Contains(last.Type().String(), "context.Context") {
					for _, b := range fn.Blocks {
						for _, in := range b.Instrs {
							call, ok := in.(*ssa.Call)
							if !ok || call.Call.StaticCallee() == nil || call.Call.StaticCallee().Pkg != g.SSA || len(call.Call.Args) == 0 {
								continue
							}
							arg := call.Call.Args[len(call.Call.Args)-1]
							if _, isPtr := arg.Type().Underlying().(*types.Pointer); !isPtr {
								continue
							}
							// the argument is the type-switch binding (an Extract of a comma-ok TypeAssert on the parameter)
							ex, isEx := an.Strip(arg).(*ssa.Extract)
							if !isEx {
								continue
							}
							ta, isTA := ex.Tuple.(*ssa.TypeAssert)
							if !isTA || an.Strip(ta.X) != ssa.Value(last) {
								continue
							}
							nonNil := false
							for _, f := range an.Facts(in) {
								if empty, k := an.EmptinessFact(f, func(x ssa.Value) bool { return an.Strip(x) == ssa.Value(ex) }); k && !empty {
									nonNil = true
								}
							}
							nilImpl = append(nilImpl, ob{nonNil, pfx + fn.Name() + "/case:" + call.Call.StaticCallee().Name(), c.ipos(in), "nil implementor answered with null",
								"a pointer implementor is handed to its object function without a nil test: a resolver that returns a typed nil (`(*Circle)(nil)`) for an abstract field yields a panic-derived error or a bogus object instead of null"})
						}
					}
				}
			}
			// (c) fieldContext functions: an argument error is reported before it is returned; the recover handler assigns the named error
			if strings.HasPrefix(fn.Name(), "fieldContext_") && fn.Signature.Results().Len() == 2 {
				// every `err != nil` edge of a call made by the function leads to its returns only through ec.Error
				for _, e := range an.CondEdges(fn) {
					empty, ok := an.EmptinessFact(e.Fact, func(v ssa.Value) bool { return an.IsErrorType(v.Type()) })
					if !ok || empty {
						continue
					}
					isErr := func(x ssa.Instruction) bool {
						cc, ok := x.(ssa.CallInstruction)
						return ok && strings.HasSuffix(an.CalleeOf(cc).FullName(), "graphql.OperationContext).Error")
					}
					reported := true
					for _, r := range an.Returns(fn) {
						if fn.Recover != nil && r.Block() == fn.Recover {
							continue
						}
						if !pathsPassFromBlock(e.To, r, isErr) {
							reported = false
						}
					}
					ctxErr = append(ctxErr, ob{reported, pfx + fn.Name() + "/arg-error-reported", c.ipos(e.If), "ec.Error on the error edge before any return",
						"the field-context function returns an argument error without reporting it: the field is null with an empty error list (a non-null field then nulls its parent with no error at all)"})
				}
				for _, cl := range fn.AnonFuncs {
					if !callsRecover(cl) {
						continue
					}
					assigned := false
					for _, b := range cl.Blocks {
						for _, in := range b.Instrs {
							if st, ok := in.(*ssa.Store); ok {
								if fv, ok := st.Addr.(*ssa.FreeVar); ok && an.IsErrorType(fv.Type().(*types.Pointer).Elem()) {
									assigned = true
								}
							}
						}
					}
					ctxErr = append(ctxErr, ob{assigned, pfx + fn.Name() + "/recover-sets-err", c.pos(cl.Pos()), "the recovered error becomes the function's error result",
						"the recover handler of the field-context function does not assign the named error result: after a panicking argument unmarshaler the field function goes on with nil arguments and fails a second time (two errors, two recover-hook calls for one panic)"})
				}
			}
			// (d) per-element contexts do not chain: the parent of WithFieldContext/WithPathContext in a loop is not the variable the result is stored in
			if strings.HasPrefix(fn.Name(), "marshal") || strings.HasPrefix(fn.Name(), "unmarshal") {
				for _, f := range an.WithClosures(fn) {
					for _, b := range f.Blocks {
						for _, in := range b.Instrs {
							call, ok := in.(*ssa.Call)
							if !ok {
								continue
							}
							n := an.CalleeOf(call).FullName()
							if n != pkgGraphql+".WithFieldContext" && n != pkgGraphql+".WithPathContext" {
								continue
							}
							parent := loadAddr(an.Strip(call.Call.Args[0]))
							chained := false
							if parent != nil {
								for _, r := range an.Referrers(call) {
									if st, ok := r.(*ssa.Store); ok && st.Val == ssa.Value(call) && an.RootAlloc(st.Addr) == an.RootAlloc(parent) && an.CanReach(in, in) {
										chained = true
									}
								}
							}
							ctxFresh = append(ctxFresh, ob{!chained, pfx + fn.Name() + "/element-context", c.ipos(in), "each element's context derives from the list's",
								"inside the element loop the new context is stored back into the variable it was derived from: every element's context is parented on the previous element's, so an error on element k carries the indices 0…k in its path (and the element goroutines share one variable)"})
						}
					}
				}
			}
			// (e) directive middleware folds: after reporting an argument error nothing is resolved
			if strings.HasSuffix(fn.Name(), "Middleware") && strings.HasPrefix(fn.Name(), "_") {
				for _, call := range an.CallsIn(fn, func(_ ssa.CallInstruction, ci an.CalleeInfo) bool {
					return strings.HasSuffix(ci.FullName(), "graphql.OperationContext).Error")
				}) {
					if call.Parent() != fn {
						continue
					}
					var after ssa.Instruction
					for _, b := range fn.Blocks {
						for _, in := range b.Instrs {
							c2, ok := in.(*ssa.Call)
							if !ok || !an.CanReach(call, in) {
								continue
							}
							if isMiddlewareCall(c2) || c2.Call.StaticCallee() == nil && !c2.Call.IsInvoke() {
								if _, isB := c2.Call.Value.(*ssa.Builtin); !isB {
									after = in
								}
							}
						}
					}
					pos := c.ipos(call)
					if after != nil {
						pos = c.ipos(after)
					}
					mwStops = append(mwStops, ob{after == nil, pfx + fn.Name() + "/error-stops", pos, "returns after the report",
						"after reporting a directive's argument error the middleware carries on (the loop continues): the directive is skipped and the field is resolved anyway, with the error attached"})
				}
			}
			// (f) deferred slot: len(dfs.Values)-1 is read after AddField; (h) the per-label map is written only when the label is new
			if strings.HasPrefix(fn.Name(), "_") && !isFieldFuncSig(fn) {
				for _, f := range an.WithClosures(fn) {
					var adds []ssa.Instruction
					for _, call := range an.CallsIn(f, func(_ ssa.CallInstruction, ci an.CalleeInfo) bool {
						return strings.HasSuffix(ci.FullName(), "graphql.FieldSet).AddField")
					}) {
						if call.Parent() == f {
							adds = append(adds, call)
						}
					}
					if len(adds) == 0 {
						continue
					}
					for _, b := range f.Blocks {
						for _, in := range b.Instrs {
							switch x := in.(type) {
							case *ssa.BinOp:
								if x.Op != token.SUB {
									continue
								}
								lc, ok := x.X.(*ssa.Call)
								if !ok {
									continue
								}
								bi, ok := lc.Call.Value.(*ssa.Builtin)
								if !ok || bi.Name() != "len" {
									continue
								}
								if fa, ok := loadAddr(an.Strip(lc.Call.Args[0])).(*ssa.FieldAddr); !ok || fieldNameOf(fa) != "Values" {
									continue
								}
								// no AddField may still follow the slot computation within the same iteration of the fields loop
								after := true
								for _, a := range adds {
									if reachesWithinIteration(in, a) {
										after = false
									}
								}
								slotAfterAdd = append(slotAfterAdd, ob{after, pfx + top.Name() + "/deferred-slot-index", c.ipos(in), "slot computed after the field was added",
									"the slot of a deferred field is computed before the field is added to its group: two fields of one group get the same slot, one value overwrites the other and the last slot stays nil (panic while writing the group)"})
							case *ssa.MapUpdate:
								if !strings.HasSuffix(x.Map.Type().String(), "graphql.FieldSet") {
									continue
								}
								isNew := false
								for _, fct := range an.Facts(in) {
									if fct.Op == token.ILLEGAL && fct.Neg {
										if ex, ok := fct.X.(*ssa.Extract); ok && ex.Index == 1 {
											if lk, ok := ex.Tuple.(*ssa.Lookup); ok && an.Strip(lk.X) == an.Strip(x.Map) {
												isNew = true
											}
										}
									}
								}
								// `dfs := m[label]; if dfs == nil { … m[label] = dfs }`: the miss is a nil lookup result
								for _, fct := range an.Facts(in) {
									if empty, ok := an.EmptinessFact(fct, func(v ssa.Value) bool {
										for _, d := range append(an.Defs(v), an.Strip(v)) {
											if ex, ok := d.(*ssa.Extract); ok {
												d = ex.Tuple
											}
											if lk, ok := d.(*ssa.Lookup); ok && (an.Strip(lk.X) == an.Strip(x.Map) || an.SameVar(lk.X, x.Map)) {
												return true
											}
										}
										return false
									}); ok && empty {
										isNew = true
									}
								}
								mapOverwrite = append(mapOverwrite, ob{isNew, pfx + top.Name() + "/deferred-map-store", c.ipos(in), "a group is created only for a label not seen yet",
									"the per-label map of deferred groups is written on an edge where the label may already have a group: the earlier group is replaced and its fields are never delivered"})
							}
						}
					}
				}
			}
		}
	}
	emit := func(rule, text string, floor int, obs []ob) {
		c.R.Rule(rule, text, floor)
		for _, o := range obs {
			c.R.Check(o.ok, o.key, o.pos, o.good, o.bad)
		}
		if len(obs) < floor {
			c.R.Fail("%s: %d instances", rule, len(obs))
		}
	}
	emit("response-key-is-alias", "per materialised executor: where a field function writes the field's own object key (subscription events) it writes CollectedField.Alias", 1, keyAlias)
	emit("nil-implementor-is-null", "per materialised executor: in the dispatch function of an interface or union every pointer implementor is passed to its object function only on the non-nil edge", 5, nilImpl)
	emit("field-context-errors", "per materialised executor: a fieldContext function reports (ec.Error) every error it returns, and its recover handler assigns the named error result", 20, ctxErr)
	emit("element-context-fresh", "per materialised executor: in list (un)marshalers the context derived for an element is not stored back into the variable it was derived from inside the loop", 20, ctxFresh)
	emit("directive-error-stops", "per materialised executor: in the operation/field directive middleware nothing is resolved after an argument error was reported", 1, mwStops)
	emit("deferred-slot-after-add", "per materialised executor: the slot index of a deferred field (len(Values)-1) is computed after AddField", 10, slotAfterAdd)
	emit("invalids-compared-with-zero", "per materialised executor: FieldSet.Invalids is only ever compared with 0", 20, invalidsZero)
	if len(semRel) > 0 {
		emit("worker-slot-released", "per materialised executor with a worker limit: every element goroutine of a list marshaler calls Release on the semaphore", 1, semRel)
	}
	emit("deferred-group-created-once", "per materialised executor: the per-label map of deferred field sets is stored to only on the edge where the lookup of that map missed", 10, mapOverwrite)
}

// fieldOfCollected: v is `field.Alias` / `field.Name` of a graphql.CollectedField (through the embedded *ast.Field): the field's name.
func fieldOfCollected(v ssa.Value) string {
	fa, ok := loadAddr(an.Strip(v)).(*ssa.FieldAddr)
	if !ok {
		return ""
	}
	n := fieldNameOf(fa)
	if n != "Alias" && n != "Name" {
		return ""
	}
	if !strings.HasSuffix(fa.X.Type().String(), "ast.Field") {
		return ""
	}
	return n
}

// reachesWithinIteration: b is reachable from a without passing through the header of the innermost loop that contains a.
func reachesWithinIteration(a, b ssa.Instruction) bool {
	if a.Parent() != b.Parent() {
		return false
	}
	if a.Block() == b.Block() {
		return an.InstrIndex(a) < an.InstrIndex(b)
	}
	var header *ssa.BasicBlock
	best := -1
	for _, l := range an.Loops(a.Parent()) {
		if l.Blocks[a.Block()] && (best < 0 || len(l.Blocks) < best) {
			header, best = l.Header, len(l.Blocks)
		}
	}
	seen := map[*ssa.BasicBlock]bool{}
	var walk func(blk *ssa.BasicBlock) bool
	walk = func(blk *ssa.BasicBlock) bool {
		for _, s := range blk.Succs {
			if s == header || seen[s] {
				continue
			}
			seen[s] = true
			if s == b.Block() || walk(s) {
				return true
			}
		}
		return false
	}
	return walk(a.Block())
}
