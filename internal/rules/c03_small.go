package rules

import (
	"go/types"
	"strings"

	"golang.org/x/tools/go/ssa"

	"verif/internal/an"
)

// dispatchOnce: FieldSet.Dispatch runs every delayed task exactly once.  In the branch where delayed[0] is run on the calling
// goroutine, the loop that spawns goroutines ranges over delayed[1:] (a sub-slice starting at 1), not over the whole slice.
// Running a task twice calls the user's resolver — and every field interceptor — twice for one selected field, concurrently.
func dispatchOnce(c *Ctx) {
	c.R.Rule("dispatch-once", "graphql.(*FieldSet).Dispatch: where element 0 of delayed is invoked directly, the loop that starts goroutines ranges over delayed[1:]; where it is not, over the whole slice", 1)
	fn := c.fn(pkgGraphql, "*FieldSet.Dispatch")
	if fn == nil {
		return
	}
	isDelayed := func(v ssa.Value) bool {
		fa, ok := loadAddr(an.Strip(v)).(*ssa.FieldAddr)
		return ok && fieldNameOf(fa) == "delayed"
	}
	n := 0
	for _, l := range an.Loops(fn) {
		hasGo := false
		for b := range l.Blocks {
			for _, in := range b.Instrs {
				if _, ok := in.(*ssa.Go); ok {
					hasGo = true
				}
			}
		}
		if !hasGo {
			continue
		}
		// the ranged slice: the operand of the len() that bounds the loop
		var ranged ssa.Value
		for _, in := range l.Header.Instrs {
			if bo, ok := in.(*ssa.BinOp); ok {
				if call, ok := bo.Y.(*ssa.Call); ok {
					if bi, ok := call.Call.Value.(*ssa.Builtin); ok && bi.Name() == "len" {
						ranged = call.Call.Args[0]
					}
				}
			}
		}
		if ranged == nil {
			// len is usually evaluated before the loop
			for _, p := range l.Header.Preds {
				if l.Blocks[p] {
					continue
				}
				for _, in := range p.Instrs {
					if call, ok := in.(*ssa.Call); ok {
						if bi, ok := call.Call.Value.(*ssa.Builtin); ok && bi.Name() == "len" {
							ranged = call.Call.Args[0]
						}
					}
				}
			}
		}
		if ranged == nil {
			continue
		}
		n++
		low := int64(0)
		whole := isDelayed(ranged)
		if sl, ok := an.Strip(ranged).(*ssa.Slice); ok && isDelayed(sl.X) {
			whole = false
			if sl.Low != nil {
				if k, isC := an.ConstInt(sl.Low); isC {
					low = k
				}
			}
		} else if !whole {
			c.R.Note("Dispatch/spawn-loop", c.pos(fn.Pos()), "the spawning loop does not range over FieldSet.delayed: not decided")
			continue
		}
		// is element 0 invoked directly in a block that the loop's entry dominates or that dominates it (same branch)?
		direct := false
		for _, b := range fn.Blocks {
			if l.Blocks[b] {
				continue
			}
			for _, in := range b.Instrs {
				ia, ok := in.(*ssa.IndexAddr)
				if !ok || !isDelayed(ia.X) {
					continue
				}
				if k, isC := an.ConstInt(ia.Index); isC && k == 0 {
					// same branch: reachable from the loop's exit or reaching the loop header
					if an.Reach(l.Header, nil)[b] || an.Reach(b, nil)[l.Header] {
						direct = true
					}
				}
			}
		}
		want := int64(0)
		if direct {
			want = 1
		}
		c.R.Check(low == want, "Dispatch/spawn-loop", c.pos(l.Header.Instrs[0].Pos()), sprintf("goroutines for delayed[%d:], element 0 %s", want, map[bool]string{true: "on the calling goroutine", false: "not run directly"}[direct]),
			sprintf("the spawning loop ranges over delayed[%d:] while element 0 is %s: a delayed field is resolved twice (or never) — its resolver and every field interceptor run twice, concurrently, for one selected field", low, map[bool]string{true: "also run directly", false: "not run anywhere else"}[direct]))
	}
	if n == 0 {
		c.R.Fail("dispatch-once: no goroutine-spawning loop found in FieldSet.Dispatch")
	}
}

// ruleSwapControlEquivalent: wherever package executor removes a rule from gqlparser's global rule set, every path from that
// call to the function's exit installs a rule (ReplaceRule / AddRule): the global set is never left without the rule.
func ruleSwapControlEquivalent(c *Ctx) {
	c.R.Rule("rule-swap-complete", "package executor: every path from a validator.RemoveRule call to the exit of its function passes validator.ReplaceRule or validator.AddRule", 1)
	n := 0
	for _, fn := range c.moduleFuncs(func(p string) bool { return p == pkgExecutor }) {
		for _, call := range an.CallsIn(fn, func(_ ssa.CallInstruction, ci an.CalleeInfo) bool {
			return strings.HasSuffix(ci.FullName(), "gqlparser/v2/validator.RemoveRule")
		}) {
			n++
			isInstall := func(in ssa.Instruction) bool {
				ci, ok := in.(ssa.CallInstruction)
				if !ok {
					return false
				}
				name := an.CalleeOf(ci).FullName()
				return strings.HasSuffix(name, "gqlparser/v2/validator.ReplaceRule") || strings.HasSuffix(name, "gqlparser/v2/validator.AddRule")
			}
			// walk forward from the instruction after the call
			ok := true
			seen := map[*ssa.BasicBlock]bool{}
			var walk func(b *ssa.BasicBlock, from int)
			walk = func(b *ssa.BasicBlock, from int) {
				for _, in := range b.Instrs[from:] {
					if isInstall(in) {
						return
					}
					if _, isRet := in.(*ssa.Return); isRet {
						ok = false
						return
					}
				}
				for _, s := range b.Succs {
					if !seen[s] {
						seen[s] = true
						walk(s, 0)
					}
				}
			}
			walk(call.Block(), an.InstrIndex(call)+1)
			c.R.Check(ok, shortFn(topFn(fn))+"/remove-then-install", c.ipos(call), "a replacement is installed on every path",
				"a validation rule is removed from gqlparser's process-global rule set on a path that installs no replacement: from then on every server in the process accepts documents that rule would reject (e.g. fields that do not exist)")
		}
	}
	if n == 0 {
		c.R.Note("rule-swap-complete", "-", "package executor removes no validator rule; nothing to judge")
	}
}

// adaptersCallReceiver: a method on a named function type whose parameters and results are those of the function type itself
// is an adapter (handler.OperationFunc.InterceptOperation, handler.FieldFunc.InterceptField, graphql.WriterFunc.MarshalGQL …):
// it calls its receiver.  An adapter that does not makes `srv.Use(handler.FieldFunc(fn))` register a hook that never runs.
func adaptersCallReceiver(c *Ctx) {
	c.R.Rule("adapters-call-receiver", "runtime packages: every method of a named function type whose signature equals the function type's own calls the receiver", 3)
	n := 0
	for _, fn := range c.moduleFuncs(isRuntimePkg) {
		if fn.Parent() != nil || fn.Signature.Recv() == nil || len(fn.Blocks) == 0 || len(fn.Params) == 0 {
			continue
		}
		rt := fn.Signature.Recv().Type()
		named, ok := rt.(*types.Named)
		if !ok {
			continue
		}
		fsig, ok := named.Underlying().(*types.Signature)
		if !ok {
			continue
		}
		if !types.Identical(types.NewSignatureType(nil, nil, nil, fn.Signature.Params(), fn.Signature.Results(), fn.Signature.Variadic()), fsig) {
			continue
		}
		n++
		recv := fn.Params[0]
		called := false
		for _, f := range an.WithClosures(fn) {
			for _, b := range f.Blocks {
				for _, in := range b.Instrs {
					if ci, ok := in.(ssa.CallInstruction); ok && !ci.Common().IsInvoke() {
						v := ci.Common().Value
						if v == ssa.Value(recv) || an.SameVar(v, recv) {
							called = true
						}
						if fv, ok := v.(*ssa.FreeVar); ok && fv.Name() == recv.Name() {
							called = true
						}
					}
				}
			}
		}
		c.R.Check(called, shortFn(fn), c.pos(fn.Pos()), "calls the adapted function",
			"this adapter method does not call the function it adapts: a hook registered through it is accepted and takes its place in the chain but is never invoked")
	}
	if n < 3 {
		c.R.Fail("adapters-call-receiver: %d adapter methods found", n)
	}
}

// ptrToPtrKeepsNull: per materialised executor, an unmarshal function whose result is **T (an input field that distinguishes
// "absent" from "null") does not answer a nil input with a nil result: explicit null yields a pointer to a nil pointer.
func ptrToPtrKeepsNull(c *Ctx) {
	c.R.Rule("ptr-to-ptr-keeps-null", "per materialised executor: an unmarshal function returning **T has no `return nil` on the edge where its input value is nil", 0)
	n := 0
	for _, g := range c.Gen {
		for _, fn := range c.genFuncs(g) {
			if fn.Parent() != nil || !strings.HasPrefix(fn.Name(), "unmarshal") || fn.Signature.Results().Len() != 2 {
				continue
			}
			p1, ok := fn.Signature.Results().At(0).Type().(*types.Pointer)
			if !ok {
				continue
			}
			if _, ok := p1.Elem().(*types.Pointer); !ok {
				continue
			}
			n++
			var v ssa.Value
			for _, p := range fn.Params {
				if _, isIface := p.Type().Underlying().(*types.Interface); isIface && !strings.Contains(p.Type().String(), "context.Context") {
					v = p
				}
			}
			var bad ssa.Instruction
			for _, r := range an.Returns(fn) {
				rv := an.ReturnedValue(r, 0)
				if rv == nil || !an.IsNilConst(an.Strip(rv)) {
					continue
				}
				ev := an.ReturnedValue(r, 1)
				if ev != nil && !an.IsNilConst(an.Strip(ev)) {
					continue // an error return
				}
				for _, f := range an.Facts(r) {
					if empty, k := an.EmptinessFact(f, func(x ssa.Value) bool { return v != nil && (x == v || an.SameVar(x, v)) }); k && empty {
						bad = r
					}
				}
			}
			pos := c.pos(fn.Pos())
			if bad != nil {
				pos = c.ipos(bad)
			}
			c.R.Check(bad == nil, "gen:"+g.Name+"/"+fn.Name()+"/null-kept", pos, "explicit null is not collapsed into absent",
				"this **T unmarshaler answers an explicit null with a nil outer pointer: the resolver cannot tell `field: null` from the field being absent, which is the one thing a pointer-to-pointer input field is for")
		}
	}
	if n == 0 {
		c.R.Note("ptr-to-ptr-keeps-null", "-", "no materialised executor has a **T unmarshaler; nothing to judge")
	}
}
