package rules

import (
	"go/token"
	"strings"

	"golang.org/x/tools/go/ssa"

	"verif/internal/an"
)

// createReturnsContext: CreateOperationContext hands back the operation context it built on every path, also next to an error
// list (the transports bind it before they ask for the error response).
func createReturnsContext(c *Ctx) {
	c.R.Rule("create-returns-context", "Executor.CreateOperationContext: no return has a nil first result (the operation context is returned next to every error list; transports bind it before DispatchError)", 1)
	fn := c.fn(pkgExecutor, "*Executor.CreateOperationContext")
	if fn == nil {
		return
	}
	for _, r := range an.Returns(fn) {
		if len(r.Results) < 1 {
			continue
		}
		v := an.ReturnedValue(r, 0)
		c.R.Check(v == nil || !an.IsNilConst(v), "CreateOperationContext/return@"+blockKey(r), c.ipos(r), "returns the operation context", "this return hands back a nil operation context next to its error list: the transport binds nil and every hook that reads the operation context while the error response is produced (APQ statistics, tracing) panics — the client gets `internal system error` instead of the real answer")
	}
}

func blockKey(in ssa.Instruction) string { return sprintf("b%d", in.Block().Index) }

// mutatorsSeeOperationContext: operation-context mutators run with the operation context already bound to their ctx.
func mutatorsSeeOperationContext(c *Ctx) {
	c.R.Rule("mutators-see-operation-context", "Executor.CreateOperationContext (and its helpers): the context handed to MutateOperationParameters and MutateOperationContext derives from graphql.WithOperationContext(ctx, the new operation context)", 1)
	n := 0
	for _, fn := range c.moduleFuncs(func(p string) bool { return p == pkgExecutor }) {
		for _, call := range an.CallsIn(fn, func(_ ssa.CallInstruction, ci an.CalleeInfo) bool {
			return ci.Method != nil && (ci.Method.Name() == "MutateOperationContext" || ci.Method.Name() == "MutateOperationParameters")
		}) {
			n++
			ok := ctxFromWithOperationContext(call.Common().Args[0], call, 0, map[ssa.Value]bool{})
			if !ok {
				// a helper that is handed the context: judge its call sites
				if p, isP := an.Strip(call.Common().Args[0]).(*ssa.Parameter); isP {
					idx := -1
					for i, q := range fn.Params {
						if q == p {
							idx = i
						}
					}
					any := false
					ok = true
					for _, cl := range c.callSitesOf(fn) {
						if idx >= 0 && idx < len(cl.Common().Args) {
							any = true
							if !ctxFromWithOperationContext(cl.Common().Args[idx], cl, 0, map[ssa.Value]bool{}) {
								ok = false
							}
						}
					}
					ok = ok && any
				}
			}
			c.R.Check(ok, c.fnKey(fn)+"/"+call.Common().Method.Name(), c.ipos(call), "ctx carries the operation context", "a mutator is called before the operation context is bound to their ctx: the persisted-query extension (which records its statistics through the context) panics after it has already changed its cache")
		}
	}
	if n == 0 {
		c.R.Fail("unresolved anchor: no MutateOperationContext invocation in package executor")
	}
}

// wsRejectedOperationAnswered: a websocket operation that CreateOperationContext refused is answered with its errors before complete.
func wsRejectedOperationAnswered(c *Ctx) {
	c.R.Rule("ws-rejected-operation-answered", "wsConnection.subscribe: on the edge where CreateOperationContext returned errors every path to complete(id) first sends them (sendError or sendResponse)", 1)
	fn := c.fn(pkgTransport, "*"+wsConn+".subscribe")
	if fn == nil {
		return
	}
	n := 0
	for _, cr := range an.CallsIn(fn, func(_ ssa.CallInstruction, ci an.CalleeInfo) bool {
		return ci.Method != nil && ci.Method.Name() == "CreateOperationContext"
	}) {
		if cr.Parent() != fn {
			continue
		}
		for _, e := range an.CondEdges(fn) {
			empty, ok := an.EmptinessFact(e.Fact, func(v ssa.Value) bool {
				ex, isE := an.Strip(v).(*ssa.Extract)
				return isE && ex.Tuple == cr.(ssa.Value) && ex.Index == 1
			})
			if !ok || empty {
				continue
			}
			for _, comp := range an.CallsIn(fn, func(_ ssa.CallInstruction, ci an.CalleeInfo) bool {
				return ci.Static != nil && ci.Static.Name() == "complete"
			}) {
				if comp.Parent() != fn || !(e.To == comp.Block() || an.Reach(e.To, nil)[comp.Block()]) {
					continue
				}
				n++
				allPass := pathsPassFromBlock(e.To, comp, func(i ssa.Instruction) bool {
					cl, ok := i.(ssa.CallInstruction)
					if !ok {
						return false
					}
					sc := cl.Common().StaticCallee()
					return sc != nil && (strings.HasPrefix(sc.Name(), "sendError") || strings.HasPrefix(sc.Name(), "sendResponse"))
				})
				c.R.Check(allPass, "subscribe/rejected→complete", c.ipos(comp), "the errors are sent on every path", "a refused operation can reach complete(id) without its errors having been sent: the client only learns that the operation ended (PersistedQueryNotFound never arrives, so it never retries with the text)")
			}
		}
	}
	if n == 0 {
		c.R.Fail("ws-rejected-operation-answered: no path from a refused CreateOperationContext to complete found")
	}
}

// c16Round3: three small tables of the introspection package.
func c16Round3(c *Ctx) {
	// (a) the only argument of @deprecated is `reason`
	c.R.Rule("deprecation-argument-name", "package introspection: the directive kept in a `deprecation` field is looked up as \"deprecated\" and its argument as \"reason\" (the built-in directive's names)", 4)
	n := 0
	for _, fn := range c.moduleFuncs(func(p string) bool { return p == pkgIntrosp }) {
		for _, call := range an.CallsIn(fn, func(_ ssa.CallInstruction, ci an.CalleeInfo) bool {
			return strings.HasSuffix(ci.FullName(), "ast.ArgumentList).ForName") || strings.HasSuffix(ci.FullName(), "ast.DirectiveList).ForName")
		}) {
			name, isC := an.ConstString(call.Common().Args[len(call.Common().Args)-1])
			if !isC {
				continue
			}
			if strings.HasSuffix(an.CalleeOf(call).FullName(), "ArgumentList).ForName") {
				// receiver: X.deprecation.Arguments
				recv := an.Strip(call.Common().Args[0])
				fa, ok := loadAddr(recv).(*ssa.FieldAddr)
				if !ok || fieldNameOf(fa) != "Arguments" {
					continue
				}
				inner, ok := loadAddr(an.Strip(fa.X)).(*ssa.FieldAddr)
				if !ok || fieldNameOf(inner) != "deprecation" {
					continue
				}
				n++
				c.R.Check(name == "reason", c.fnKey(fn)+"/deprecation-argument", c.ipos(call), "reason", "the deprecation reason is read from the argument \""+name+"\" of @deprecated, which has no such argument: deprecationReason is always null")
				continue
			}
			// DirectiveList.ForName(k) stored into a `deprecation` field
			v, ok := call.(ssa.Value)
			if !ok {
				continue
			}
			for _, r := range an.Referrers(v) {
				if st, ok := r.(*ssa.Store); ok {
					if fa, ok := st.Addr.(*ssa.FieldAddr); ok && fieldNameOf(fa) == "deprecation" {
						n++
						c.R.Check(name == "deprecated", c.fnKey(fn)+"/deprecation-directive", c.ipos(call), "deprecated", "the deprecation of an element is taken from the directive @"+name+": isDeprecated no longer follows @deprecated")
					}
				}
			}
		}
	}
	if n < 4 {
		c.R.Fail("deprecation-argument-name: only %d lookups found", n)
	}
	// (a') the reason is the argument's text, not its GraphQL literal (which would add quotes)
	c.R.Rule("deprecation-reason-raw", "package introspection: the DeprecationReason accessors (and the helpers they share) hand out the argument's Value.Raw and never call (*ast.Value).String()", 3)
	m0 := 0
	for _, fn := range c.moduleFuncs(func(p string) bool { return p == pkgIntrosp }) {
		if fn.Parent() != nil || fn.Name() != "DeprecationReason" {
			continue
		}
		m0++
		bodies := []*ssa.Function{fn}
		for _, call := range an.CallsIn(fn, func(_ ssa.CallInstruction, ci an.CalleeInfo) bool {
			return ci.Static != nil && ci.Static.Pkg == fn.Pkg && len(ci.Static.Blocks) > 0
		}) {
			bodies = append(bodies, call.Common().StaticCallee())
		}
		raw, str := false, false
		for _, body := range bodies {
			for _, b := range body.Blocks {
				for _, in := range b.Instrs {
					if fa, ok := in.(*ssa.FieldAddr); ok && fieldNameOf(fa) == "Raw" {
						raw = true
					}
					if call, ok := in.(ssa.CallInstruction); ok && strings.HasSuffix(an.CalleeOf(call).FullName(), "ast.Value).String") {
						str = true
					}
				}
			}
		}
		c.R.Check(raw && !str, c.fnKey(fn)+"/reason-text", c.pos(fn.Pos()), "Value.Raw", "the deprecation reason is rendered as a GraphQL literal: it comes back wrapped in quotes (\"\\\"use new\\\"\") on this kind of element only")
	}
	if m0 < 3 {
		c.R.Fail("deprecation-reason-raw: only %d DeprecationReason accessors found", m0)
	}
	// (b) a named type is described directly only when the reference is nullable
	c.R.Rule("wrap-named-only-when-nullable", "introspection.WrapTypeFromType: the description built from the schema's definition of the named type (field def) is produced only on the edge where the reference's NonNull is false; a non-null reference keeps its wrapper", 1)
	if fn := c.fn(pkgIntrosp, "WrapTypeFromType"); fn != nil {
		m := 0
		for _, b := range fn.Blocks {
			for _, in := range b.Instrs {
				st, ok := in.(*ssa.Store)
				if !ok {
					continue
				}
				fa, ok := st.Addr.(*ssa.FieldAddr)
				if !ok || fieldNameOf(fa) != "def" {
					continue
				}
				m++
				nullable := false
				for _, f := range an.Facts(in) {
					if f.Op != 0 {
						continue
					}
					if fa2, ok := loadAddr(an.Strip(f.X)).(*ssa.FieldAddr); ok && fieldNameOf(fa2) == "NonNull" && f.Neg {
						nullable = true
					}
				}
				c.R.Check(nullable, "WrapTypeFromType/def", c.ipos(in), "only for a nullable reference", "a non-null reference to a named type is described by the type's definition alone: `String!` reads back as `String`, every NON_NULL wrapper around a named type is lost")
			}
		}
		if m == 0 {
			c.R.Fail("wrap-named-only-when-nullable: WrapTypeFromType stores no def")
		}
	}
	// (c) default values are printed as GraphQL literals
	c.R.Rule("default-value-printed", "introspection.defaultValue: the text comes from (*ast.Value).String() (a GraphQL literal: strings quoted, lists and objects rendered), not from the raw token", 1)
	if fn := c.fn(pkgIntrosp, "defaultValue"); fn != nil {
		usesString := len(an.CallsIn(fn, func(_ ssa.CallInstruction, ci an.CalleeInfo) bool {
			return strings.HasSuffix(ci.FullName(), "ast.Value).String")
		})) > 0
		usesRaw := false
		for _, b := range fn.Blocks {
			for _, in := range b.Instrs {
				if fa, ok := in.(*ssa.FieldAddr); ok && fieldNameOf(fa) == "Raw" {
					usesRaw = true
				}
			}
		}
		c.R.Check(usesString && !usesRaw, "defaultValue/source", c.pos(fn.Pos()), "Value.String()", "default values are described by their raw token: string defaults lose their quotes and list/object defaults come out empty, so the default cannot be parsed back")
	}
}

// rewriterRound3: the rewriter marks exactly what it was asked to mark and hands back everything it did not copy.
func rewriterRound3(c *Ctx) {
	pkgRewrite := modPath("internal/rewrite")
	// (a) the marking functions mark a declaration only on the edge where its name equals the name asked for; the one for
	// empty structs only where the struct has no fields
	c.R.Rule("marks-only-the-named", "internal/rewrite: Mark*Copied(name) stores into the copied set only on an edge where the declaration's name was compared equal to the name parameter (MarkEmptyStructCopied also only where NumFields() == 0)", 2)
	n := 0
	for _, fn := range c.moduleFuncs(func(p string) bool { return p == pkgRewrite }) {
		if fn.Parent() != nil || !strings.HasPrefix(fn.Name(), "Mark") || !strings.HasSuffix(fn.Name(), "Copied") {
			continue
		}
		var nameParam *ssa.Parameter
		for _, p := range fn.Params {
			if p.Name() == "name" {
				nameParam = p
			}
		}
		if nameParam == nil {
			continue
		}
		for _, body := range an.WithClosures(fn) {
			for _, b := range body.Blocks {
				for _, in := range b.Instrs {
					mu, ok := in.(*ssa.MapUpdate)
					if !ok {
						continue
					}
					fa, isF := loadAddr(an.Strip(mu.Map)).(*ssa.FieldAddr)
					if !isF || fieldNameOf(fa) != "copied" {
						continue
					}
					n++
					named, empty := false, false
					facts := an.Facts(in)
					if body != fn {
						// the store stands in a literal handed to an iterator of the package together with the name: the facts
						// under which the iterator calls its callback count too (name equality is tested there)
						for _, b2 := range fn.Blocks {
							for _, i2 := range b2.Instrs {
								call, ok := i2.(*ssa.Call)
								if !ok || call.Call.StaticCallee() == nil || call.Call.StaticCallee().Pkg != fn.Pkg {
									continue
								}
								it := call.Call.StaticCallee()
								passesName := false
								var itName *ssa.Parameter
								for k, a := range call.Call.Args {
									if an.Strip(a) == ssa.Value(nameParam) && k < len(it.Params) {
										passesName, itName = true, it.Params[k]
									}
								}
								if !passesName {
									continue
								}
								for _, cb := range an.CallsIn(it, func(ci ssa.CallInstruction, _ an.CalleeInfo) bool {
									_, isParam := an.Strip(ci.Common().Value).(*ssa.Parameter)
									return isParam && !ci.Common().IsInvoke()
								}) {
									for _, f := range an.Facts(cb) {
										if f.Op == token.EQL && (an.Strip(f.X) == ssa.Value(itName) || an.Strip(f.Y) == ssa.Value(itName)) {
											named = true
										}
									}
								}
							}
						}
					}
					for _, f := range facts {
						if f.Op == token.EQL && (an.Strip(f.X) == ssa.Value(nameParam) || an.Strip(f.Y) == ssa.Value(nameParam)) {
							named = true
						}
						if f.Op == token.EQL {
							for _, pr := range [][2]ssa.Value{{f.X, f.Y}, {f.Y, f.X}} {
								if k, isC := an.ConstInt(pr[1]); isC && k == 0 {
									if call, isCall := an.Strip(pr[0]).(*ssa.Call); isCall && strings.HasSuffix(an.CalleeOf(call).FullName(), "NumFields") {
										empty = true
									}
								}
							}
						}
					}
					c.R.Check(named, fn.Name()+"/named", c.ipos(in), "only the declaration called name", fn.Name()+" marks declarations whose name was not compared equal to the name asked for: every other type declaration of the user's file is treated as already copied and silently dropped from the regenerated file")
					if strings.Contains(fn.Name(), "Empty") {
						c.R.Check(empty, fn.Name()+"/empty", c.ipos(in), "only when the struct has no fields", fn.Name()+" marks the struct without having found it empty: a root type the user added fields to is dropped instead of being preserved")
					}
				}
			}
		}
	}
	if n < 2 {
		// the marking may live in one helper that the Mark*Copied functions share (markTypeDecls(name, accept)): the helper is
		// judged against its own name parameter, and the Empty variant's accept literal must test NumFields() == 0
		for _, h := range c.moduleFuncs(func(p string) bool { return p == pkgRewrite }) {
			if h.Parent() != nil || (strings.HasPrefix(h.Name(), "Mark") && strings.HasSuffix(h.Name(), "Copied")) {
				continue
			}
			var hName *ssa.Parameter
			for _, p := range h.Params {
				if p.Name() == "name" {
					hName = p
				}
			}
			if hName == nil {
				continue
			}
			for _, b := range h.Blocks {
				for _, in := range b.Instrs {
					mu, ok := in.(*ssa.MapUpdate)
					if !ok {
						continue
					}
					fa, isF := loadAddr(an.Strip(mu.Map)).(*ssa.FieldAddr)
					if !isF || fieldNameOf(fa) != "copied" {
						continue
					}
					named := false
					for _, f := range an.Facts(in) {
						if f.Op == token.EQL && (an.Strip(f.X) == ssa.Value(hName) || an.Strip(f.Y) == ssa.Value(hName)) {
							named = true
						}
					}
					for _, site := range c.callSitesOf(h) {
						caller := topFn(site.Parent())
						if !(strings.HasPrefix(caller.Name(), "Mark") && strings.HasSuffix(caller.Name(), "Copied")) {
							continue
						}
						n++
						c.R.Check(named, caller.Name()+"/named", c.ipos(in), "only the declaration called name (tested in "+h.Name()+")", caller.Name()+" marks, through "+h.Name()+", declarations whose name was not compared equal to the name asked for: every other type declaration of the user's file is silently dropped from the regenerated file")
						if strings.Contains(caller.Name(), "Empty") {
							empty := false
							for _, cl := range an.WithClosures(caller) {
								for _, b2 := range cl.Blocks {
									for _, i2 := range b2.Instrs {
										bo, ok := i2.(*ssa.BinOp)
										if !ok || bo.Op != token.EQL {
											continue
										}
										if k, isC := an.ConstInt(bo.Y); isC && k == 0 {
											if call, isCall := an.Strip(bo.X).(*ssa.Call); isCall && strings.HasSuffix(an.CalleeOf(call).FullName(), "NumFields") {
												empty = true
											}
										}
									}
								}
							}
							c.R.Check(empty, caller.Name()+"/empty", c.pos(caller.Pos()), "accepts only a struct without fields", caller.Name()+" marks the struct without having found it empty: a root type the user added fields to is dropped instead of being preserved")
						}
					}
				}
			}
		}
	}
	if n < 2 {
		c.R.Fail("marks-only-the-named: only %d stores into Rewriter.copied found in Mark*Copied", n)
	}
	// (b) RemainingSource walks every declaration and leaves out exactly the copied ones and the import block
	c.R.Rule("remaining-source-total", "internal/rewrite.RemainingSource: the loop over the file's declarations is left only at its end (no break), and a declaration is skipped only when it is in the copied set or is the import declaration (Tok == token.IMPORT)", 2)
	if fn := c.fn(pkgRewrite, "*Rewriter.RemainingSource"); fn != nil {
		m := 0
		for _, l := range an.Loops(fn) {
			// the inner loop: the one whose body writes the source
			writes := false
			for b := range l.Blocks {
				for _, in := range b.Instrs {
					if call, ok := in.(*ssa.Call); ok && strings.HasSuffix(an.CalleeOf(call).FullName(), "getSource") {
						writes = true
					}
				}
			}
			if !writes {
				continue
			}
			inner := true
			for _, l2 := range an.Loops(fn) {
				if l2.Header != l.Header && l.Blocks[l2.Header] {
					inner = false // an enclosing loop
				}
			}
			if !inner {
				continue
			}
			m++
			okExit := true
			var at ssa.Instruction
			for _, e := range l.Exits {
				if e.From != l.Header {
					okExit = false
					at = e.From.Instrs[len(e.From.Instrs)-1]
				}
			}
			pos := c.pos(fn.Pos())
			if at != nil {
				pos = c.ipos(at)
			}
			c.R.Check(okExit, "RemainingSource/loop-exits", pos, "left only at the end of the declarations", "the walk over the declarations can stop early: what the user wrote after the first skipped declaration never reaches the preserved block and is lost on regeneration")
			// the import test
			for b := range l.Blocks {
				ifi, ok := b.Instrs[len(b.Instrs)-1].(*ssa.If)
				if !ok {
					continue
				}
				bo, ok := ifi.Cond.(*ssa.BinOp)
				if !ok || (bo.Op != token.EQL && bo.Op != token.NEQ) {
					continue
				}
				k, isC := an.ConstInt(bo.Y)
				if !isC || k != int64(token.IMPORT) {
					continue
				}
				fa, isF := loadAddr(an.Strip(bo.X)).(*ssa.FieldAddr)
				if !isF || fieldNameOf(fa) != "Tok" {
					continue
				}
				m++
				eqSucc := b.Succs[0]
				if bo.Op == token.NEQ {
					eqSucc = b.Succs[1]
				}
				reachesWrite := false
				stop := func(x *ssa.BasicBlock) bool { return x == l.Header }
				for b2 := range an.Reach(eqSucc, stop) {
					if !l.Blocks[b2] || b2 == l.Header {
						continue
					}
					for _, in := range b2.Instrs {
						if call, ok := in.(*ssa.Call); ok && strings.HasSuffix(an.CalleeOf(call).FullName(), "getSource") {
							reachesWrite = true
						}
					}
				}
				c.R.Check(!reachesWrite, "RemainingSource/import-skipped", c.ipos(ifi), "the import declaration is the one left out", "the import declaration is written to the preserved block and every other declaration is left out: the regenerated file gains a commented copy of its imports on each run and loses the user's helpers")
			}
		}
		if m < 2 {
			for _, l := range an.Loops(fn) {
				c.R.Note("RemainingSource/debug", "-", sprintf("loop header b%d blocks=%d exits=%d", l.Header.Index, len(l.Blocks), len(l.Exits)))
			}
			c.R.Fail("remaining-source-total: loop or import test not found in RemainingSource (%d)", m)
		}
	}
}

// c20Round3: federation executor rules of the third round.
func c20Round3(c *Ctx, plugin bool) {
	var feds []*GenPkg
	for _, g := range c.Gen {
		if g.Fed {
			feds = append(feds, g)
		}
	}
	if len(feds) == 0 {
		return
	}
	// (a) a representation that is dropped is reported: every way through an iteration of the grouping loop either files the
	// representation under a type name or reports an error
	c.R.Rule("dropped-representation-reported", "per federation executor: every path through one iteration of buildRepresentationGroups' loop either stores the representation into the group map or calls ec.Error", len(feds))
	for _, g := range feds {
		fn := c.genFunc(g, "buildRepresentationGroups")
		if fn == nil {
			continue
		}
		for _, l := range an.Loops(fn) {
			isWork := func(i ssa.Instruction) bool {
				if _, ok := i.(*ssa.MapUpdate); ok {
					return true
				}
				if call, ok := i.(ssa.CallInstruction); ok && strings.HasSuffix(an.CalleeOf(call).FullName(), ".Error") {
					return true
				}
				return false
			}
			ok := true
			// from each body entry, the header must not be reachable without work
			for _, s := range l.Header.Succs {
				if !l.Blocks[s] {
					continue
				}
				seen := map[*ssa.BasicBlock]bool{}
				var walk func(b *ssa.BasicBlock) bool // true: header reached without work
				walk = func(b *ssa.BasicBlock) bool {
					if b == l.Header {
						return true
					}
					if seen[b] || !l.Blocks[b] {
						return false
					}
					seen[b] = true
					for _, in := range b.Instrs {
						if isWork(in) {
							return false
						}
					}
					for _, s2 := range b.Succs {
						if walk(s2) {
							return true
						}
					}
					return false
				}
				if walk(s) {
					ok = false
				}
			}
			c.R.Check(ok, "gen:"+g.Name+"/buildRepresentationGroups/iteration", c.ipos(l.Header.Instrs[0]), "every iteration files or reports", "a representation can be skipped without being filed under a type and without an error: its slot stays null and the client is told nothing")
		}
	}
	// (b) the result slot is written after everything that can still fail for that entity
	c.R.Rule("slot-written-after-fallible-steps", "per federation executor: in resolveManyEntities no error test follows the store into the result list within the same iteration (a @requires population that fails must leave the slot null)", len(feds))
	for _, g := range feds {
		fn := c.genFunc(g, "resolveManyEntities")
		if fn == nil {
			continue
		}
		var bad ssa.Instruction
		n := 0
		for _, body := range an.WithClosures(fn) {
			for _, b := range body.Blocks {
				for _, in := range b.Instrs {
					st, ok := in.(*ssa.Store)
					if !ok {
						continue
					}
					ia, ok := st.Addr.(*ssa.IndexAddr)
					if !ok || !strings.HasSuffix(ia.X.Type().String(), "fedruntime.Entity") {
						continue
					}
					n++
					for _, e := range an.CondEdges(body) {
						empty, isErr := an.EmptinessFact(e.Fact, func(v ssa.Value) bool { return an.IsErrorType(v.Type()) })
						if !isErr || empty {
							continue
						}
						if reachesWithinIteration(in, e.If) {
							bad = in
						}
					}
				}
			}
		}
		key := "gen:" + g.Name + "/resolveManyEntities/slot-last"
		if n == 0 {
			c.R.Note(key, c.pos(fn.Pos()), "no multi entity in this configuration")
			c.R.OKTrivial(key, c.pos(fn.Pos()), "no store into the result list")
			continue
		}
		if bad != nil {
			c.R.Bad(key, c.ipos(bad), "the entity is stored into the result list before a step that can still fail for it: when the @requires population fails the slot holds a half-populated entity next to the error instead of null")
		} else {
			c.R.OK(key, c.pos(fn.Pos()), "nothing fallible follows the store within an iteration")
		}
	}
	// (d) a key that cannot be used does not end the search for a resolver: the only error exit is the one after all keys
	c.R.Rule("resolver-search-one-error-exit", "per federation executor: each entityResolverNameFor* function has exactly one return with a non-nil error, and it is not inside a loop (a missing or all-null key moves on to the next @key)", len(feds))
	for _, g := range feds {
		k := 0
		for _, fn := range c.genFuncs(g) {
			if fn.Parent() != nil || !strings.HasPrefix(fn.Name(), "entityResolverNameFor") {
				continue
			}
			k++
			var errRets []*ssa.Return
			for _, r := range an.Returns(fn) {
				if len(r.Results) == 2 && !an.IsNilConst(r.Results[1]) {
					errRets = append(errRets, r)
				}
			}
			c.R.Check(len(errRets) == 1, "gen:"+g.Name+"/"+fn.Name()+"/error-exits", c.pos(fn.Pos()), "one error exit after all keys", sprintf("%d returns carry an error: a representation that cannot use an earlier @key is refused before the later keys are tried", len(errRets)))
		}
		if k == 0 {
			c.R.Note("gen:"+g.Name+"/entityResolverNameFor", "-", "no resolver-name function in this configuration")
		}
	}
	// (e) a recovered panic is reported once: the handler that hands the error to its caller does not report it itself
	c.R.Rule("recovered-error-reported-once", "per federation executor: a deferred recover handler of resolveEntity / resolveManyEntities that stores the recovered error into the function's error result does not also call ec.Error (the caller reports it)", len(feds))
	for _, g := range feds {
		for _, name := range []string{"resolveEntity", "resolveManyEntities"} {
			fn := c.genFunc(g, name)
			if fn == nil {
				continue
			}
			handlers := append([]*ssa.Function{}, fn.AnonFuncs...)
			for _, b := range fn.Blocks {
				for _, in := range b.Instrs {
					if d, ok := in.(*ssa.Defer); ok {
						if sc := d.Call.StaticCallee(); sc != nil && sc.Pkg == fn.Pkg && len(sc.Blocks) > 0 {
							handlers = append(handlers, sc) // a named handler shared by several functions
						}
					}
				}
			}
			for _, cl := range handlers {
				hasRecover := len(an.CallsIn(cl, func(_ ssa.CallInstruction, ci an.CalleeInfo) bool {
					return strings.HasSuffix(ci.FullName(), "OperationContext).Recover") || strings.HasSuffix(ci.FullName(), ".Recover")
				})) > 0
				if !hasRecover {
					continue
				}
				reports := an.CallsIn(cl, func(_ ssa.CallInstruction, ci an.CalleeInfo) bool {
					return strings.HasSuffix(ci.FullName(), "OperationContext).Error")
				})
				pos := c.pos(cl.Pos())
				if len(reports) > 0 {
					pos = c.ipos(reports[0])
				}
				c.R.Check(len(reports) == 0, "gen:"+g.Name+"/"+name+"/handler-reports", pos, "hands the error to the caller only", "the recover handler reports the error itself and also hands it to its caller, which reports it again: one panicking entity resolver yields two identical errors")
			}
		}
	}
	if !plugin {
		return
	}
	// (f) a flag that one entity sets for the whole plugin is only ever set, never overwritten with one entity's answer
	c.R.Rule("plugin-flag-only-set", "plugin/federation: the plugin-wide field usesRequires is only ever assigned the constant true (assigning one entity's `len(Requires) > 0` lets the entity that happens to be visited last, in map order, decide for all)", 1)
	k := 0
	for _, fn := range c.moduleFuncs(func(p string) bool { return p == modPath("plugin/federation") }) {
		for _, b := range fn.Blocks {
			for _, in := range b.Instrs {
				st, ok := in.(*ssa.Store)
				if !ok {
					continue
				}
				fa, ok := st.Addr.(*ssa.FieldAddr)
				if !ok || fieldNameOf(fa) != "usesRequires" {
					continue
				}
				k++
				kc, isC := st.Val.(*ssa.Const)
				c.R.Check(isC && kc.Value != nil && kc.Value.String() == "true", c.fnKey(fn)+"/usesRequires", c.ipos(in), "set to true", "usesRequires is assigned a per-entity value: whether resolvers get their federationRequires argument depends on which entity the map iteration visits last — two runs over the same schema generate different code")
			}
		}
	}
	if k == 0 {
		c.R.Fail("plugin-flag-only-set: no store to usesRequires found in plugin/federation")
	}
	// (c) `usesRequires` style flags of the federation plugin: a length is compared with 0
	c.R.Rule("requires-compared-with-zero", "plugin/federation: len(x.Requires) is compared with 0 only", 1)
	m := 0
	for _, fn := range c.moduleFuncs(func(p string) bool { return p == modPath("plugin/federation") }) {
		for _, b := range fn.Blocks {
			for _, in := range b.Instrs {
				bo, ok := in.(*ssa.BinOp)
				if !ok {
					continue
				}
				for _, pr := range [][2]ssa.Value{{bo.X, bo.Y}, {bo.Y, bo.X}} {
					call, ok := pr[0].(*ssa.Call)
					if !ok {
						continue
					}
					bi, ok := call.Call.Value.(*ssa.Builtin)
					if !ok || bi.Name() != "len" {
						continue
					}
					fa, ok := loadAddr(an.Strip(call.Call.Args[0])).(*ssa.FieldAddr)
					if !ok || fieldNameOf(fa) != "Requires" {
						continue
					}
					k, isC := an.ConstInt(pr[1])
					if !isC {
						continue
					}
					m++
					c.R.Check(k == 0, c.fnKey(fn)+"/len-requires", c.ipos(in), "compared with 0", sprintf("len(Requires) is compared with %d: an entity with exactly one @requires field is treated as having none, its resolver gets no federationRequires argument and the field silently answers its zero value", k))
				}
			}
		}
	}
	if m == 0 {
		c.R.Fail("requires-compared-with-zero: no comparison of len(Requires) found in plugin/federation")
	}
}

// callSitesOf: the static call sites of fn in its own package (ssa.Function values keep no referrer list).
func (c *Ctx) callSitesOf(fn *ssa.Function) []ssa.CallInstruction {
	var out []ssa.CallInstruction
	if fn == nil || fn.Pkg == nil {
		return nil
	}
	for f := range allFuncsOfPkg(fn.Pkg) {
		for _, b := range f.Blocks {
			for _, in := range b.Instrs {
				if cl, ok := in.(ssa.CallInstruction); ok && cl.Common().StaticCallee() == fn {
					out = append(out, cl)
				}
			}
		}
	}
	return out
}
