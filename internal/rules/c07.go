package rules

import (
	"go/constant"
	"go/token"
	"go/types"
	"sort"
	"strings"

	"golang.org/x/tools/go/ssa"

	"verif/internal/an"
	"verif/internal/pipeline"
)

func init() {
	register(&Property{
		ID:      "C07",
		NeedGen: true,
		Runtime: RuntimeCore,
		Run:     runC07,
		Explanation: "No request-path code retains or mutates state shared between requests, apart from the caches and the pool, and those are reset/immutable: (pool-reset) before every sync.Pool.Put(x) each field of x's struct type " +
			"(enumerated from go/types) is assigned its zero value with no later write, and the executor does not retain the pooled pointer; (ast-immutable) no gqlgen or generated function stores into a field or element " +
			"of a gqlparser ast node it did not allocate, and CollectedField.Selections is only ever extended from itself (never aliased to an AST slice whose spare capacity an append would overwrite); " +
			"(no-global-writes) nothing reachable from a request root stores to a package-level variable of the gqlgen module or of gqlparser; (cache-key) parseQuery and its gqlgen callees never read variables or " +
			"the operation name, and the query cache is keyed by exactly the query-text parameter. (config-immutable) no value read from a field of a Transport.Do receiver is written through (map update, element store, field store), followed through same-module calls.",
		NotDecided:  "equality with a fresh-server oracle; user extensions and resolvers; contents of the APQ cache (C15)",
		Assumptions: []string{"the reachability rules use the CHA call graph (over-approximation) restricted to gqlgen's runtime packages; user code is opaque"},
	})
}

func runC07(c *Ctx) {
	c07PoolReset(c)
	c07ASTImmutable(c)
	c07NoGlobalWrites(c)
	c07CacheKey(c)
	c07ConfigImmutable(c)
	// the caches only ever hold validated documents (C03/cache-after-validate); per-operation state of a websocket connection
	// is not shared between operations (C11/per-operation-message)
	c03Cache(c)
	c11PerOperationMessage(c)
	noSharedErrorValues(c)
	noMapCacheInRuntime(c)
	// a persisted query is registered only under its own hash (C15/add-guarded)
	c15AddGuardedRule(c)
	// state shared by the operations of one connection / by a transport and its goroutine (C10, C11, C12)
	nilFuncCalls(c, "nil-func-call", pkgTransport)
	c11CloseOnce(c)
	c11WriteLock(c)
	c12WriterGoroutineBounded(c)
	lruIsSynchronised(c)
	connectionHeadersAfterDecode(c)
}

func isZeroValue(v ssa.Value) bool {
	switch x := v.(type) {
	case *ssa.Const:
		if x.Value == nil {
			return true
		}
		switch x.Value.Kind() {
		case constant.String:
			return constant.StringVal(x.Value) == ""
		case constant.Bool:
			return !constant.BoolVal(x.Value)
		case constant.Int, constant.Float:
			return constant.Sign(x.Value) == 0
		}
		return false
	case *ssa.UnOp:
		if x.Op != token.MUL {
			return false
		}
		al, ok := x.X.(*ssa.Alloc)
		if !ok {
			return false
		}
		// a composite literal T{} : the cell is never written (directly or through a field address)
		for _, r := range an.Referrers(al) {
			switch y := r.(type) {
			case *ssa.Store:
				if y.Addr == ssa.Value(al) {
					return false
				}
			case *ssa.FieldAddr, *ssa.IndexAddr:
				for _, r2 := range an.Referrers(y.(ssa.Value)) {
					if _, ok := r2.(*ssa.Store); ok {
						return false
					}
				}
			}
		}
		return true
	}
	return false
}

func c07PoolReset(c *Ctx) {
	c.R.Rule("pool-reset", "for every (*sync.Pool).Put(x) in the gqlgen runtime: every field of x's struct type has been stored its zero value before the Put with no later store to it, and x is not retained by the executor", 7)
	nput := 0
	for _, fn := range c.moduleFuncs(isRuntimePkg) {
		for _, call := range an.CallsIn(fn, func(_ ssa.CallInstruction, ci an.CalleeInfo) bool { return ci.FullName() == "(*sync.Pool).Put" }) {
			nput++
			x := an.Strip(call.Common().Args[1])
			pt, ok := x.Type().Underlying().(*types.Pointer)
			if !ok {
				c.R.Unknown(shortFn(topFn(fn))+"/Put", c.ipos(call), "pooled value is not a pointer to a struct")
				continue
			}
			st, ok := pt.Elem().Underlying().(*types.Struct)
			if !ok {
				c.R.Unknown(shortFn(topFn(fn))+"/Put", c.ipos(call), "pooled value is not a pointer to a struct")
				continue
			}
			for i := 0; i < st.NumFields(); i++ {
				fname := st.Field(i).Name()
				key := shortFn(topFn(fn)) + "/Put:" + types.TypeString(pt.Elem(), func(p *types.Package) string { return p.Name() }) + "." + fname
				// the last store to this field of x before the Put, in this function
				var last *ssa.Store
				bad := ""
				for _, b := range fn.Blocks {
					for _, in := range b.Instrs {
						s, ok := in.(*ssa.Store)
						if !ok {
							continue
						}
						// a store to this field, or a store of a whole struct value to *x (which assigns every field)
						if fa, ok := s.Addr.(*ssa.FieldAddr); ok {
							if fa.Field != i || !an.SameVar(fa.X, x) {
								continue
							}
						} else if !an.SameVar(s.Addr, x) {
							continue
						}
						if !an.Before(s, call) {
							if an.CanReach(s, call) {
								bad = "a store to the field at " + c.ipos(s) + " reaches the Put on some path only"
							}
							continue
						}
						if last == nil || an.Before(last, s) {
							last = s
						}
					}
				}
				switch {
				case bad != "":
					c.R.Bad(key, c.ipos(call), bad)
				case last == nil:
					c.R.Bad(key, c.ipos(call), "field "+fname+" is not reset before the value returns to the pool: the next request that reuses it (and does not send this member) sees this request's "+fname)
				case !isZeroValue(last.Val):
					c.R.Bad(key, c.ipos(last), "field "+fname+" is assigned a non-zero value before the Put")
				default:
					c.R.OK(key, c.ipos(last), "reset to the zero value before Put")
				}
			}
		}
	}
	if nput == 0 {
		c.R.Fail("unresolved anchor: no sync.Pool.Put in the runtime packages")
	}
	// the executor must not retain the pooled *RawParams (followed into the module functions it is handed to)
	if fn := c.fn(pkgExecutor, "*Executor.CreateOperationContext"); fn != nil {
		params := ssa.Value(fn.Params[len(fn.Params)-1])
		bad := c.retains(params, 0, map[ssa.Value]bool{})
		c.R.Check(bad == "", "Executor.CreateOperationContext/does-not-retain-params", c.pos(fn.Pos()), "only field reads, and the documented extension hook, use the pooled pointer", bad)
	}
}

func isASTNodePtr(t types.Type) bool {
	p, ok := t.Underlying().(*types.Pointer)
	if !ok {
		return false
	}
	n, ok := p.Elem().(*types.Named)
	if !ok || n.Obj().Pkg() == nil {
		return false
	}
	_, isStruct := n.Underlying().(*types.Struct)
	return isStruct && n.Obj().Pkg().Path() == pkgAST
}

// storeIntoSharedAST: the store's address is a field/element reached from an ast node that this
// function did not allocate itself.
func storeIntoSharedAST(st *ssa.Store) (bool, string) {
	addr := st.Addr
	viaAST := false
	for i := 0; i < 16; i++ {
		switch x := addr.(type) {
		case *ssa.FieldAddr:
			if isASTNodePtr(x.X.Type()) {
				viaAST = true
			}
			addr = x.X
			continue
		case *ssa.IndexAddr:
			addr = x.X
			continue
		case *ssa.UnOp:
			if x.Op == token.MUL {
				// a load: of a local variable cell (follow what was stored) or of a field (keep walking)
				if an.IsLocalCell(x.X) {
					sts := an.CellStores(x.X)
					if len(sts) == 0 {
						return false, ""
					}
					for _, s := range sts {
						if ownAllocation(s.Val) {
							continue
						}
						if viaAST || isASTNodePtr(s.Val.Type()) {
							return true, "variable " + an.RootAlloc(x.X).Name()
						}
					}
					return false, ""
				}
				addr = x.X
				continue
			}
		case *ssa.Alloc, *ssa.MakeSlice:
			return false, "" // the node/array itself was allocated here
		}
		break
	}
	if !viaAST {
		return false, ""
	}
	return true, addr.Name()
}

func ownAllocation(v ssa.Value) bool {
	switch v.(type) {
	case *ssa.Alloc, *ssa.MakeSlice, *ssa.MakeMap:
		return true
	}
	return false
}

func c07ASTImmutable(c *Ctx) {
	c.R.Rule("ast-immutable", "no function of gqlgen's runtime packages or of a materialised executor stores into a field/element of a gqlparser ast node it did not allocate; CollectedField.Selections is only assigned append(<itself or nil>, ...)", 4)
	scope := func(p string) bool {
		if isRuntimePkg(p) {
			return true
		}
		for _, g := range c.Gen {
			if g.Path == p {
				return true
			}
		}
		return false
	}
	n, nSel := 0, 0
	for _, fn := range c.W.FuncsIn(func(p string) bool { return scope(p) || strings.HasPrefix(p, modPath("verif_fixtures/astwrite")) }) {
		isFx := strings.Contains(fn.String(), "verif_fixtures")
		for _, b := range fn.Blocks {
			for _, in := range b.Instrs {
				st, ok := in.(*ssa.Store)
				if !ok {
					continue
				}
				n++
				if shared, root := storeIntoSharedAST(st); shared {
					if isFx {
						c.R.OK("fixture:astwrite", c.ipos(st), "positive example flagged")
					} else {
						c.R.Bad(shortFn(topFn(fn))+"/store-into-ast", c.ipos(st), "store into a gqlparser AST node reached from "+root+": parsed documents are cached and shared between requests, so this request changes what later requests execute")
					}
				}
				if ok2, key2, why := selectionsStore(c, fn, st); ok2 {
					nSel++
					c.R.Check(why == "", key2, c.ipos(st), "extended from itself", why)
				}
			}
		}
	}
	c.R.OK("scan", "-", sprintf("%d stores examined in runtime + materialised packages, %d assignments of CollectedField.Selections", n, nSel))
}

func c07NoGlobalWrites(c *Ctx) {
	c.R.Rule("no-global-writes", "no function of the gqlgen runtime reachable (CHA) from a request root stores to a package-level variable of the gqlgen module, or calls a gqlparser function that stores to a gqlparser package-level variable", 2)
	roots := c.requestRoots()
	if len(roots) == 0 {
		return
	}
	mut := c.globalMutators("github.com/vektah/gqlparser/v2")
	scan := func(roots []*ssa.Function, follow func(string) bool) []string {
		var hits []string
		reach := c.reachable(roots, func(f *ssa.Function) bool { return follow(pipeline.FuncPkgPath(f)) })
		for fn := range reach {
			if !follow(pipeline.FuncPkgPath(fn)) {
				continue
			}
			for _, b := range fn.Blocks {
				for _, in := range b.Instrs {
					switch x := in.(type) {
					case *ssa.Store:
						if g := globalRoot(x.Addr); g != nil && g.Pkg != nil && pipeline.InModule(g.Pkg.Pkg.Path()) {
							hits = append(hits, shortFn(topFn(fn))+"/store:"+g.Pkg.Pkg.Name()+"."+g.Name()+"|"+c.ipos(x)+"|gqlgen's package-level "+g.Name())
						}
					case *ssa.MapUpdate:
						if g := globalRoot(x.Map); g != nil && g.Pkg != nil && pipeline.InModule(g.Pkg.Pkg.Path()) {
							hits = append(hits, shortFn(topFn(fn))+"/mapstore:"+g.Pkg.Pkg.Name()+"."+g.Name()+"|"+c.ipos(x)+"|gqlgen's package-level map "+g.Name())
						}
					case ssa.CallInstruction:
						// the address of a package-level struct/map/slice handed to a call (a decode target): the callee writes it
						for _, a := range x.Common().Args {
							a = an.Strip(a)
							if mi, ok := a.(*ssa.MakeInterface); ok {
								a = an.Strip(mi.X)
							}
							g, isG := a.(*ssa.Global)
							if !isG || g.Pkg == nil || !pipeline.InModule(g.Pkg.Pkg.Path()) {
								continue
							}
							el := g.Type().Underlying().(*types.Pointer).Elem()
							if n, ok := el.(*types.Named); ok && n.Obj().Pkg() != nil && (n.Obj().Pkg().Path() == "sync" || n.Obj().Pkg().Path() == "sync/atomic") {
								continue
							}
							switch el.Underlying().(type) {
							case *types.Struct, *types.Map, *types.Slice, *types.Array:
								hits = append(hits, shortFn(topFn(fn))+"/addr:"+g.Pkg.Pkg.Name()+"."+g.Name()+"|"+c.ipos(x)+"|(through the address handed to a call) gqlgen's package-level "+g.Name())
							}
						}
						if callee := x.Common().StaticCallee(); callee != nil {
							if g, bad := mut[callee]; bad {
								hits = append(hits, shortFn(topFn(fn))+"→"+shortFn(callee)+"|"+c.ipos(x)+"|gqlparser's package-level "+g)
							}
							// a mutating method of a package-level sync.Map (a process-wide cache filled while serving requests)
							if isSyncMapMutator(callee) && len(x.Common().Args) > 0 {
								if g := globalRoot(x.Common().Args[0]); g != nil && g.Pkg != nil && pipeline.InModule(g.Pkg.Pkg.Path()) {
									hits = append(hits, shortFn(topFn(fn))+"/syncmap:"+g.Pkg.Pkg.Name()+"."+g.Name()+"|"+c.ipos(x)+"|gqlgen's package-level sync.Map "+g.Name())
								}
							}
						}
					}
				}
			}
		}
		sort.Strings(hits)
		return hits
	}
	// reviewed exclusion (one package, one reason): protoc-generated descriptor tables of the optional Apollo tracing
	// extension; they are filled once under sync.Once from package init and are reached from request roots only through
	// CHA's over-approximation of protoreflect interface calls.
	notProto := func(p string) bool {
		return isRuntimePkg(p) && p != pkgHandler+"/apollofederatedtracingv1/generated"
	}
	hits := scan(roots, notProto)
	for _, h := range hits {
		p := strings.Split(h, "|")
		c.R.Bad(p[0], p[1], "request-path code writes "+p[2]+": state shared by every request and every server in the process")
	}
	c.R.OK("request-roots/scan", "-", sprintf("%d roots scanned, %d global writes found", len(roots), len(hits)))
	if fr := c.W.Func(modPath("verif_fixtures/globalrule"), "Root"); fr == nil {
		c.R.Fail("fixture verif_fixtures/globalrule.Root not loaded")
	} else {
		fh := scan([]*ssa.Function{fr}, func(p string) bool { return strings.HasPrefix(p, modPath("verif_fixtures")) })
		c.R.Check(len(fh) == 2, "fixture:globalrule", c.pos(fr.Pos()), "positive examples flagged: "+strings.Join(fh, " ; "), sprintf("the positive fixture was flagged %d times, expected 2: the rule has gone blind", len(fh)))
	}
}

func c07CacheKey(c *Ctx) {
	c.R.Rule("cache-key", "parseQuery and the gqlgen functions it reaches never read RawParams.Variables/OperationName or OperationContext.Variables/OperationName, and both queryCache.Get and queryCache.Add are keyed by parseQuery's own query-text parameter", 3)
	parse := c.fn(pkgExecutor, "*Executor.parseQuery")
	if parse == nil {
		return
	}
	reach := c.reachable([]*ssa.Function{parse}, func(f *ssa.Function) bool { return isRuntimePkg(pipeline.FuncPkgPath(f)) })
	bad := ""
	for fn := range reach {
		if !isRuntimePkg(pipeline.FuncPkgPath(fn)) {
			continue
		}
		for _, b := range fn.Blocks {
			for _, in := range b.Instrs {
				fa, ok := in.(*ssa.FieldAddr)
				if !ok {
					continue
				}
				name := fieldNameOf(fa)
				if (name == "Variables" || name == "OperationName") && (an.NamedIs(fa.X.Type(), pkgGraphql, "RawParams") || an.NamedIs(fa.X.Type(), pkgGraphql, "OperationContext")) {
					// the cache implementations and time helpers are reached through interfaces (CHA): only count gqlgen code that parseQuery can actually call
					bad = shortFn(fn) + " reads ." + name + " at " + c.ipos(fa)
				}
			}
		}
	}
	c.R.Check(bad == "", "parseQuery/reads-no-variables", c.pos(parse.Pos()), sprintf("%d reachable gqlgen functions read neither variables nor the operation name", len(reach)), "document parsing/caching depends on per-request data: "+bad+" — a cached document would differ between requests with the same text")
	var q ssa.Value
	for _, p := range parse.Params {
		if b, ok := p.Type().Underlying().(*types.Basic); ok && b.Kind() == types.String {
			q = p
		}
	}
	for _, call := range an.CallsIn(parse, func(_ ssa.CallInstruction, ci an.CalleeInfo) bool {
		n := ci.FullName()
		return strings.Contains(n, pkgGraphql+".Cache[") && (strings.HasSuffix(n, ".Get") || strings.HasSuffix(n, ".Add"))
	}) {
		keyArg := call.Common().Args[1]
		c.R.Check(q != nil && keyArg == q, "parseQuery→"+an.CalleeOf(call).Method.Name()+"/key", c.ipos(call), "keyed by the query-text parameter", "the query cache is keyed by something other than the exact query text")
	}
}

// selectionsStore: st assigns CollectedField.Selections; returns a reason if the assignment can alias an AST-owned slice.
// Shared by C07 (documents are cached and shared between requests) and C06 (collectFields runs concurrently for the
// elements of a list, all of which collect from the same parsed selection set).
func selectionsStore(c *Ctx, fn *ssa.Function, st *ssa.Store) (bool, string, string) {
	fa, ok := st.Addr.(*ssa.FieldAddr)
	if !ok || fieldNameOf(fa) != "Selections" || !an.NamedIs(fa.X.Type(), pkgGraphql, "CollectedField") {
		return false, "", ""
	}
	bad := ""
	for _, d := range an.Defs(st.Val) {
		call, isCall := d.(*ssa.Call)
		if an.IsNilConst(d) {
			continue
		}
		if !isCall {
			bad = "assigned a slice that is not the result of append (" + d.Name() + "): CollectedField.Selections aliases a slice of the parsed document"
			continue
		}
		bi, isB := call.Call.Value.(*ssa.Builtin)
		if !isB || bi.Name() != "append" {
			bad = "assigned the result of " + an.CalleeOf(call).FullName()
			continue
		}
		first := call.Call.Args[0]
		if an.IsNilConst(first) {
			continue
		}
		la, isField := loadAddr(first).(*ssa.FieldAddr)
		if !isField || fieldNameOf(la) != "Selections" || !an.NamedIs(la.X.Type(), pkgGraphql, "CollectedField") {
			bad = "append's destination is not CollectedField.Selections itself: appending to a slice taken from the AST overwrites the spare capacity of the shared document"
		}
	}
	return true, shortFn(topFn(fn)) + "/store:CollectedField.Selections", bad
}

// retains: how the pointer v (a parameter) may outlive the call — stored, captured, sent, boxed, handed to a goroutine — looking
// into module functions it is passed to (depth-bounded); "" if it is only read.
func (c *Ctx) retains(v ssa.Value, depth int, seen map[ssa.Value]bool) string {
	if seen[v] {
		return ""
	}
	seen[v] = true
	for _, r := range an.Referrers(v) {
		switch x := r.(type) {
		case *ssa.Store:
			if x.Val == v {
				// spilled into a cell of the function because a literal captures the variable: follow the cell
				if cell, ok := x.Addr.(*ssa.Alloc); ok && cell.Parent() == x.Parent() {
					esc := ""
					for _, ref := range an.Referrers(cell) {
						switch y := ref.(type) {
						case *ssa.Store, *ssa.DebugRef:
						case *ssa.UnOp:
							if w := c.retains(y, depth, seen); w != "" {
								esc = w
							}
						case *ssa.MakeClosure:
							if w := c.closureRetains(y, cell, depth, seen); w != "" {
								esc = w
							}
						default:
							esc = "the cell holding the *RawParams parameter escapes at " + c.ipos(ref)
						}
					}
					if esc != "" {
						return esc
					}
					continue
				}
				return "the *RawParams parameter is stored at " + c.ipos(x)
			}
		case *ssa.MakeClosure:
			return "the *RawParams parameter is captured by a closure at " + c.ipos(x)
		case *ssa.Send:
			return "the *RawParams parameter is sent on a channel"
		case *ssa.MakeInterface:
			return "the *RawParams parameter escapes into an interface at " + c.ipos(x)
		case *ssa.Go:
			return "the *RawParams parameter is passed to a goroutine"
		case *ssa.Defer:
			return "the *RawParams parameter is kept by a deferred call at " + c.ipos(x)
		case *ssa.Phi:
			if w := c.retains(x, depth, seen); w != "" {
				return w
			}
		case *ssa.Call:
			callee := x.Call.StaticCallee()
			if callee == nil || !pipeline.InModule(pipeline.FuncPkgPath(callee)) {
				continue
			}
			if depth >= 3 || len(callee.Blocks) == 0 {
				return "the *RawParams parameter is passed on to " + shortFn(callee) + " (not analysed for retention)"
			}
			for i, a := range x.Call.Args {
				if a == v && i < len(callee.Params) {
					if w := c.retains(callee.Params[i], depth+1, seen); w != "" {
						return w + " (reached through " + shortFn(callee) + ")"
					}
				}
			}
		}
	}
	return ""
}

func isSyncMapMutator(f *ssa.Function) bool {
	switch f.String() {
	case "(*sync.Map).Store", "(*sync.Map).LoadOrStore", "(*sync.Map).LoadAndDelete", "(*sync.Map).Delete", "(*sync.Map).Swap",
		"(*sync.Map).CompareAndSwap", "(*sync.Map).CompareAndDelete", "(*sync.Map).Clear":
		return true
	}
	return false
}

// globalWritesIn: the package-level writes (stores, map updates, sync.Map mutators on module globals) made by the functions of
// one package, init functions excluded.
func (c *Ctx) globalWritesIn(pkg string) [][2]string {
	var out [][2]string
	for _, fn := range c.moduleFuncs(func(p string) bool { return p == pkg }) {
		if topFn(fn).Name() == "init" || strings.HasPrefix(topFn(fn).Name(), "init#") {
			continue
		}
		for _, b := range fn.Blocks {
			for _, in := range b.Instrs {
				switch x := in.(type) {
				case *ssa.Store:
					if g := globalRoot(x.Addr); g != nil && g.Pkg != nil && pipeline.InModule(g.Pkg.Pkg.Path()) {
						out = append(out, [2]string{shortFn(topFn(fn)) + "/store:" + g.Name(), c.ipos(x)})
					}
				case *ssa.MapUpdate:
					if g := globalRoot(x.Map); g != nil && g.Pkg != nil && pipeline.InModule(g.Pkg.Pkg.Path()) {
						out = append(out, [2]string{shortFn(topFn(fn)) + "/mapstore:" + g.Name(), c.ipos(x)})
					}
				case ssa.CallInstruction:
					if callee := x.Common().StaticCallee(); callee != nil && isSyncMapMutator(callee) && len(x.Common().Args) > 0 {
						if g := globalRoot(x.Common().Args[0]); g != nil && g.Pkg != nil && pipeline.InModule(g.Pkg.Pkg.Path()) {
							out = append(out, [2]string{shortFn(topFn(fn)) + "/syncmap:" + g.Name(), c.ipos(x)})
						}
					}
				}
			}
		}
	}
	return out
}

// closureRetains: a literal that captured the cell holding the pooled pointer is acceptable when the literal itself is only
// called, or handed to a module function that only calls it, and what it does with the pointer is not a retention either.
func (c *Ctx) closureRetains(mc *ssa.MakeClosure, cell *ssa.Alloc, depth int, seen map[ssa.Value]bool) string {
	cl, _ := mc.Fn.(*ssa.Function)
	if cl == nil {
		return "captured by an unknown closure"
	}
	// uses of the literal
	var onlyCalled func(v ssa.Value, d int) string
	onlyCalled = func(v ssa.Value, d int) string {
		for _, r := range an.Referrers(v) {
			switch x := r.(type) {
			case *ssa.DebugRef:
			case *ssa.Store:
				// kept in a local variable: follow its loads
				if a, ok := x.Addr.(*ssa.Alloc); ok && x.Val == v {
					for _, ld := range an.CellLoads(a) {
						if w := onlyCalled(ld, d+1); w != "" {
							return w
						}
					}
					continue
				}
				return "the literal that captured the *RawParams parameter is stored at " + c.ipos(x)
			case *ssa.Call:
				if x.Call.Value == v {
					continue
				}
				h := x.Call.StaticCallee()
				if h == nil || !pipeline.InModule(pipeline.FuncPkgPath(h)) || len(h.Blocks) == 0 || d > 2 {
					return "the literal that captured the *RawParams parameter is handed to " + c.ipos(x)
				}
				for i, a := range x.Call.Args {
					if a == v && i < len(h.Params) {
						if w := onlyCalled(h.Params[i], d+1); w != "" {
							return w
						}
					}
				}
			default:
				return "the literal that captured the *RawParams parameter escapes at " + c.ipos(r)
			}
		}
		return ""
	}
	if w := onlyCalled(mc, 0); w != "" {
		return w
	}
	// what the literal does with the pointer
	for i, b := range mc.Bindings {
		if b != ssa.Value(cell) || i >= len(cl.FreeVars) {
			continue
		}
		for _, r := range an.Referrers(cl.FreeVars[i]) {
			if ld, ok := r.(*ssa.UnOp); ok {
				if w := c.retains(ld, depth+1, seen); w != "" {
					return w
				}
			}
		}
	}
	return ""
}
