package rules

import (
	"go/ast"
	"go/constant"
	"go/token"
	"go/types"
	"strings"

	gast "github.com/vektah/gqlparser/v2/ast"
	"github.com/vektah/gqlparser/v2/parser"
	"golang.org/x/tools/go/ssa"

	"verif/internal/an"
)

// swappedFieldArgs: where a call hands two fields of one value to two parameters that carry those fields' names
// (`f(…, sel.Name, sel.Alias, …)` to `func f(…, name, alias string, …)`), each field goes to the parameter of its own name.
func swappedFieldArgs(c *Ctx, rule string, pkgs ...string) {
	c.R.Rule(rule, "in "+strings.Join(shortPkgs(pkgs), ", ")+": when a call passes X.Name and X.Alias (fields named like two of the callee's parameters) each goes to the parameter of its own name", 1)
	in := func(p string) bool {
		for _, q := range pkgs {
			if p == q {
				return true
			}
		}
		return false
	}
	n := 0
	for _, fn := range c.moduleFuncs(in) {
		for _, call := range an.CallsIn(fn, func(_ ssa.CallInstruction, ci an.CalleeInfo) bool {
			return ci.Static != nil && ci.Static.Pkg != nil && in(ci.Static.Pkg.Pkg.Path()) && len(ci.Static.Params) > 1
		}) {
			callee := call.Common().StaticCallee()
			pname := map[string]int{}
			for i, p := range callee.Params {
				pname[strings.ToLower(p.Name())] = i
			}
			args := call.Common().Args
			for i, a := range args {
				fa, ok := loadAddr(an.Strip(a)).(*ssa.FieldAddr)
				if !ok || i >= len(callee.Params) {
					continue
				}
				fname := strings.ToLower(fieldNameOf(fa))
				j, named := pname[fname]
				if !named {
					continue
				}
				n++
				if j != i && j < len(args) {
					// a swap: the parameter of this field's name receives, in turn, a field named like the parameter this one went to
					fb, okb := loadAddr(an.Strip(args[j])).(*ssa.FieldAddr)
					if !okb || strings.ToLower(fieldNameOf(fb)) != strings.ToLower(callee.Params[i].Name()) {
						c.R.OK(shortFn(topFn(fn))+"→"+callee.Name()+"/"+fname, c.ipos(call), "not a swap: parameter "+callee.Params[j].Name()+" does not receive a field named "+callee.Params[i].Name())
						continue
					}
				}
				c.R.Check(j == i, shortFn(topFn(fn))+"→"+callee.Name()+"/"+fname, c.ipos(call), "field "+fname+" goes to parameter "+fname,
					"the field ."+fieldNameOf(fa)+" is passed for parameter `"+callee.Params[i].Name()+"` although the callee has a parameter `"+callee.Params[j].Name()+"`: the two arguments are swapped (fields are merged by the wrong key: aliases collide with names)")
			}
		}
	}
	if n < 1 {
		c.R.Fail("%s: no such call found", rule)
	}
}

// numericCaseSets: an integer or float reaches a scalar unmarshaler in three Go forms — int64 (a literal in the document),
// json.Number (a variable, decoded with UseNumber) and int (a default value injected by generated code).  A type switch of a
// graphql.Unmarshal* function that accepts one of them accepts all three.
func numericCaseSets(c *Ctx) {
	c.R.Rule("numeric-forms-complete", "package graphql: an Unmarshal* function whose type switch has a case for one of int64 / json.Number / int has cases for all three", 6)
	n := 0
	for _, fn := range c.moduleFuncs(func(p string) bool { return p == pkgGraphql }) {
		if fn.Parent() != nil || !strings.HasPrefix(fn.Name(), "Unmarshal") || len(fn.Params) == 0 {
			continue
		}
		v := fn.Params[len(fn.Params)-1]
		if _, isIface := v.Type().Underlying().(*types.Interface); !isIface {
			continue
		}
		if rb, ok := fn.Signature.Results().At(0).Type().Underlying().(*types.Basic); !ok || rb.Info()&types.IsNumeric == 0 {
			continue
		}
		got := map[string]bool{}
		for _, b := range fn.Blocks {
			for _, in := range b.Instrs {
				ta, ok := in.(*ssa.TypeAssert)
				if !ok || !ta.CommaOk {
					continue
				}
				// the parameter itself, or an interface value the function derived from it (a preliminary switch that
				// widens json.Number to string and int to int64 hands a new `any` to the main switch)
				if _, isIface := ta.X.Type().Underlying().(*types.Interface); !isIface {
					continue
				}
				got[types.TypeString(ta.AssertedType, func(p *types.Package) string { return p.Name() })] = true
			}
		}
		if !got["int64"] && !got["json.Number"] && !got["int"] {
			continue
		}
		n++
		var missing []string
		for _, t := range []string{"int64", "json.Number", "int"} {
			if !got[t] {
				missing = append(missing, t)
			}
		}
		c.R.Check(len(missing) == 0, shortFn(fn)+"/numeric-forms", c.pos(fn.Pos()), "int64, json.Number and int are all accepted",
			"this unmarshaler accepts numbers in some Go forms but not as "+strings.Join(missing, ", ")+": the same value is accepted as a literal but rejected as a variable (json.Number) or as an injected default (int), or the reverse")
	}
	if n < 6 {
		c.R.Fail("numeric-forms-complete: %d numeric unmarshalers", n)
	}
}

// c16Round2: NON_NULL is decided before LIST; PossibleTypes asks the schema for possible types; the standard introspection
// query asks for deprecated fields and enum values.
func c16Round2(c *Ctx) {
	c.R.Rule("kind-order", "introspection.(*Type).Kind: \"LIST\" is returned only on an edge where the type reference is known not to be non-null (a non-null list is NON_NULL first, its ofType is the list)", 1)
	if fn := c.W.Func(pkgIntrosp, "*Type.Kind"); fn != nil {
		n := 0
		for _, r := range an.Returns(fn) {
			for _, ve := range returnValueEdges(r, 0) {
				if s, ok := an.ConstString(ve.val); !ok || s != "LIST" {
					continue
				}
				n++
				nn := false
				for _, f := range append(factsOn(ve), an.Facts(r)...) {
					if f.Op == token.ILLEGAL && f.Neg {
						if fa, ok := loadAddr(f.X).(*ssa.FieldAddr); ok && fieldNameOf(fa) == "NonNull" {
							nn = true
						}
					}
				}
				c.R.Check(nn, "Type.Kind/LIST", c.ipos(r), "LIST only when not NonNull",
					"Kind() can answer LIST for a non-null list type reference: `[Int!]!` is described as a list of lists and the non-null wrapper is lost")
			}
		}
		if n == 0 {
			c.R.Fail("kind-order: Kind never returns \"LIST\"")
		}
	}
	c.R.Rule("possible-types-source", "introspection.(*Type).PossibleTypes obtains the types from (*ast.Schema).GetPossibleTypes", 1)
	if fn := c.W.Func(pkgIntrosp, "*Type.PossibleTypes"); fn != nil {
		ok := false
		for _, f := range an.WithClosures(fn) {
			if len(an.CallsIn(f, func(_ ssa.CallInstruction, ci an.CalleeInfo) bool {
				return strings.HasSuffix(ci.FullName(), "ast.Schema).GetPossibleTypes")
			})) > 0 {
				ok = true
			}
		}
		c.R.Check(ok, "Type.PossibleTypes/source", c.pos(fn.Pos()), "GetPossibleTypes",
			"possibleTypes is not taken from the schema's possible-types relation: unions report nothing and interfaces report what they implement instead of what implements them")
	}
	c.R.Rule("standard-query-includes-deprecated", "introspection.Query (the standard introspection document): every selection of `fields` and `enumValues` passes includeDeprecated: true", 2)
	tp := c.W.TPkg(pkgIntrosp)
	var text string
	if tp != nil {
		if cn, ok := tp.Types.Scope().Lookup("Query").(*types.Const); ok && cn.Val().Kind() == constant.String {
			text = constant.StringVal(cn.Val())
		}
	}
	if text == "" {
		c.R.Fail("standard-query-includes-deprecated: constant introspection.Query not found")
		return
	}
	doc, err := parser.ParseQuery(&gast.Source{Name: "introspection.Query", Input: text})
	if err != nil {
		c.R.Bad("introspection.Query/parses", "graphql/introspection/query.go", "the standard introspection document does not parse: "+err.Error())
		return
	}
	n := 0
	var walk func(ss gast.SelectionSet, where string)
	walk = func(ss gast.SelectionSet, where string) {
		for _, s := range ss {
			switch x := s.(type) {
			case *gast.Field:
				if x.Name == "fields" || x.Name == "enumValues" {
					n++
					a := x.Arguments.ForName("includeDeprecated")
					c.R.Check(a != nil && a.Value != nil && a.Value.Raw == "true", "introspection.Query/"+where+"/"+x.Name, "graphql/introspection/query.go", "includeDeprecated: true",
						"the standard introspection query selects "+x.Name+" without includeDeprecated: true: deprecated "+x.Name+" are missing from the description, so the schema cannot be rebuilt from it")
				}
				walk(x.SelectionSet, where)
			case *gast.InlineFragment:
				walk(x.SelectionSet, where)
			}
		}
	}
	for _, op := range doc.Operations {
		walk(op.SelectionSet, "query")
	}
	for _, fr := range doc.Fragments {
		walk(fr.SelectionSet, fr.Name)
	}
	if n < 2 {
		c.R.Fail("standard-query-includes-deprecated: %d fields/enumValues selections", n)
	}
	// the TypeRef fragment unwraps far enough: the reference query of graphql-js nests ofType seven levels deep, which is what
	// a type such as [[[Int!]!]!]! needs to reach its named type
	c.R.Rule("standard-query-typeref-depth", "introspection.Query: some selection nests `ofType` at least 7 levels deep (the depth of the reference introspection query; fewer levels cut off wrapped types before their named type)", 1)
	depth := 0
	var nest func(ss gast.SelectionSet, d int)
	nest = func(ss gast.SelectionSet, d int) {
		for _, s := range ss {
			switch x := s.(type) {
			case *gast.Field:
				if x.Name == "ofType" {
					if d+1 > depth {
						depth = d + 1
					}
					nest(x.SelectionSet, d+1)
				} else {
					nest(x.SelectionSet, d)
				}
			case *gast.InlineFragment:
				nest(x.SelectionSet, d)
			}
		}
	}
	for _, op := range doc.Operations {
		nest(op.SelectionSet, 0)
	}
	for _, fr := range doc.Fragments {
		nest(fr.SelectionSet, 0)
	}
	defer standardQuerySelections(c, doc)
	c.R.Check(depth >= 7, "introspection.Query/ofType-depth", "graphql/introspection/query.go", sprintf("ofType nested %d deep", depth), sprintf("the standard introspection query unwraps only %d levels of ofType: a field of type [[[Int!]!]!]! is described without its named type, so the schema cannot be rebuilt", depth))
}

// c09Round2: header names are compared case-insensitively; the Accept header is split at commas.
func c09Round2(c *Ctx) {
	c.R.Rule("header-names-case-insensitive", "package transport: no string equality (==) between a value and the constant \"Content-Type\" (header names are matched with strings.EqualFold)", 0)
	nEq := 0
	for _, fn := range transportFuncs(c) {
		for _, b := range fn.Blocks {
			for _, in := range b.Instrs {
				bo, ok := in.(*ssa.BinOp)
				if !ok || bo.Op != token.EQL && bo.Op != token.NEQ {
					continue
				}
				for _, v := range []ssa.Value{bo.X, bo.Y} {
					if s, ok := an.ConstString(v); ok && strings.EqualFold(s, "content-type") {
						nEq++
						c.R.Bad(shortFn(topFn(fn))+"/header-name-equality", c.ipos(in), "a configured header name is compared with == \"Content-Type\": `content-type` in ResponseHeaders is not recognised, the negotiated type is added next to it and the status follows the wrong media type")
					}
				}
			}
		}
	}
	foldUsed := false
	if fn := c.fn(pkgTransport, "determineResponseContentType"); fn != nil {
		for _, call := range an.CallsIn(fn, func(_ ssa.CallInstruction, ci an.CalleeInfo) bool { return ci.FullName() == "strings.EqualFold" }) {
			for _, a := range call.Common().Args {
				if s, ok := an.ConstString(a); ok && strings.EqualFold(s, "content-type") {
					foldUsed = true
				}
			}
		}
	}
	if nEq == 0 {
		c.R.Check(foldUsed, "determineResponseContentType/configured-content-type", "graphql/handler/transport/headers.go", "matched with EqualFold", "the configured Content-Type is no longer looked for with strings.EqualFold")
	}
	c.R.Rule("accept-split-at-commas", "transport.determineResponseContentType: the Accept header is split with the separator \",\"", 1)
	if fn := c.fn(pkgTransport, "determineResponseContentType"); fn != nil {
		n := 0
		for _, f := range an.WithClosures(fn) {
			for _, call := range an.CallsIn(f, func(_ ssa.CallInstruction, ci an.CalleeInfo) bool {
				n := ci.FullName()
				return n == "strings.Split" || n == "strings.Cut" || n == "strings.SplitSeq" || n == "strings.SplitN" || n == "strings.FieldsFunc"
			}) {
				args := call.Common().Args
				if len(args) < 2 {
					continue
				}
				if s, ok := an.ConstString(args[1]); ok {
					n++
					c.R.Check(s == ",", "determineResponseContentType/accept-separator", c.ipos(call), "split at commas",
						"the Accept header is split at "+sprintf("%q", s)+", not at commas: `Accept: text/html, application/json` is read as one element and the fallback media type (with its status conventions) is used")
				}
			}
		}
		if n == 0 {
			c.R.Note("determineResponseContentType/accept-separator", c.pos(fn.Pos()), "the way the Accept header is split was not recognised; not decided")
		}
	}
}

// misc rules of the round that need only types or syntax.
func lruIsSynchronised(c *Ctx) {
	c.R.Rule("lru-synchronised", "graphql/handler/lru.LRU wraps the synchronised cache type of hashicorp/golang-lru (package golang-lru/v2, not its simplelru sub-package)", 1)
	tp := c.W.TPkg(modPath("graphql/handler/lru"))
	if tp == nil {
		c.R.Fail("lru-synchronised: package graphql/handler/lru not loaded")
		return
	}
	tn, _ := tp.Types.Scope().Lookup("LRU").(*types.TypeName)
	if tn == nil {
		c.R.Fail("lru-synchronised: type LRU not found")
		return
	}
	st, _ := tn.Type().Underlying().(*types.Struct)
	ok, seen := false, ""
	for i := 0; st != nil && i < st.NumFields(); i++ {
		t := st.Field(i).Type()
		if p, isP := t.(*types.Pointer); isP {
			t = p.Elem()
		}
		if nt, isN := t.(*types.Named); isN && nt.Obj().Pkg() != nil && strings.Contains(nt.Obj().Pkg().Path(), "golang-lru") {
			seen = nt.Obj().Pkg().Path() + "." + nt.Obj().Name()
			ok = strings.HasSuffix(nt.Obj().Pkg().Path(), "golang-lru/v2") && nt.Obj().Name() == "Cache"
		}
	}
	c.R.Check(ok, "lru.LRU/backing-type", "graphql/handler/lru/lru.go", "lru.Cache (internally locked)",
		"the query/APQ cache that every request shares is backed by "+seen+", which has no lock: concurrent requests corrupt it (fatal concurrent map access, lost registrations)")
}

func floatBuiltinReportsNonFinite(c *Ctx) {
	c.R.Rule("float-builtin-is-context-form", "codegen/config: the built-in model injected for the GraphQL type Float is graphql.FloatContext (the form that reports non-finite values as errors)", 1)
	tp := c.W.TPkg(modPath("codegen/config"))
	if tp == nil {
		c.R.Fail("float-builtin-is-context-form: package codegen/config not loaded")
		return
	}
	found := ""
	for _, f := range tp.Syntax {
		ast.Inspect(f, func(n ast.Node) bool {
			kv, ok := n.(*ast.KeyValueExpr)
			if !ok {
				return true
			}
			k, ok := kv.Key.(*ast.BasicLit)
			if !ok || k.Value != `"Float"` {
				return true
			}
			ast.Inspect(kv.Value, func(m ast.Node) bool {
				if bl, ok := m.(*ast.BasicLit); ok && bl.Kind == token.STRING && strings.Contains(bl.Value, "gqlgen/graphql.") {
					found = strings.Trim(bl.Value, `"`)
				}
				return true
			})
			return true
		})
	}
	if found == "" {
		c.R.Note("config/Float-builtin", "codegen/config/config.go", "the built-in table entry for Float was not recognised; not decided")
		return
	}
	c.R.Check(strings.HasSuffix(found, "graphql.FloatContext"), "config/Float-builtin", "codegen/config/config.go", "graphql.FloatContext",
		"the default Float model is "+found+": generated servers marshal floats without the non-finite check, so a resolver returning NaN or ±Inf emits `NaN`/`Inf` tokens (invalid JSON) and no error")
}

// omittableValueOnlyWhenSet: Omittable's marshalers use the stored value only when it was set.
func omittableValueOnlyWhenSet(c *Ctx) {
	c.R.Rule("omittable-value-when-set", "graphql.Omittable[T].MarshalGQL/MarshalGQLContext/MarshalJSON: the zero value replaces the stored value only on the edge where `set` is false", 0)
	n := 0
	for _, tp := range c.W.All {
		if tp.PkgPath != pkgGraphql || tp.Types == nil {
			continue
		}
		tn, _ := tp.Types.Scope().Lookup("Omittable").(*types.TypeName)
		if tn == nil {
			continue
		}
		named, _ := tn.Type().(*types.Named)
		if named == nil {
			continue
		}
		for i := 0; i < named.NumMethods(); i++ {
			m := named.Method(i)
			if !strings.HasPrefix(m.Name(), "Marshal") {
				continue
			}
			fn := c.W.Prog.FuncValue(m)
			if fn == nil || len(fn.Blocks) == 0 {
				continue
			}
			// the block that substitutes the zero value: it is entered on the `set == false` edge
			for _, b := range fn.Blocks {
				if len(b.Instrs) == 0 {
					continue
				}
				iff, ok := b.Instrs[len(b.Instrs)-1].(*ssa.If)
				if !ok {
					continue
				}
				var setLoad bool
				neg := false
				cond := iff.Cond
				if u, ok := cond.(*ssa.UnOp); ok && u.Op == token.NOT {
					cond, neg = u.X, true
				}
				switch x := cond.(type) {
				case *ssa.Field:
					if st, ok := x.X.Type().Underlying().(*types.Struct); ok && st.Field(x.Field).Name() == "set" {
						setLoad = true
					}
				case *ssa.UnOp:
					if fa, ok := x.X.(*ssa.FieldAddr); ok && fieldNameOf(fa) == "set" {
						setLoad = true
					}
				}
				if !setLoad {
					continue
				}
				n++
				// the successor taken when set is false must be the one that does NOT read the value field… equivalently: the
				// successor taken when set is TRUE is not the one that stores a zero value.  go/ssa lowers `if !o.set { value = zero }`
				// to a branch on o.set with swapped successors, so look at which successor holds the zero substitution.
				zeroSucc := -1
				for si, s := range b.Succs {
					for _, in := range s.Instrs {
						switch x := in.(type) {
						case *ssa.MakeInterface:
							if _, isC := x.X.(*ssa.Const); isC {
								zeroSucc = si
							}
						case *ssa.ChangeType:
							if _, isC := x.X.(*ssa.Const); isC {
								zeroSucc = si
							}
						}
						if al, ok := in.(*ssa.Alloc); ok && al.Comment == "zero" {
							zeroSucc = si
						}
					}
				}
				if zeroSucc < 0 {
					continue
				}
				// Succs[0] is taken when Cond is true
				takenWhenSetTrue := 0
				if neg {
					takenWhenSetTrue = 1
				}
				c.R.Check(zeroSucc != takenWhenSetTrue, "Omittable."+m.Name()+"/zero-when-unset", c.ipos(iff), "zero only when not set",
					"the zero value replaces the stored value when the Omittable IS set (the test is flipped): a set value is written as \"\"/0/null and an unset one as whatever the field holds")
			}
		}
	}
	if n < 2 {
		c.R.Note("Omittable/zero-when-unset", "-", sprintf("only %d set-tests recognised in Omittable's marshalers; the rest not decided", n))
	}
}
