package rules

import (
	"go/constant"
	"go/token"
	"go/types"
	"sort"
	"strings"

	"golang.org/x/tools/go/ssa"

	"verif/internal/an"
)

// layoutAgreement: sibling implementations must agree.  The single-file and follow-schema exec layouts are generated from two
// template families (generated!.gotpl / root_.gotpl + the shared per-type templates) for the same schema, and the repository
// keeps both test servers on identical SDL.  Every generated function that exists in both packages under the same
// (package-path-normalised) name must have the same *effect fingerprint*: the multiset of module/stdlib callees and invoked
// method names, of struct fields read or written, of integer constants compared against, and of string constants used — taken
// over the function, its literals and the layout-specific helpers it calls.  The fingerprint ignores control-flow shape,
// variable names and statement order, so restructuring one template (guard clauses, a helper method, a hoisted expression)
// keeps it, while the slips that are typically made in one template only — the wrong counter (`deferred` for
// `pendingDeferred`), a dropped `buf.Reset()`, a missing field in a literal, `> 1` for `> 0`, the parsed schema instead of the
// executable one — change it.  This is a cross-check, not a specification: a mistake made identically in both families passes.
func layoutAgreement(c *Ctx) {
	var a, b *GenPkg
	for _, g := range c.Gen {
		switch g.Name {
		case "singlefile":
			a = g
		case "followschema":
			b = g
		}
	}
	c.R.Rule("layout-siblings-agree", "every generated function present in both the single-file and the follow-schema test server (same SDL) has the same effect fingerprint (callees, invoked methods, fields touched, compared integer constants, string constants) in both", 50)
	if a == nil || b == nil {
		c.R.Fail("layout-siblings-agree: the singlefile and followschema configurations are not both materialised")
		return
	}
	norm := func(s string) string {
		s = strings.ReplaceAll(s, "singlefile", "·")
		return strings.ReplaceAll(s, "followschema", "·")
	}
	index := func(g *GenPkg) map[string]*ssa.Function {
		m := map[string]*ssa.Function{}
		for _, fn := range c.genFuncs(g) {
			if fn.Parent() != nil {
				continue
			}
			name := fn.Name()
			if fn.Signature.Recv() != nil {
				name = types.TypeString(fn.Signature.Recv().Type(), func(*types.Package) string { return "" }) + "." + name
			}
			m[norm(name)] = fn
		}
		return m
	}
	ia, ib := index(a), index(b)
	var names []string
	for n := range ia {
		if ib[n] != nil {
			names = append(names, n)
		}
	}
	sort.Strings(names)
	fp := func(g *GenPkg, other map[string]*ssa.Function, root *ssa.Function) map[string]int {
		out := map[string]int{}
		seen := map[*ssa.Function]bool{}
		var walk func(fn *ssa.Function, depth int)
		walk = func(fn *ssa.Function, depth int) {
			if seen[fn] || depth > 3 {
				return
			}
			seen[fn] = true
			for _, f := range an.WithClosures(fn) {
				for _, blk := range f.Blocks {
					for _, in := range blk.Instrs {
						switch x := in.(type) {
						case ssa.CallInstruction:
							cc := x.Common()
							if cc.IsInvoke() {
								out["invoke:"+cc.Method.Name()]++
								break
							}
							sc := cc.StaticCallee()
							if sc == nil {
								if bi, ok := cc.Value.(*ssa.Builtin); ok {
									out["builtin:"+bi.Name()]++
								}
								break
							}
							if sc.Pkg == g.SSA && sc.Parent() == nil {
								nm := sc.Name()
								if sc.Signature.Recv() != nil {
									nm = types.TypeString(sc.Signature.Recv().Type(), func(*types.Package) string { return "" }) + "." + nm
								}
								if other[norm(nm)] == nil {
									walk(sc, depth+1) // a helper only this layout has: its effects count as the caller's
								} else {
									out["gen:"+norm(nm)]++
								}
								break
							}
							if sc.Parent() == nil {
								out["call:"+norm(an.CalleeOf(x).FullName())]++
							}
						case *ssa.FieldAddr:
							out["field:"+fieldNameOf(x)]++
						case *ssa.Field:
							if st, ok := x.X.Type().Underlying().(*types.Struct); ok {
								out["field:"+st.Field(x.Field).Name()]++
							}
						case *ssa.BinOp:
							switch x.Op {
							case token.EQL, token.NEQ, token.LSS, token.GTR, token.LEQ, token.GEQ:
								for _, v := range []ssa.Value{x.X, x.Y} {
									if k, ok := v.(*ssa.Const); ok && k.Value != nil && k.Value.Kind() == constant.Int {
										out["cmp:"+k.Value.ExactString()]++
									}
								}
							}
						}
						for _, op := range in.Operands(nil) {
							if k, ok := (*op).(*ssa.Const); ok && k.Value != nil && k.Value.Kind() == constant.String {
								s := constant.StringVal(k.Value)
								if len(s) > 60 {
									s = s[:60]
								}
								out["str:"+norm(s)]++
							}
						}
					}
				}
			}
		}
		walk(root, 0)
		return out
	}
	n := 0
	for _, name := range names {
		fa, fb := ia[name], ib[name]
		pa, pb := fp(a, ib, fa), fp(b, ia, fb)
		var diff []string
		keys := map[string]bool{}
		for k := range pa {
			keys[k] = true
		}
		for k := range pb {
			keys[k] = true
		}
		for k := range keys {
			if pa[k] != pb[k] {
				diff = append(diff, sprintf("%s ×%d/×%d", k, pa[k], pb[k]))
			}
		}
		n++
		if len(diff) == 0 {
			c.R.OK("gen:·/"+name, c.pos(fa.Pos()), "same effect fingerprint in both layouts")
			continue
		}
		sort.Strings(diff)
		if len(diff) > 6 {
			diff = append(diff[:6], sprintf("… %d more", len(diff)-6))
		}
		c.R.Bad("gen:·/"+name, c.pos(fa.Pos()), "the single-file and follow-schema layouts generate this function with different effects (single-file/follow-schema counts): "+strings.Join(diff, "; ")+" — one of the two template families was changed without the other: servers generated with one layout behave differently from servers generated with the other")
	}
	c.R.SetFloor(n)
	if n < 50 {
		c.R.Fail("layout-siblings-agree: only %d functions exist in both layouts", n)
	}
}
