package rules

import (
	"go/ast"
	"go/parser"
	"go/token"
	"strings"

	"golang.org/x/tools/go/ssa"

	"verif/internal/an"
	"verif/internal/pipeline"
)

func init() {
	register(&Property{
		ID:      "C19",
		NeedGen: true,
		Runtime: []string{"./plugin/resolvergen", "./internal/rewrite"},
		Run:     runC19,
		Explanation: "The bookkeeping that decides which user code is carried over by resolver regeneration (narrow, structural): (remaining-exhaustive) in Rewriter.RemainingSource a declaration of the requested file is skipped " +
			"only on the `copied[d]` edge or when it is an import declaration — every other path of the loop body writes the declaration's source; (copied-writers) the `copied` set is written only by GetPrevDecl " +
			"and MarkStructCopied, and GetPrevDecl marks exactly the declaration it returns; (body-flows) in both resolver layouts the result of every GetMethodBody call is either discarded for the root accessor " +
			"only, or reaches the ImplementationStr of a Resolver value whose PrevDecl and Comment come from GetPrevDecl / GetMethodComment for the same (struct, method) arguments, and that Resolver is appended to " +
			"the file; (imports-flow) File.imports is assigned from ExistingImports of that file's own name before it is rendered, and File.Imports reserves every import with its alias; (exact-match) GetPrevDecl matches method and receiver names by plain equality; (comment-lines-prefixed) the helper that re-emits a preserved doc comment prefixes every line, blank lines included. (obj-resolution-consistent) a generator package that reads ast.Ident.Obj never parses with parser.SkipObjectResolution.",
		NotDecided:  "verbatim preservation of bodies and comments (byte offsets in getSource), validity of the emitted file, repeated regeneration (idempotence, see F13) — value-level / dynamic",
		Assumptions: []string{"go/packages gives the previous resolver package's syntax; text/template renders what the Resolver values carry"},
	})
}

const (
	pkgRewrite     = "github.com/99designs/gqlgen/internal/rewrite"
	pkgResolvergen = "github.com/99designs/gqlgen/plugin/resolvergen"
)

func runC19(c *Ctx) {
	c19Remaining(c)
	c19CopiedWriters(c)
	c19ExactMatch(c)
	c19BodyFlows(c)
	c19Imports(c)
	c19PrefixLines(c)
	c19ObjResolution(c)
	c19Small(c)
	// an aliased import of the user's file keeps a unique alias (C17/alias-unique)
	c17AliasUnique(c)
	// what the template emits itself is not reported to the user as code about to be deleted (C18)
	c18EmittedDeclsMarked(c)
	c17Materialise(c)
	structNameAgreement(c)
	c19Round2(c)
}

func isCopiedLookup(v ssa.Value) bool {
	for _, d := range an.Defs(v) {
		lk, ok := d.(*ssa.Lookup)
		if !ok {
			if ex, isE := d.(*ssa.Extract); isE {
				lk, ok = ex.Tuple.(*ssa.Lookup)
			}
		}
		if !ok {
			return false
		}
		fa, isF := loadAddr(lk.X).(*ssa.FieldAddr)
		if !isF || fieldNameOf(fa) != "copied" {
			return false
		}
	}
	return true
}

func c19Remaining(c *Ctx) {
	c.R.Rule("remaining-exhaustive", "in Rewriter.RemainingSource every path through the declaration loop either writes the declaration's source (getSource) or passes the `copied[d] == true` edge or the `Tok == token.IMPORT` edge", 1)
	fn := c.fn(pkgRewrite, "*Rewriter.RemainingSource")
	if fn == nil {
		return
	}
	getSource := c.W.Func(pkgRewrite, "*Rewriter.getSource")
	// innermost loop containing the getSource call
	var src ssa.Instruction
	for _, call := range an.CallsIn(fn, func(_ ssa.CallInstruction, ci an.CalleeInfo) bool { return ci.Static != nil && ci.Static == getSource }) {
		src = call
	}
	if src == nil {
		c.R.Bad("RemainingSource/writes-source", c.pos(fn.Pos()), "RemainingSource no longer copies declaration source")
		return
	}
	var header *ssa.BasicBlock
	for h := src.Block(); h != nil; h = h.Idom() {
		if isLoopHeader(h) {
			header = h
			break
		}
	}
	if header == nil {
		c.R.Bad("RemainingSource/loop", c.ipos(src), "the source copy is not inside the declaration loop")
		return
	}
	importTok := int64(token.IMPORT)
	bad := ""
	npaths := 0
	var walk func(b *ssa.BasicBlock, excused bool, trail []string, seen map[*ssa.BasicBlock]bool)
	walk = func(b *ssa.BasicBlock, excused bool, trail []string, seen map[*ssa.BasicBlock]bool) {
		if bad != "" {
			return
		}
		for _, in := range b.Instrs {
			if in == src {
				return // this path writes the declaration
			}
		}
		for _, s := range b.Succs {
			ex := excused
			tr := trail
			if len(b.Succs) == 2 {
				if iff, ok := b.Instrs[len(b.Instrs)-1].(*ssa.If); ok {
					f := an.FactOf(an.Guard{Cond: iff.Cond, Branch: b.Succs[0] == s})
					tr = append(append([]string{}, trail...), c.condText(iff, b.Succs[0] == s))
					if f.Op == token.ILLEGAL && !f.Neg && isCopiedLookup(f.X) {
						ex = true
					}
					if f.Op == token.EQL {
						if n, isC := an.ConstInt(f.Y); isC && n == importTok {
							if fa, ok := loadAddr(f.X).(*ssa.FieldAddr); ok && fieldNameOf(fa) == "Tok" {
								ex = true
							}
						}
					}
				}
			}
			if s == header {
				npaths++
				if !ex {
					bad = "a declaration can be skipped without being marked copied and without being an import (path: " + strings.Join(tr, " → ") + "): user code of that declaration is lost on regeneration"
				}
				continue
			}
			if !header.Dominates(s) || seen[s] || !an.Reach(s, nil)[header] {
				continue
			}
			seen2 := map[*ssa.BasicBlock]bool{}
			for k := range seen {
				seen2[k] = true
			}
			seen2[s] = true
			walk(s, ex, tr, seen2)
		}
	}
	// start at the loop body (the successor of the header inside the loop)
	for _, s := range header.Succs {
		if an.Reach(s, nil)[header] && header.Dominates(s) {
			walk(s, false, nil, map[*ssa.BasicBlock]bool{s: true})
		}
	}
	c.R.Check(bad == "" && npaths > 0, "RemainingSource/skip-only-copied-or-import", c.pos(fn.Pos()), sprintf("%d skipping paths, each excused by copied[d] or Tok == IMPORT", npaths), bad)
}

func c19CopiedWriters(c *Ctx) {
	c.R.Rule("copied-writers", "Rewriter.copied is updated only in GetPrevDecl, MarkStructCopied and MarkEmptyStructCopied (the latter only for a struct without fields); GetPrevDecl marks the declaration it returns", 3)
	n := 0
	for _, fn := range c.W.FuncsIn(func(p string) bool { return p == pkgRewrite || p == pkgResolvergen }) {
		for _, b := range fn.Blocks {
			for _, in := range b.Instrs {
				mu, ok := in.(*ssa.MapUpdate)
				if !ok {
					continue
				}
				fa, ok := loadAddr(mu.Map).(*ssa.FieldAddr)
				if !ok || fieldNameOf(fa) != "copied" {
					continue
				}
				n++
				top := topFn(fn).Name()
				reviewed := top == "GetPrevDecl" || top == "MarkStructCopied"
				if !reviewed && top != "MarkEmptyStructCopied" && !ast.IsExported(top) {
					// an unexported walker shared by the reviewed markers (`markTypeDecls(name, accept)`): every static caller is one of them
					callers, all := 0, true
					for _, f2 := range c.W.FuncsIn(func(p string) bool { return p == pkgRewrite || p == pkgResolvergen }) {
						for _, cc := range an.CallsIn(f2, func(_ ssa.CallInstruction, ci an.CalleeInfo) bool { return ci.Static == topFn(fn) }) {
							_ = cc
							callers++
							switch topFn(f2).Name() {
							case "GetPrevDecl", "MarkStructCopied":
							case "MarkEmptyStructCopied":
								if !emptyStructSideCondition(topFn(f2)) {
									all = false
								}
							default:
								all = false
							}
						}
					}
					reviewed = callers > 0 && all
				}
				if top == "MarkEmptyStructCopied" && emptyStructSideCondition(topFn(fn)) {
					reviewed = true
				}
				if top == "MarkEmptyStructCopied" {
					// reviewed with a side condition checked here: it marks only a struct type without fields (what the template
					// re-emits verbatim) — the mark is taken on the NumFields() == 0 edge
					for _, f := range an.Facts(mu) {
						if call, isCall := f.X.(*ssa.Call); isCall && f.Op == token.EQL && strings.HasSuffix(an.CalleeOf(call).FullName(), "FieldList).NumFields") {
							if k, isC := an.ConstInt(f.Y); isC && k == 0 {
								reviewed = true
							}
						}
					}
				}
				c.R.Check(reviewed, top+"/writes-copied", c.ipos(mu), "reviewed writer of the copied set", "an additional writer of the copied set: declarations it marks are silently dropped from the 'remaining source' block")
				if top == "GetPrevDecl" {
					// the key is the returned declaration
					ok := false
					for _, r := range an.Returns(fn) {
						if an.CanReach(mu, r) && an.SameVar(an.Strip(mu.Key), an.Strip(r.Results[0])) {
							ok = true
						}
						for _, d := range an.Defs(r.Results[0]) {
							if an.SameVar(an.Strip(mu.Key), d) && an.CanReach(mu, r) {
								ok = true
							}
						}
					}
					if an.CanReach(mu, mu) {
						ok = false // marking is not followed by the return on every path: the loop goes on and marks further declarations
					}
					c.R.Check(ok, "GetPrevDecl/marks-what-it-returns", c.ipos(mu), "copied[d] = true; return d", "GetPrevDecl marks declarations other than the one it returns (the mark is not immediately followed by the return): those methods are dropped from the regenerated file without being emitted anywhere")
				}
			}
		}
	}
	if n < 2 {
		c.R.Fail("copied-writers found only %d writers of Rewriter.copied", n)
	}
}

func rewriterCall(in ssa.Instruction, name string) *ssa.Call {
	call, ok := in.(*ssa.Call)
	if !ok {
		return nil
	}
	if an.CalleeOf(call).FullName() == "(*"+pkgRewrite+".Rewriter)."+name {
		return call
	}
	return nil
}

func sameArgs(a, b *ssa.Call) bool {
	if len(a.Call.Args) != len(b.Call.Args) {
		return false
	}
	for i := 1; i < len(a.Call.Args); i++ {
		if !an.SameVar(a.Call.Args[i], b.Call.Args[i]) {
			return false
		}
	}
	return true
}

// flowsIntoField: v reaches (through strings.Trim* calls) a store into field `field` of a struct literal; returns the literal's Alloc.
func flowsIntoField(v ssa.Value, field string, depth int) []*ssa.Alloc {
	var out []*ssa.Alloc
	if depth > 6 {
		return nil
	}
	for _, r := range an.Referrers(v) {
		switch x := r.(type) {
		case *ssa.Call:
			n := an.CalleeOf(x).FullName()
			if strings.HasPrefix(n, "strings.Trim") {
				out = append(out, flowsIntoField(x, field, depth+1)...)
			}
		case *ssa.Store:
			if x.Val != v {
				continue
			}
			if fa, ok := x.Addr.(*ssa.FieldAddr); ok && fieldNameOf(fa) == field {
				if al, ok := fa.X.(*ssa.Alloc); ok {
					out = append(out, al)
				}
			}
			if an.IsLocalCell(x.Addr) {
				for _, ref := range an.CellRefs(x.Addr) {
					if ld, ok := ref.(*ssa.UnOp); ok && ld.Op == token.MUL {
						out = append(out, flowsIntoField(ld, field, depth+1)...)
					}
				}
			}
		case *ssa.Phi:
			out = append(out, flowsIntoField(x, field, depth+1)...)
		}
	}
	return out
}

func c19BodyFlows(c *Ctx) {
	c.R.Rule("body-flows", "in plugin/resolvergen every Rewriter.GetMethodBody call is either the root accessor's (first argument is the configured resolver type; result discarded) or its result reaches Resolver.ImplementationStr of a literal whose PrevDecl is GetPrevDecl and whose Comment is GetMethodComment of the same (struct, method) arguments, and which is appended to the file's Resolvers", 4)
	n := 0
	for _, fn := range c.W.FuncsIn(func(p string) bool { return p == pkgResolvergen }) {
		for _, b := range fn.Blocks {
			for _, in := range b.Instrs {
				body := rewriterCall(in, "GetMethodBody")
				if body == nil {
					continue
				}
				n++
				key := topFn(fn).Name() + "/GetMethodBody"
				used := false
				for _, r := range an.Referrers(body) {
					if _, isDbg := r.(*ssa.DebugRef); !isDbg {
						used = true
					}
				}
				if !used {
					// root accessor: first argument is Config.Resolver.Type
					fa, ok := loadAddr(body.Call.Args[1]).(*ssa.FieldAddr)
					c.R.Check(ok && fieldNameOf(fa) == "Type", key+"(root-accessor)", c.ipos(body), "result discarded only for the root accessor method", "the previous body of a resolver method is looked up and thrown away: the user's implementation is replaced by the panic stub")
					continue
				}
				lits := flowsIntoField(body, "ImplementationStr", 0)
				if len(lits) == 0 {
					c.R.Bad(key, c.ipos(body), "the previous method body does not reach the ImplementationStr of any Resolver: user code is not carried over")
					continue
				}
				bad := ""
				for _, lit := range lits {
					okDecl, okComment, appended := false, false, false
					for _, r := range an.Referrers(lit) {
						fa, ok := r.(*ssa.FieldAddr)
						if !ok {
							continue
						}
						for _, r2 := range an.Referrers(fa) {
							st, ok := r2.(*ssa.Store)
							if !ok {
								continue
							}
							switch fieldNameOf(fa) {
							case "PrevDecl":
								for _, d := range an.Defs(st.Val) {
									if cc, ok := d.(*ssa.Call); ok && rewriterCall(cc, "GetPrevDecl") != nil && sameArgs(cc, body) {
										okDecl = true
									}
								}
							case "Comment":
								if commentFrom(st.Val, body, 0) {
									okComment = true
								}
							}
						}
					}
					// appended: the literal's address is stored into a slice element that is appended to a Resolvers field
					for _, r := range an.Referrers(lit) {
						if st, ok := r.(*ssa.Store); ok && st.Val == ssa.Value(lit) {
							appended = true
						}
					}
					if !okDecl {
						bad = "the Resolver carrying this body takes its PrevDecl (named results, receiver) from a different (struct, method) lookup"
					}
					if !okComment {
						bad = "the Resolver carrying this body takes its doc comment from a different (struct, method) lookup"
					}
					if !appended {
						bad = "the Resolver carrying this body is never appended to the file"
					}
				}
				c.R.Check(bad == "", key, c.ipos(body), "body, PrevDecl and Comment of one (struct, method) pair travel together", bad)
			}
		}
	}
	if n < 4 {
		c.R.Fail("body-flows found only %d GetMethodBody calls", n)
	}
}

func commentFrom(v ssa.Value, body *ssa.Call, depth int) bool {
	if depth > 6 {
		return false
	}
	for _, d := range an.Defs(v) {
		call, ok := d.(*ssa.Call)
		if !ok {
			return false
		}
		if rewriterCall(call, "GetMethodComment") != nil {
			return sameArgs(call, body)
		}
		if strings.HasPrefix(an.CalleeOf(call).FullName(), "strings.Trim") {
			if !commentFrom(call.Call.Args[0], body, depth+1) {
				return false
			}
			continue
		}
		return false
	}
	return true
}

func c19Imports(c *Ctx) {
	c.R.Rule("imports-flow", "File.imports is assigned only from Rewriter.ExistingImports(<that file's own name>), in both layouts before the file is rendered; File.Imports reserves every import path, with its alias when it has one", 3)
	n := 0
	for _, fn := range c.W.FuncsIn(func(p string) bool { return p == pkgResolvergen }) {
		for _, b := range fn.Blocks {
			for _, in := range b.Instrs {
				st, ok := in.(*ssa.Store)
				if !ok {
					continue
				}
				fa, ok := st.Addr.(*ssa.FieldAddr)
				if !ok || fieldNameOf(fa) != "imports" || !an.NamedIs(fa.X.Type(), pkgResolvergen, "File") {
					continue
				}
				n++
				okSrc := false
				for _, d := range an.Defs(st.Val) {
					if cc, ok := d.(*ssa.Call); ok && rewriterCall(cc, "ExistingImports") != nil {
						// argument is the name field of the same File
						if nf, ok := loadAddr(cc.Call.Args[1]).(*ssa.FieldAddr); ok && fieldNameOf(nf) == "name" && an.SameAddr(nf.X, fa.X) && an.Before(cc, st) && sameIteration(cc, st) {
							okSrc = true
						}
					}
				}
				c.R.Check(okSrc, topFn(fn).Name()+"/store:File.imports", c.ipos(st), "from ExistingImports(file.name) of the same file", "a file's imports are taken from somewhere other than its own previous imports: user imports (and their aliases) are lost or mixed between files")
			}
		}
	}
	if n < 2 {
		c.R.Fail("imports-flow found only %d assignments of File.imports", n)
	}
	if fn := c.fn(pkgResolvergen, "*File.Imports"); fn != nil {
		withAlias, without := false, false
		for _, call := range an.CallsIn(fn, func(_ ssa.CallInstruction, ci an.CalleeInfo) bool {
			return strings.HasSuffix(ci.FullName(), "templates.Imports).Reserve")
		}) {
			args := call.Common().Args
			// variadic aliases: last arg is a slice; non-nil when an alias is passed
			last := args[len(args)-1]
			if an.IsNilConst(last) {
				without = true
			} else {
				withAlias = true
			}
			if fa, ok := loadAddr(args[1]).(*ssa.FieldAddr); !ok || fieldNameOf(fa) != "ImportPath" {
				if f, ok := an.Strip(args[1]).(*ssa.Field); !ok || fieldName2(f) != "ImportPath" {
					withAlias, without = false, false
				}
			}
		}
		c.R.Check(withAlias && without, "File.Imports/reserves-with-alias", c.pos(fn.Pos()), "Reserve(path) and Reserve(path, alias)", "File.Imports no longer reserves aliased imports with their alias: the regenerated file imports the package under another name and the kept bodies stop compiling")
	}
}

// c19ExactMatch: GetPrevDecl returns a declaration only when its name equals the requested method name and its receiver type
// name equals the requested struct name (string equality, not a looser match).
func c19ExactMatch(c *Ctx) {
	c.R.Rule("exact-match", "Rewriter.GetPrevDecl returns a non-nil declaration only on the edges `decl.Name.Name == methodname` and `receiver identifier == structname` (plain string equality on the two parameters)", 1)
	fn := c.fn(pkgRewrite, "*Rewriter.GetPrevDecl")
	if fn == nil {
		return
	}
	params := map[string]ssa.Value{}
	for _, p := range fn.Params {
		params[p.Name()] = p
	}
	// the search may live in a helper of the package that GetPrevDecl hands its two names to (`d := r.findMethod(structname, methodname)`)
	fn, params = prevDeclFinder(fn, params)
	n := 0
	for _, r := range an.Returns(fn) {
		nonNil := false
		for _, ve := range returnValueEdges(r, 0) {
			if !an.IsNilConst(ve.val) {
				nonNil = true
			}
		}
		if !nonNil {
			continue
		}
		n++
		got := map[string]bool{}
		for _, f := range an.Facts(r) {
			if f.Op != token.EQL {
				continue
			}
			for _, pr := range [][2]ssa.Value{{f.X, f.Y}, {f.Y, f.X}} {
				for name, p := range params {
					if pr[1] == p {
						if fa, ok := loadAddr(pr[0]).(*ssa.FieldAddr); ok && fieldNameOf(fa) == "Name" {
							got[name] = true
						}
					}
				}
			}
		}
		// the same two tests made by a same-package predicate: `if isMethodOf(d, structname, methodname) { return d }`
		for _, f := range an.Facts(r) {
			if f.Op != token.ILLEGAL || f.Neg {
				continue
			}
			call, isCall := f.X.(*ssa.Call)
			if !isCall || call.Call.StaticCallee() == nil {
				continue
			}
			h := call.Call.StaticCallee()
			for idx := range nameEqualWhenTrue(h) {
				if idx < len(call.Call.Args) {
					for name, p := range params {
						if call.Call.Args[idx] == p {
							got[name] = true
						}
					}
				}
			}
		}
		ok := got["methodname"] && got["structname"]
		c.R.Check(ok, "GetPrevDecl/returns-only-exact-match", c.ipos(r), "name == methodname and receiver == structname", sprintf("GetPrevDecl can return a declaration without an exact string match (method name tested exactly: %v, struct name tested exactly: %v): a differently named method's body is taken for the resolver and that method is dropped", got["methodname"], got["structname"]))
	}
	if n == 0 {
		c.R.Fail("exact-match: GetPrevDecl never returns a declaration")
	}
}

// nameEqualWhenTrue: the parameter indices of boolean function h that are, on every way h can return true, compared for plain
// string equality with some node's Name field.
func nameEqualWhenTrue(h *ssa.Function) map[int]bool {
	if h == nil || len(h.Blocks) == 0 || h.Signature.Results().Len() != 1 {
		return nil
	}
	pidx := map[ssa.Value]int{}
	for i, p := range h.Params {
		pidx[p] = i
	}
	tested := func(fs []an.Fact, extra ssa.Value) map[int]bool {
		out := map[int]bool{}
		add := func(x, y ssa.Value) {
			for _, pr := range [][2]ssa.Value{{x, y}, {y, x}} {
				if i, ok := pidx[pr[1]]; ok {
					if fa, ok := loadAddr(pr[0]).(*ssa.FieldAddr); ok && fieldNameOf(fa) == "Name" {
						out[i] = true
					}
				}
			}
		}
		for _, f := range fs {
			if f.Op == token.EQL {
				add(f.X, f.Y)
			}
		}
		if bo, ok := extra.(*ssa.BinOp); ok && bo.Op == token.EQL {
			add(bo.X, bo.Y)
		}
		return out
	}
	var result map[int]bool
	for _, r := range an.Returns(h) {
		if h.Recover != nil && r.Block() == h.Recover {
			continue
		}
		for _, ve := range returnValueEdges(r, 0) {
			if k, isC := ve.val.(*ssa.Const); isC && k.Value != nil && k.Value.String() == "false" {
				continue
			}
			var fs []an.Fact
			if ve.from != nil {
				for _, g := range an.BlockGuards(ve.from) {
					fs = append(fs, an.FactOf(g))
				}
				if ve.edgeIf != nil {
					fs = append(fs, an.FactOf(*ve.edgeIf))
				}
			} else {
				fs = an.Facts(r)
			}
			var extra ssa.Value
			if _, isC := ve.val.(*ssa.Const); !isC {
				extra = ve.val
			}
			t := tested(fs, extra)
			if result == nil {
				result = t
			} else {
				for i := range result {
					if !t[i] {
						delete(result, i)
					}
				}
			}
		}
	}
	return result
}

// c19PrefixLines: a preserved resolver doc comment is re-emitted through the template helper prefixLines("// ", text).  Every
// line of the result has to carry the prefix, blank lines included: a bare empty line splits the comment into two comment
// groups, only the last of which stays attached to the method, and the next regeneration drops the detached part.  Two
// shapes are recognised and decided — `prefix + strings.ReplaceAll(s, "\n", "\n"+prefix)` and split / per-line store /
// strings.Join; for any other shape the rule records a note and decides nothing.
func c19PrefixLines(c *Ctx) {
	c.R.Rule("comment-lines-prefixed", "templates.prefixLines puts the prefix in front of every line it emits, blank lines included (decided for the ReplaceAll shape and the split/join shape; other shapes are noted, not judged)", 0)
	fn := c.fn(modPath("codegen/templates"), "prefixLines")
	if fn == nil {
		return
	}
	if len(fn.Params) != 2 {
		c.R.Note("prefixLines", c.pos(fn.Pos()), "unexpected signature; not judged")
		return
	}
	prefix := ssa.Value(fn.Params[0])
	startsWithPrefix := func(v ssa.Value) bool {
		for _, d := range an.Defs(v) {
			bo, ok := d.(*ssa.BinOp)
			if !ok || bo.Op != token.ADD {
				return false
			}
			// leftmost operand of the concatenation chain
			l := ssa.Value(bo)
			for {
				b2, ok := l.(*ssa.BinOp)
				if !ok || b2.Op != token.ADD {
					break
				}
				l = b2.X
			}
			if !(l == prefix || an.SameVar(l, prefix)) {
				return false
			}
		}
		return true
	}
	newlineThenPrefix := func(v ssa.Value) bool {
		bo, ok := v.(*ssa.BinOp)
		if !ok || bo.Op != token.ADD {
			return false
		}
		s, isC := an.ConstString(bo.X)
		return isC && s == "\n" && (bo.Y == prefix || an.SameVar(bo.Y, prefix))
	}
	decided := false
	for _, r := range an.Returns(fn) {
		if fn.Recover != nil && r.Block() == fn.Recover {
			continue
		}
		for _, d := range an.Defs(an.ReturnedValue(r, 0)) {
			// shape A
			if bo, ok := d.(*ssa.BinOp); ok && bo.Op == token.ADD {
				if call, isCall := bo.Y.(*ssa.Call); isCall && strings.HasPrefix(an.CalleeOf(call).FullName(), "strings.Replace") && (bo.X == prefix || an.SameVar(bo.X, prefix)) {
					decided = true
					args := call.Call.Args
					old, isC := an.ConstString(args[1])
					ok := isC && old == "\n" && newlineThenPrefix(args[2])
					if an.CalleeOf(call).FullName() == "strings.Replace" {
						n, isN := an.ConstInt(args[3])
						ok = ok && isN && n < 0
					}
					c.R.Check(ok, "prefixLines/every-line", c.ipos(call), "first line prefixed, every newline followed by the prefix", "not every line of a re-emitted doc comment gets the comment prefix: the comment falls apart and loses its detached part at the next regeneration")
					continue
				}
			}
			// shape B
			if call, ok := d.(*ssa.Call); ok && an.CalleeOf(call).FullName() == "strings.Join" {
				lines := call.Call.Args[0]
				sep, sepC := an.ConstString(call.Call.Args[1])
				nst, bad := 0, ""
				for _, b := range fn.Blocks {
					for _, in := range b.Instrs {
						st, isSt := in.(*ssa.Store)
						if !isSt {
							continue
						}
						ia, isIA := st.Addr.(*ssa.IndexAddr)
						if !isIA || !an.SameVar(ia.X, lines) {
							continue
						}
						nst++
						if !startsWithPrefix(st.Val) {
							bad = "the line stored at " + c.ipos(st) + " does not start with the prefix"
						}
					}
				}
				if nst == 0 || !sepC || sep != "\n" {
					continue
				}
				decided = true
				c.R.Check(bad == "", "prefixLines/every-line", c.ipos(call), sprintf("%d per-line stores, each prefixed", nst), bad+": a re-emitted doc comment with an empty line falls apart into two comment groups and loses the detached part at the next regeneration")
			}
		}
	}
	if !decided {
		c.R.Note("prefixLines/every-line", c.pos(fn.Pos()), "shape not recognised (neither ReplaceAll nor split/join); not judged")
	}
}

// c19ObjResolution: a contradiction rule.  internal/imports decides whether `x.Sel` refers to a package by looking at
// ast.Ident.Obj — nil for package names, non-nil for locals and parameters — which go/parser only fills in when object
// resolution is on.  Any generator package that reads Ident.Obj must not parse with parser.SkipObjectResolution: with it every
// selector on a local variable counts as a use of a package of that name, an ambient import that a preserved resolver body
// shadows is no longer pruned, and the regenerated file does not compile ("imported and not used").
func c19ObjResolution(c *Ctx) {
	c.R.Rule("obj-resolution-consistent", "a generator package that reads ast.Ident.Obj (internal/imports does, to tell packages from locals) never calls go/parser with a mode containing parser.SkipObjectResolution", 0)
	n := 0
	for _, path := range c.W.ModulePackages() {
		if !isGeneratorPkg(path) {
			continue
		}
		var reads []ssa.Instruction
		var parses []ssa.CallInstruction
		for _, fn := range c.W.FuncsIn(func(p string) bool { return p == path }) {
			for _, b := range fn.Blocks {
				for _, in := range b.Instrs {
					if fa, ok := in.(*ssa.FieldAddr); ok && fieldNameOf(fa) == "Obj" && an.NamedIs(fa.X.Type(), "go/ast", "Ident") {
						reads = append(reads, in)
					}
					if call, ok := in.(ssa.CallInstruction); ok {
						nm := an.CalleeOf(call).FullName()
						if nm == "go/parser.ParseFile" || nm == "go/parser.ParseDir" || nm == "go/parser.ParseExprFrom" {
							parses = append(parses, call)
						}
					}
				}
			}
		}
		if len(reads) == 0 {
			continue
		}
		for _, p := range parses {
			n++
			args := p.Common().Args
			mode := args[len(args)-1]
			bad := ""
			if k, ok := an.ConstInt(mode); ok {
				if k&int64(parser.SkipObjectResolution) != 0 {
					bad = "the file is parsed with parser.SkipObjectResolution although " + c.ipos(reads[0]) + " reads Ident.Obj: every identifier then looks like a package name, unused ambient imports shadowed by locals survive pruning and the regenerated resolver file does not compile"
				}
			} else {
				c.R.Note(strings.TrimPrefix(path, pipeline.Module+"/")+"/parser-mode", c.ipos(p), "parser mode is not a constant; not judged")
				continue
			}
			c.R.Check(bad == "", strings.TrimPrefix(path, pipeline.Module+"/")+"/parser-mode", c.ipos(p), "object resolution stays on where Ident.Obj is read", bad)
		}
	}
	if n == 0 {
		c.R.Note("parser-mode", "-", "no generator package both reads Ident.Obj and calls go/parser; nothing to judge")
	}
}

// prevDeclFinder: GetPrevDecl itself when it contains the search loop; otherwise the same-package function it passes both of
// its name parameters to, with the parameter map translated to that function's parameters.
func prevDeclFinder(fn *ssa.Function, params map[string]ssa.Value) (*ssa.Function, map[string]ssa.Value) {
	if len(an.Loops(fn)) > 0 {
		return fn, params
	}
	for _, call := range an.CallsIn(fn, func(_ ssa.CallInstruction, ci an.CalleeInfo) bool {
		return ci.Static != nil && ci.Static.Pkg == fn.Pkg && len(ci.Static.Blocks) > 0 && len(an.Loops(ci.Static)) > 0
	}) {
		if call.Parent() != fn {
			continue
		}
		h := call.Common().StaticCallee()
		m := map[string]ssa.Value{}
		for name, p := range params {
			for j, a := range call.Common().Args {
				if a == p && j < len(h.Params) {
					m[name] = h.Params[j]
				}
			}
		}
		if len(m) == len(params)-1 || len(m) == len(params) { // the receiver need not be passed on as such
			return h, m
		}
	}
	return fn, params
}

// emptyStructSideCondition: MarkEmptyStructCopied (or a predicate literal it hands on) compares FieldList.NumFields() with 0.
func emptyStructSideCondition(fn *ssa.Function) bool {
	for _, f := range an.WithClosures(fn) {
		for _, b := range f.Blocks {
			for _, in := range b.Instrs {
				bo, ok := in.(*ssa.BinOp)
				if !ok || bo.Op != token.EQL && bo.Op != token.NEQ {
					continue
				}
				call, ok := bo.X.(*ssa.Call)
				if !ok || !strings.HasSuffix(an.CalleeOf(call).FullName(), "FieldList).NumFields") {
					continue
				}
				if k, isC := an.ConstInt(bo.Y); isC && k == 0 {
					return true
				}
			}
		}
	}
	return false
}
