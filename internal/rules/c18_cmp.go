package rules

import (
	"go/ast"
	"go/token"
	"go/types"
	"strings"

	"golang.org/x/tools/go/ssa"

	"verif/internal/an"
	"verif/internal/pipeline"
)

// c18Comparators: the sorts that turn map order into a fixed order only do so when the comparator is a strict weak order that
// separates the elements.  Two structural necessary conditions, decided on the type-checked syntax of every comparator
// function literal handed to sort.Slice / sort.SliceStable / slices.SortFunc / slices.SortStableFunc in the generator packages:
//
// (comparator-order) the comparator is interpreted over abstract valuations (see cmpEval): it never orders a before b and b
// before a at once, it orders something (a comparator that compares an element with itself — the usual typo
// `xs[i].Name < xs[i].Name` — never does), and it never compares two different keys across the elements.
//
// (sort-key-from-map-key) where the sorted slice was filled inside a range over a map in the same function and the element is
// built there (struct literal, or a local closure returning one), the field the comparator finally decides on is filled
// from the range key by an injective expression (the key, a Sprintf/concatenation containing it).  Another field can be
// equal for two map entries, and equal elements keep map order.
func c18Comparators(c *Ctx) {
	c.R.Rule("comparator-order", "every bool comparator literal handed to sort.Slice/SliceStable/slices.SortFunc/SortStableFunc in the generator packages, interpreted over abstract valuations (same-key comparisons three-valued, other sub-conditions opaque per element): never less(a,b) and less(b,a) at once, true for some valuation, and never a comparison of two different keys across the elements", 6)
	type keyed struct{ pos, key, field, msg string }
	var keyRes []keyed
	for _, path := range c.W.ModulePackages() {
		if !isGeneratorPkg(path) {
			continue
		}
		tp := c.W.TPkg(path)
		rel := strings.TrimPrefix(strings.TrimPrefix(path, pipeline.Module), "/")
		if rel == "" {
			rel = "main"
		}
		for _, f := range tp.Syntax {
			for _, d := range f.Decls {
				fd, ok := d.(*ast.FuncDecl)
				if !ok || fd.Body == nil {
					continue
				}
				fname := fd.Name.Name
				if fd.Recv != nil && len(fd.Recv.List) > 0 {
					fname = types.ExprString(fd.Recv.List[0].Type) + "." + fname
				}
				nth := map[string]int{}
				ast.Inspect(fd.Body, func(n ast.Node) bool {
					call, ok := n.(*ast.CallExpr)
					if !ok || len(call.Args) < 2 {
						return true
					}
					name := calleeName(tp.TypesInfo, call)
					switch name {
					case "sort.Slice", "sort.SliceStable", "slices.SortFunc", "slices.SortStableFunc":
					default:
						return true
					}
					lit, ok := call.Args[1].(*ast.FuncLit)
					if !ok || len(lit.Type.Params.List) == 0 {
						return true
					}
					var params []types.Object
					for _, fl := range lit.Type.Params.List {
						for _, nm := range fl.Names {
							params = append(params, tp.TypesInfo.Defs[nm])
						}
					}
					if len(params) != 2 {
						return true
					}
					sl := types.ExprString(call.Args[0])
					nth[sl]++
					key := rel + "." + fname + "/" + sl
					if nth[sl] > 1 {
						key += sprintf("#%d", nth[sl])
					}
					msg, at, undec := comparatorOrder(tp.TypesInfo, lit, params[0], params[1])
					switch {
					case undec != "":
						c.R.Note(key, c.pos(lit.Pos()), "comparator outside the interpreted fragment ("+undec+"): not decided")
					case msg != "":
						c.R.Bad(key, c.pos(at.Pos()), "the comparator "+msg)
					default:
						c.R.OK(key, c.pos(lit.Pos()), "asymmetric under every abstract valuation, and able to order")
					}
					// sort-key-from-map-key
					if field, src, rng := sortKeySource(tp.TypesInfo, fd, call, lit, params[0]); rng != nil {
						k := keyed{pos: c.pos(call.Pos()), key: key, field: field}
						if src == nil {
							k.msg = "the comparator finally decides on ." + field + ", which is not filled from the key of the map the slice is collected from (" + types.ExprString(rng.X) + "): two entries can agree on it and then keep map order"
						}
						keyRes = append(keyRes, k)
					}
					return true
				})
			}
		}
	}
	c.R.Rule("sort-key-from-map-key", "a slice filled while ranging over a map and sorted in the same function: the field the comparator finally decides on is filled from the range key (the key itself, or a Sprintf/concatenation containing it)", 1)
	for _, k := range keyRes {
		if k.msg != "" {
			c.R.Bad(k.key, k.pos, k.msg)
		} else {
			c.R.OK(k.key, k.pos, "final sort key ."+k.field+" is an injective function of the map key")
		}
	}
}

func calleeName(info *types.Info, call *ast.CallExpr) string {
	var id *ast.Ident
	switch f := ast.Unparen(call.Fun).(type) {
	case *ast.SelectorExpr:
		id = f.Sel
	case *ast.Ident:
		id = f
	case *ast.IndexExpr:
		if s, ok := f.X.(*ast.SelectorExpr); ok {
			id = s.Sel
		}
	}
	if id == nil {
		return ""
	}
	if fn, ok := info.Uses[id].(*types.Func); ok && fn.Pkg() != nil {
		return fn.Pkg().Path() + "." + fn.Name()
	}
	return ""
}

// --- a small symbolic evaluator for comparator literals ---------------------------------------------------------------------
//
// The comparator is executed over abstract valuations: a comparison of the same key of the two elements (K(i) op K(j)) is a
// three-valued relation variable, every other boolean sub-expression that mentions one element is an opaque boolean atom
// (one per element), and if/else/return/&&/||/! are interpreted.  less(i,j) is evaluated under each valuation and less(j,i)
// under the same valuation with the roles swapped.  Reported: a valuation where both are true (not asymmetric), a comparator
// that is never true, and a comparison of two different keys across the elements.  Shapes outside this fragment are left
// undecided (a note), never reported.
type cmpEval struct {
	info   *types.Info
	a, b   types.Object
	defs   map[types.Object]ast.Expr
	atoms  []string
	isKey  map[string]bool
	val    map[string]int // boolean atoms: 0/1; key relations: -1/0/1
	undec  string
	cross  ast.Expr
	nAtoms int
}

func (ev *cmpEval) canon(e ast.Expr, swap bool) (string, bool, bool) {
	ma, mb := false, false
	var sb strings.Builder
	seen := map[types.Object]bool{}
	var pr func(e ast.Node)
	pr = func(n ast.Node) {
		switch x := n.(type) {
		case *ast.Ident:
			obj := ev.info.Uses[x]
			switch {
			case obj != nil && obj == ev.a:
				ma = true
				if swap {
					sb.WriteString("#1")
				} else {
					sb.WriteString("#0")
				}
			case obj != nil && obj == ev.b:
				mb = true
				if swap {
					sb.WriteString("#0")
				} else {
					sb.WriteString("#1")
				}
			case obj != nil && ev.defs[obj] != nil && !seen[obj]:
				seen[obj] = true
				sb.WriteString("(")
				pr(ev.defs[obj])
				sb.WriteString(")")
				seen[obj] = false
			default:
				sb.WriteString(x.Name)
			}
		case *ast.ParenExpr:
			pr(x.X)
		case *ast.SelectorExpr:
			pr(x.X)
			sb.WriteString("." + x.Sel.Name)
		case *ast.IndexExpr:
			pr(x.X)
			sb.WriteString("[")
			pr(x.Index)
			sb.WriteString("]")
		case *ast.CallExpr:
			pr(x.Fun)
			sb.WriteString("(")
			for i, a := range x.Args {
				if i > 0 {
					sb.WriteString(",")
				}
				pr(a)
			}
			sb.WriteString(")")
		case *ast.BasicLit:
			sb.WriteString(x.Value)
		case *ast.UnaryExpr:
			sb.WriteString(x.Op.String())
			pr(x.X)
		case *ast.StarExpr:
			sb.WriteString("*")
			pr(x.X)
		case *ast.BinaryExpr:
			sb.WriteString("(")
			pr(x.X)
			sb.WriteString(x.Op.String())
			pr(x.Y)
			sb.WriteString(")")
		default:
			sb.WriteString(types.ExprString(e))
			ev.undec = "expression form " + sprintf("%T", n)
		}
	}
	pr(e)
	if swap {
		ma, mb = mb, ma
	}
	return sb.String(), ma, mb
}

func (ev *cmpEval) atom(name string, key bool) int {
	if v, ok := ev.val[name]; ok {
		return v
	}
	ev.atoms = append(ev.atoms, name)
	ev.isKey[name] = key
	ev.val[name] = 0
	return 0
}

// evalBool: 0/1
func (ev *cmpEval) evalBool(e ast.Expr, swap bool) int {
	switch x := ast.Unparen(e).(type) {
	case *ast.UnaryExpr:
		if x.Op == token.NOT {
			return 1 - ev.evalBool(x.X, swap)
		}
	case *ast.Ident:
		if x.Name == "true" {
			return 1
		}
		if x.Name == "false" {
			return 0
		}
		if obj := ev.info.Uses[x]; obj != nil && ev.defs[obj] != nil {
			return ev.evalBool(ev.defs[obj], swap)
		}
	case *ast.BinaryExpr:
		switch x.Op {
		case token.LAND:
			if ev.evalBool(x.X, swap) == 0 {
				return 0
			}
			return ev.evalBool(x.Y, swap)
		case token.LOR:
			if ev.evalBool(x.X, swap) == 1 {
				return 1
			}
			return ev.evalBool(x.Y, swap)
		case token.LSS, token.GTR, token.LEQ, token.GEQ, token.EQL, token.NEQ:
			cx, xa, xb := ev.canon(x.X, swap)
			cy, ya, yb := ev.canon(x.Y, swap)
			rel := 2
			switch {
			case cx == cy:
				rel = 0
			case xa && !xb && yb && !ya, xb && !xa && ya && !yb:
				// one element on each side: the same key?
				kx := strings.NewReplacer("#0", "#", "#1", "#").Replace(cx)
				ky := strings.NewReplacer("#0", "#", "#1", "#").Replace(cy)
				if kx != ky {
					if ev.cross == nil {
						ev.cross = e
					}
					return 0
				}
				rel = ev.atom("rel:"+kx, true) // relation of K(#0) to K(#1)
				if xb {
					rel = -rel
				}
			}
			if rel != 2 {
				switch x.Op {
				case token.LSS:
					return b2i(rel < 0)
				case token.GTR:
					return b2i(rel > 0)
				case token.LEQ:
					return b2i(rel <= 0)
				case token.GEQ:
					return b2i(rel >= 0)
				case token.EQL:
					return b2i(rel == 0)
				default:
					return b2i(rel != 0)
				}
			}
		}
	}
	// opaque atom
	name, ma, mb := ev.canon(e, swap)
	if ma && mb {
		ev.undec = "a sub-expression over both elements that is not a comparison of one key: " + types.ExprString(e)
		return 0
	}
	return ev.atom(name, false)
}

func b2i(b bool) int {
	if b {
		return 1
	}
	return 0
}

// exec: 1 true, 0 false, -1 falls through
func (ev *cmpEval) exec(stmts []ast.Stmt, swap bool) int {
	for _, s := range stmts {
		switch s := s.(type) {
		case *ast.ReturnStmt:
			if len(s.Results) != 1 {
				ev.undec = "return form"
				return 0
			}
			return ev.evalBool(s.Results[0], swap)
		case *ast.IfStmt:
			if s.Init != nil {
				if _, ok := s.Init.(*ast.AssignStmt); !ok {
					ev.undec = "if-init form"
					return 0
				}
			}
			r := -1
			if ev.evalBool(s.Cond, swap) == 1 {
				r = ev.exec(s.Body.List, swap)
			} else if s.Else != nil {
				r = ev.exec([]ast.Stmt{s.Else}, swap)
			}
			if r >= 0 {
				return r
			}
		case *ast.BlockStmt:
			if r := ev.exec(s.List, swap); r >= 0 {
				return r
			}
		case *ast.AssignStmt, *ast.DeclStmt, *ast.EmptyStmt:
			// single-assignment locals are inlined through defs
		default:
			ev.undec = sprintf("statement form %T", s)
			return 0
		}
	}
	return -1
}

// comparatorOrder returns ("", nil) when the comparator is fine, a message and position when it is not, and undec != ""
// when its shape is outside the interpreted fragment.
func comparatorOrder(info *types.Info, lit *ast.FuncLit, a, b types.Object) (msg string, at ast.Node, undec string) {
	ev := &cmpEval{info: info, a: a, b: b, defs: map[types.Object]ast.Expr{}, isKey: map[string]bool{}, val: map[string]int{}}
	if res := lit.Type.Results; res == nil || len(res.List) != 1 || types.ExprString(res.List[0].Type) != "bool" {
		return "", nil, "not a bool comparator"
	}
	count := map[types.Object]int{}
	ast.Inspect(lit.Body, func(n ast.Node) bool {
		as, ok := n.(*ast.AssignStmt)
		if !ok {
			return true
		}
		for i, l := range as.Lhs {
			id, ok := l.(*ast.Ident)
			if !ok {
				ev.undec = "assignment to a non-local"
				continue
			}
			obj := info.Defs[id]
			if obj == nil {
				obj = info.Uses[id]
			}
			if obj == nil {
				continue
			}
			count[obj]++
			if len(as.Rhs) == len(as.Lhs) {
				ev.defs[obj] = as.Rhs[i]
			} else {
				ev.undec = "multi-value assignment"
			}
		}
		return true
	})
	for o, n := range count {
		if n > 1 {
			ev.undec = "local " + o.Name() + " assigned more than once"
		}
	}
	if ev.undec != "" {
		return "", nil, ev.undec
	}
	everTrue := false
	for round := 0; round < 64; round++ {
		n := len(ev.atoms)
		if n > 10 {
			return "", nil, "too many atoms"
		}
		// enumerate valuations over the atoms discovered so far
		idx := make([]int, n)
		for {
			for i, name := range ev.atoms[:n] {
				if ev.isKey[name] {
					ev.val[name] = idx[i] - 1
				} else {
					ev.val[name] = idx[i]
				}
			}
			fwd := ev.exec(lit.Body.List, false)
			rev := ev.exec(lit.Body.List, true) // the same world with the roles of the elements exchanged (canon renames them)
			if ev.undec != "" {
				return "", nil, ev.undec
			}
			if ev.cross != nil {
				return "compares two different keys of the two elements (" + types.ExprString(ev.cross) + ")", ev.cross, ""
			}
			if len(ev.atoms) == n {
				if fwd == 1 {
					everTrue = true
				}
				if fwd == 1 && rev == 1 {
					var w []string
					for _, name := range ev.atoms {
						w = append(w, sprintf("%s=%d", name, ev.val[name]))
					}
					return "can order a before b and b before a at once (when " + strings.Join(w, ", ") + "): it is not a strict order, so the outcome of the sort depends on the order the slice was filled in", lit, ""
				}
			}
			// next valuation
			k := 0
			for k < n {
				lim := 2
				if ev.isKey[ev.atoms[k]] {
					lim = 3
				}
				idx[k]++
				if idx[k] < lim {
					break
				}
				idx[k] = 0
				k++
			}
			if k == n {
				break
			}
		}
		if len(ev.atoms) == n {
			break
		}
		everTrue = false
	}
	if !everTrue {
		return "never orders any element before another (it compares an element with itself): the sort leaves the slice in an order that depends on how it was filled", lit, ""
	}
	return "", nil, ""
}

// sortKeySource: for sort.Slice(S, lit) where S is a local slice that is appended to inside a `for k := range <map>` of the
// same function, returns the field the comparator's last return decides on, the injective source expression (nil when the
// field is not filled from k) and the range statement.  rng == nil means the site is not of that shape (not decided here).
func sortKeySource(info *types.Info, fd *ast.FuncDecl, call *ast.CallExpr, lit *ast.FuncLit, a types.Object) (string, ast.Expr, *ast.RangeStmt) {
	sid, ok := call.Args[0].(*ast.Ident)
	if !ok {
		return "", nil, nil
	}
	sobj := info.Uses[sid]
	// the comparator's terminal decision
	if len(lit.Body.List) == 0 {
		return "", nil, nil
	}
	ret, ok := lit.Body.List[len(lit.Body.List)-1].(*ast.ReturnStmt)
	if !ok || len(ret.Results) != 1 {
		return "", nil, nil
	}
	field := ""
	ast.Inspect(ret.Results[0], func(n ast.Node) bool {
		if field != "" {
			return false
		}
		// S[i].F…  : first selector applied to the indexed element
		sel, ok := n.(*ast.SelectorExpr)
		if !ok {
			return true
		}
		if ix, ok := ast.Unparen(sel.X).(*ast.IndexExpr); ok {
			if id, ok := ix.X.(*ast.Ident); ok && info.Uses[id] == sobj {
				if ii, ok := ix.Index.(*ast.Ident); ok && info.Uses[ii] == a {
					field = sel.Sel.Name
					return false
				}
			}
		}
		return true
	})
	if field == "" {
		return "", nil, nil
	}
	// the map range that appends to S
	var rng *ast.RangeStmt
	var elem ast.Expr
	ast.Inspect(fd.Body, func(n ast.Node) bool {
		rs, ok := n.(*ast.RangeStmt)
		if !ok || rng != nil {
			return true
		}
		tv, ok := info.Types[rs.X]
		if !ok {
			return true
		}
		if _, isMap := tv.Type.Underlying().(*types.Map); !isMap {
			return true
		}
		ast.Inspect(rs.Body, func(m ast.Node) bool {
			ap, ok := m.(*ast.CallExpr)
			if !ok || len(ap.Args) != 2 {
				return true
			}
			if id, ok := ap.Fun.(*ast.Ident); !ok || id.Name != "append" {
				return true
			}
			if id, ok := ap.Args[0].(*ast.Ident); ok && info.Uses[id] == sobj {
				rng, elem = rs, ap.Args[1]
			}
			return true
		})
		return true
	})
	if rng == nil {
		return "", nil, nil
	}
	kid, ok := rng.Key.(*ast.Ident)
	if !ok || kid.Name == "_" {
		return field, nil, nil // the key is not even bound: nothing can be filled from it; decided only if the element is built here
	}
	kobj := info.Defs[kid]
	if kobj == nil {
		kobj = info.Uses[kid]
	}
	// single-assignment locals of the loop body
	loopLocals = map[types.Object]ast.Expr{}
	cnt := map[types.Object]int{}
	ast.Inspect(rng.Body, func(n ast.Node) bool {
		as, ok := n.(*ast.AssignStmt)
		if !ok || len(as.Lhs) != len(as.Rhs) {
			return true
		}
		for i, l := range as.Lhs {
			if id, ok := l.(*ast.Ident); ok {
				o := info.Defs[id]
				if o == nil {
					o = info.Uses[id]
				}
				if o != nil {
					cnt[o]++
					loopLocals[o] = as.Rhs[i]
				}
			}
		}
		return true
	})
	for o, n := range cnt {
		if n > 1 {
			delete(loopLocals, o)
		}
	}
	// resolve the element's field F
	val, subst := fieldValueOf(info, fd, rng, elem, field)
	if val == nil {
		return "", nil, nil // the element is built elsewhere: not decided here
	}
	if injectiveIn(info, val, kobj, subst) {
		return field, val, rng
	}
	return field, nil, rng
}

// fieldValueOf finds the expression stored in field F of the appended element: elem is a composite literal, a local variable
// assigned one in the loop body, or a call of a closure declared in the function whose body returns one (then subst maps the
// closure's parameters to the call's arguments).
func fieldValueOf(info *types.Info, fd *ast.FuncDecl, rng *ast.RangeStmt, elem ast.Expr, field string) (ast.Expr, map[types.Object]ast.Expr) {
	fromLit := func(e ast.Expr) ast.Expr {
		e = ast.Unparen(e)
		if u, ok := e.(*ast.UnaryExpr); ok && u.Op == token.AND {
			e = u.X
		}
		cl, ok := e.(*ast.CompositeLit)
		if !ok {
			return nil
		}
		for _, el := range cl.Elts {
			if kv, ok := el.(*ast.KeyValueExpr); ok {
				if id, ok := kv.Key.(*ast.Ident); ok && id.Name == field {
					return kv.Value
				}
			}
		}
		return nil
	}
	if v := fromLit(elem); v != nil {
		return v, nil
	}
	switch e := ast.Unparen(elem).(type) {
	case *ast.Ident:
		obj := info.Uses[e]
		var v ast.Expr
		ast.Inspect(rng.Body, func(n ast.Node) bool {
			as, ok := n.(*ast.AssignStmt)
			if !ok {
				return true
			}
			for i, l := range as.Lhs {
				switch l := l.(type) {
				case *ast.Ident:
					o := info.Defs[l]
					if o == nil {
						o = info.Uses[l]
					}
					if o == obj && i < len(as.Rhs) {
						if x := fromLit(as.Rhs[i]); x != nil {
							v = x
						}
					}
				case *ast.SelectorExpr:
					if id, ok := l.X.(*ast.Ident); ok && info.Uses[id] == obj && l.Sel.Name == field && i < len(as.Rhs) {
						v = as.Rhs[i]
					}
				}
			}
			return true
		})
		return v, nil
	case *ast.CallExpr:
		id, ok := e.Fun.(*ast.Ident)
		if !ok {
			return nil, nil
		}
		obj := info.Uses[id]
		var fl *ast.FuncLit
		ast.Inspect(fd.Body, func(n ast.Node) bool {
			as, ok := n.(*ast.AssignStmt)
			if !ok {
				return true
			}
			for i, l := range as.Lhs {
				if li, ok := l.(*ast.Ident); ok && (info.Defs[li] == obj || info.Uses[li] == obj) && i < len(as.Rhs) {
					if x, ok := as.Rhs[i].(*ast.FuncLit); ok {
						fl = x
					}
				}
			}
			return true
		})
		if fl == nil {
			return nil, nil
		}
		subst := map[types.Object]ast.Expr{}
		i := 0
		for _, p := range fl.Type.Params.List {
			for _, nm := range p.Names {
				if i < len(e.Args) {
					subst[info.Defs[nm]] = e.Args[i]
				}
				i++
			}
		}
		var v ast.Expr
		ast.Inspect(fl.Body, func(n ast.Node) bool {
			if r, ok := n.(*ast.ReturnStmt); ok && len(r.Results) > 0 {
				if x := fromLit(r.Results[0]); x != nil {
					v = x
				}
			}
			return true
		})
		return v, subst
	}
	return nil, nil
}

// loopLocals: single-assignment locals of the range body being examined (set by sortKeySource).
var loopLocals = map[types.Object]ast.Expr{}

// injectiveIn: e is the key, a parameter bound to the key, a string conversion, concatenation or fmt.Sprintf containing such.
func injectiveIn(info *types.Info, e ast.Expr, key types.Object, subst map[types.Object]ast.Expr) bool {
	switch e := ast.Unparen(e).(type) {
	case *ast.Ident:
		obj := info.Uses[e]
		if obj == key {
			return true
		}
		if s, ok := subst[obj]; ok {
			return injectiveIn(info, s, key, nil)
		}
		// a local of the loop body that is assigned once (`funcName := "Populate" + name + "Requires"`)
		if d, ok := loopLocals[obj]; ok && d != nil {
			delete(loopLocals, obj) // no cycles
			r := injectiveIn(info, d, key, subst)
			loopLocals[obj] = d
			return r
		}
	case *ast.BinaryExpr:
		if e.Op == token.ADD {
			return injectiveIn(info, e.X, key, subst) || injectiveIn(info, e.Y, key, subst)
		}
	case *ast.CallExpr:
		if tv, ok := info.Types[e.Fun]; ok && tv.IsType() && len(e.Args) == 1 {
			return injectiveIn(info, e.Args[0], key, subst)
		}
		if calleeName(info, e) == "fmt.Sprintf" {
			for _, a := range e.Args[1:] {
				if injectiveIn(info, a, key, subst) {
					return true
				}
			}
		}
	}
	return false
}

// c18Idempotence: two structural necessary conditions of "running generation again on a freshly generated tree changes nothing"
// and of "independent of the directory the tool is started from".
//
// (previous-body-trimmed) what the rewriter reads back from the previous run (a method body or its comment) is emitted again
// by the templates between fixed delimiters; the whitespace next to those delimiters belongs to the template, not to the
// body, so every value returned by (*rewrite.Rewriter).GetMethodBody / GetMethodComment in the generator packages is used only
// through strings.TrimSpace (possibly after other strings.Trim* calls).  Without it every run wraps the previous body in
// one more layer of the template's own whitespace before gofmt settles it.
//
// (config-search-ascends) config.findCfg looks for the configuration file in the start directory and every parent: its
// call of filepath.Dir sits in a loop (or findCfg is recursive).
func c18Idempotence(c *Ctx) {
	c.R.Rule("previous-body-trimmed", "every result of (*rewrite.Rewriter).GetMethodBody/GetMethodComment in the generator packages is used only as the operand of strings.TrimSpace, directly or through other strings.Trim* calls", 4)
	n := 0
	for _, fn := range c.W.FuncsIn(isGeneratorPkg) {
		for _, call := range an.CallsIn(fn, func(_ ssa.CallInstruction, ci an.CalleeInfo) bool {
			if ci.Static == nil || ci.Static.Pkg == nil || ci.Static.Pkg.Pkg.Path() != modPath("internal/rewrite") {
				return false
			}
			return ci.Static.Name() == "GetMethodBody" || ci.Static.Name() == "GetMethodComment"
		}) {
			v, ok := call.(ssa.Value)
			if !ok {
				continue
			}
			n++
			key := shortFn(topFn(fn)) + "/" + call.Common().StaticCallee().Name()
			if len(call.Common().Args) > 2 {
				if cs, ok := an.ConstString(call.Common().Args[1]); ok {
					key += "(" + cs + ")"
				}
			}
			bad := untrimmedUse(v, 0)
			if bad != nil {
				c.R.Bad(key, c.ipos(bad), "the text read back from the previous run is used here without strings.TrimSpace: each run then re-emits it with the template's surrounding whitespace added, so a second run over fresh output changes the file")
			} else {
				c.R.OK(key, c.ipos(call), "used only through strings.TrimSpace")
			}
		}
	}
	if n < 4 {
		c.R.Fail("previous-body-trimmed: %d read-back sites found", n)
	}

	c.R.Rule("config-search-ascends", "config.findCfg calls filepath.Dir inside a loop (or is recursive): the configuration is searched for in every parent of the start directory", 1)
	fn := c.W.Func(modPath("codegen/config"), "findCfg")
	if fn == nil || len(fn.Blocks) == 0 {
		c.R.Fail("unresolved anchor: config.findCfg")
		return
	}
	inLoop := map[*ssa.BasicBlock]bool{}
	for _, l := range an.Loops(fn) {
		for b := range l.Blocks {
			inLoop[b] = true
		}
	}
	ok, rec := false, false
	var at ssa.Instruction
	for _, b := range fn.Blocks {
		for _, in := range b.Instrs {
			call, isCall := in.(ssa.CallInstruction)
			if !isCall {
				continue
			}
			switch an.CalleeOf(call).FullName() {
			case "path/filepath.Dir":
				// only a step that replaces the directory counts: its result is stored/phi'd, not merely compared
				if at == nil {
					at = in
				}
				if inLoop[b] && ascends(call.(ssa.Value)) {
					ok = true
				}
			}
			if call.Common().StaticCallee() == fn {
				rec = true
			}
		}
	}
	c.R.Check(ok || rec, "config.findCfg", c.pos(fn.Pos()), "the step to the parent directory is repeated until the file is found or the root is reached",
		"findCfg no longer repeats the step to the parent directory: a configuration more than one level above the start directory is not found, so the result of generation depends on where the tool is started")
}

// ascends: the value (or a value computed from it) is carried around the loop — it reaches a phi or a store.
func ascends(v ssa.Value) bool {
	seen := map[ssa.Value]bool{}
	var walk func(v ssa.Value, d int) bool
	walk = func(v ssa.Value, d int) bool {
		if seen[v] || d > 6 || v.Referrers() == nil {
			return false
		}
		seen[v] = true
		for _, r := range *v.Referrers() {
			switch r := r.(type) {
			case *ssa.Phi:
				return true
			case *ssa.Store:
				if r.Val == v {
					return true
				}
			case *ssa.ChangeType:
				if walk(r, d+1) {
					return true
				}
			}
		}
		return false
	}
	return walk(v, 0)
}

// untrimmedUse returns a use of v that is neither strings.TrimSpace nor a strings.Trim* call whose own result is used
// only through TrimSpace.
func untrimmedUse(v ssa.Value, depth int) ssa.Instruction {
	if v.Referrers() == nil || depth > 4 {
		return nil
	}
	for _, r := range *v.Referrers() {
		if _, ok := r.(*ssa.DebugRef); ok {
			continue
		}
		call, ok := r.(*ssa.Call)
		if !ok {
			return r
		}
		name := an.CalleeOf(call).FullName()
		switch {
		case name == "strings.TrimSpace":
		case strings.HasPrefix(name, "strings.Trim"):
			if u := untrimmedUse(call, depth+1); u != nil {
				return u
			}
		default:
			return r
		}
	}
	return nil
}

// c18EmittedDeclsMarked: what the resolver template writes itself must not also be carried over as "remaining source".  The
// single-file layout emits the root type (`type Resolver struct{}`, ResolverBuild.HasRoot); the generator therefore marks
// that struct as copied before it asks the rewriter for the remaining source — otherwise the second run over untouched output
// finds the root type unclaimed and moves it into the "code below was going to be deleted" block: generation is not idempotent
// (and the user is warned about code nobody wrote).
func c18EmittedDeclsMarked(c *Ctx) {
	c.R.Rule("emitted-root-marked-copied", "plugin/resolvergen: a function that renders with ResolverBuild.HasRoot = true calls a Rewriter.Mark…Copied method with the configured resolver type name before Rewriter.RemainingSource", 1)
	n := 0
	for _, fn := range c.W.FuncsIn(func(p string) bool { return p == pkgResolvergen }) {
		var hasRoot ssa.Instruction
		for _, b := range fn.Blocks {
			for _, in := range b.Instrs {
				st, ok := in.(*ssa.Store)
				if !ok {
					continue
				}
				fa, ok := st.Addr.(*ssa.FieldAddr)
				if !ok || fieldNameOf(fa) != "HasRoot" {
					continue
				}
				if k, isC := st.Val.(*ssa.Const); isC && k.Value != nil && k.Value.String() == "true" {
					hasRoot = in
				}
			}
		}
		if hasRoot == nil {
			continue
		}
		n++
		var marks, remaining []ssa.Instruction
		for _, call := range an.CallsIn(fn, func(_ ssa.CallInstruction, ci an.CalleeInfo) bool {
			return ci.Static != nil && (strings.HasPrefix(ci.Static.Name(), "Mark") && strings.HasSuffix(ci.Static.Name(), "Copied") || ci.Static.Name() == "RemainingSource")
		}) {
			if call.Common().StaticCallee().Name() == "RemainingSource" {
				remaining = append(remaining, call)
				continue
			}
			args := call.Common().Args
			if fa, ok := loadAddr(an.Strip(args[len(args)-1])).(*ssa.FieldAddr); ok && fieldNameOf(fa) == "Type" {
				if nt := namedStruct(fa.X.Type()); nt != nil && strings.Contains(nt.Obj().Name(), "Resolver") {
					marks = append(marks, call)
				}
			}
		}
		ok := len(marks) > 0
		for _, r := range remaining {
			before := false
			for _, m := range marks {
				if an.CanReach(m, r) && !an.CanReach(r, m) {
					before = true
				}
			}
			if !before {
				ok = false
			}
		}
		c.R.Check(ok, shortFn(topFn(fn))+"/root-type", c.ipos(hasRoot), "the root type is claimed before the remaining source is computed",
			"the template emits the root resolver type (HasRoot) but the generator never marks that struct as copied: on the next run over untouched output `type "+"Resolver struct{}` is treated as left-over user code and moved into the WARNING block — running generation twice changes the file")
	}
	if n == 0 {
		c.R.Note("emitted-root-marked-copied", "-", "no function of resolvergen renders with HasRoot = true; nothing to judge")
	}
}
