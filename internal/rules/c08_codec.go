package rules

import (
	"strings"

	"golang.org/x/tools/go/ssa"

	"verif/internal/an"
)

// c08TimeCodec: the Time scalar is written with a layout that keeps every component of the value (nanosecond fraction and zone
// offset), and the reader's layout parses what the writer produces.  time.Parse accepts a fractional second that follows the
// seconds field even when the layout has none, so the reader may use the writer's layout or the same layout without the
// fraction; nothing else is accepted without review.
func c08TimeCodec(c *Ctx) {
	c.R.Rule("time-codec", "MarshalTime formats with a constant layout containing a 9-digit fractional second and a numeric zone offset; UnmarshalTime parses with that layout or with the same layout minus the fraction", 2)
	layoutOf := func(fnName, callee string) (string, ssa.Instruction, bool) {
		fn := c.fn(pkgGraphql, fnName)
		if fn == nil {
			return "", nil, false
		}
		for _, f := range an.WithClosures(fn) {
			for _, call := range an.CallsIn(f, func(_ ssa.CallInstruction, ci an.CalleeInfo) bool { return ci.FullName() == callee }) {
				idx := 0
				if callee == "(time.Time).Format" {
					idx = 1
				}
				if s, ok := an.ConstString(call.Common().Args[idx]); ok {
					return s, call, true
				}
				c.R.Unknown(fnName+"/layout", c.ipos(call), "the layout is not a constant")
				return "", call, false
			}
		}
		c.R.Fail("unresolved anchor: %s does not call %s", fnName, callee)
		return "", nil, false
	}
	wl, wcall, ok1 := layoutOf("MarshalTime", "(time.Time).Format")
	rl, rcall, ok2 := layoutOf("UnmarshalTime", "time.Parse")
	if !ok1 || !ok2 {
		return
	}
	frac := strings.Contains(wl, ".999999999") || strings.Contains(wl, ".000000000") || strings.Contains(wl, ",999999999") || strings.Contains(wl, ",000000000")
	zone := strings.Contains(wl, "Z07:00") || strings.Contains(wl, "-07:00") || strings.Contains(wl, "Z0700") || strings.Contains(wl, "-0700")
	date := strings.Contains(wl, "2006") && strings.Contains(wl, "01") && strings.Contains(wl, "02") && strings.Contains(wl, "15") && strings.Contains(wl, "04") && strings.Contains(wl, "05")
	c.R.Check(frac && zone && date, "MarshalTime/layout-lossless", c.ipos(wcall), "layout "+wl+" keeps date, time, nanoseconds and zone offset",
		sprintf("the layout %q drops part of the value (full date and time: %v, 9-digit fraction: %v, zone offset: %v): the written time does not decode to the original", wl, date, frac, zone))
	strip := func(s string) string {
		for _, f := range []string{".999999999", ".000000000", ",999999999", ",000000000"} {
			s = strings.Replace(s, f, "", 1)
		}
		return s
	}
	c.R.Check(rl == wl || rl == strip(wl), "UnmarshalTime/layout-reads-writer", c.ipos(rcall), "parses the writer's layout",
		sprintf("UnmarshalTime parses with %q but MarshalTime writes %q: a written time is rejected or read as a different instant", rl, wl))
}
