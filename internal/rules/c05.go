package rules

import (
	"go/token"
	"go/types"
	"sort"
	"strings"

	"golang.org/x/tools/go/ssa"

	"verif/internal/an"
)

func init() {
	register(&Property{
		ID:      "C05",
		NeedGen: true,
		Runtime: RuntimeCore,
		Run:     runC05,
		Explanation: "WaitGroup accounting, fork/join and termination witnesses for every goroutine gqlgen starts, on every path: (wg-accounting) in every function of the runtime and of each materialised executor that uses a " +
			"sync.WaitGroup, each loop iteration accounts for exactly as many Done events as were Added (a Done event is a call/go of a closure that registers a deferred Done before any call that can panic), also on " +
			"the worker_limit branch where Acquire can fail, and Wait is passed on every path to a return; (fork-join) every go statement in generated code and package graphql is joined that way or has a termination " +
			"witness (sends only on buffered channels or inside a select with a done case); (stream-select) every subscription field's response closure receives from the resolver channel only inside a select with a " +
			"<-ctx.Done() case returning nil; (transport-goroutines) each goroutine of package transport loops only around a select with a done/ctx.Done() case that returns and stops its ticker, or is covered by a " +
			"reviewed table entry; (close-cancels-all) wsConnection.close invokes every value of the active map.",
		NotDecided:  "wall-clock bounds; that user resolvers return promptly when their context is cancelled; gorilla/websocket and net/http internals",
		Assumptions: []string{"sync.WaitGroup, context and channel semantics", "a read blocked in websocket NextMessage is released by Conn.Close (C11/exit-closes covers the close)"},
	})
}

func runC05(c *Ctx) {
	c05WG(c)
	c05ForkJoin(c)
	c05StreamSelect(c)
	c05TransportGoroutines(c)
	c05TransportBlocking(c)
	c05CloseCancelsAll(c)
	rootOnce(c)
	// the multipart/mixed flush ticker is stopped on every exit: aggregator.Done is deferred (C12/terminal-once)
	c12TerminalOnce(c)
	locksReleased(c, pkgTransport, pkgGraphql, pkgExecutor, pkgHandler)
	deferredReceiveCancellable(c)
	dispatchDoneLast(c)
	// a goroutine that writes the response is gone (or has nothing left to write) when the transport returns (C12)
	c12WriterGoroutineBounded(c)
	layoutAgreement(c)
	genRound2(c)
	c11ExitCloses(c)
	c11TerminalFrame(c)
	c11Round2(c)
}

// ------------------------------------------------------------------------------------------------
// WaitGroup accounting

func isWGMethod(in ssa.Instruction, name string) (ssa.CallInstruction, ssa.Value) {
	call, ok := in.(ssa.CallInstruction)
	if !ok {
		return nil, nil
	}
	if an.CalleeOf(call).FullName() != "(*sync.WaitGroup)."+name {
		return nil, nil
	}
	return call, call.Common().Args[0]
}

// doneDefer: in is `defer wg.Done()` or `defer func(){ ...; wg.Done() }()` for the WaitGroup cell wg.
// wgAliases: parameters of separate functions that receive the address of the WaitGroup under examination (`go ec.work(…, &wg)`).
var wgAliases = map[ssa.Value]ssa.Value{}

// sameWG: recv denotes the WaitGroup wg — the cell itself, or a parameter a carrier function receives its address in.
func sameWG(recv, wg ssa.Value) bool {
	r := an.RootAlloc(recv)
	if r == an.RootAlloc(wg) {
		return true
	}
	if ld, ok := r.(*ssa.UnOp); ok { // *g where g is the parameter's spill cell
		r = an.RootAlloc(ld.X)
	}
	for _, d := range append([]ssa.Value{r}, an.Defs(recv)...) {
		if a, ok := wgAliases[d]; ok && a == an.RootAlloc(wg) {
			return true
		}
	}
	return false
}

func isDoneDefer(in ssa.Instruction, wg ssa.Value) bool {
	d, ok := in.(*ssa.Defer)
	if !ok {
		return false
	}
	if _, recv := isWGMethod(d, "Done"); recv != nil && sameWG(recv, wg) {
		return true
	}
	if mc, ok := d.Call.Value.(*ssa.MakeClosure); ok {
		for _, b := range mc.Fn.(*ssa.Function).Blocks {
			for _, x := range b.Instrs {
				if _, recv := isWGMethod(x, "Done"); recv != nil && sameWG(recv, wg) {
					return true
				}
			}
		}
	}
	return false
}

// mayPanicCall: a call that can run user code or otherwise panic (anything except defers, builtins and the WaitGroup/semaphore bookkeeping itself).
func mayPanicCall(in ssa.Instruction) bool {
	call, ok := in.(*ssa.Call)
	if !ok {
		return false
	}
	if _, isB := call.Call.Value.(*ssa.Builtin); isB {
		return false
	}
	n := an.CalleeOf(call).FullName()
	if strings.HasPrefix(n, "(*sync.WaitGroup).") || strings.HasPrefix(n, "(*golang.org/x/sync/semaphore.Weighted).") || strings.HasPrefix(n, "sync/atomic.") {
		return false
	}
	return true
}

// withScenario marks as infeasible every branch edge (in fn and its closures) whose condition is the same
// variable as cond but with the opposite polarity, runs f, and restores.
func withScenario(fns []*ssa.Function, cond ssa.Value, branch bool, f func()) {
	var added []an.Edge
	if cond != nil {
		for _, fn := range fns {
			for _, b := range fn.Blocks {
				if len(b.Instrs) == 0 {
					continue
				}
				iff, ok := b.Instrs[len(b.Instrs)-1].(*ssa.If)
				if !ok || len(b.Succs) != 2 {
					continue
				}
				g := an.FactOf(an.Guard{Cond: iff.Cond, Branch: true})
				base := an.FactOf(an.Guard{Cond: cond, Branch: true})
				var trueMeans bool // true edge == (cond is true)
				switch {
				case g.Op == token.ILLEGAL && base.Op == token.ILLEGAL && an.SameVar(g.X, base.X):
					trueMeans = g.Neg == base.Neg
				case g.Op != token.ILLEGAL && base.Op != token.ILLEGAL:
					// the same comparison written again (`len(v) != 1` … `len(v) == 1`): related when the operands are the
					// same expressions and the operator is the same or its exact negation
					same := an.SameExpr(g.X, base.X) && an.SameExpr(g.Y, base.Y)
					op := g.Op
					if !same && an.SameExpr(g.X, base.Y) && an.SameExpr(g.Y, base.X) {
						same = true
						op = mirrorOp(op)
					}
					if !same {
						continue
					}
					if op == base.Op {
						trueMeans = true
					} else if op == negOp(base.Op) {
						trueMeans = false
					} else {
						continue
					}
				default:
					continue
				}
				var dead *ssa.BasicBlock
				if trueMeans == branch {
					dead = b.Succs[1]
				} else {
					dead = b.Succs[0]
				}
				e := an.Edge{From: b, To: dead}
				if !an.Infeasible[e] {
					an.Infeasible[e] = true
					added = append(added, e)
				}
			}
		}
	}
	f()
	for _, e := range added {
		delete(an.Infeasible, e)
	}
}

type doneEvent struct {
	in ssa.Instruction
	fn *ssa.Function // closure that carries the deferred Done (nil for a direct wg.Done())
}

func c05WG(c *Ctx) {
	c.R.Rule("wg-accounting", "for every sync.WaitGroup in package graphql and the materialised executors: with the guard of Add as path predicate, each loop iteration (or the whole function when Add is not per-element) reaches exactly as many Done events as it Added on every path; each Done-carrying closure registers its deferred Done before any call that can panic; Wait is passed on every path from Add to a return; in the opposite scenario no Done runs", 1)
	var scopes []struct {
		key string
		fns []*ssa.Function
	}
	scopes = append(scopes, struct {
		key string
		fns []*ssa.Function
	}{"graphql", c.moduleFuncs(func(p string) bool { return p == pkgGraphql })})
	for _, g := range c.Gen {
		scopes = append(scopes, struct {
			key string
			fns []*ssa.Function
		}{"gen:" + g.Name, c.genFuncs(g)})
	}
	total := 0
	for _, sc := range scopes {
		shapes := map[string]int{}
		for _, fn := range sc.fns {
			if fn.Parent() != nil {
				continue
			}
			// WaitGroup cells allocated in fn
			for _, b := range fn.Blocks {
				for _, in := range b.Instrs {
					al, ok := in.(*ssa.Alloc)
					if !ok || !an.NamedIs(al.Type(), "sync", "WaitGroup") {
						continue
					}
					total++
					ok2, why, shape := c.checkWG(fn, al)
					// generated list marshalers come in hundreds of identical shapes: one obligation per function, keyed by name
					key := sc.key + "/" + fn.Name()
					if ok2 {
						shapes[shape]++
						c.R.OK(key, c.pos(fn.Pos()), shape)
					} else {
						c.R.Bad(key, c.pos(fn.Pos()), why)
					}
				}
			}
		}
	}
	c.R.SetFloor(total)
	if total < 50 {
		c.R.Fail("wg-accounting examined only %d WaitGroups (expected the list marshalers of every materialised executor)", total)
	}
}

func (c *Ctx) checkWG(fn *ssa.Function, wg *ssa.Alloc) (bool, string, string) {
	fns := an.WithClosures(fn)
	// separate functions/methods of the same package that are handed &wg (`go ec.resolveInto(…, &wg)`): their bodies are
	// examined like closures, with the receiving parameter standing for the WaitGroup
	for _, f := range an.WithClosures(fn) {
		for _, b := range f.Blocks {
			for _, in := range b.Instrs {
				ci, ok := in.(ssa.CallInstruction)
				if !ok {
					continue
				}
				callee := ci.Common().StaticCallee()
				if callee == nil || len(callee.Blocks) == 0 || callee.Pkg != fn.Pkg || callee.Parent() != nil {
					continue
				}
				for i, a := range ci.Common().Args {
					if an.RootAlloc(a) == ssa.Value(wg) && i < len(callee.Params) && an.NamedIs(callee.Params[i].Type(), "sync", "WaitGroup") {
						wgAliases[callee.Params[i]] = wg
						already := false
						for _, x := range fns {
							if x == callee {
								already = true
							}
						}
						if !already {
							fns = append(fns, an.WithClosures(callee)...)
						}
					}
				}
			}
		}
	}
	var adds, waits []ssa.CallInstruction
	var events []doneEvent
	carrier := map[*ssa.Function]bool{}
	direct := map[*ssa.Function]bool{} // Done is called directly (not deferred): must be on every return path exactly once
	for _, f := range fns {
		for _, b := range f.Blocks {
			for _, in := range b.Instrs {
				if call, recv := isWGMethod(in, "Add"); recv != nil && sameWG(recv, wg) {
					adds = append(adds, call)
				}
				if call, recv := isWGMethod(in, "Wait"); recv != nil && sameWG(recv, wg) {
					waits = append(waits, call)
				}
				if isDoneDefer(in, wg) {
					carrier[f] = true
				}
				if _, isCall := in.(*ssa.Call); isCall && f != fn {
					if _, recv := isWGMethod(in, "Done"); recv != nil && sameWG(recv, wg) {
						carrier[f] = true
						direct[f] = true
					}
				}
			}
		}
	}
	if len(adds) != 1 || len(waits) != 1 {
		return false, sprintf("expected one Add and one Wait on the WaitGroup, found %d and %d", len(adds), len(waits)), ""
	}
	add, wait := adds[0], waits[0]
	if add.Parent() != fn || wait.Parent() != fn {
		return false, "Add/Wait are not in the function that owns the WaitGroup", ""
	}
	// events in fn: go/call of a carrier closure, or direct Done call (not deferred)
	for _, b := range fn.Blocks {
		for _, in := range b.Instrs {
			switch x := in.(type) {
			case *ssa.Go, *ssa.Call:
				ci := x.(ssa.CallInstruction)
				var callee *ssa.Function
				switch v := ci.Common().Value.(type) {
				case *ssa.MakeClosure:
					callee = v.Fn.(*ssa.Function)
				case *ssa.Function:
					callee = v
				default:
					// closure held in a local variable: f := func(i int){...}; go f(i)
					for _, d := range an.Defs(ci.Common().Value) {
						if mc, ok := d.(*ssa.MakeClosure); ok {
							callee = mc.Fn.(*ssa.Function)
						}
					}
				}
				if callee != nil && carrier[callee] {
					events = append(events, doneEvent{in, callee})
				}
				if _, recv := isWGMethod(in, "Done"); recv != nil && sameWG(recv, wg) {
					if _, isCall := in.(*ssa.Call); isCall {
						events = append(events, doneEvent{in, nil})
					}
				}
			}
		}
	}
	// path predicate: the guard of Add
	var pcond ssa.Value
	pbranch := false
	headers := map[*ssa.BasicBlock]bool{}
	for _, l := range an.Loops(fn) {
		headers[l.Header] = true
	}
	for _, g := range an.BlockGuards(add.Block()) {
		if g.If != nil && headers[g.If.Block()] {
			continue // a loop condition is not a scenario
		}
		if g.If != nil && isErrTest(g.Cond) {
			continue // `if err := sm.Acquire(…); err != nil` decides whether the element is started at all, not the scenario
		}
		pcond, pbranch = g.Cond, g.Branch
		break
	}
	// is Add per element (inside the loop) or up front?
	perIter := an.CanReach(add, add)
	addN := "Add(n) before the loop"
	if perIter {
		addN = "Add(1) per iteration"
	}
	bad := ""
	isEvent := func(in ssa.Instruction) bool {
		for _, e := range events {
			if e.in == in {
				return true
			}
		}
		return false
	}
	withScenario(fns, pcond, pbranch, func() {
		// loop header: a block in a cycle that dominates all events
		var header *ssa.BasicBlock
		for _, e := range events {
			for h := e.in.Block(); h != nil; h = h.Idom() {
				isHeader := false
				for _, p := range h.Preds {
					if h.Dominates(p) {
						isHeader = true
					}
				}
				if isHeader {
					header = h
					break
				}
			}
		}
		if len(events) == 0 {
			bad = "no Done event (call/go of a closure with a deferred Done) found for a WaitGroup that is Added to"
			return
		}
		if header == nil {
			bad = "Done events are not inside a loop: cannot match them with Add per element"
			return
		}
		// enumerate iteration paths: header -> ... -> back to header (or loop exit), counting events (+ per-iteration Adds)
		type st struct {
			b      *ssa.BasicBlock
			events int
			adds   int
			trace  []string
		}
		var dfs func(s st, seen map[*ssa.BasicBlock]bool)
		npaths := 0
		dfs = func(s st, seen map[*ssa.BasicBlock]bool) {
			if bad != "" || npaths > 4096 {
				return
			}
			for _, in := range s.b.Instrs {
				if isEvent(in) {
					s.events++
				}
				if in == add.(ssa.Instruction) && perIter {
					s.adds++
				}
			}
			for _, succ := range s.b.Succs {
				if an.Infeasible[an.Edge{From: s.b, To: succ}] {
					continue
				}
				if succ == header {
					npaths++
					want := 1
					if perIter {
						want = s.adds
					}
					if s.events != want {
						bad = sprintf("an iteration path (%s) accounts for %d Done event(s) but %d element(s) were added: wg.Wait() %s", strings.Join(s.trace, " → "), s.events, want,
							map[bool]string{true: "never returns and the operation hangs with its goroutines", false: "returns early / the counter goes negative"}[s.events < want])
					}
					continue
				}
				if !header.Dominates(succ) || seen[succ] {
					continue // left the loop, or inner cycle
				}
				if !an.Reach(succ, nil)[header] {
					continue // exits the loop (return/panic inside body)
				}
				seen2 := map[*ssa.BasicBlock]bool{}
				for k := range seen {
					seen2[k] = true
				}
				seen2[succ] = true
				tr := s.trace
				if len(s.b.Succs) == 2 {
					if iff, ok := s.b.Instrs[len(s.b.Instrs)-1].(*ssa.If); ok {
						tr = append(append([]string{}, s.trace...), c.condText(iff, s.b.Succs[0] == succ))
					}
				}
				dfs(st{succ, s.events, s.adds, tr}, seen2)
			}
		}
		dfs(st{b: header}, map[*ssa.BasicBlock]bool{header: true})
		if bad != "" {
			return
		}
		// each carrier registers its Done before any call that may panic
		for f := range carrier {
			if direct[f] {
				isDirectDone := func(x ssa.Instruction) bool {
					_, isCall := x.(*ssa.Call)
					_, recv := isWGMethod(x, "Done")
					return isCall && recv != nil && sameWG(recv, wg)
				}
				for _, b := range f.Blocks {
					for _, in := range b.Instrs {
						if d, ok := in.(*ssa.Defer); ok && deferRecovers(d) {
							bad = shortFn(f) + " recovers panics but calls Done directly instead of deferring it: a recovered panic skips Done and wg.Wait() never returns"
						}
					}
				}
				for _, r := range an.Returns(f) {
					if !mustPassThrough(f, r, isDirectDone) {
						bad = shortFn(f) + " can return at " + c.ipos(r) + " without calling Done"
					}
				}
				for _, b := range f.Blocks {
					for _, in := range b.Instrs {
						if isDirectDone(in) && an.CanReach(in, in) {
							bad = shortFn(f) + " can call Done twice"
						}
						for _, b2 := range f.Blocks {
							for _, in2 := range b2.Instrs {
								if isDirectDone(in) && isDirectDone(in2) && in != in2 && an.CanReach(in, in2) {
									bad = shortFn(f) + " can call Done twice"
								}
							}
						}
					}
				}
				continue
			}
			for _, b := range f.Blocks {
				for _, in := range b.Instrs {
					if !mayPanicCall(in) {
						continue
					}
					if !mustPassThrough(f, in, func(x ssa.Instruction) bool { return isDoneDefer(x, wg) }) {
						bad = "in " + shortFn(f) + " the call at " + c.ipos(in) + " can run (and panic) before the deferred Done is registered"
					}
				}
			}
			// done-last: the Done defer is registered before every other defer, so that it runs after them: a deferred
			// handler that still writes the shared result must have finished when Wait() returns
			for _, b := range f.Blocks {
				for _, in := range b.Instrs {
					d, isDefer := in.(*ssa.Defer)
					if !isDefer || isDoneDefer(in, wg) {
						continue
					}
					for _, b2 := range f.Blocks {
						for _, in2 := range b2.Instrs {
							if isDoneDefer(in2, wg) && an.CanReach(d, in2) {
								bad = "in " + shortFn(f) + " the deferred call at " + c.ipos(d) + " is registered before the deferred Done and therefore runs after it: wg.Wait() can return while that handler is still writing the result"
							}
						}
					}
				}
			}
			// reachability of the function exit without the defer
			for _, r := range an.Returns(f) {
				if !mustPassThrough(f, r, func(x ssa.Instruction) bool { return isDoneDefer(x, wg) }) {
					bad = shortFn(f) + " can return without having registered its Done"
				}
			}
		}
		// Wait on every path from Add to a return
		for _, r := range an.Returns(fn) {
			if an.CanReach(add, r) && !passesOnAllPaths(add, r, wait) {
				bad = "a return at " + c.ipos(r) + " is reachable after Add without Wait: goroutines outlive the marshaler"
			}
		}
	})
	if bad != "" {
		return false, bad, ""
	}
	// opposite scenario: no Add -> no Done may execute
	if pcond != nil {
		withScenario(fns, pcond, !pbranch, func() {
			// carriers that can still be started in this scenario (their call/go site is reachable from the function entry)
			started := map[*ssa.Function]bool{}
			for _, f := range fns {
				if len(f.Blocks) == 0 {
					continue
				}
				reach := an.Reach(f.Blocks[0], nil)
				reach[f.Blocks[0]] = true
				for _, e := range events {
					if e.fn != nil && e.in.Parent() == f && reach[e.in.Block()] {
						started[e.fn] = true
					}
				}
			}
			for f := range carrier {
				if !started[f] {
					continue
				}
				for _, b := range f.Blocks {
					for _, in := range b.Instrs {
						if isDoneDefer(in, wg) && (b == f.Blocks[0] || an.Reach(f.Blocks[0], nil)[b]) {
							bad = "when Add is skipped (" + c.condDesc(pcond, !pbranch) + ") " + shortFn(f) + " still runs Done: negative WaitGroup counter panic"
						}
					}
				}
			}
		})
		if bad != "" {
			return false, bad, ""
		}
	}
	sem := ""
	for _, f := range fns {
		for _, b := range f.Blocks {
			for _, in := range b.Instrs {
				if call, ok := in.(ssa.CallInstruction); ok && strings.HasPrefix(an.CalleeOf(call).FullName(), "(*golang.org/x/sync/semaphore.Weighted).Acquire") {
					sem = ", semaphore-limited"
				}
			}
		}
	}
	how := "deferred Done"
	if len(direct) > 0 {
		how = "direct Done on every return path (panics inside are the recover rules' obligation: C04/C20 contained)"
	}
	return true, "", sprintf("%s, %d Done event site(s) via %s, predicate %s%s", addN, len(events), how, c.condDesc(pcond, pbranch), sem)
}

func (c *Ctx) condDesc(cond ssa.Value, branch bool) string {
	if cond == nil {
		return "none"
	}
	f := an.FactOf(an.Guard{Cond: cond, Branch: branch})
	name := "cond"
	if a := loadAddr(f.X); a != nil {
		if al, ok := an.RootAlloc(a).(*ssa.Alloc); ok && al.Comment != "" {
			name = al.Comment
		}
	}
	if f.Op == token.ILLEGAL {
		if f.Neg {
			return "!" + name
		}
		return name
	}
	return name
}

func (c *Ctx) condText(iff *ssa.If, branch bool) string {
	f := an.FactOf(an.Guard{Cond: iff.Cond, Branch: branch})
	d := func(v ssa.Value) string {
		if v == nil {
			return ""
		}
		if an.IsNilConst(v) {
			return "nil"
		}
		if n, ok := an.ConstInt(v); ok {
			return sprintf("%d", n)
		}
		if a := loadAddr(v); a != nil {
			if al, ok := an.RootAlloc(a).(*ssa.Alloc); ok && al.Comment != "" {
				return al.Comment
			}
		}
		if cc, ok := v.(*ssa.Call); ok {
			n := an.CalleeOf(cc).FullName()
			if i := strings.LastIndex(n, "."); i >= 0 {
				n = n[i+1:]
			}
			return n + "(…)"
		}
		if e, ok := v.(*ssa.Extract); ok {
			if cc, ok := e.Tuple.(*ssa.Call); ok {
				n := an.CalleeOf(cc).FullName()
				if i := strings.LastIndex(n, "."); i >= 0 {
					n = n[i+1:]
				}
				return n + "(…)"
			}
		}
		return "_"
	}
	if f.Op == token.ILLEGAL {
		if f.Neg {
			return "!" + d(f.X)
		}
		return d(f.X)
	}
	return d(f.X) + " " + f.Op.String() + " " + d(f.Y)
}

// ------------------------------------------------------------------------------------------------
// fork/join and termination of every goroutine in generated code + package graphql

func c05ForkJoin(c *Ctx) {
	c.R.Rule("fork-join", "every go statement in package graphql and in the materialised executors either carries a deferred WaitGroup.Done (joined; accounted by wg-accounting) or has a termination witness: it blocks only in a select with a done/ctx.Done() case that returns, in sends on buffered channels, or in receives from done channels", 1)
	type scope struct {
		key string
		fns []*ssa.Function
	}
	scopes := []scope{{"graphql", c.moduleFuncs(func(p string) bool { return p == pkgGraphql })}}
	for _, g := range c.Gen {
		scopes = append(scopes, scope{"gen:" + g.Name, c.genFuncs(g)})
	}
	total := 0
	for _, sc := range scopes {
		for _, fn := range sc.fns {
			for _, b := range fn.Blocks {
				for _, in := range b.Instrs {
					g, ok := in.(*ssa.Go)
					if !ok {
						continue
					}
					total++
					var callee *ssa.Function
					switch v := g.Call.Value.(type) {
					case *ssa.MakeClosure:
						callee = v.Fn.(*ssa.Function)
					case *ssa.Function:
						callee = v
					default:
						for _, d := range an.Defs(g.Call.Value) {
							if mc, ok := d.(*ssa.MakeClosure); ok {
								callee = mc.Fn.(*ssa.Function)
							}
						}
					}
					key := sc.key + "/" + topFn(fn).Name() + "/go"
					if callee == nil {
						c.R.Unknown(key, c.ipos(g), "goroutine body is not statically known")
						continue
					}
					joined := false
					for _, b2 := range callee.Blocks {
						for _, x := range b2.Instrs {
							if d, ok := x.(*ssa.Defer); ok {
								if call, _ := isWGMethod(d, "Done"); call != nil {
									joined = true
								}
								if mc, ok := d.Call.Value.(*ssa.MakeClosure); ok {
									for _, b3 := range mc.Fn.(*ssa.Function).Blocks {
										for _, y := range b3.Instrs {
											if call, _ := isWGMethod(y, "Done"); call != nil {
												joined = true
											}
										}
									}
								}
							}
						}
					}
					probs, wit := an.TerminationWitness(callee, nil)
					switch {
					case len(probs) > 0:
						c.R.Bad(key, c.ipos(g), "goroutine "+shortFn(callee)+" has no termination argument: "+strings.Join(probs, "; ")+" — it stays parked after the request has ended")
					case joined:
						c.R.OK(key, c.ipos(g), "joined through a deferred WaitGroup.Done")
					case len(wit) > 0:
						c.R.OK(key, c.ipos(g), "detached with witness: "+strings.Join(wit, "; "))
					default:
						c.R.OK(key, c.ipos(g), "detached, never blocks on a channel")
					}
				}
			}
		}
	}
	c.R.SetFloor(total)
	if total < 50 {
		c.R.Fail("fork-join examined only %d go statements", total)
	}
}

// ------------------------------------------------------------------------------------------------

func c05StreamSelect(c *Ctx) {
	c.R.Rule("stream-select", "in every materialised executor, every channel receive in a subscription field function (one whose result is a func(ctx) Marshaler) happens inside a select that also has a <-ctx.Done() case whose branch returns nil", 1)
	total := 0
	for _, g := range c.Gen {
		for _, fn := range c.genFuncs(g) {
			top := topFn(fn)
			if !returnsStreamFunc(top) || fn.Parent() == nil {
				continue
			}
			for _, b := range fn.Blocks {
				for _, in := range b.Instrs {
					switch x := in.(type) {
					case *ssa.UnOp:
						if x.Op == token.ARROW {
							total++
							c.R.Bad("gen:"+g.Name+"/"+top.Name()+"/recv", c.ipos(x), "the subscription closure receives from the resolver's channel outside a select: a cancelled subscription blocks forever when the resolver stops sending")
						}
					case *ssa.Select:
						total++
						hasRecv, doneNil := false, false
						for _, st := range x.States {
							if st.Dir == types.RecvOnly && !an.IsDoneChan(st.Chan) {
								hasRecv = true
							}
						}
						doneNil = selectDoneReturnsNil(x)
						c.R.Check(!hasRecv || (x.Blocking && doneNil), "gen:"+g.Name+"/"+top.Name()+"/select", c.ipos(x), "select with <-ctx.Done() returning nil",
							"the subscription's receive has no <-ctx.Done() case that returns nil: after cancellation the response function never ends")
					}
				}
			}
		}
	}
	c.R.SetFloor(total)
	if total == 0 {
		c.R.Fail("stream-select found no subscription field in the materialised executors")
	}
}

func returnsStreamFunc(fn *ssa.Function) bool {
	res := fn.Signature.Results()
	if res.Len() != 1 {
		return false
	}
	sig, ok := res.At(0).Type().Underlying().(*types.Signature)
	return ok && sig.Params().Len() == 1 && sig.Results().Len() == 1 && strings.HasSuffix(sig.Results().At(0).Type().String(), "graphql.Marshaler")
}

func selectDoneReturnsNil(sel *ssa.Select) bool {
	for i, st := range sel.States {
		if st.Dir != types.RecvOnly || !an.IsDoneChan(st.Chan) {
			continue
		}
		for _, r := range an.Referrers(sel) {
			ex, ok := r.(*ssa.Extract)
			if !ok || ex.Index != 0 {
				continue
			}
			for _, u := range an.Referrers(ex) {
				bo, ok := u.(*ssa.BinOp)
				if !ok || bo.Op != token.EQL {
					continue
				}
				if n, isC := an.ConstInt(bo.Y); !isC || int(n) != i {
					continue
				}
				for _, u2 := range an.Referrers(bo) {
					iff, ok := u2.(*ssa.If)
					if !ok {
						continue
					}
					all := true
					n := 0
					for b := range an.Reach(iff.Block().Succs[0], func(b *ssa.BasicBlock) bool { return b == sel.Block() }) {
						for _, in := range b.Instrs {
							if ret, ok := in.(*ssa.Return); ok {
								n++
								if !isNilReturn(ret, 0) {
									all = false
								}
							}
						}
					}
					if all && n > 0 {
						return true
					}
				}
			}
		}
	}
	return false
}

// ------------------------------------------------------------------------------------------------

func c05TransportGoroutines(c *Ctx) {
	c.R.Rule("transport-goroutines", "each go statement of package transport: its body loops only around a select with a done/ctx.Done() case that returns (and stops the ticker it reads), sends only on channels of capacity ≥1 outside loops, or is a reviewed table entry", 8)
	// reviewed table: goroutine (by enclosing function) -> accepted residual problem, with reason
	reviewed := map[string]string{
		"subscribe": "unbounded loop without a cancellation exit|the loop ends when the response handler returns nil; generated handlers return nil after the last payload or when ctx is done (C05/stream-select, C13/accounting), and the deferred epilogue cancels ctx (C11/terminal-frame)",
	}
	n := 0
	for _, fn := range transportFuncs(c) {
		for _, b := range fn.Blocks {
			for _, in := range b.Instrs {
				g, ok := in.(*ssa.Go)
				if !ok {
					continue
				}
				n++
				var callee *ssa.Function
				switch v := g.Call.Value.(type) {
				case *ssa.MakeClosure:
					callee = v.Fn.(*ssa.Function)
				case *ssa.Function:
					callee = v
				}
				if callee == nil {
					callee = g.Call.StaticCallee()
				}
				key := topFn(fn).Name() + "/go:" + func() string {
					if callee != nil {
						return callee.Name()
					}
					return "?"
				}()
				if callee == nil {
					c.R.Unknown(key, c.ipos(g), "goroutine body is not statically known")
					continue
				}
				// the body and the transport functions it calls directly (a wrapper literal around c.keepAlive is still keepAlive's loop)
				bodies := []*ssa.Function{callee}
				seenBody := map[*ssa.Function]bool{callee: true}
				for i := 0; i < len(bodies) && i < 16; i++ {
					for _, b2 := range bodies[i].Blocks {
						for _, x := range b2.Instrs {
							call, ok := x.(ssa.CallInstruction)
							if !ok {
								continue
							}
							if _, isGo := x.(*ssa.Go); isGo {
								continue
							}
							sc := call.Common().StaticCallee()
							if sc == nil || sc.Pkg == nil || sc.Pkg != callee.Pkg || len(sc.Blocks) == 0 || seenBody[sc] {
								continue
							}
							seenBody[sc] = true
							bodies = append(bodies, sc)
						}
					}
				}
				var probs, wit []string
				for _, body := range bodies {
					p2, w2 := an.TerminationWitness(body, nil)
					probs = append(probs, p2...)
					wit = append(wit, w2...)
				}
				probs, wit = dedupStrings(probs), dedupStrings(wit)
				var rest []string
				note := ""
				for _, p := range probs {
					if rv, ok := reviewed[topFn(fn).Name()]; ok && strings.HasPrefix(rv, p+"|") {
						note = " [reviewed: " + strings.SplitN(rv, "|", 2)[1] + "]"
						continue
					}
					rest = append(rest, p)
				}
				// ticker discipline: a goroutine that selects on ticker.C stops that ticker on its exit path (or defers Stop)
				tick, stop := false, false
				for _, body := range bodies {
					for _, b2 := range body.Blocks {
						for _, x := range b2.Instrs {
							if fa, ok := x.(*ssa.FieldAddr); ok && fieldNameOf(fa) == "C" && an.NamedIs(fa.X.Type(), "time", "Ticker") {
								tick = true
							}
							if call, ok := x.(ssa.CallInstruction); ok && an.CalleeOf(call).FullName() == "(*time.Ticker).Stop" {
								stop = true
							}
						}
					}
				}
				if tick && !stop {
					rest = append(rest, "reads a ticker but never stops it")
				}
				sort.Strings(rest)
				c.R.Check(len(rest) == 0, key, c.ipos(g), strings.Join(wit, "; ")+note, "goroutine "+shortFn(callee)+" may never end: "+strings.Join(rest, "; "))
			}
		}
	}
	if n < 8 {
		c.R.Fail("transport-goroutines found only %d go statements in package transport", n)
	}
}

func c05CloseCancelsAll(c *Ctx) {
	c.R.Rule("close-cancels-all", "wsConnection.close ranges over the active map and invokes each stored cancel function", 1)
	fn := c.fn(pkgTransport, "*"+wsConn+".close")
	if fn == nil {
		return
	}
	ok := false
	for _, b := range fn.Blocks {
		for _, in := range b.Instrs {
			rng, isR := in.(*ssa.Range)
			if !isR {
				continue
			}
			fa, isF := loadAddr(rng.X).(*ssa.FieldAddr)
			if !isF || fieldNameOf(fa) != "active" {
				continue
			}
			// a dynamic call of the value extracted from Next
			for _, b2 := range fn.Blocks {
				for _, in2 := range b2.Instrs {
					call, isC := in2.(*ssa.Call)
					if !isC || call.Call.StaticCallee() != nil || call.Call.IsInvoke() {
						continue
					}
					if ex, isE := call.Call.Value.(*ssa.Extract); isE && ex.Index == 2 {
						if nx, isN := ex.Tuple.(*ssa.Next); isN && nx.Iter == ssa.Value(rng) {
							ok = true
						}
					}
				}
			}
		}
	}
	c.R.Check(ok, "close/cancels-every-active-operation", c.pos(fn.Pos()), "for _, cancel := range c.active { cancel() }", "close no longer cancels every active operation: their resolvers keep running after the connection is gone")
}

// fieldChanCap: minimum constant capacity of the channels stored into struct field (T, name) anywhere in the given functions; -1 if unknown.
func fieldChanCap(fns []*ssa.Function, fa *ssa.FieldAddr) int64 {
	cap := int64(-1)
	name := fieldNameOf(fa)
	n := 0
	for _, fn := range fns {
		for _, b := range fn.Blocks {
			for _, in := range b.Instrs {
				st, ok := in.(*ssa.Store)
				if !ok {
					continue
				}
				fa2, ok := st.Addr.(*ssa.FieldAddr)
				if !ok || fieldNameOf(fa2) != name || !types.Identical(fa2.X.Type(), fa.X.Type()) {
					continue
				}
				n++
				mc, ok := st.Val.(*ssa.MakeChan)
				if !ok {
					return -1
				}
				sz, isC := an.ConstInt(mc.Size)
				if !isC {
					return -1
				}
				if cap == -1 || sz < cap {
					cap = sz
				}
			}
		}
	}
	if n == 0 {
		return -1
	}
	return cap
}

// c05TransportBlocking: handler-side blocking channel operations (not only those inside goroutines).
func c05TransportBlocking(c *Ctx) {
	c.R.Rule("transport-blocking", "in package transport every channel send outside a select is on a channel whose capacity is a positive constant at every place it is created (so the sender cannot wait for a reader that is gone), and is not inside a loop", 1)
	fns := transportFuncs(c)
	n := 0
	for _, fn := range fns {
		for _, b := range fn.Blocks {
			for _, in := range b.Instrs {
				snd, ok := in.(*ssa.Send)
				if !ok {
					continue
				}
				n++
				cap := int64(-1)
				if fa, ok := loadAddr(snd.Chan).(*ssa.FieldAddr); ok {
					cap = fieldChanCap(fns, fa)
				} else {
					for _, d := range an.Defs(snd.Chan) {
						if mc, ok := d.(*ssa.MakeChan); ok {
							if sz, isC := an.ConstInt(mc.Size); isC && (cap == -1 || sz < cap) {
								cap = sz
							}
						} else {
							cap = -1
							break
						}
					}
				}
				c.R.Check(cap >= 1 && !an.CanReach(snd, snd), shortFn(topFn(fn))+"/send", c.ipos(snd), sprintf("buffered channel (capacity %d), sent once", cap),
					"a plain send on an unbuffered (or unknown-capacity) channel: when the receiving goroutine has already exited (context cancelled, client gone) the sender — the request's handler or one of its goroutines — blocks forever")
			}
		}
	}
	if n == 0 {
		c.R.Fail("transport-blocking found no channel send in package transport")
	}
}

func negOp(op token.Token) token.Token {
	switch op {
	case token.EQL:
		return token.NEQ
	case token.NEQ:
		return token.EQL
	case token.LSS:
		return token.GEQ
	case token.GEQ:
		return token.LSS
	case token.GTR:
		return token.LEQ
	case token.LEQ:
		return token.GTR
	}
	return token.ILLEGAL
}

func mirrorOp(op token.Token) token.Token {
	switch op {
	case token.LSS:
		return token.GTR
	case token.GTR:
		return token.LSS
	case token.LEQ:
		return token.GEQ
	case token.GEQ:
		return token.LEQ
	}
	return op
}

func dedupStrings(in []string) []string {
	seen := map[string]bool{}
	var out []string
	for _, s := range in {
		if !seen[s] {
			seen[s] = true
			out = append(out, s)
		}
	}
	return out
}

// isErrTest: cond compares an error value with nil.
func isErrTest(cond ssa.Value) bool {
	bo, ok := cond.(*ssa.BinOp)
	if !ok {
		return false
	}
	return (an.IsNilConst(bo.Y) && an.IsErrorType(bo.X.Type())) || (an.IsNilConst(bo.X) && an.IsErrorType(bo.Y.Type()))
}
