package rules

import (
	"go/token"

	"golang.org/x/tools/go/ssa"

	"verif/internal/an"
)

// scanTotal: the "has this field already reported an error" test behind every generated null check must look at every recorded
// error and compare whole paths.  graphql.HasFieldError / GetFieldErrors scan responseContext.errors; equalPath compares two
// paths segment by segment.  For each of them:
//
//	(range)  the loop over the collection visits every index (a range loop, or a counting loop whose bounds are exactly
//	         [0,len) in either direction);
//	(exits)  the loop is left early only towards a return of the constant true (found) — for GetFieldErrors never; for
//	         equalPath only towards a return of the constant false (a differing segment);
//
// so the negative answer ("no error at this path" / for equalPath the positive one, "paths are equal") is only given after the
// whole collection was examined.  Otherwise one failure yields two errors or none, depending on what else failed and — for
// errors recorded by concurrently resolving siblings — on completion order.
func scanTotal(c *Ctx) {
	c.R.Rule("error-scan-total", "graphql.HasFieldError / GetFieldErrors scan every recorded error and equalPath compares every segment: the loop visits exactly [0,len) and is left early only towards the answer that one element can decide (found / differs)", 3)
	type spec struct {
		fn        string
		earlyOnly string // the only constant an early exit may lead to ("true", "false", "" = no early exit at all)
	}
	for _, s := range []spec{{"HasFieldError", "true"}, {"GetFieldErrors", ""}, {"equalPath", "false"}} {
		fn := c.fn(pkgGraphql, s.fn)
		if fn == nil {
			continue
		}
		loops := an.Loops(fn)
		if len(loops) == 0 {
			c.R.Note(s.fn+"/scan", c.pos(fn.Pos()), "no loop in this function (delegates the scan); not judged here")
			continue
		}
		for _, l := range loops {
			key := s.fn + "/scan"
			bad := ""
			// (range)
			isRange := false
			for _, in := range l.Header.Instrs {
				if phi, ok := in.(*ssa.Phi); ok && phi.Comment == "rangeindex" {
					isRange = true
				}
			}
			if !isRange {
				// `for k, v := range m` / channel ranges use Next; treat any Next-driven loop as complete too
				for _, in := range l.Header.Instrs {
					if _, ok := in.(*ssa.Next); ok {
						isRange = true
					}
				}
			}
			if !isRange {
				if r, ok := an.LoopIndexRange(l); ok {
					if !r.Full() {
						bad = sprintf("the loop visits indices [%d, len%+d) instead of every index: some elements are never compared", r.Lo, r.HiOff)
					}
				} else {
					c.R.Note(key, c.ipos(l.Header.Instrs[0]), "loop shape not recognised as a counting loop; bounds not judged")
				}
			}
			// (exits)
			for _, e := range l.Exits {
				if e.From == l.Header {
					continue // exhaustion
				}
				for blk := range an.Reach(e.To, nil) {
					for _, in := range blk.Instrs {
						r, ok := in.(*ssa.Return)
						if !ok || len(r.Results) == 0 {
							continue
						}
						v := an.ReturnedValue(r, 0)
						k, isC := v.(*ssa.Const)
						okExit := s.earlyOnly != "" && isC && k.Value != nil && k.Value.String() == s.earlyOnly
						if !okExit {
							switch s.fn {
							case "equalPath":
								bad = "the segment loop can be left early towards a return that is not `false`: paths are reported equal without all segments having been compared"
							default:
								bad = "the scan over the recorded errors is left before every error was examined (exit at " + c.ipos(e.From.Instrs[len(e.From.Instrs)-1]) + "): whether a field counts as already failed depends on the order in which errors were recorded — with concurrently resolving siblings, on completion order"
							}
						}
					}
				}
			}
			c.R.Check(bad == "", key, c.ipos(l.Header.Instrs[0]), "visits every element; early exit only towards the deciding answer", bad)
		}
	}
}

var _ = token.ADD
