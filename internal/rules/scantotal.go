package rules

import (
	"go/token"

	"golang.org/x/tools/go/ssa"

	"verif/internal/an"
)

// scanTotal: the "has this field already reported an error" test behind every generated null check must look at every recorded
// error and compare whole paths.  graphql.HasFieldError / GetFieldErrors scan responseContext.errors; equalPath compares two
// paths segment by segment.  For each of them:
//
//	(range)  the loop over the collection visits every index (a range loop, or a counting loop whose bounds are exactly
//	         [0,len) in either direction);
//	(exits)  the loop is left early only towards a return of the constant true (found) — for GetFieldErrors never; for
//	         equalPath only towards a return of the constant false (a differing segment);
//
// so the negative answer ("no error at this path" / for equalPath the positive one, "paths are equal") is only given after the
// whole collection was examined.  Otherwise one failure yields two errors or none, depending on what else failed and — for
// errors recorded by concurrently resolving siblings — on completion order.
func scanTotal(c *Ctx) {
	c.R.Rule("error-scan-total", "graphql.HasFieldError / GetFieldErrors scan every recorded error and equalPath compares every segment: the loop visits exactly [0,len) and is left early only towards the answer that one element can decide (found / differs)", 1)
	type spec struct {
		fn        string
		earlyOnly string // the only constant an early exit may lead to ("true", "false", "" = no early exit at all)
	}
	for _, s := range []spec{{"HasFieldError", "true"}, {"GetFieldErrors", ""}, {"equalPath", "false"}} {
		fn := c.fn(pkgGraphql, s.fn)
		if fn == nil {
			continue
		}
		loops := an.Loops(fn)
		if len(loops) == 0 {
			// the scan was moved into a same-package helper: judge the helper's loop
			for _, call := range an.CallsIn(fn, func(_ ssa.CallInstruction, ci an.CalleeInfo) bool {
				return ci.Static != nil && ci.Static.Pkg != nil && ci.Static.Pkg.Pkg.Path() == pkgGraphql && len(ci.Static.Blocks) > 0
			}) {
				if hl := an.Loops(call.Common().StaticCallee()); len(hl) > 0 && len(loops) == 0 {
					fn = call.Common().StaticCallee()
					loops = hl
				}
			}
			if len(loops) == 0 {
				c.R.Note(s.fn+"/scan", c.pos(fn.Pos()), "no loop in this function or its direct helpers; not judged")
				continue
			}
		}
		for _, l := range loops {
			key := s.fn + "/scan"
			bad := ""
			// (range)
			isRange := false
			for _, in := range l.Header.Instrs {
				if phi, ok := in.(*ssa.Phi); ok && phi.Comment == "rangeindex" {
					isRange = true
				}
			}
			if !isRange {
				// `for k, v := range m` / channel ranges use Next; treat any Next-driven loop as complete too
				for _, in := range l.Header.Instrs {
					if _, ok := in.(*ssa.Next); ok {
						isRange = true
					}
				}
			}
			if !isRange {
				if r, ok := an.LoopIndexRange(l); ok {
					if !r.Full() {
						bad = sprintf("the loop visits indices [%d, len%+d) instead of every index: some elements are never compared", r.Lo, r.HiOff)
					}
				} else {
					c.R.Note(key, c.ipos(l.Header.Instrs[0]), "loop shape not recognised as a counting loop; bounds not judged")
				}
			}
			// (exits)
			for _, e := range l.Exits {
				if e.From == l.Header {
					continue // exhaustion
				}
				// visitor protocol: the exit is taken when a function-valued parameter said "stop" — whether stopping is
				// justified is the caller's closure's business and is not judged here
				if delegatedStop(fn, e) {
					c.R.Note(key+"/early-exit", c.ipos(e.From.Instrs[len(e.From.Instrs)-1]), "early exit decided by a visitor function passed in by the caller; not judged")
					continue
				}
				for blk := range an.Reach(e.To, nil) {
					for _, in := range blk.Instrs {
						r, ok := in.(*ssa.Return)
						if !ok || len(r.Results) == 0 {
							continue
						}
						v := an.ReturnedValue(r, 0)
						k, isC := v.(*ssa.Const)
						okExit := s.earlyOnly != "" && isC && k.Value != nil && k.Value.String() == s.earlyOnly
						if !okExit {
							switch s.fn {
							case "equalPath":
								bad = "the segment loop can be left early towards a return that is not `false`: paths are reported equal without all segments having been compared"
							default:
								bad = "the scan over the recorded errors is left before every error was examined (exit at " + c.ipos(e.From.Instrs[len(e.From.Instrs)-1]) + "): whether a field counts as already failed depends on the order in which errors were recorded — with concurrently resolving siblings, on completion order"
							}
						}
					}
				}
			}
			c.R.Check(bad == "", key, c.ipos(l.Header.Instrs[0]), "visits every element; early exit only towards the deciding answer", bad)
		}
	}
}

var _ = token.ADD

// delegatedStop: the edge leaves the loop on the result of calling a function-typed parameter of fn.
func delegatedStop(fn *ssa.Function, e an.Edge) bool {
	if len(e.From.Instrs) == 0 {
		return false
	}
	iff, ok := e.From.Instrs[len(e.From.Instrs)-1].(*ssa.If)
	if !ok {
		return false
	}
	v := iff.Cond
	for i := 0; i < 4; i++ {
		if u, ok := v.(*ssa.UnOp); ok && u.Op == token.NOT {
			v = u.X
			continue
		}
		break
	}
	call, ok := v.(*ssa.Call)
	if !ok || call.Call.IsInvoke() || call.Call.StaticCallee() != nil {
		return false
	}
	for _, p := range fn.Params {
		if call.Call.Value == ssa.Value(p) {
			return true
		}
	}
	return false
}
