package rules

import (
	"go/token"
	"go/types"

	"golang.org/x/tools/go/ssa"

	"verif/internal/an"
)

const mpAgg = "multipartResponseAggregator"

// c12PendingQueue: the queue of pending payloads of the multipart/mixed aggregator.
//
//	(guarded)   every access to initialResponse / deferResponses holds mu (same analysis as C06/response-locks);
//	(no-alias)  the pending slice loaded under mu is never indexed, ranged over or handed to a callee after mu has been
//	            released, unless the field was set to nil (or a freshly made slice) after the load in the same critical
//	            section — otherwise the snapshot shares its backing array with the queue that Add keeps appending to, and a
//	            payload added during the write overwrites one that is being written (lost and duplicated payloads);
//	(reset)     every path from a load of a pending field whose value is written to the response to a return passes a store
//	            that empties that field (nil, a fresh slice, or x[:0]) while mu is still held: a payload is sent once.
func c12PendingQueue(c *Ctx) {
	c.R.Rule("pending-queue", "multipartResponseAggregator: initialResponse/deferResponses are accessed only under mu; a loaded pending slice is not read after mu is released unless the field was set to nil/fresh under the same lock; whatever is written is removed from the queue on every path before the lock is released", 6)
	var fns []*ssa.Function
	for _, fn := range transportFuncs(c) {
		top := topFn(fn)
		if r := top.Signature.Recv(); r != nil && an.NamedIs(r.Type(), pkgTransport, mpAgg) {
			fns = append(fns, fn)
		}
	}
	if len(fns) < 3 {
		c.R.Fail("unresolved anchor: expected the methods of %s, found %d functions", mpAgg, len(fns))
		return
	}
	table := []guardedField{{pkgTransport, mpAgg, "initialResponse", "mu"}, {pkgTransport, mpAgg, "deferResponses", "mu"}}
	c.checkGuardedBy(fns, table, "")

	isPending := func(v ssa.Value) (*ssa.FieldAddr, bool) {
		fa, ok := v.(*ssa.FieldAddr)
		if !ok || !an.NamedIs(fa.X.Type(), pkgTransport, mpAgg) {
			return nil, false
		}
		n := fieldNameOf(fa)
		return fa, n == "initialResponse" || n == "deferResponses"
	}
	emptied := func(v ssa.Value, allowReslice bool) bool {
		ok := true
		for _, d := range an.Defs(v) {
			switch x := d.(type) {
			case *ssa.Const:
				if !x.IsNil() {
					ok = false
				}
			case *ssa.MakeSlice:
			case *ssa.Slice:
				h, isC := an.ConstInt(x.High)
				if !(allowReslice && x.High != nil && isC && h == 0) {
					ok = false
				}
			default:
				ok = false
			}
		}
		return ok
	}
	nLoads := 0
	for _, fn := range fns {
		ls := an.Locksets(fn)
		for _, b := range fn.Blocks {
			for _, in := range b.Instrs {
				ld, ok := in.(*ssa.UnOp)
				if !ok || ld.Op != token.MUL {
					continue
				}
				fa, ok := isPending(ld.X)
				if !ok {
					continue
				}
				nLoads++
				field := fieldNameOf(fa)
				base, _ := an.BasePath(fa)
				// mu held here: in this function, or by every caller of this unexported helper
				callerHeld := c.heldByCallers(fn, fa.X, "mu", 0)
				heldAt := func(in ssa.Instruction) bool { return an.HeldFor(ls[in], base, "mu") || callerHeld }
				key := shortFn(topFn(fn)) + "/" + field
				// stores that empty this field
				var resets []*ssa.Store
				for _, b2 := range fn.Blocks {
					for _, in2 := range b2.Instrs {
						st, ok := in2.(*ssa.Store)
						if !ok {
							continue
						}
						fa2, ok := isPending(st.Addr)
						if !ok || fieldNameOf(fa2) != field || !an.SameVar(fa2.X, fa.X) {
							continue
						}
						resets = append(resets, st)
					}
				}
				// derived values of the load
				derived := map[ssa.Value]bool{ld: true}
				for changed := true; changed; {
					changed = false
					for v := range derived {
						for _, r := range an.Referrers(v) {
							switch x := r.(type) {
							case *ssa.Slice, *ssa.Phi, *ssa.ChangeType, *ssa.IndexAddr:
								if !derived[x.(ssa.Value)] {
									derived[x.(ssa.Value)] = true
									changed = true
								}
							case *ssa.Store:
								if x.Val == v && an.IsLocalCell(x.Addr) {
									for _, r2 := range an.CellLoads(x.Addr) {
										if !derived[r2] {
											derived[r2] = true
											changed = true
										}
									}
								}
							}
						}
					}
				}
				_, isSlice := ld.Type().Underlying().(*types.Slice)
				written := false
				for v := range derived {
					for _, r := range an.Referrers(v) {
						harmful := false
						switch x := r.(type) {
						case *ssa.IndexAddr, *ssa.Index, *ssa.Range, *ssa.Lookup:
							harmful = true
						case ssa.CallInstruction:
							if bi, isB := x.Common().Value.(*ssa.Builtin); isB && (bi.Name() == "len" || bi.Name() == "cap") {
								continue
							}
							harmful = true
							// handed to a function together with the response writer: this is where the payload is sent
							if _, isDefer := r.(*ssa.Defer); !isDefer {
								for _, a := range x.Common().Args {
									if isWriterType(a.Type()) {
										written = true
									}
								}
							}
						}
						if !harmful || !isSlice {
							continue
						}
						if heldAt(r) {
							continue
						}
						// ownership transferred: the field was set to nil / a fresh slice after the load, under the lock, before this use
						transferred := false
						for _, st := range resets {
							if emptied(st.Val, false) && an.Before(ld, st) && an.Before(st, r) && heldAt(st) {
								transferred = true
							}
						}
						c.R.Check(transferred, key+"/no-alias", c.ipos(r), "the queue no longer refers to the snapshot's backing array",
							"the pending slice loaded at "+c.ipos(ld)+" is read here after mu was released while the aggregator still holds the same backing array: a payload added during the write overwrites one being written (lost / duplicated incremental payloads)")
					}
				}
				if written {
					// every path from the load to a return empties the field under the lock
					ok := true
					for _, r := range an.Returns(fn) {
						if fn.Recover != nil && r.Block() == fn.Recover {
							continue
						}
						if !an.CanReach(ld, r) {
							continue
						}
						if !pathsPass(ld, r, func(i ssa.Instruction) bool {
							st, isSt := i.(*ssa.Store)
							if !isSt {
								return false
							}
							for _, rs := range resets {
								if rs == st && emptied(st.Val, true) && heldAt(st) {
									return true
								}
							}
							return false
						}) {
							ok = false
						}
					}
					c.R.Check(ok, key+"/reset-after-write", c.ipos(ld), "emptied under mu on every path to a return", "the pending "+field+" is written to the response but not removed from the queue on every path before mu is released: the payload is sent again by the next flush")
				}
			}
		}
	}
	if nLoads < 2 {
		c.R.Fail("pending-queue examined only %d loads of the pending fields", nLoads)
	}
}

// pathsPass: every path from a to b executes an instruction satisfying pred (a and b in one function).
func pathsPass(a, b ssa.Instruction, pred func(ssa.Instruction) bool) bool {
	seen := map[*ssa.BasicBlock]bool{}
	var walk func(blk *ssa.BasicBlock, from int) bool // true if b reachable avoiding pred
	walk = func(blk *ssa.BasicBlock, from int) bool {
		for i := from; i < len(blk.Instrs); i++ {
			if pred(blk.Instrs[i]) {
				return false
			}
			if blk.Instrs[i] == b {
				return true
			}
		}
		for _, s := range blk.Succs {
			if seen[s] || an.Infeasible[an.Edge{From: blk, To: s}] {
				continue
			}
			seen[s] = true
			if walk(s, 0) {
				return true
			}
		}
		return false
	}
	return !walk(a.Block(), an.InstrIndex(a)+1)
}

// c12FormatConstant: whatever a streamed transport writes with fmt.Fprintf uses a constant format; payload text (the JSON of a
// response, an error message) only ever travels as an argument.  A payload used as the format string is rewritten by fmt
// wherever it contains a '%' ("50% off" → "50%!o(MISSING)ff"; "100%" swallows the closing quote), so the event is no longer
// the JSON that was produced.  When the format is a parameter of a same-package helper, every call site of that helper must
// pass a constant for it.
func c12FormatConstant(c *Ctx) {
	c.R.Rule("format-constant", "every fmt.Fprintf / Fprintln-style formatted write in package transport has a constant format string (a format passed through a same-package helper's parameter is constant at every call site of the helper)", 4)
	n := 0
	var constAt func(fn *ssa.Function, v ssa.Value, depth int) (bool, string)
	constAt = func(fn *ssa.Function, v ssa.Value, depth int) (bool, string) {
		all := true
		why := ""
		for _, d := range an.Defs(v) {
			if _, ok := an.ConstString(d); ok {
				continue
			}
			if bo, ok := d.(*ssa.BinOp); ok && bo.Op == token.ADD {
				okx, wx := constAt(fn, bo.X, depth)
				oky, wy := constAt(fn, bo.Y, depth)
				if okx && oky {
					continue
				}
				all, why = false, wx+wy
				continue
			}
			if p, ok := d.(*ssa.Parameter); ok && depth < 3 && p.Parent() == topFn(fn) && topFn(fn).Object() != nil && !topFn(fn).Object().Exported() {
				idx := -1
				for i, q := range topFn(fn).Params {
					if q == p {
						idx = i
					}
				}
				sites := 0
				for _, caller := range transportFuncs(c) {
					for _, call := range an.CallsIn(caller, func(_ ssa.CallInstruction, ci an.CalleeInfo) bool { return ci.Static == topFn(fn) }) {
						sites++
						if idx >= len(call.Common().Args) {
							all = false
							continue
						}
						if ok2, w2 := constAt(caller, call.Common().Args[idx], depth+1); !ok2 {
							all, why = false, "the format handed in at "+c.ipos(call)+" is not a constant"+w2
						}
					}
				}
				if sites == 0 {
					all, why = false, "the format is a parameter of a helper without static callers"
				}
				continue
			}
			all, why = false, "the format is computed at run time ("+d.Name()+")"
		}
		return all, why
	}
	for _, fn := range transportFuncs(c) {
		for _, call := range an.CallsIn(fn, func(_ ssa.CallInstruction, ci an.CalleeInfo) bool {
			n := ci.FullName()
			return n == "fmt.Fprintf" || n == "fmt.Sprintf" && false
		}) {
			n++
			ok, why := constAt(fn, call.Common().Args[1], 0)
			c.R.Check(ok, shortFn(topFn(fn))+"/Fprintf", c.ipos(call), "constant format", "a formatted write to the response uses a format string that is not constant: "+why+" — payload text containing '%' is rewritten by fmt and the client receives corrupted (possibly invalid) JSON")
		}
	}
	if n < 4 {
		c.R.Fail("format-constant found only %d fmt.Fprintf calls in package transport", n)
	}
}
