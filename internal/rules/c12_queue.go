package rules

import (
	"go/token"
	"go/types"

	"golang.org/x/tools/go/ssa"

	"verif/internal/an"
)

const mpAgg = "multipartResponseAggregator"

// c12PendingQueue: the queue of pending payloads of the multipart/mixed aggregator.
//
//	(guarded)   every access to initialResponse / deferResponses holds mu (same analysis as C06/response-locks);
//	(no-alias)  the pending slice loaded under mu is never indexed, ranged over or handed to a callee after mu has been
//	            released, unless the field was set to nil (or a freshly made slice) after the load in the same critical
//	            section — otherwise the snapshot shares its backing array with the queue that Add keeps appending to, and a
//	            payload added during the write overwrites one that is being written (lost and duplicated payloads);
//	(reset)     every path from a load of a pending field whose value is written to the response to a return passes a store
//	            that empties that field (nil, a fresh slice, or x[:0]) while mu is still held: a payload is sent once.
func c12PendingQueue(c *Ctx) {
	c.R.Rule("pending-queue", "multipartResponseAggregator: initialResponse/deferResponses are accessed only under mu; a loaded pending slice is not read after mu is released unless the field was set to nil/fresh under the same lock; whatever is written is removed from the queue on every path before the lock is released", 6)
	var fns []*ssa.Function
	for _, fn := range transportFuncs(c) {
		top := topFn(fn)
		if r := top.Signature.Recv(); r != nil && an.NamedIs(r.Type(), pkgTransport, mpAgg) {
			fns = append(fns, fn)
		}
	}
	if len(fns) < 3 {
		c.R.Fail("unresolved anchor: expected the methods of %s, found %d functions", mpAgg, len(fns))
		return
	}
	table := []guardedField{{pkgTransport, mpAgg, "initialResponse", "mu"}, {pkgTransport, mpAgg, "deferResponses", "mu"}}
	c.checkGuardedBy(fns, table, "")

	isPending := func(v ssa.Value) (*ssa.FieldAddr, bool) {
		fa, ok := v.(*ssa.FieldAddr)
		if !ok || !an.NamedIs(fa.X.Type(), pkgTransport, mpAgg) {
			return nil, false
		}
		n := fieldNameOf(fa)
		return fa, n == "initialResponse" || n == "deferResponses"
	}
	emptied := func(v ssa.Value, allowReslice bool) bool {
		ok := true
		for _, d := range an.Defs(v) {
			switch x := d.(type) {
			case *ssa.Const:
				if !x.IsNil() {
					ok = false
				}
			case *ssa.MakeSlice:
			case *ssa.Slice:
				h, isC := an.ConstInt(x.High)
				if !(allowReslice && x.High != nil && isC && h == 0) {
					ok = false
				}
			default:
				ok = false
			}
		}
		return ok
	}
	nLoads := 0
	for _, fn := range fns {
		ls := an.Locksets(fn)
		for _, b := range fn.Blocks {
			for _, in := range b.Instrs {
				ld, ok := in.(*ssa.UnOp)
				if !ok || ld.Op != token.MUL {
					continue
				}
				fa, ok := isPending(ld.X)
				if !ok {
					continue
				}
				nLoads++
				field := fieldNameOf(fa)
				base, _ := an.BasePath(fa)
				// mu held here: in this function, or by every caller of this unexported helper
				callerHeld := c.heldByCallers(fn, fa.X, "mu", 0)
				heldAt := func(in ssa.Instruction) bool { return an.HeldFor(ls[in], base, "mu") || callerHeld }
				key := shortFn(topFn(fn)) + "/" + field
				// stores that empty this field
				var resets []*ssa.Store
				for _, b2 := range fn.Blocks {
					for _, in2 := range b2.Instrs {
						st, ok := in2.(*ssa.Store)
						if !ok {
							continue
						}
						fa2, ok := isPending(st.Addr)
						if !ok || fieldNameOf(fa2) != field || !an.SameVar(fa2.X, fa.X) {
							continue
						}
						resets = append(resets, st)
					}
				}
				// derived values of the load
				derived := map[ssa.Value]bool{ld: true}
				for changed := true; changed; {
					changed = false
					for v := range derived {
						for _, r := range an.Referrers(v) {
							switch x := r.(type) {
							case *ssa.Slice, *ssa.Phi, *ssa.ChangeType, *ssa.IndexAddr:
								if !derived[x.(ssa.Value)] {
									derived[x.(ssa.Value)] = true
									changed = true
								}
							case *ssa.Store:
								if x.Val == v && an.IsLocalCell(x.Addr) {
									for _, r2 := range an.CellLoads(x.Addr) {
										if !derived[r2] {
											derived[r2] = true
											changed = true
										}
									}
								}
							}
						}
					}
				}
				_, isSlice := ld.Type().Underlying().(*types.Slice)
				written := false
				for v := range derived {
					for _, r := range an.Referrers(v) {
						harmful := false
						switch x := r.(type) {
						case *ssa.IndexAddr, *ssa.Index, *ssa.Range, *ssa.Lookup:
							harmful = true
						case ssa.CallInstruction:
							if bi, isB := x.Common().Value.(*ssa.Builtin); isB && (bi.Name() == "len" || bi.Name() == "cap") {
								continue
							}
							harmful = true
							// handed to a function together with the response writer: this is where the payload is sent
							if _, isDefer := r.(*ssa.Defer); !isDefer {
								for _, a := range x.Common().Args {
									if isWriterType(a.Type()) {
										written = true
									}
								}
							}
						}
						if !harmful || !isSlice {
							continue
						}
						if heldAt(r) {
							continue
						}
						// ownership transferred: the field was set to nil / a fresh slice after the load, under the lock, before this use
						transferred := false
						for _, st := range resets {
							if emptied(st.Val, false) && an.Before(ld, st) && an.Before(st, r) && heldAt(st) {
								transferred = true
							}
						}
						c.R.Check(transferred, key+"/no-alias", c.ipos(r), "the queue no longer refers to the snapshot's backing array",
							"the pending slice loaded at "+c.ipos(ld)+" is read here after mu was released while the aggregator still holds the same backing array: a payload added during the write overwrites one being written (lost / duplicated incremental payloads)")
					}
				}
				if written {
					// every path from the load to a return empties the field under the lock
					ok := true
					for _, r := range an.Returns(fn) {
						if fn.Recover != nil && r.Block() == fn.Recover {
							continue
						}
						if !an.CanReach(ld, r) {
							continue
						}
						if !pathsPass(ld, r, func(i ssa.Instruction) bool {
							st, isSt := i.(*ssa.Store)
							if !isSt {
								return false
							}
							for _, rs := range resets {
								if rs == st && emptied(st.Val, true) && heldAt(st) {
									return true
								}
							}
							return false
						}) {
							ok = false
						}
					}
					c.R.Check(ok, key+"/reset-after-write", c.ipos(ld), "emptied under mu on every path to a return", "the pending "+field+" is written to the response but not removed from the queue on every path before mu is released: the payload is sent again by the next flush")
				}
			}
		}
	}
	if nLoads < 2 {
		c.R.Fail("pending-queue examined only %d loads of the pending fields", nLoads)
	}
}

// pathsPass: every path from a to b executes an instruction satisfying pred (a and b in one function).
func pathsPass(a, b ssa.Instruction, pred func(ssa.Instruction) bool) bool {
	seen := map[*ssa.BasicBlock]bool{}
	var walk func(blk *ssa.BasicBlock, from int) bool // true if b reachable avoiding pred
	walk = func(blk *ssa.BasicBlock, from int) bool {
		for i := from; i < len(blk.Instrs); i++ {
			if pred(blk.Instrs[i]) {
				return false
			}
			if blk.Instrs[i] == b {
				return true
			}
		}
		for _, s := range blk.Succs {
			if seen[s] || an.Infeasible[an.Edge{From: blk, To: s}] {
				continue
			}
			seen[s] = true
			if walk(s, 0) {
				return true
			}
		}
		return false
	}
	return !walk(a.Block(), an.InstrIndex(a)+1)
}

// c12FormatConstant: whatever a streamed transport writes with fmt.Fprintf uses a constant format; payload text (the JSON of a
// response, an error message) only ever travels as an argument.  A payload used as the format string is rewritten by fmt
// wherever it contains a '%' ("50% off" → "50%!o(MISSING)ff"; "100%" swallows the closing quote), so the event is no longer
// the JSON that was produced.  When the format is a parameter of a same-package helper, every call site of that helper must
// pass a constant for it.
func c12FormatConstant(c *Ctx) {
	c.R.Rule("format-constant", "every fmt.Fprintf / Fprintln-style formatted write in package transport has a constant format string (a format passed through a same-package helper's parameter is constant at every call site of the helper)", 4)
	n := 0
	var constAt func(fn *ssa.Function, v ssa.Value, depth int) (bool, string)
	constAt = func(fn *ssa.Function, v ssa.Value, depth int) (bool, string) {
		all := true
		why := ""
		for _, d := range an.Defs(v) {
			if _, ok := an.ConstString(d); ok {
				continue
			}
			if bo, ok := d.(*ssa.BinOp); ok && bo.Op == token.ADD {
				okx, wx := constAt(fn, bo.X, depth)
				oky, wy := constAt(fn, bo.Y, depth)
				if okx && oky {
					continue
				}
				all, why = false, wx+wy
				continue
			}
			if p, ok := d.(*ssa.Parameter); ok && depth < 3 && p.Parent() == topFn(fn) && topFn(fn).Object() != nil && !topFn(fn).Object().Exported() {
				idx := -1
				for i, q := range topFn(fn).Params {
					if q == p {
						idx = i
					}
				}
				sites := 0
				for _, caller := range transportFuncs(c) {
					for _, call := range an.CallsIn(caller, func(_ ssa.CallInstruction, ci an.CalleeInfo) bool { return ci.Static == topFn(fn) }) {
						sites++
						if idx >= len(call.Common().Args) {
							all = false
							continue
						}
						if ok2, w2 := constAt(caller, call.Common().Args[idx], depth+1); !ok2 {
							all, why = false, "the format handed in at "+c.ipos(call)+" is not a constant"+w2
						}
					}
				}
				if sites == 0 {
					all, why = false, "the format is a parameter of a helper without static callers"
				}
				continue
			}
			all, why = false, "the format is computed at run time ("+d.Name()+")"
		}
		return all, why
	}
	for _, fn := range transportFuncs(c) {
		for _, call := range an.CallsIn(fn, func(_ ssa.CallInstruction, ci an.CalleeInfo) bool {
			n := ci.FullName()
			return n == "fmt.Fprintf" || n == "fmt.Sprintf" && false
		}) {
			n++
			ok, why := constAt(fn, call.Common().Args[1], 0)
			c.R.Check(ok, shortFn(topFn(fn))+"/Fprintf", c.ipos(call), "constant format", "a formatted write to the response uses a format string that is not constant: "+why+" — payload text containing '%' is rewritten by fmt and the client receives corrupted (possibly invalid) JSON")
		}
	}
	if n < 4 {
		c.R.Fail("format-constant found only %d fmt.Fprintf calls in package transport", n)
	}
}

// c12WriterGoroutineBounded: net/http forbids any use of the ResponseWriter after the handler has returned (its buffers are
// recycled: a late write is a data race with the server's own goroutine or a nil dereference that kills the process).  So a
// goroutine of a transport that can write or flush the ResponseWriter is, for every return of Do after the spawn, either
//
//	(joined) waited for: a `defer` registered by Do in a block that is executed whenever the goroutine was started receives
//	from (or ranges over / waits on) a channel that the goroutine closes or sends on when it ends — Do does not return
//	before the goroutine is gone; or
//	(drained) the reviewed multipart/mixed form: the goroutine writes only through a method whose writer operations all come
//	after an early return taken when nothing is pending, and Do's deferred Done calls that same method after signalling the
//	goroutine — the last locked flush leaves nothing pending, and nothing is added once Do has returned.
func c12WriterGoroutineBounded(c *Ctx) {
	c.R.Rule("writer-goroutine-bounded", "every goroutine of a transport that can write or flush the ResponseWriter is joined by a deferred wait in Do, or writes only through a drain method (early return when nothing is pending) that Do's deferred Done calls last", 2)
	spawns := c12WriterSpawns(c)
	for _, sp := range spawns {
		key := shortFn(sp.do) + "/goroutine:" + shortFn(sp.goSite.Callee)
		if why := goroutineJoined(sp); why != "" {
			c.R.OK(key, c.ipos(sp.goSite.Go), "joined: "+why)
			continue
		}
		if why := goroutineDrained(c, sp); why != "" {
			c.R.OK(key, c.ipos(sp.goSite.Go), "drained: "+why)
			continue
		}
		c.R.Bad(key, c.ipos(sp.goSite.Go), "this goroutine writes to the ResponseWriter and nothing makes Do wait for it (it stops on the request context, which net/http cancels only after the handler has returned): a tick in between writes into a response that is being finished — a data race with the server, or a nil dereference in bufio that crashes the process")
	}
	if len(spawns) < 2 {
		c.R.Fail("writer-goroutine-bounded: %d writer-sharing goroutines found", len(spawns))
	}
}

// goroutineJoined: the go statement's function (or the closure wrapping it) closes/sends on a channel at its end, and a
// defer of the spawner registered in the go statement's block (or one dominating every later return) receives from it.
func goroutineJoined(sp writerSpawn) string {
	spawner := sp.goSite.Go.Parent()
	body := sp.goSite.Callee
	if body == nil {
		return ""
	}
	// channels signalled by the goroutine at its end: close(ch) / send in a deferred call or as the last effect
	signalled := map[ssa.Value]bool{}
	signalledField := map[string]bool{}
	addSig := func(fn *ssa.Function, bindings map[*ssa.FreeVar]ssa.Value) {
		for _, f := range an.WithClosures(fn) {
			for _, b := range f.Blocks {
				for _, in := range b.Instrs {
					var ch ssa.Value
					switch x := in.(type) {
					case *ssa.Defer:
						if bi, ok := x.Call.Value.(*ssa.Builtin); ok && bi.Name() == "close" {
							ch = x.Call.Args[0]
						}
					case *ssa.Call:
						if bi, ok := x.Call.Value.(*ssa.Builtin); ok && bi.Name() == "close" {
							ch = x.Call.Args[0]
						}
					case *ssa.Send:
						ch = x.Chan
					}
					if ch == nil {
						continue
					}
					ch = an.Strip(ch)
					if u, ok := ch.(*ssa.UnOp); ok {
						ch = u.X
					}
					if fv, ok := ch.(*ssa.FreeVar); ok && bindings[fv] != nil {
						ch = bindings[fv]
					}
					signalled[an.RootAlloc(ch)] = true
					signalled[ch] = true
					if fa, ok := ch.(*ssa.FieldAddr); ok {
						signalledField[fa.X.Type().String()+"."+fieldNameOf(fa)] = true // a channel kept in a field of the connection
					}
				}
			}
		}
	}
	bind := map[*ssa.FreeVar]ssa.Value{}
	if mc, ok := sp.goSite.Go.Call.Value.(*ssa.MakeClosure); ok {
		cl := mc.Fn.(*ssa.Function)
		for i, fv := range cl.FreeVars {
			if i < len(mc.Bindings) {
				bind[fv] = mc.Bindings[i]
			}
		}
	}
	addSig(body, bind)
	if len(signalled) == 0 {
		return ""
	}
	// does a function literal wait (unconditionally) for one of the signalled channels?
	closureWaits := func(mc *ssa.MakeClosure) bool {
		cl := mc.Fn.(*ssa.Function)
		dbind := map[*ssa.FreeVar]ssa.Value{}
		for i, fv := range cl.FreeVars {
			if i < len(mc.Bindings) {
				dbind[fv] = mc.Bindings[i]
			}
		}
		for _, bb := range cl.Blocks {
			for _, in2 := range bb.Instrs {
				u, ok := in2.(*ssa.UnOp)
				if !ok || u.Op.String() != "<-" {
					continue
				}
				ch := an.Strip(u.X)
				if l, ok := ch.(*ssa.UnOp); ok {
					ch = l.X
				}
				if fv, ok := ch.(*ssa.FreeVar); ok && dbind[fv] != nil {
					ch = dbind[fv]
				}
				viaField := false
				if fa, ok := ch.(*ssa.FieldAddr); ok && signalledField[fa.X.Type().String()+"."+fieldNameOf(fa)] {
					viaField = true
				}
				if signalled[ch] || signalled[an.RootAlloc(ch)] || viaField {
					// the wait must be unconditional in the function
					if bb == cl.Blocks[0] || len(cl.Blocks) == 1 || bb.Dominates(cl.Blocks[len(cl.Blocks)-1]) {
						return true
					}
				}
			}
		}
		return false
	}
	// (A) a defer in the spawner, after the go statement, whose function receives from such a channel
	for _, b := range spawner.Blocks {
		for _, in := range b.Instrs {
			d, ok := in.(*ssa.Defer)
			if !ok {
				continue
			}
			if !(b == sp.goSite.Go.Block() || sp.goSite.Go.Block().Dominates(b)) {
				continue
			}
			if mc, ok := d.Call.Value.(*ssa.MakeClosure); ok && closureWaits(mc) {
				return "a deferred function of " + shortFn(spawner) + " receives from the channel the goroutine closes when it ends"
			}
		}
	}
	// (B) the goroutine is started by a helper that returns the stop-and-wait function, and Do defers that result right away
	if spawner != sp.do {
		waits := false
		for _, r := range an.Returns(spawner) {
			for i := range r.Results {
				for _, d := range an.Defs(an.ReturnedValue(r, i)) {
					if mc, ok := d.(*ssa.MakeClosure); ok && closureWaits(mc) {
						waits = true
					}
				}
			}
		}
		if call, ok := sp.at.(*ssa.Call); ok && waits && call.Call.StaticCallee() == spawner {
			for _, b := range sp.do.Blocks {
				if !(b == call.Block() || call.Block().Dominates(b)) {
					continue
				}
				for _, in := range b.Instrs {
					d, ok := in.(*ssa.Defer)
					if !ok {
						continue
					}
					for _, def := range an.Defs(d.Call.Value) {
						v := def
						if ex, ok := v.(*ssa.Extract); ok {
							v = ex.Tuple
						}
						if v == ssa.Value(call) {
							return shortFn(spawner) + " returns the function that stops the goroutine and waits for it; " + shortFn(sp.do) + " defers it"
						}
					}
				}
			}
		}
	}
	return ""
}

// goroutineDrained: the reviewed multipart/mixed form (see c12WriterGoroutineBounded).
func goroutineDrained(c *Ctx, sp writerSpawn) string {
	body := sp.goSite.Callee
	if body == nil {
		return ""
	}
	// (1) the goroutine touches the writer only by calling one method M of the package
	var drain *ssa.Function
	for _, f := range an.WithClosures(body) {
		for _, op := range writerOps(f) {
			if op.helper == nil || op.wrapper != nil {
				return "" // it writes itself
			}
			if drain != nil && drain != op.helper {
				return ""
			}
			drain = op.helper
		}
	}
	if drain == nil {
		return ""
	}
	// (2) in M, an early return guarded by emptiness tests of receiver fields dominates every writer operation
	var early *ssa.Return
	for _, r := range an.Returns(drain) {
		nEmpty := 0
		for _, f := range an.Facts(r) {
			if empty, ok := an.EmptinessFact(f, func(v ssa.Value) bool {
				fa, isF := loadAddr(v).(*ssa.FieldAddr)
				return isF && an.Strip(fa.X) == ssa.Value(drain.Params[0])
			}); ok && empty {
				nEmpty++
			}
		}
		if nEmpty >= 1 && len(writerOpsBefore(drain, r)) == 0 {
			early = r
		}
	}
	if early == nil {
		return ""
	}
	for _, op := range allWriterOps(drain) {
		// every operation must lie behind the tests that lead to the early return
		ok := false
		for _, g := range an.Guards(early) {
			if g.If.Block().Dominates(op.Block()) {
				ok = true
			}
		}
		if !ok {
			return ""
		}
	}
	// (3) Do defers a function of the package that signals a channel and then calls M
	for _, b := range sp.do.Blocks {
		for _, in := range b.Instrs {
			d, ok := in.(*ssa.Defer)
			if !ok {
				continue
			}
			callee := d.Call.StaticCallee()
			if callee == nil || len(callee.Blocks) == 0 {
				continue
			}
			var send, callM ssa.Instruction
			for _, bb := range callee.Blocks {
				for _, in2 := range bb.Instrs {
					switch x := in2.(type) {
					case *ssa.Send:
						send = x
					case *ssa.Call:
						if bi, ok := x.Call.Value.(*ssa.Builtin); ok && bi.Name() == "close" {
							send = x
						}
						if x.Call.StaticCallee() == drain {
							callM = x
						}
					}
				}
			}
			if send != nil && callM != nil && an.Before(send, callM) {
				return shortFn(drain) + " writes only when something is pending (early return at " + c.ipos(early) + "); deferred " + shortFn(callee) + " signals the goroutine and then drains"
			}
		}
	}
	return ""
}

func allWriterOps(fn *ssa.Function) []ssa.Instruction {
	var out []ssa.Instruction
	seen := map[*ssa.Function]bool{}
	var walk func(f *ssa.Function, site ssa.Instruction, depth int)
	walk = func(f *ssa.Function, site ssa.Instruction, depth int) {
		if seen[f] || depth > 3 {
			return
		}
		seen[f] = true
		for _, op := range writerOps(f) {
			at := site
			if at == nil {
				at = op.in
			}
			if op.helper == nil {
				out = append(out, at)
				continue
			}
			walk(op.helper, at, depth+1)
		}
	}
	walk(fn, nil, 0)
	return out
}

func writerOpsBefore(fn *ssa.Function, r *ssa.Return) []ssa.Instruction {
	var out []ssa.Instruction
	for _, op := range allWriterOps(fn) {
		if an.CanReach(op, r) {
			out = append(out, op)
		}
	}
	return out
}
